"""C07 - format conversion is faithful: zerv reads back its own versions unchanged."""
import re
from .common import *
from . import pep440_ref as ref
from .c09 import spell, rand_fields

PID = "C07"
TARGETS = ["Props/C07.vo"]
KNOWN_U32 = "number>=2^32-through-From<Zerv>"
LABEL_LONG = {"a": "alpha", "b": "beta", "rc": "rc"}


def cnv(i, o, s, prefix=None):
    return f"CNV {i} {o} {ohx(prefix)} {hx(s)}"


def describe(c):
    f = c.split(" ")
    try:
        return {"op": f"zerv render <s> -f {f[1]} --output-format {f[2]}" + (f" --output-prefix {unhx(f[3])}" if f[3] != "~" else ""), "s": unhx(f[4])}
    except Exception:
        return c


def out_of(r):
    return unhx(r.split(" ")[1]) if r.startswith("OK ") else None


def canon(rng, maxn=2 ** 32 - 1):
    """a canonical-shape version as (semver string, expected pep440 string, max number)"""
    def n(lo=0):
        r = rng.random()
        if r < 0.6:
            return rng.randint(lo, 15)
        if r < 0.8:
            return rng.choice([x for x in (2 ** 31 - 1, 2 ** 31, 2 ** 32 - 2, 2 ** 32 - 1, 2 ** 16, 10 ** 9, 2 ** 32, 2 ** 63, 2 ** 64 - 1) if lo <= x <= maxn])
        return rng.randint(lo, min(maxn, 10 ** rng.randint(1, 9)))
    x, y, z = n(), n(), n()
    sv = f"{x}.{y}.{z}"
    pp = f"{x}.{y}.{z}"
    pre = []
    e = lab = post = dev = None
    if rng.random() < 0.3:
        e = n(1)
        pre += ["epoch", str(e)]
    if rng.random() < 0.5:
        lab = (rng.choice(["a", "b", "rc"]), n())
        pre += [LABEL_LONG[lab[0]], str(lab[1])]
    if rng.random() < 0.4:
        post = n()
        pre += ["post", str(post)]
    if rng.random() < 0.4:
        dev = n()
        pre += ["dev", str(dev)]
    if pre:
        sv += "-" + ".".join(pre)
    pp = (f"{e}!" if e else "") + pp + (lab[0] + str(lab[1]) if lab else "") + (f".post{post}" if post is not None else "") + (f".dev{dev}" if dev is not None else "")
    if rng.random() < 0.4:
        # short lists mostly; sometimes long ones (a cap on the number of components of a section must not exist) and equal neighbours
        ids = [rng.choice(["abc", "x1", "1a", "g1234abc", "ubuntu", str(n()), "build", "0a", "z"]) for _ in range(rng.randint(1, 3) if rng.random() < 0.9 else rng.randint(15, 40))]
        sv += "+" + ".".join(ids)
        pp += "+" + ".".join(ids)
    nums = [int(t) for t in re.findall(r"(?<![a-z0-9])[0-9]+(?![a-z])", sv.split("+")[0])]
    return sv, pp, max(nums + [0])


def nontrivial(c, r):
    return r.startswith("OK") and c.split(" ")[1] != c.split(" ")[2]


def corpus():
    ws = ["1.0.0-epoch.post.epoch", "1.0.0-post.dev.post.5", "1.0.0-dev.dev", "1.0.0-epoch.1.epoch.2", "1.0.0-rc.alpha.rc", "5000000000.1.2",
          "1.2.3-alpha.5000000000", "1.2.3-99999999999999999999999", "1.2.3+99999999999999999999999", "1.2.3-epoch.4294967295.rc.7.post.4294967295.dev.4294967295+abc.5",
          "1.2.3-rc.4294967296", "1.2.3+20251231235959", "1.0.0-epoch.0", "1.0.0-alpha", "1.0.0-ALPHA.1", "1.0.0-pre.alpha.1", "1.0.0-10.a.rc.epoch.rc.3",
          "1.0.0-epoch.epoch.rc.rc.post.post.dev.dev"]
    cs = []
    for w in ws:
        cs += [cnv("semver", "semver", w), cnv("semver", "pep440", w), cnv("auto", "pep440", w)]
    for w in ["4294967295!1.2.3.post4294967295", "1.2.3.4.5", "1.0a1.dev2+Ab.01", "2!1.0rc1.post2.dev3+x.7", "1", "1.0"]:
        cs += [cnv("pep440", "semver", w), cnv("pep440", "pep440", w), cnv("auto", "semver", w)]
    return cs


def run_check(tier, seed):
    run = Run(PID, tier, seed)
    rng = random.Random(seed * 1000003 + 7)

    def known(c, r, v):
        return None
    kw = dict(nontrivial=nontrivial, describe=describe)
    correspond(run, "corpus", corpus(), **kw)
    n = 6000 if tier == "quick" else 250000

    def viol(stream, what, chain):
        run.add_violation("oracle", {"stream": stream, "what": what, "chain": chain}, True)

    # 1. canonical-shape versions: semver -> semver identity ; -> pep440 expected ; back -> original
    cans = [canon(rng) for _ in range(n)]
    r1 = correspond(run, "canonical_semver_to_semver", [cnv("semver", "semver", sv) for sv, _, _ in cans], **kw)
    r2 = correspond(run, "canonical_semver_to_pep440", [cnv("semver", "pep440", sv) for sv, _, _ in cans], **kw)
    back = []
    for (sv, pp, mx), a, b in zip(cans, r1, r2):
        if out_of(a[1]) != sv:
            viol("canonical_semver_to_semver", "canonical-shape version does not convert to SemVer unchanged", [sv, a[1]])
        if out_of(b[1]) != pp:
            viol("canonical_semver_to_pep440", "canonical-shape version does not convert to the documented PEP 440 form", [sv, b[1], "expected " + pp])
        back.append(cnv("pep440", "semver", pp))
    r3 = correspond(run, "expected_pep440_back_to_semver", back, **kw)
    for (sv, pp, mx), c in zip(cans, r3):
        if out_of(c[1]) != sv:
            viol("expected_pep440_back_to_semver", "PEP 440 form does not convert back to the original canonical SemVer", [pp, c[1], "expected " + sv])

    # 1b. SemVer-only path with numbers up to u64
    cans64 = [canon(rng, 2 ** 64 - 1) for _ in range(n // 3)]
    r = correspond(run, "canonical_u64_semver_to_semver", [cnv("semver", "semver", sv) for sv, _, _ in cans64], **kw)
    for (sv, pp, mx), a in zip(cans64, r):
        if out_of(a[1]) != sv:
            viol("canonical_u64_semver_to_semver", "canonical-shape version (numbers up to u64) does not convert to SemVer unchanged", [sv, a[1]])

    # 2. PEP 440 (<= 3 release numbers) -> semver -> pep440 : an equal version ; 3. fixed points
    peps = []
    for _ in range(n):
        d = rand_fields(rng, big=False)
        d["release"] = d["release"][:rng.randint(1, 3)]
        peps.append(spell(rng, d))
    ra = correspond(run, "pep440_to_semver", [cnv("pep440", "semver", p) for p in peps], **kw)
    svs = [out_of(x[1]) for x in ra]
    rb = correspond(run, "semver_rendering_back_to_pep440", [cnv("semver", "pep440", s) for s in svs if s is not None], **kw)
    it = iter(rb)
    fixed_sv, fixed_pp = [], []
    for p, s in zip(peps, svs):
        if s is None:
            if ref.parse(p) is not None and ref.max_number(ref.parse(p)) < 2 ** 32:
                viol("pep440_to_semver", "accepted PEP 440 version cannot be converted to SemVer", [p])
            continue
        b = out_of(next(it)[1])
        d0, d1 = ref.parse(p), ref.parse(b) if b else None
        if len(d0["release"]) > 3:          # the spelling added trailing zero release numbers: outside the clause (still compared with the model)
            fixed_sv.append(s)
            if b:
                fixed_pp.append(b)
            continue
        if d1 is None or ref.c11_cmp(d0, d1) != "EQ" or ref.normal_form(d1) != b:
            viol("semver_rendering_back_to_pep440", "PEP 440 -> SemVer -> PEP 440 is not an equal version", [p, s, b])
        fixed_sv.append(s)
        if b:
            fixed_pp.append(b)
    rc = correspond(run, "fixed_point_semver_renderings", [cnv("semver", "semver", s) for s in fixed_sv], **kw)
    for s, x in zip(fixed_sv, rc):
        if out_of(x[1]) != s:
            viol("fixed_point_semver_renderings", "SemVer rendering of a PEP 440 input is not a fixed point of re-conversion", [s, x[1]])
    rd = correspond(run, "fixed_point_pep440_renderings", [cnv("pep440", "pep440", s) for s in fixed_pp], **kw)
    for s, x in zip(fixed_pp, rd):
        if out_of(x[1]) != s:
            viol("fixed_point_pep440_renderings", "PEP 440 rendering is not a fixed point of re-conversion", [s, x[1]])

    # 3b. more than three release numbers (the SemVer rendering carries the further ones as leading numeric identifiers:
    # theorem c07_semver_rendering_of_pep440_fixed_point), and every rendering re-read with the input format auto-detected - the command's default
    peps4 = []
    for _ in range(n // 2):
        d = rand_fields(rng, big=False)
        d["release"] = (list(d["release"]) + [rng.choice([0, 1, 4, 7, 20240315, rng.randint(0, 2 ** 32 - 1)]) for _ in range(6)])[:rng.randint(4, 6)]
        peps4.append(spell(rng, d))
    r4 = correspond(run, "pep440_more_than_three_release_numbers_to_semver", [cnv(rng.choice(["pep440", "pep440", "auto"]), "semver", p) for p in peps4], **kw)
    sv4 = [out_of(x[1]) for x in r4]
    sv4 = [s for s in sv4 if s is not None]
    for fmt_in in ("semver", "auto"):
        again = sv4 + (fixed_sv[:len(sv4)] if fmt_in == "auto" else [])
        rr = correspond(run, f"semver_renderings_reread_as_{fmt_in}", [cnv(fmt_in, "semver", s) for s in again], **kw)
        for s, x in zip(again, rr):
            if out_of(x[1]) != s:
                viol(f"semver_renderings_reread_as_{fmt_in}", f"SemVer rendering of a PEP 440 input is not a fixed point of re-conversion (input format {fmt_in})", [s, x[1]])
    correspond(run, "pep440_renderings_reread_as_auto", [cnv("auto", "pep440", s) for s in fixed_pp[:n // 2]], **kw)

    # 4. no silent change: SemVer inputs with numbers beyond u32 rendered to PEP 440
    big = []
    for _ in range(n // 3):
        sv, pp, mx = canon(rng, 2 ** 64 - 1)
        big.append((sv, pp, mx))
    re_ = correspond(run, "out_of_range_numbers_semver_to_pep440", [cnv("semver", "pep440", sv) for sv, _, _ in big], **kw)
    for (sv, pp, mx), x in zip(big, re_):
        o = out_of(x[1])
        if o is not None and o != pp:
            if mx >= 2 ** 32:
                run.known_hits[KNOWN_U32] += 1        # a number was displaced or replaced instead of the conversion being rejected
            else:
                viol("out_of_range_numbers_semver_to_pep440", "numeric field changed", [sv, o, "expected " + pp])
    # 5. no silent change on the PEP 440 input side: a number that does not fit u32, in ANY spelling of the field (explicit labels,
    # separators, the implicit post form X.Y-N, leading zeros), must be refused - never read as another number
    cases = []
    BIG = [2 ** 32, 2 ** 32 + 1, 10 ** 10, 2 ** 63, 2 ** 64, 10 ** 25]
    for _ in range(n // 3):
        b = str(rng.choice(BIG))
        if rng.random() < 0.3:
            b = "0" * rng.randint(1, 3) + b
        base = rng.choice(["1.0", "2", "1.2.3", "1!1.0"])
        sp = rng.choice([f"{base}-{b}", f"{base}.post{b}", f"{base}post{b}", f"{base}-post-{b}", f"{base}_rev_{b}", f"{base}.r{b}", f"{base}r{b}", f"{base}.dev{b}", f"{base}dev{b}", f"{base}-dev-{b}",
                         f"{base}a{b}", f"{base}.rc.{b}", f"{base}-alpha-{b}", f"{base}c{b}", f"{base}pre{b}", f"{b}!{base}", f"{base}.{b}", f"{b}.0", f"{base}-{b}.dev1", f"{base}rc1-{b}",
                         f"v{base}-{b}", f"{base}-{b}+local"])
        cases.append(cnv("pep440", rng.choice(["pep440", "semver"]), sp))
    rx = correspond(run, "out_of_range_numbers_in_pep440_input_all_spellings", cases, **kw)
    for c, x in zip(cases, rx):
        if out_of(x[1]) is not None:
            viol("out_of_range_numbers_in_pep440_input_all_spellings", "a PEP 440 number of 2^32 or more was not refused but read as something else", [describe(c) if "describe" in globals() else c, x[1]])
    return run


RULE = ("requests are `zerv render` conversions chained as the property describes: canonical-shape SemVer -> SemVer / -> PEP 440 -> back; random PEP 440 "
        "spellings (<= 3 release numbers) -> SemVer -> PEP 440; PEP 440 with four to six release numbers -> SemVer; every rendering re-converted (fixed points), with the input format given and auto-detected; numbers up to 2^32-1 where PEP 440 is "
        "involved, up to 2^64-1 on SemVer-only paths and beyond for the no-silent-change clause; each hop is compared with the model and each chain "
        "is judged on the implementation's own strings; non-trivial = a successful conversion between different formats")
