"""C17 - timestamp patterns are the UTC calendar fields."""
import datetime
from .common import *

PID = "C17"
TARGETS = ["Props/C17.vo"]
PATS = ["YYYY", "YY", "MM", "0M", "DD", "0D", "HH", "0H", "mm", "0m", "SS", "0S", "WW", "0W", "compact_date", "compact_datetime"]
UTC = datetime.timezone.utc


def describe(c):
    f = c.split(" ")
    try:
        if f[0] == "TS":
            t = int(f[2])
            d = {"op": "resolve_timestamp(pattern, ts)", "pattern": unhx(f[1]), "ts": t}
            if 0 <= t < 253402300800:
                d["utc"] = datetime.datetime.fromtimestamp(t, UTC).isoformat()
            return d
    except Exception:
        pass
    return c


def expected(p, t):
    """independent oracle: Python's datetime (proleptic Gregorian, UTC), years 1..9999 only"""
    if not (-62135596800 <= t < 253402300800):
        return None
    d = datetime.datetime(1970, 1, 1, tzinfo=UTC) + datetime.timedelta(seconds=t)
    wk = int(d.strftime("%W"))
    f = {"YYYY": "%04d" % d.year, "YY": "%02d" % (d.year % 100), "MM": str(d.month), "0M": "%02d" % d.month, "DD": str(d.day),
         "0D": "%02d" % d.day, "HH": str(d.hour), "0H": "%02d" % d.hour, "mm": str(d.minute), "0m": "%02d" % d.minute,
         "SS": str(d.second), "0S": "%02d" % d.second, "WW": str(wk), "0W": "%02d" % wk,
         "compact_date": "%04d%02d%02d" % (d.year, d.month, d.day),
         "compact_datetime": "%04d%02d%02d%02d%02d%02d" % (d.year, d.month, d.day, d.hour, d.minute, d.second)}
    return f.get(p)


def py_oracle(run, stream, res):
    for c, r, m, v in res:
        f = c.split(" ")
        p, t = unhx(f[1]), int(f[2])
        ts = t if t < 2 ** 63 else t - 2 ** 64
        e = expected(p, ts)
        if e is None:
            continue
        got = unhx(r.split(" ")[1]) if r.startswith("OK ") else None
        if got != e:
            run.add_violation("oracle", {"stream": stream, "request": c, "described": describe(c), "impl_reply": r, "expected": e,
                                         "oracle": "python datetime (UTC, proleptic Gregorian)"}, True)


def nontrivial(c, r):
    return r.startswith("OK")


def ts_req(p, t):
    return f"TS {hx(p)} {t % 2 ** 64}"


def run_check(tier, seed):
    run = Run(PID, tier, seed)
    rng = random.Random(seed * 1000003 + 17)
    kw = dict(nontrivial=nontrivial, describe=describe)

    def go(stream, cases):
        res = correspond(run, stream, cases, **kw)
        py_oracle(run, stream, res)

    # every day 1970-01-01 .. 2199-12-31 at the first and last second
    last = int(datetime.datetime(2200, 1, 1, tzinfo=UTC).timestamp()) // 86400
    days = range(0, last)
    cases = []
    for dno in days:
        if tier == "quick":
            pats = [PATS[(dno * 7 + k) % 16] for k in range(3)] + ["compact_datetime", "WW"]
        else:
            pats = PATS
        for p in pats:
            cases.append(ts_req(p, dno * 86400))
            cases.append(ts_req(p, dno * 86400 + 86399))
    go("every_day_1970-2199_first_and_last_second" + ("(5 of 16 patterns per day, rotating)" if tier == "quick" else "_all_16_patterns"), cases)
    run.exhaustive = tier != "quick"

    n = 40000 if tier == "quick" else 800000
    cases = []
    for _ in range(n):
        r = rng.random()
        if r < 0.5:
            t = rng.randint(0, last * 86400)
        elif r < 0.65:
            t = rng.randint(-2208988800, 0)            # 1900-1969 (stored as u64 two's complement)
        elif r < 0.75:
            t = rng.choice([-62167219200, -62135596800, 253402300799, 253402300800]) + rng.randint(-100000, 100000)   # years 0/1, 9999/10000
        elif r < 0.85:
            t = rng.choice([2 ** 31 - 1, 2 ** 31, 2 ** 32, 2 ** 62, 2 ** 63 - 1, -2 ** 63, 8210266876799, 8210266876800, -8334601228800, -8334601228801]) + rng.randint(-3, 3)
        else:
            t = rng.randint(-2 ** 63, 2 ** 63 - 1)
        cases.append(ts_req(rng.choice(PATS), t))
    go("random_instants_incl_negative_and_range_edges", cases)

    # the same requests with a non-UTC local time zone in the environment: the fields must stay UTC
    tzs = ["JST-9", "PST8PDT", "NPT-5:45", "Pacific/Kiritimati", "<+14>-14"]
    sub = rng.sample(cases, min(len(cases), n // 4))
    for tz in tzs:
        res = correspond(run, f"TZ={tz}", sub, env={"TZ": tz}, **kw)
        py_oracle(run, f"TZ={tz}", res)

    # combined / malformed patterns through the tokenizer
    cases = []
    alphabet = ["Y", "M", "D", "H", "m", "S", "W", "0", "YYYY", "YY", "MM", "0M", "x", "%", "-", "compact_date"]
    for _ in range(n // 4):
        p = "".join(rng.choice(alphabet) for _ in range(rng.randint(0, 5)))
        cases.append(ts_req(p, rng.randint(0, 4102444800)))
    correspond(run, "pattern_tokenizer_random_combinations", cases, **kw)

    # the component level: ts(...) schema components and the calver presets resolved from the object's commit time (bumped_timestamp, else
    # last_timestamp), through both renderings; boundary instants incl. 0 and the days around New Year (ISO-week-year vs calendar year)
    from . import zgen
    BOUND = [0, 1, 59, 86399, 86400, 1609459200, 1609459200 + 86400, 1609459200 + 2 * 86400, 1735516800, 1735603200, 946684800, 4102444800, 1710511845]
    cases = []
    for _ in range(n // 8):
        pats = rng.sample(zgen.TS_PATTERNS, rng.randint(1, 4))
        s_ = {"core": [("v", "Major")] + [("t", p) for p in pats[:2]], "extra": [("v", "PreRelease")], "build": [("t", p) for p in pats[2:]] + [("v", "BumpedTimestamp")]}
        v_ = zgen.rand_vars(rng)
        v_["bumped_ts"] = rng.choice(BOUND + [None, rng.randint(0, 4102444800)])
        v_["last_ts"] = rng.choice([None, 1710633600, rng.randint(0, 4102444800)])
        z_ = zgen.enc_zerv(s_, v_)
        cases += ["REN semver " + z_, "REN pep440 " + z_]
        if rng.random() < 0.5:
            cases.append(f"RENP {rng.choice(['semver', 'pep440'])} {hx(rng.choice([p for p in zgen.PRESETS if p.startswith('calver')]))} {zgen.enc_vars(v_)}")
    correspond(run, "component_level_ts_and_calver_presets", cases, nontrivial=lambda c, r: r.startswith("OK"), describe=lambda c: {"request": c[:500]})
    real_commit_times(run, rng)
    return run


def real_commit_times(run, rng):
    """the instant behind the patterns is the COMMIT time of HEAD as git records it (committer date, %ct) - also when the author date
    differs (amend, rebase, cherry-pick) and when the tag is newer than the commit"""
    import datetime, os, shutil, subprocess, tempfile
    from . import gitfx
    from .cli import run_procs
    root = tempfile.mkdtemp(prefix="zv17-")
    st = run.streams.setdefault("real_commits_author_vs_committer_date", {"repositories": 0, "runs": 0})
    ron = '(core:[var(ts("YYYY")),var(ts("MM")),var(ts("DD"))],extra_core:[],build:[var(ts("HH")),var(ts("mm")),var(ts("SS")),var(ts("compact_datetime"))])'
    try:
        for i, (author, committer, tagts) in enumerate([(1688169599, 1688169600, 1688169600), (1600000000, 1700000000, 1700000000), (1700000000, 1600000000, 1650000000),
                                                         (rng.randint(0, 4102444800), rng.randint(0, 4102444800), rng.randint(0, 4102444800)), (1704067199, 1704067200, 1704067300)]):
            path = os.path.join(root, f"r{i}")
            gitfx.build_repo(path, [("commit", 1500000000), ("atag", "v1.0.0", tagts)])
            env = dict(gitfx.GIT_ENV, GIT_AUTHOR_DATE=f"@{author} +0000", GIT_COMMITTER_DATE=f"@{committer} +0000")
            subprocess.run([gitfx.REAL_GIT, "-c", "commit.gpgsign=false", "commit", "-q", "--allow-empty", "-m", "second"], cwd=path, env=env, check=True)
            st["repositories"] += 1
            d = datetime.datetime.fromtimestamp(committer, datetime.timezone.utc)
            want = f"{d.year}.{d.month}.{d.day}+{d.hour}.{d.minute}.{d.second}.{d.strftime('%Y%m%d%H%M%S')}"
            # --clean (distance 0, not dirty) and other state overrides leave the commit time alone: the instant behind the patterns stays HEAD's commit time
            for argv in (["version", "--schema-ron=" + ron], ["version", "--schema-ron=" + ron, "--output-format=zerv"], ["version", "--schema=calver-base"],
                         ["version", "--schema-ron=" + ron, "--clean"], ["version", "--schema-ron=" + ron, "--clean", "--output-format=zerv"], ["version", "--schema=calver-base", "--clean"],
                         ["version", "--schema-ron=" + ron, "--distance=0", "--no-dirty"], ["version", "--schema-ron=" + ron, "--distance=7", "--bumped-branch=x"],
                         ["flow", "--schema-ron=" + ron, "--clean"]):
                rc, out, err = run_procs([(argv, None)], env={"TZ": rng.choice(["UTC", "Pacific/Kiritimati", "America/Anchorage"]), "GIT_CONFIG_GLOBAL": "/dev/null"}, cwd=path)[0]
                st["runs"] += 1
                run.evaluations += 1
                o = out.decode("utf-8", "replace").strip()
                desc = {"repository": f"tag v1.0.0 (tagged at {tagts}) on an older commit; HEAD with author date {author} and committer date {committer}", "argv": argv}
                if rc != 0:
                    run.add_violation("oracle", {"stream": "real_commits_author_vs_committer_date", "what": "version fails on a plain repository", "described": desc, "stderr": err.decode("utf-8", "replace")[-300:]}, True)
                elif "--output-format=zerv" in argv:
                    if f"bumped_timestamp: Some({committer})" not in o:
                        run.add_violation("oracle", {"stream": "real_commits_author_vs_committer_date", "what": "bumped_timestamp is not the commit time of HEAD", "described": desc, "output": o[-600:]}, True)
                elif "--schema-ron" in argv[1] and o != want:
                    run.add_violation("oracle", {"stream": "real_commits_author_vs_committer_date", "what": "the pattern fields are not the UTC calendar fields of HEAD's commit time", "described": desc, "output": o, "expected": want}, True)
                elif argv[1] == "--schema=calver-base" and not o.startswith(f"{d.year}.{d.month}.{d.day}"):
                    run.add_violation("oracle", {"stream": "real_commits_author_vs_committer_date", "what": "the CalVer preset does not print the UTC date of HEAD's commit time", "described": desc, "output": o, "expected_prefix": f"{d.year}.{d.month}.{d.day}"}, True)
                run.nontrivial.add(o)
        # the same through stdin objects: --clean / an explicit --bumped-timestamp on an object whose tag time differs from its commit time
        z = subprocess.run([ZERV, "version", "--source=none", "--tag-version=1.2.3", "--distance=3", "--bumped-timestamp=1688169600", "--output-format=zerv"], stdin=subprocess.DEVNULL,
                           capture_output=True).stdout.decode()
        z = z.replace("last_timestamp: None", "last_timestamp: Some(1500000000)")
        for argv, ts in ((["version", "--source=stdin", "--schema-ron=" + ron, "--clean"], 1688169600), (["version", "--source=stdin", "--schema-ron=" + ron], 1688169600),
                         (["version", "--source=stdin", "--schema-ron=" + ron, "--clean", "--bumped-timestamp=1704067200"], 1704067200),
                         (["version", "--source=stdin", "--schema=calver-base-prerelease-post-dev", "--clean", "--output-format=pep440"], 1688169600)):
            rc, out, err = run_procs([(argv, z.encode())], env={"TZ": "Pacific/Kiritimati"})[0]
            st["runs"] += 1
            run.evaluations += 1
            d = datetime.datetime.fromtimestamp(ts, datetime.timezone.utc)
            o = out.decode("utf-8", "replace").strip()
            want = f"{d.year}.{d.month}.{d.day}+{d.hour}.{d.minute}.{d.second}.{d.strftime('%Y%m%d%H%M%S')}" if "--schema-ron" in argv[2] else f"{d.year}.{d.month}.{d.day}"
            if rc != 0 or "last_timestamp: Some(1500000000)" not in z or not (o == want if "--schema-ron" in argv[2] else o.startswith(want)):
                run.add_violation("oracle", {"stream": "real_commits_author_vs_committer_date", "what": "a stdin object with commit time and an older tag time: the pattern fields must be those of the commit time (or of --bumped-timestamp), whatever --clean does",
                                             "described": {"argv": argv, "object_commit_time": 1688169600, "object_tag_time": 1500000000}, "output": o, "expected": want, "stderr": err.decode("utf-8", "replace")[-300:]}, True)
    finally:
        shutil.rmtree(root, ignore_errors=True)


RULE = ("requests are (pattern, u64 timestamp) pairs given to resolve_timestamp; every day from 1970-01-01 to 2199-12-31 at its first and last "
        "second, random instants incl. negative ones (u64 two's complement), year 0/1/9999/10000 and chrono range edges; answers are also "
        "judged by Python's datetime for years 1..9999; non-trivial = a value was produced")
