"""Real git fixture repositories (built with the system git at run time, in a scratch directory) and a fault-injecting git stub."""
import os, shutil, subprocess, tempfile, stat

REAL_GIT = shutil.which("git") or "/usr/bin/git"
GIT_ENV = {"GIT_CONFIG_GLOBAL": "/dev/null", "GIT_CONFIG_SYSTEM": "/dev/null", "GIT_AUTHOR_NAME": "t", "GIT_AUTHOR_EMAIL": "t@example.com",
           "GIT_COMMITTER_NAME": "t", "GIT_COMMITTER_EMAIL": "t@example.com", "PATH": "/usr/bin:/bin", "HOME": "/tmp", "LANG": "C", "TZ": "UTC"}


def git(repo, *args, ts=None, check=True):
    env = dict(GIT_ENV)
    if ts is not None:
        env["GIT_AUTHOR_DATE"] = env["GIT_COMMITTER_DATE"] = f"@{ts} +0000"
    p = subprocess.run([REAL_GIT, "-c", "advice.detachedHead=false", "-c", "init.defaultBranch=main", "-c", "commit.gpgsign=false", "-c", "tag.gpgsign=false"] + list(args),
                       cwd=repo, env=env, stdout=subprocess.PIPE, stderr=subprocess.PIPE, text=True)
    if check and p.returncode != 0:
        raise RuntimeError(f"git {' '.join(args)} failed in {repo}: {p.stderr}")
    return p.stdout.strip()


def build_repo(path, script):
    """script: list of steps
       ("commit", ts) | ("tag", name) | ("atag", name, ts) | ("branch", name) | ("checkout", name) | ("merge", name, ts) | ("detach",) |
       ("dirty", "untracked"|"modified"|"staged") | ("tagat", name, rev)
       returns the list of commit hashes created, in creation order"""
    os.makedirs(path, exist_ok=True)
    git(path, "init", "-q", "-b", "main", ".")
    commits = []
    n = 0
    for st in script:
        op = st[0]
        if op == "commit":
            n += 1
            with open(os.path.join(path, f"f{n}.txt"), "w") as f:
                f.write(str(n))
            git(path, "add", "-A")
            git(path, "commit", "-q", "-m", f"c{n}", ts=st[1])
            commits.append(git(path, "rev-parse", "HEAD"))
        elif op == "tag":
            git(path, "tag", st[1])
        elif op == "tagat":
            git(path, "tag", st[1], st[2])
        elif op == "atag":
            git(path, "tag", "-a", st[1], "-m", "annotated " + st[1], ts=st[2])
        elif op == "branch":
            git(path, "checkout", "-q", "-b", st[1])
        elif op == "checkout":
            git(path, "checkout", "-q", st[1])
        elif op == "merge":
            git(path, "merge", "-q", "--no-ff", "-m", "merge " + st[1], st[1], ts=st[2])
            commits.append(git(path, "rev-parse", "HEAD"))
        elif op == "commitfile":                 # a commit adding a file with a given name (e.g. named exactly like a tag)
            n += 1
            with open(os.path.join(path, st[1]), "w") as f:
                f.write(str(n))
            git(path, "add", "-A")
            git(path, "commit", "-q", "-m", f"c{n}", ts=st[2])
            commits.append(git(path, "rev-parse", "HEAD"))
        elif op == "branchat":                   # a branch created without checking it out (e.g. named like an existing tag)
            git(path, "branch", st[1])
        elif op == "detach":
            git(path, "checkout", "-q", "--detach", "HEAD")
        elif op == "dirty":
            if st[1] == "untracked":
                open(os.path.join(path, "untracked.txt"), "w").write("u")
            elif st[1] == "untracked_named":       # an untracked file with a given name (e.g. named exactly like a tag)
                open(os.path.join(path, st[2]), "w").write("u")
            elif st[1] == "modified":
                open(os.path.join(path, "f1.txt"), "a").write("m")
            elif st[1] == "index_only_mod":        # the index differs from HEAD while the work tree equals HEAD again (status MM)
                orig = open(os.path.join(path, "f1.txt")).read()
                open(os.path.join(path, "f1.txt"), "w").write(orig + "x")
                git(path, "add", "f1.txt")
                open(os.path.join(path, "f1.txt"), "w").write(orig)
            elif st[1] == "index_only_add":        # a new file added to the index and deleted from the work tree (status AD)
                open(os.path.join(path, "gone.txt"), "w").write("g")
                git(path, "add", "gone.txt")
                os.remove(os.path.join(path, "gone.txt"))
            elif st[1] == "deleted":               # a tracked file removed from the work tree only
                os.remove(os.path.join(path, "f1.txt"))
            elif st[1] == "staged_delete":         # git rm --cached: staged deletion, file still there (then untracked)
                git(path, "rm", "-q", "--cached", "f1.txt")
            else:
                open(os.path.join(path, "staged.txt"), "w").write("s")
                git(path, "add", "staged.txt")
        else:
            raise ValueError(op)
    return commits


STUB = r'''#!/bin/sh
# fault-injecting git: passes through to the real git except on invocation number ZV_GIT_FAIL_AT
n=$(cat "$ZV_GIT_COUNT" 2>/dev/null || echo 0); n=$((n+1)); echo $n > "$ZV_GIT_COUNT"
[ -n "$ZV_GIT_LOG" ] && echo "$n $*" >> "$ZV_GIT_LOG"
if [ "$n" = "$ZV_GIT_FAIL_AT" ] || [ "$ZV_GIT_FAIL_AT" = "all" ]; then
  case "$ZV_GIT_MODE" in
    exit1) echo "fatal: simulated failure" >&2; exit 1;;
    exit128) echo "fatal: not a git repository (or any of the parent directories): .git" >&2; exit 128;;
    nohead) echo "fatal: ambiguous argument 'HEAD': unknown revision or path not in the working tree." >&2; exit 128;;
    garbage) printf 'g\377\376arbage \n\n%%s 99999999999999999999 \t\n-1\n'; exit 0;;
    empty) exit 0;;
    signal) kill -9 $$;;
    noisy) echo "warning: something odd" >&2; printf 'zzz\nyyy\n'; exit 3;;
    silent1) exit 1;;
  esac
fi
exec "$ZV_REAL_GIT" "$@"
'''
MODES = ["exit1", "exit128", "nohead", "garbage", "empty", "signal", "noisy", "silent1"]


def make_stub(dirpath):
    os.makedirs(dirpath, exist_ok=True)
    p = os.path.join(dirpath, "git")
    with open(p, "w") as f:
        f.write(STUB)
    os.chmod(p, os.stat(p).st_mode | stat.S_IXUSR | stat.S_IXGRP | stat.S_IXOTH)
    return dirpath


def stub_env(stubdir, count_file, fail_at=None, mode=None, log=None):
    e = {"PATH": f"{stubdir}:/usr/bin:/bin", "ZV_REAL_GIT": REAL_GIT, "ZV_GIT_COUNT": count_file, "ZV_GIT_FAIL_AT": str(fail_at) if fail_at is not None else "",
         "ZV_GIT_MODE": mode or "", "ZV_GIT_LOG": log or "", "GIT_CONFIG_GLOBAL": "/dev/null", "GIT_CONFIG_SYSTEM": "/dev/null"}
    return e


# ------------------------------------------------------------------ a standard set of repository states
def standard_repos(root):
    """returns {name: path}"""
    T = 1700000000
    specs = {
        "tagged_clean": [("commit", T), ("tag", "v1.2.3")],
        "ahead": [("commit", T), ("tag", "v1.2.3"), ("commit", T + 100), ("commit", T + 200)],
        "ahead_dirty": [("commit", T), ("tag", "v1.2.3"), ("commit", T + 100), ("dirty", "modified")],
        "tagged_dirty": [("commit", T), ("tag", "1.0.0rc1"), ("dirty", "untracked")],
        "no_tags": [("commit", T), ("commit", T + 50)],
        "non_version_tags": [("commit", T), ("tag", "release"), ("tag", "foo-1"), ("commit", T + 9)],
        "annotated": [("commit", T), ("atag", "v2.0.0-rc.1", T + 5), ("commit", T + 100)],
        "detached": [("commit", T), ("tag", "v0.1.0"), ("commit", T + 10), ("detach",)],
        "feature_branch": [("commit", T), ("tag", "v1.0.0"), ("branch", "feature/Ünï-42/x"), ("commit", T + 10)],
        "multi_tags": [("commit", T), ("tag", "v1.0.0"), ("tag", "v1.0.1"), ("tag", "v1.0.0-rc.1"), ("tag", "junk"), ("commit", T + 1)],
        "merge": [("commit", T), ("tag", "v1.0.0"), ("branch", "dev"), ("commit", T + 10), ("tag", "v1.1.0"), ("checkout", "main"), ("commit", T + 20), ("merge", "dev", T + 30)],
        "release_branch": [("commit", T), ("tag", "v1.0.0"), ("branch", "release/7"), ("commit", T + 10), ("dirty", "staged")],
        # several spellings of one precedence on the same commit (SemVer ignores build metadata): the choice among them must be stable
        "equal_tags": [("commit", T), ("tag", "v1.2.3"), ("tag", "v1.2.3+build.1"), ("tag", "v1.2.3+linux"), ("tag", "1.2.3"), ("atag", "v1.2.3+z", T + 3), ("commit", T + 7)],
    }
    # long non-ASCII names: git's answers exceed a few hundred bytes and any fixed byte offset falls inside a multi-byte character
    # in one of the two (2-byte and 3-byte runs) - for code that cuts, pads or logs git output by bytes
    specs["long_unicode_branch2"] = [("commit", T), ("tag", "v1.0.0"), ("branch", "feat/" + "\u00e9" * 100), ("commit", T + 10)]
    specs["long_unicode_branch3"] = [("commit", T), ("tag", "v1.0.0")] + [("tag", "rel-" + "\u6f22" * 20 + f"-{i}") for i in range(6)] + [("branch", "f/" + "\u6f22" * 70), ("commit", T + 10)]
    # commits dated far in the future (clock skew, wrong RTC, reproducible-build dates): git's dates are data, never compared with the wall clock
    FUT = 4070908800          # 2099-01-01
    specs["future_dated_tagged_clean"] = [("commit", FUT), ("tag", "v1.2.3")]
    specs["future_dated_ahead"] = [("commit", T), ("tag", "v1.2.3"), ("commit", FUT), ("commit", FUT + 86400)]
    out = {}
    for name, script in specs.items():
        p = os.path.join(root, name)
        build_repo(p, script)
        out[name] = p
    # a shallow clone (git clone --depth 2): zerv warns about it - on stderr / in the log, never on stdout
    src = os.path.join(root, "shallow_src")
    build_repo(src, [("commit", T), ("commit", T + 10), ("commit", T + 20), ("tag", "v1.2.3"), ("commit", T + 30)])
    sh = os.path.join(root, "shallow_clone")
    git(root, "clone", "-q", "--depth", "2", "file://" + src, sh)
    out["shallow_clone"] = sh
    e = os.path.join(root, "empty_repo")
    os.makedirs(e)
    git(e, "init", "-q", "-b", "main", ".")
    out["empty_repo"] = e
    n = os.path.join(root, "not_a_repo")
    os.makedirs(n)
    out["not_a_repo"] = n
    sub = os.path.join(out["ahead"], "sub", "dir")
    os.makedirs(sub)
    out["ahead_subdir"] = sub
    return out
