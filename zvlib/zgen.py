"""Generation and wire encoding of Zerv objects (schema + vars)."""
import json as _json
from .common import hx, ohx

VARS_CONTEXT = ["Distance", "Dirty", "BumpedBranch", "BumpedCommitHash", "BumpedCommitHashShort", "BumpedTimestamp",
                "LastBranch", "LastCommitHash", "LastCommitHashShort", "LastTimestamp"]
PRIMARY = ["Major", "Minor", "Patch"]
SECONDARY = ["Epoch", "PreRelease", "Post", "Dev"]
TS_PATTERNS = ["YYYY", "YY", "MM", "0M", "DD", "0D", "HH", "0H", "mm", "0m", "SS", "0S", "WW", "0W", "compact_date", "compact_datetime"]
DEFAULT_PREC = ["Epoch", "Major", "Minor", "Patch", "Core", "PreReleaseLabel", "PreReleaseNum", "Post", "Dev", "ExtraCore", "Build"]
PRESETS = ["standard", "standard-no-context", "standard-base", "standard-base-prerelease", "standard-base-prerelease-post",
           "standard-base-prerelease-post-dev", "standard-base-context", "standard-base-prerelease-context",
           "standard-base-prerelease-post-context", "standard-base-prerelease-post-dev-context", "standard-context",
           "calver", "calver-no-context", "calver-base", "calver-base-prerelease", "calver-base-prerelease-post",
           "calver-base-prerelease-post-dev", "calver-base-context", "calver-base-prerelease-context",
           "calver-base-prerelease-post-context", "calver-base-prerelease-post-dev-context", "calver-context"]


# ---- components: ("s", text) | ("u", n) | ("v", Name) | ("c", custom-name) | ("t", pattern)
def enc_comp(c):
    k, v = c
    if k == "s":
        return "s:" + hx(v)
    if k == "u":
        return "u:" + str(v)
    if k == "v":
        return "v:" + v
    if k == "c":
        return "c:" + hx(v)
    if k == "t":
        return "t:" + hx(v)
    raise ValueError(c)


def enc_json(j):
    if j is None:
        return "jn"
    if j is True:
        return "jt"
    if j is False:
        return "jf"
    if isinstance(j, (int, float)):
        return "j#" + hx(_json.dumps(j))
    if isinstance(j, str):
        return "j$" + hx(j)
    if isinstance(j, list):
        return " ".join(["ja%d" % len(j)] + [enc_json(x) for x in j])
    if isinstance(j, dict):
        out = ["jo%d" % len(j)]
        for k, v in j.items():
            out += [hx(k), enc_json(v)]
        return " ".join(out)
    raise ValueError(j)


def on(x):
    return "~" if x is None else str(x)


def enc_vars(v):
    pre = "~"
    if v.get("pre") is not None:
        pre = v["pre"][0] + "/" + on(v["pre"][1])
    d = v.get("dirty")
    return " ".join([on(v.get("major")), on(v.get("minor")), on(v.get("patch")), on(v.get("epoch")), pre, on(v.get("post")),
                     on(v.get("dev")), on(v.get("distance")), "~" if d is None else ("1" if d else "0"),
                     ohx(v.get("bumped_branch")), ohx(v.get("bumped_hash")), on(v.get("bumped_ts")),
                     ohx(v.get("last_branch")), ohx(v.get("last_hash")), on(v.get("last_ts")), ohx(v.get("last_tag")),
                     enc_json(v.get("custom", {}))])


def enc_schema(s):
    out = []
    for part in ("core", "extra", "build"):
        out.append(str(len(s[part])))
        out += [enc_comp(c) for c in s[part]]
    prec = s.get("prec", DEFAULT_PREC)
    out.append(str(len(prec)))
    out += prec
    return " ".join(out)


def enc_zerv(s, v):
    return "Z " + enc_schema(s) + " " + enc_vars(v)


# ---------------------------------------------------------------- random generation
TEXTS = ["main", "feature/API-v2", "release/1.2", "Fix_007", "0051", "000", "0", "42", "4294967295", "4294967296", "18446744073709551616",
         "a.b..c", "--", "", "  ", "é", "fé/β", "ブランチ", "İx", "K", "a-0-00-0a", "UPPER.lower", "dev", "alpha", "post", "1.2.3", "v1",
         "deadbeefcafe1234", "0123456789abcdef", "g1234567", "x" * 40, "00000000", "1e5", "+5", "-5", "a+b", "rc.1", "0x1F", "１２",
         "#42", "(7)", "42.", "-1", ".9", "7-", " 8 ", "\t3",
         # branch names whose numeric segment does not fit u32 / u64 (timestamp-named release branches), under rule-like prefixes
         "release/20251001120000", "feature/4294967296/login", "hotfix/99999999999999999999999", "release/4294967295", "release/00000000000000000000007"]


def rand_text(rng):
    r = rng.random()
    if r < 0.6:
        return rng.choice(TEXTS)
    n = rng.randint(0, 12)
    return "".join(rng.choice("abXY019.-_/ é0") for _ in range(n))


def rand_num(rng):
    r = rng.random()
    if r < 0.55:
        return rng.randint(0, 20)
    if r < 0.8:
        return rng.choice([2 ** 31 - 1, 2 ** 31, 2 ** 32 - 2, 2 ** 32 - 1, 2 ** 32, 2 ** 32 + 1, 2 ** 63, 2 ** 64 - 1, 10 ** 9, 1700000000])
    return rng.randint(0, 10 ** rng.randint(1, 19))


def rand_json(rng, depth=0):
    r = rng.random()
    if depth > 2 or r < 0.5:
        return rng.choice([rand_text(rng), rand_num(rng), True, False, None, -3, "build-7"])
    if r < 0.8:
        # keys a path-syntax lookup (JSON pointer, index into arrays) would read differently from the plain walk over dot-separated object keys
        return {rng.choice(["a", "b", "build_id", "env", "x.y", "Key", "", "a", "b", "ci/stage", "a/b", "a~1b", "a~0b", "~", "/", "0", "1", "tags", "-"]): rand_json(rng, depth + 1) for _ in range(rng.randint(0, 3))}
    return [rand_json(rng, depth + 1) for _ in range(rng.randint(0, 2))]


CUSTOM_NAMES = ["a", "b", "a.b", "build_id", "env", "a.a", "x.y", "Key", "missing", "a.b.c", "",
                "ci/stage", "a/b", "a~1b", "a~0b", "a.a~1b", "~", "/", "0", "1", "a.0", "a.1", "tags", "tags.0", "b.0", "a.-", "b.ci/stage", "a..b", ".a", "a."]


def rand_vars(rng, sparse=None):
    def o(f, p=0.7):
        return f(rng) if rng.random() < (p if sparse is None else sparse) else None
    pre = None
    if rng.random() < 0.5:
        pre = (rng.choice(["a", "b", "rc"]), o(rand_num, 0.8))
    cust = rand_json(rng)
    if not isinstance(cust, dict):
        cust = {"a": cust, "b": {"c": rand_json(rng, 2), "a": 5}, "build_id": rand_text(rng)}
    if rng.random() < 0.3:
        cust = dict(cust)
        cust.update(rng.choice([{"ci/stage": rand_text(rng)}, {"a~1b": rand_num(rng)}, {"tags": [rand_text(rng), rand_num(rng)]}, {"a": [rand_text(rng), {"b": rand_num(rng)}]},
                                {"0": rand_text(rng)}, {"a": {"0": rand_text(rng), "a/b": rand_num(rng), "a~0b": "t"}}, {"/": "slash", "~": "tilde", "": {"": "empty"}}]))
    return {"major": o(rand_num, 0.9), "minor": o(rand_num, 0.85), "patch": o(rand_num, 0.85), "epoch": o(rand_num, 0.3), "pre": pre,
            "post": o(rand_num, 0.4), "dev": o(rand_num, 0.3), "distance": o(rand_num, 0.5),
            "dirty": rng.choice([None, True, False]), "bumped_branch": o(rand_text, 0.6), "bumped_hash": o(rand_text, 0.6),
            "bumped_ts": o(lambda r: r.choice([0, 1700000000, 1710511845, 2 ** 31, 2 ** 63 + 5, 253402300800, r.randint(0, 4102444800)]), 0.5),
            "last_branch": o(rand_text, 0.3), "last_hash": o(rand_text, 0.4),
            "last_ts": o(lambda r: r.randint(0, 4102444800), 0.5), "last_tag": o(rand_text, 0.3), "custom": cust}


def rand_context_comp(rng):
    r = rng.random()
    if r < 0.45:
        return ("v", rng.choice(VARS_CONTEXT))
    if r < 0.6:
        return ("s", rand_text(rng))
    if r < 0.72:
        return ("u", rand_num(rng))
    if r < 0.87:
        return ("c", rng.choice(CUSTOM_NAMES))
    return ("t", rng.choice(TS_PATTERNS))


def rand_schema(rng, valid=True):
    core, extra, build = [], [], []
    prim = [p for p in PRIMARY if rng.random() < 0.75]
    n = rng.randint(0, 3)
    items = [("v", p) for p in prim] + [rand_context_comp(rng) for _ in range(n)]
    # keep primaries in order, interleave context components at random positions
    core = []
    ctx = [c for c in items if c[0] != "v" or c[1] not in PRIMARY]
    pos = sorted(rng.sample(range(len(prim) + len(ctx)), len(prim))) if prim else []
    it_p, it_c = iter([("v", p) for p in prim]), iter(ctx)
    for i in range(len(prim) + len(ctx)):
        core.append(next(it_p) if i in pos else next(it_c))
    sec = [s for s in SECONDARY if rng.random() < 0.6]
    rng.shuffle(sec)
    extra = [("v", s) for s in sec]
    for _ in range(rng.randint(0, 2)):
        extra.insert(rng.randint(0, len(extra)), rand_context_comp(rng))
    build = [rand_context_comp(rng) for _ in range(rng.randint(0, 4))]
    if not core and not extra and not build:
        core = [("v", "Major")]
    s = {"core": core, "extra": extra, "build": build}
    if rng.random() < 0.1:
        p = list(DEFAULT_PREC)
        rng.shuffle(p)
        s["prec"] = p[:rng.randint(0, len(p))]
    if not valid:
        k = rng.random()
        if k < 0.2:
            s["core"] = s["core"] + [("v", rng.choice(SECONDARY))]
        elif k < 0.4:
            s["extra"] = s["extra"] + [("v", rng.choice(PRIMARY))]
        elif k < 0.55:
            s["build"] = s["build"] + [("v", rng.choice(PRIMARY + SECONDARY))]
        elif k < 0.7:
            s["core"] = [("v", "Minor"), ("v", "Major")] + s["core"]
        elif k < 0.8:
            s["core"] = s["core"] + [("v", "Patch"), ("v", "Patch")]
        elif k < 0.9:
            s["extra"] = s["extra"] + [("v", "Post"), ("v", "Post")]
        elif k < 0.95:
            s = {"core": [], "extra": [], "build": []}
        else:
            s["build"] = s["build"] + [("t", rng.choice(["YYYYMM", "%Y", "bogus", "", "yyyy"]))]
    return s


# ---------------------------------------------------------------- decoding replies / RON text
def _dec_json(t, i):
    x = t[i]
    if x == "jn":
        return None, i + 1
    if x == "jt":
        return True, i + 1
    if x == "jf":
        return False, i + 1
    if x.startswith("j#"):
        return _json.loads(bytes.fromhex(x[3:]).decode()), i + 1
    if x.startswith("j$"):
        return bytes.fromhex(x[3:]).decode(), i + 1
    if x.startswith("ja"):
        n, out, i = int(x[2:]), [], i + 1
        for _ in range(n):
            v, i = _dec_json(t, i)
            out.append(v)
        return out, i
    if x.startswith("jo"):
        n, out, i = int(x[2:]), {}, i + 1
        for _ in range(n):
            k = bytes.fromhex(t[i][1:]).decode()
            v, i = _dec_json(t, i + 1)
            out[k] = v
        return out, i
    raise ValueError(x)


def dec_zerv(tokens):
    """tokens of 'Z ...' -> (schema dict, vars dict, next index)"""
    assert tokens[0] == "Z", tokens[:3]
    i = 1
    s = {}
    for part in ("core", "extra", "build"):
        n = int(tokens[i]); i += 1
        comps = []
        for _ in range(n):
            t = tokens[i]; i += 1
            k, v = t[0], t[2:]
            comps.append((k, int(v)) if k == "u" else (k, v) if k == "v" else (k, bytes.fromhex(v[1:]).decode()))
        s[part] = comps
    n = int(tokens[i]); i += 1
    s["prec"] = tokens[i:i + n]; i += n
    def num(x):
        return None if x == "~" else int(x)
    def st(x):
        return None if x == "~" else bytes.fromhex(x[1:]).decode()
    v = {}
    for k in ("major", "minor", "patch", "epoch"):
        v[k] = num(tokens[i]); i += 1
    p = tokens[i]; i += 1
    v["pre"] = None if p == "~" else (p.split("/")[0], num(p.split("/")[1]))
    for k in ("post", "dev", "distance"):
        v[k] = num(tokens[i]); i += 1
    d = tokens[i]; i += 1
    v["dirty"] = None if d == "~" else d == "1"
    v["bumped_branch"] = st(tokens[i]); v["bumped_hash"] = st(tokens[i + 1]); v["bumped_ts"] = num(tokens[i + 2])
    v["last_branch"] = st(tokens[i + 3]); v["last_hash"] = st(tokens[i + 4]); v["last_ts"] = num(tokens[i + 5]); v["last_tag"] = st(tokens[i + 6])
    i += 7
    v["custom"], i = _dec_json(tokens, i)
    return s, v, i


def ron_str(s):
    out = ['"']
    for ch in s:
        if ch == '"':
            out.append('\\"')
        elif ch == "\\":
            out.append("\\\\")
        elif ch == "\n":
            out.append("\\n")
        elif ch == "\t":
            out.append("\\t")
        elif ch == "\r":
            out.append("\\r")
        elif ord(ch) < 32:
            out.append("\\u{%x}" % ord(ch))
        else:
            out.append(ch)
    out.append('"')
    return "".join(out)


def ron_comp(c):
    k, v = c
    if k == "s":
        return "str(" + ron_str(v) + ")"
    if k == "u":
        return "uint(%d)" % v
    if k == "v":
        return "var(%s)" % v
    if k == "c":
        return "var(custom(" + ron_str(v) + "))"
    if k == "t":
        return "var(ts(" + ron_str(v) + "))"
    raise ValueError(c)


def ron_schema(s, with_prec=None):
    parts = ["core: [" + ", ".join(ron_comp(c) for c in s["core"]) + "]",
             "extra_core: [" + ", ".join(ron_comp(c) for c in s["extra"]) + "]",
             "build: [" + ", ".join(ron_comp(c) for c in s["build"]) + "]"]
    if "prec" in s:
        parts.append("precedence_order: [" + ", ".join(s["prec"]) + "]")
    return "(" + ", ".join(parts) + ")"
