"""Shared machinery of the zv orchestrator: builds, sharded execution, verdicts, evidence."""
import fcntl, hashlib, json, os, random, re, shutil, subprocess, sys, time, threading, collections

VERIF = os.path.dirname(os.path.dirname(os.path.abspath(__file__)))
REPO = os.environ.get("ZV_REPO", "/repo")
BUILD = os.path.join(VERIF, "build")
COQ = os.path.join(VERIF, "coq")
TARGET = os.path.join(BUILD, "target")
ZVH = os.path.join(TARGET, "debug", "zvh")
ZERV = os.path.join(TARGET, "debug", "zerv")
ZVM = os.path.join(BUILD, "ocaml", "zvm")
NPROC = min(16, os.cpu_count() or 4)
GUARD = "zerv_verif"

ALLOWED_AXIOMS = set()   # every property theorem must be "Closed under the global context"

FORBIDDEN = re.compile(
    r"\b(Admitted|admit|Axiom|Axioms|Parameter|Parameters|Conjecture|Conjectures|Admit\s+Obligations|"
    r"Unset\s+Guard\s+Checking|Unset\s+Positivity\s+Checking|Unset\s+Universe\s+Checking|bypass_check|"
    r"type-in-type|impredicative-set)\b")


def log(*a):
    print("[zv]", *a, file=sys.stderr, flush=True)


def sh(cmd, cwd=None, env=None, timeout=None, check=False, inp=None):
    e = dict(os.environ)
    e.update({"CARGO_NET_OFFLINE": "true", "CARGO_TARGET_DIR": TARGET})
    if env:
        e.update(env)
    p = subprocess.run(cmd, cwd=cwd, env=e, stdout=subprocess.PIPE, stderr=subprocess.STDOUT,
                       text=True, timeout=timeout, input=inp)
    if check and p.returncode != 0:
        raise RuntimeError(f"command failed ({p.returncode}): {cmd}\n{p.stdout[-4000:]}")
    return p.returncode, p.stdout


class Lock:
    def __init__(self, name):
        os.makedirs(BUILD, exist_ok=True)
        self.path = os.path.join(BUILD, name + ".lock")

    def __enter__(self):
        self.f = open(self.path, "w")
        fcntl.flock(self.f, fcntl.LOCK_EX)
        return self

    def __exit__(self, *a):
        fcntl.flock(self.f, fcntl.LOCK_UN)
        self.f.close()


# ----------------------------------------------------------------------------- builds

def build_impl(need_bin=True):
    """(Re)build the harness and the zerv binary from /repo's working tree. Returns (ok, log)."""
    with Lock("cargo"):
        os.makedirs(TARGET, exist_ok=True)
        hl = os.path.join(VERIF, "harness", "Cargo.lock")
        if not os.path.exists(hl):
            shutil.copy(os.path.join(REPO, "Cargo.lock"), hl)
        env = {"RUSTFLAGS": f"--cfg {GUARD}"}
        # same toolchain for the harness as /repo's rust-toolchain.toml selects for the binary (shared target dir)
        try:
            m = re.search(r'channel\s*=\s*"([^"]+)"', open(os.path.join(REPO, "rust-toolchain.toml")).read())
            if m:
                env["RUSTUP_TOOLCHAIN"] = m.group(1)
        except OSError:
            pass
        rc, out = sh(["cargo", "build", "--offline"], cwd=os.path.join(VERIF, "harness"), env=env, timeout=1500)
        if rc != 0 and "Cargo.lock" in out:
            shutil.copy(os.path.join(REPO, "Cargo.lock"), hl)
            rc, out = sh(["cargo", "build", "--offline"], cwd=os.path.join(VERIF, "harness"), env=env, timeout=1500)
        if rc != 0:
            return False, out
        if need_bin:
            rc, out2 = sh(["cargo", "build", "--offline", "--bin", "zerv"], cwd=REPO, env=env, timeout=1500)
            out += out2
            if rc != 0:
                return False, out
        return True, out


def coq_makefile():
    mk = os.path.join(COQ, "Makefile")
    cp = os.path.join(COQ, "_CoqProject")
    if not os.path.exists(mk) or os.path.getmtime(mk) < os.path.getmtime(cp):
        sh(["coq_makefile", "-f", "_CoqProject", "-o", "Makefile"], cwd=COQ, check=True)


def build_coq(targets=None, timeout=3000):
    """make the given .vo targets (all when None). Returns (ok, log)."""
    with Lock("coq"):
        coq_makefile()
        cmd = ["make", f"-j{NPROC}"] + (targets or [])
        rc, out = sh(["timeout", str(timeout)] + cmd, cwd=COQ)
        return rc == 0, out


def build_model():
    """Extraction (part of the Coq build) + ocamlopt of the driver. Returns (ok, log)."""
    ok, out = build_coq(["Extract/Extract.vo"])
    if not ok:
        return False, out
    with Lock("ocaml"):
        od = os.path.join(BUILD, "ocaml")
        os.makedirs(od, exist_ok=True)
        srcs = [os.path.join(COQ, "Extract", "model.mli"), os.path.join(COQ, "Extract", "model.ml"),
                os.path.join(VERIF, "ocaml", "wire.ml"), os.path.join(VERIF, "ocaml", "zenc.ml"), os.path.join(VERIF, "ocaml", "args.ml"), os.path.join(VERIF, "ocaml", "drv.ml")]
        h = hashlib.sha256()
        for s in srcs:
            h.update(open(s, "rb").read())
        stamp = os.path.join(od, "stamp")
        if os.path.exists(ZVM) and os.path.exists(stamp) and open(stamp).read() == h.hexdigest():
            return True, out
        for s in srcs:
            shutil.copy(s, od)
        rc, o2 = sh(["ocamlfind", "ocamlopt", "-O3", "-w", "-a", "-package", "str", "-linkpkg",
                     "model.mli", "model.ml", "wire.ml", "zenc.ml", "args.ml", "drv.ml", "-o", "zvm"], cwd=od, timeout=900)
        if rc != 0:
            return False, out + o2
        open(stamp, "w").write(h.hexdigest())
        return True, out + o2


def coq_flags():
    fl = []
    for l in open(os.path.join(COQ, "_CoqProject")):
        l = l.strip()
        if l.startswith("-Q") or l.startswith("-R"):
            fl += l.split()
    return fl


def forbidden_scan():
    """grep the whole development for anything that would declare an axiom or switch off a check."""
    hits = []
    for root, _, files in os.walk(COQ):
        for f in files:
            if f.endswith(".v") or f == "_CoqProject":
                p = os.path.join(root, f)
                txt = open(p, encoding="utf-8", errors="replace").read()
                # strip comments (non-nested is enough for our sources)
                txt2 = re.sub(r"\(\*.*?\*\)", " ", txt, flags=re.S)
                for m in FORBIDDEN.finditer(txt2):
                    hits.append(f"{os.path.relpath(p, COQ)}: {m.group(0)}")
                # Variable / Hypothesis / Context are assumptions of the whole development unless inside a (closed) Section
                depth = 0
                for m in re.finditer(r"\b(Section|Module|End|Variables?|Hypothes[ie]s|Context)\b", txt2):
                    w = m.group(1)
                    if w in ("Section", "Module"):
                        depth += 1
                    elif w == "End":
                        depth -= 1
                    elif depth <= 0:
                        hits.append(f"{os.path.relpath(p, COQ)}: {w} outside a section")
                if depth != 0:
                    hits.append(f"{os.path.relpath(p, COQ)}: unbalanced Section/End")
    return hits


def props_obligations(pid):
    """Compile Props/<pid>.v afresh (output .vo to a scratch path) and parse every
    'Print Assumptions' answer.  Returns (ok, obligations, discharged, details, log)."""
    src = os.path.join(COQ, "Props", pid + ".v")
    if not os.path.exists(src):
        return False, 0, 0, ["missing Props file"], ""
    text = open(src).read()
    text_nc = re.sub(r"\(\*.*?\*\)", " ", text, flags=re.S)
    thms = re.findall(r"^\s*(?:Theorem|Lemma|Corollary)\s+(\w+)", text_nc, flags=re.M)
    prints = re.findall(r"Print\s+Assumptions\s+(\w+)\s*\.", text_nc)
    details = []
    ok = True
    for t in thms:
        if t not in prints:
            ok = False
            details.append(f"{t}: no Print Assumptions")
    tdir = os.path.join(BUILD, "tmp", f"props.{os.getpid()}")
    os.makedirs(tdir, exist_ok=True)
    outvo = os.path.join(tdir, f"{pid}.vo")
    rc, out = sh(["timeout", "600", "coqc", "-noglob"] + coq_flags() + ["-o", outvo, src], cwd=COQ)
    shutil.rmtree(tdir, ignore_errors=True)
    if rc != 0:
        return False, len(thms), 0, details + ["Props file does not compile"], out
    # parse answers in order
    answers = re.split(r"\n(?=Closed under the global context|Axioms:)", "\n" + out)
    answers = [a for a in answers if a.startswith("Closed under") or a.startswith("Axioms:")]
    discharged = 0
    for name, a in zip(prints, answers):
        if a.startswith("Closed under"):
            discharged += 1
        else:
            ax = set(re.findall(r"^(\S+)\s*:", a, flags=re.M)) - {"Axioms"}
            if ax <= ALLOWED_AXIOMS:
                discharged += 1
                details.append(f"{name}: allowed axioms {sorted(ax)}")
            else:
                ok = False
                details.append(f"{name}: depends on {sorted(ax)}")
    if len(answers) != len(prints):
        ok = False
        details.append(f"{len(prints)} Print Assumptions but {len(answers)} answers")
    return ok and discharged == len(prints), len(prints), discharged, details, out


# ----------------------------------------------------------------------------- execution

def run_lines(cmd, lines, shards=NPROC, timeout=3000, env=None, min_per_shard=200):
    """Feed `lines` to `cmd` (one request per line, one reply per line), sharded. Returns replies."""
    n = len(lines)
    if n == 0:
        return []
    k = max(1, min(shards, n // min_per_shard or 1))
    chunks = [lines[i * n // k:(i + 1) * n // k] for i in range(k)]
    outs = [None] * k
    errs = [None] * k

    def work(i):
        e = dict(os.environ)
        if env:
            e.update(env)
        try:
            p = subprocess.run(cmd, input="\n".join(chunks[i]) + "\n", stdout=subprocess.PIPE,
                               stderr=subprocess.PIPE, text=True, timeout=timeout, env=e)
            outs[i] = p.stdout.split("\n")
            if outs[i] and outs[i][-1] == "":
                outs[i].pop()
            if p.returncode != 0 or len(outs[i]) != len(chunks[i]):
                errs[i] = f"rc={p.returncode} got {len(outs[i])} replies for {len(chunks[i])} requests; stderr: {p.stderr[-500:]}"
        except subprocess.TimeoutExpired:
            errs[i] = "timeout"
            outs[i] = []

    ts = [threading.Thread(target=work, args=(i,)) for i in range(k)]
    for t in ts:
        t.start()
    for t in ts:
        t.join()
    bad = [e for e in errs if e]
    if bad:
        raise RuntimeError(f"{cmd[0]}: " + "; ".join(bad))
    res = []
    for o in outs:
        res += o
    return res


def hx(s):
    return "x" + s.encode("utf-8").hex()


def unhx(f):
    assert f.startswith("x"), f
    return bytes.fromhex(f[1:]).decode("utf-8")


def ohx(s):
    return "~" if s is None else hx(s)


def b01(b):
    return "1" if b else "0"


# ----------------------------------------------------------------------------- known findings

def load_known():
    p = os.path.join(VERIF, "known_findings.json")
    if not os.path.exists(p):
        return []
    return json.load(open(p))


# ----------------------------------------------------------------------------- result object

class Run:
    """Collects what one check run did and produces evidence / verdict."""

    def __init__(self, pid, tier, seed):
        self.pid, self.tier, self.seed = pid, tier, seed
        self.t0 = time.time()
        self.evaluations = 0
        self.nontrivial = set()
        self.streams = collections.OrderedDict()
        self.samples = []
        self.violations = []       # (kind, detail dict, found_input: bool)
        self.known_hits = collections.Counter()
        self.obligations = 0
        self.discharged = 0
        self.ob_details = []
        self.disagreements = 0
        self.notes = []
        self.exhaustive = False
        self.extra = {}

    def add_violation(self, kind, detail, found_input):
        self.violations.append((kind, detail, found_input))

    def finish(self, rule, level_note_assumptions, trusted_base, checker_cmd):
        wall = time.time() - self.t0
        rdir = os.path.join(BUILD, "replay", self.pid)
        os.makedirs(rdir, exist_ok=True)
        for old in os.listdir(rdir):
            if old.startswith(f"{self.tier}-{self.seed}-"):
                os.remove(os.path.join(rdir, old))
        lines = []
        # report at most 3 violations per (kind, stream), 30 in all
        seen = collections.Counter()
        chosen = []
        for v in self.violations:
            key = (v[0], v[1].get("stream", ""))
            if seen[key] < 3 and len(chosen) < 30:
                chosen.append(v)
            seen[key] += 1
        self.extra["violations_by_stream"] = {f"{k[0]}/{k[1]}": n for k, n in seen.items()}
        chosen.sort(key=lambda v: (not v[2],))      # concrete failing inputs first
        for i, (kind, detail, found) in enumerate(chosen):
            path = os.path.join(rdir, f"{self.tier}-{self.seed}-{i}.json")
            json.dump({"property": self.pid, "kind": kind, "seed": self.seed, "tier": self.tier,
                       "failing_input_found": found, **detail}, open(path, "w"), indent=1, ensure_ascii=False)
            lines.append(f"VIOLATION property={self.pid} replay={path}" + ("" if found else " no-failing-input-found"))
        ev = {
            "property_id": self.pid, "tier": self.tier, "seed": self.seed, "level": "proof",
            "coverage": {
                "obligations": self.obligations, "discharged": self.discharged,
                "checker_cmd": checker_cmd, "trusted_base": trusted_base,
                "obligation_details": self.ob_details,
                "evaluations": self.evaluations, "distinct_nontrivial": len(self.nontrivial),
                "rule": rule, "samples": self.samples[:12],
                "streams": self.streams, "disagreements_checked": self.disagreements,
                "known_findings_hit": dict(self.known_hits), "exhaustive": self.exhaustive,
                **self.extra,
            },
            "assumptions": level_note_assumptions,
            "wall_s": round(wall, 2),
            "violations": len(self.violations),
            "notes": self.notes,
        }
        os.makedirs(os.path.join(VERIF, "evidence"), exist_ok=True)
        json.dump(ev, open(os.path.join(VERIF, "evidence", self.pid + ".json"), "w"), indent=1, ensure_ascii=False)
        for l in lines:
            print(l)
        sys.stdout.flush()
        return 1 if self.violations else 0


TRUSTED_BASE_COMMON = [
    "Coq 8.16.1 kernel and coqc (vm_compute used; native_compute not used)",
    "axioms: none - every property theorem is 'Closed under the global context' (checked on each run from Print Assumptions)",
    "extraction: Require Import ExtrOcamlBasic only (Extract Inductive bool/option/unit/list/prod/sumbool/sumor, Extract Inlined Constant andb/orb); numbers stay extracted inductives",
    "OCaml 4.13 compiler and the hand-written driver ocaml/wire.ml + ocaml/drv.ml (hex / UTF-8 / decimal glue)",
    "correspondence check (differential execution of the extracted model and the Rust built from /repo) bounds the assurance of the hand-written model",
    "Rust compiler/std; the harness crate harness/ calling zerv's public API",
]


def correspond(run, stream, cases, canon=lambda r: r, nontrivial=lambda c, r: True, describe=lambda c: c,
               known=lambda c, r, v: None, want_samples=3, env=None):
    """Run `cases` (request lines) through implementation and model, compare, judge by the oracle.
    Returns list of (case, impl_reply, model_reply, verdict)."""
    impl = run_lines([ZVH], cases, env=env)
    combined = [c + " | " + r for c, r in zip(cases, impl)]
    mo = run_lines([ZVM], combined)
    res = []
    st = run.streams.setdefault(stream, {"cases": 0, "impl_ok": 0, "impl_err": 0, "impl_panic": 0,
                                         "oracle_ok": 0, "oracle_na": 0, "oracle_bad": 0, "disagree": 0})
    for c, r, m in zip(cases, impl, mo):
        model_reply, _, verdict = m.partition("\t")
        res.append((c, r, model_reply, verdict))
        st["cases"] += 1
        run.evaluations += 1
        head = r.split(" ", 1)[0]
        st["impl_ok" if head == "OK" else "impl_panic" if head == "PANIC" else "impl_err"] += 1
        if nontrivial(c, r):
            run.nontrivial.add(c)
        k = known(c, r, verdict)
        if verdict.startswith("BAD"):
            st["oracle_bad"] += 1
            if k:
                run.known_hits[k] += 1
            else:
                run.add_violation("oracle", {"stream": stream, "request": c, "described": describe(c),
                                             "impl_reply": r, "model_reply": model_reply, "oracle": verdict,
                                             "replay_cmd": f"echo '{c}' | {ZVH}"}, True)
        elif verdict == "NA":
            st["oracle_na"] += 1
        else:
            st["oracle_ok"] += 1
        if canon(r) != canon(model_reply):
            st["disagree"] += 1
            run.disagreements += 1
            if k:
                run.known_hits[k] += 1
            elif not verdict.startswith("BAD"):
                run.add_violation("correspondence", {"stream": stream, "request": c, "described": describe(c),
                                                     "impl_reply": r, "model_reply": model_reply, "oracle": verdict,
                                                     "what": "model and implementation disagree: the theorems no longer speak about this code; the oracle accepts the implementation's answer on this input",
                                                     "replay_cmd": f"echo '{c}' | {ZVH}"}, False)
    for c, r, m, v in res[:want_samples]:
        run.samples.append({"stream": stream, "case": describe(c), "impl": r, "model": m, "oracle": v})
    return res


_UNI_POOL = None


def unicode_pool():
    """every non-ASCII character that some Unicode-aware operation relates to the ASCII alphabet of a version grammar: its lower / upper /
    case-folded / NFKC / NFKD form is (or starts with) an ASCII character, it is a decimal digit of another script, or it is white space / a format character (BOM, zero-width
    space and joiners, direction marks, line and paragraph separators) - the characters a `(?i)`, `\\d`, `\\s`, `trim` or a tolerant pre-processing
    step lets in; computed from unicodedata, not listed by hand"""
    global _UNI_POOL
    if _UNI_POOL is None:
        import unicodedata
        out = []
        for cp in range(0x80, 0x30000):
            if 0xD800 <= cp <= 0xDFFF:
                continue
            c = chr(cp)
            cat = unicodedata.category(c)
            if cat in ("Cn", "Co"):
                continue
            forms = (c.lower(), c.upper(), c.casefold(), unicodedata.normalize("NFKC", c), unicodedata.normalize("NFKD", c))
            if cat in ("Nd", "Zs", "Zl", "Zp", "Cf") or c.isspace() or any(f and f[0].isascii() for f in forms):
                out.append(c)
        _UNI_POOL = out
    return _UNI_POOL


def unicode_neighbours(bases, rng, per_char=3):
    """for every character of unicode_pool(): put it in front of, behind, inside and in place of a character of a valid version"""
    res = []
    for c in unicode_pool():
        for k in range(per_char):
            b = bases[rng.randrange(len(bases))]
            i = rng.randint(0, len(b))
            mode = (k + rng.randint(0, 1)) % 4
            if mode == 0:
                res.append(c + b)
            elif mode == 1:
                res.append(b + c)
            elif mode == 2 or i >= len(b):
                res.append(b[:i] + c + b[i:])
            else:
                res.append(b[:i] + c + b[i + 1:])
    return res
