"""C01 - every emitted version string is well-formed in the requested format (end to end through the binary)."""
import time
from .common import *
from . import zgen
from .cli import *

PID = "C01"
TARGETS = ["Props/C01.vo"]
UNICODE_TEXTS = zgen.TEXTS + ["ブランチ", "___", "--", "0123456789012345678901", "00000000000000000000000000", "99999999999999999999999", "a" * 300,
                              "ÀÉÎ/õü", "K", "İ", "feature/ＡＢＣ", "\t", "x́y", "1.2.3", "+", "v", "rc", "post", "dev", "epoch"]


def run_check(tier, seed):
    run = Run(PID, tier, seed)
    rng = random.Random(seed * 1000003 + 1)
    now = int(time.time())
    n = 1500 if tier == "quick" else 60000

    cases = []
    # corpus: inputs that broke something once (zero-padded digit runs beyond u64, Unicode letters, digit-only hashes)
    RON1 = {"core": [("v", "Major"), ("v", "Minor"), ("v", "Patch")], "extra": [("v", "PreRelease"), ("v", "BumpedBranch")], "build": [("v", "Distance"), ("v", "BumpedCommitHash")]}
    for br in ["build/0123456789012345678901", "000000000000000000000000000001", "x/00000000000000000000", "09999999999999999999999/a", "ÀÉÎ/õü", "K", "0" * 40, "1" * 40, "0" * 39 + "1"]:
        for fmt in ("semver", "pep440"):
            for sch in (["--schema=standard-base-context"], ["--schema=standard-context"], ["--schema-ron=" + zgen.ron_schema(RON1)], ["--schema=calver-base-prerelease-post-dev-context"]):
                c = {"cmd": "version", "argv": ["--source=none", "--tag-version=1.2.3-rc.2", "--distance=4", "--bumped-branch=" + br, "--bumped-commit-hash=" + br] + sch,
                     "stdin_obj": None, "ron": dict(RON1, prec=zgen.DEFAULT_PREC) if sch[0].startswith("--schema-ron") else None, "custom": None, "fmt": fmt, "prefix": None}
                cases.append(c)
    for _ in range(n):
        c = gen_version_case(rng, UNICODE_TEXTS) if rng.random() < 0.7 else gen_flow_text_case(rng, now)
        c["fmt"] = rng.choice(["semver", "pep440"])
        # the prefix is literal text: template syntax, blanks at either end, quotes, shell and format metacharacters in it are printed as they are
        c["prefix"] = rng.choice([None, None, None, "v", "release-", "é "] if rng.random() < 0.7 else
                                 ["{{ major }}-", "{{ bumped_branch }}/", "{# x #}", " v", "v ", "\t", "{{", "}}", "{% raw %}", "{%", "%Y", "%s", "{}", "{0}", "$HOME/", "\\", "'", '"', "--", "-", "+",
                                  "{{ semver }}", "{{ pep440 }}@", "v{{'", "  "])
        cases.append(c)
    # stdin texts
    objs = [c["stdin_obj"] for c in cases if c.get("stdin_obj")]
    texts = iter(ron_texts(objs)) if objs else iter([])
    cmds = []
    for c in cases:
        extra = [f"--output-format={c['fmt']}"] + ([f"--output-prefix={c['prefix']}"] if c["prefix"] is not None else [])
        c["extra"] = extra
        inp = next(texts).encode() if c.get("stdin_obj") else None
        c["stdin_text"] = inp
        # one case in seven also runs with -v: logging goes to stderr, stdout stays exactly the one line (the model has no logging)
        c["verbose"] = (len(cmds) % 7 == 3)
        cmds.append(([c["cmd"]] + (["-v"] if c["verbose"] else []) + c["argv"] + extra, inp))
    t0 = time.time()
    times = {}
    outs = run_procs(cmds, times=times)
    run.evaluations += len(cmds)

    # model predictions (one per second of the case's own process window)
    mo = model_texts(cases, [c["extra"] for c in cases], times)
    st = run.streams.setdefault("binary_version_and_flow_semver_pep440", {"cases": 0, "exit0": 0, "exit_nonzero": 0, "model_agree": 0, "model_disagree": 0})
    produced = []
    for c, (rc, out, err), m in zip(cases, outs, mo):
        st["cases"] += 1
        desc = {"argv": [c["cmd"]] + (["-v"] if c.get("verbose") else []) + c["argv"] + c["extra"], "stdin": (c["stdin_text"] or b"").decode("utf-8", "replace")[:1500]}
        model_reply = m[0]
        if panicked(rc, err):
            run.add_violation("oracle", {"stream": "binary", "what": "panic", "described": desc, "rc": rc, "stderr": err.decode("utf-8", "replace")[-600:]}, True)
            continue
        if rc == 0:
            st["exit0"] += 1
            text = out.decode("utf-8", "replace")
            pre = c["prefix"] or ""
            if not text.endswith("\n") or "\n" in text[:-1] or not text.startswith(pre):
                run.add_violation("oracle", {"stream": "binary", "what": "stdout is not exactly one line: prefix followed by the version", "described": desc, "stdout": text[:400]}, True)
                continue
            v = text[:-1][len(pre):]
            produced.append((c, v, desc))
            run.nontrivial.add(v)
            want = "OK " + hx(pre + v)
            if text_matches(m, pre + v):
                st["model_agree"] += 1
            else:
                st["model_disagree"] += 1
                run.disagreements += 1
                run.add_violation("correspondence", {"stream": "binary", "described": desc, "impl_stdout": text[:300], "model_reply": model_reply[:300],
                                                     "what": "model and binary disagree"}, False)
        else:
            st["exit_nonzero"] += 1
            if all(r.startswith("OK") for r in m):
                st["model_disagree"] += 1
                run.disagreements += 1
                run.add_violation("correspondence", {"stream": "binary", "described": desc, "rc": rc, "stderr": err.decode("utf-8", "replace")[-300:],
                                                     "model_reply": model_reply[:300], "what": "binary fails where the model succeeds"}, False)
            else:
                st["model_agree"] += 1
    for c, v, desc in produced[:6]:
        run.samples.append({"argv": desc["argv"], "version": v})

    # oracle 1: grammar / normal form / own parser, decided by the extracted spec
    oreqs = [f"OUT {c['fmt']} {hx(v)} | -" for c, v, _ in produced]
    ov = run_lines([ZVM], oreqs) if oreqs else []
    for (c, v, desc), o in zip(produced, ov):
        verdict = o.partition("\t")[2]
        if verdict != "OK":
            run.add_violation("oracle", {"stream": "emitted_string_wellformed", "what": verdict, "described": desc, "version": v, "format": c["fmt"]}, True)
    # oracle 2: zerv's own `check` accepts it; oracle 3: for preset schemas re-rendering in the same format returns it unchanged
    chk = run_procs([(["check", "--format", c["fmt"], v], None) for c, v, _ in produced])
    run.evaluations += len(chk)
    for (c, v, desc), (rc, out, err) in zip(produced, chk):
        if rc != 0:
            run.add_violation("oracle", {"stream": "zerv_check_accepts", "what": "zerv check rejects a version zerv emitted", "described": desc, "version": v,
                                         "stderr": err.decode("utf-8", "replace")[:300]}, True)
    preset_cases = [(c, v, desc) for c, v, desc in produced if not any(a.startswith("--schema-ron") for a in c["argv"]) and not (c.get("stdin_obj") and not any(a.startswith("--schema=") for a in c["argv"]))]
    rr = run_procs([(["render", v, "-f", c["fmt"], "--output-format", c["fmt"]], None) for c, v, _ in preset_cases])
    run.evaluations += len(rr)
    st2 = run.streams.setdefault("rerender_same_format_presets", {"cases": 0})
    for (c, v, desc), (rc, out, err) in zip(preset_cases, rr):
        st2["cases"] += 1
        if rc != 0 or out.decode("utf-8", "replace") != v + "\n":
            run.add_violation("oracle", {"stream": "rerender_same_format_presets", "what": "re-rendering in the same format does not return the version unchanged",
                                         "described": desc, "version": v, "rerendered": out.decode("utf-8", "replace")[:300], "rc": rc}, True)
    run.extra["wall_binary_s"] = round(time.time() - t0, 1)
    return run


RULE = ("cases are full process runs of the binary built from /repo: `zerv version` (source none with --tag-version, or stdin Zerv RON with random valid "
        "schemas) and `zerv flow`, with all 22 presets / custom RON schemas, override and bump flags, and Unicode / long / digit-only texts in branch, "
        "hash and custom positions, --output-format semver|pep440 and optional --output-prefix (plain, and with template syntax, blanks, quotes and format metacharacters: literal text); every successful stdout is judged by the extracted "
        "grammar oracles (SemVer BNF regex, PEP 440 Appendix B + normal form, zerv's own parser model), by `zerv check`, by re-rendering (presets), and "
        "compared with the pipeline model; distinct_nontrivial = distinct emitted version strings")
