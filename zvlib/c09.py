"""C09 - the PEP 440 parser accepts exactly Appendix B and prints the normal form."""
import itertools, re
from .common import *
from . import pep440_ref as ref

PID = "C09"
TARGETS = ["Props/C09.vo"]
ALPHA = list("01abcrpostdev.-_+!A") + ["ſ", "K"]
TOKENS = ["0", "1", "01", "10", "a", "b", "c", "rc", "alpha", "beta", "pre", "preview", "post", "rev", "r", "dev",
          "A", "RC", "Post", ".", "-", "_", "!", "+", "v", "x", "ſ"]
KNOWN_RANGE = "numeric-field>=2^32"


def regen():
    from tools_bridge import regen_regex
    regen_regex()


def describe(c):
    f = c.split(" ")
    try:
        if f[0] == "PEP":
            return {"op": "PEP440::from_str(s) -> Display", "s": unhx(f[1])}
        if f[0] == "CHK":
            return {"op": f"zerv check --format {f[1]}", "s": unhx(f[2])}
    except Exception:
        pass
    return c


def known(c, r, verdict):
    if verdict == "BAD:rejects-out-of-range-number":
        d = describe(c)
        if isinstance(d, dict):
            p = ref.parse(d["s"])
            if p is not None and ref.max_number(p) >= 2 ** 32:
                return KNOWN_RANGE
    return None


def spell(rng, d):
    """a random spelling of the version described by d (fields as in pep440_ref.parse)"""
    def num(n, allow_implicit=False):
        if allow_implicit and n == 0 and rng.random() < 0.4:
            return ""
        return "0" * rng.choice([0, 0, 0, 1, 2]) + str(n)
    def sep(opts=("", ".", "-", "_")):
        return rng.choice(opts)
    def case(w):
        r = rng.random()
        return w if r < 0.6 else w.upper() if r < 0.8 else w.capitalize()
    s = rng.choice(["", "", "v", "V"])
    if d["epoch"] or rng.random() < 0.15:
        s += num(d["epoch"]) + "!"
    rel = [num(x) for x in d["release"]]
    if rng.random() < 0.2:
        rel += ["0"] * rng.randint(1, 2)
    s += ".".join(rel)
    if d["pre"]:
        lab = {"a": ["a", "alpha"], "b": ["b", "beta"], "rc": ["rc", "c", "pre", "preview"]}[d["pre"][0]]
        s += sep() + case(rng.choice(lab)) + sep() + num(d["pre"][1], True)
        if s[-1] in ".-_":     # a separator needs a number after it unless something else follows; keep it simple
            s = s[:-1]
    if d["post"] is not None:
        if rng.random() < 0.25:
            s += "-" + num(d["post"])
        else:
            n = num(d["post"], True)
            s += sep() + case(rng.choice(["post", "rev", "r"])) + (sep() + n if n else "")
    if d["dev"] is not None:
        n = num(d["dev"], True)
        s += sep() + case("dev") + (sep() + n if n else "")
    if d["local"] is not None:
        s += "+" + "".join((str(x) if i == 0 else rng.choice(".-_") + str(x)) for i, x in enumerate(
            [("0" * rng.choice([0, 0, 1]) + str(p)) if isinstance(p, int) else case(p) for p in d["local"]]))
    return s


def rand_fields(rng, big=True):
    def n():
        r = rng.random()
        if r < 0.6:
            return rng.randint(0, 12)
        if r < 0.75:     # boundaries of the value type and of narrower integer types
            return rng.choice([2 ** 31 - 1, 2 ** 31, 2 ** 31 + 1, 2 ** 32 - 2, 2 ** 32 - 1, 2 ** 16, 2 ** 24, 3000000000, 10 ** 9])
        if big and r < 0.85:
            return rng.choice([2 ** 32, 2 ** 64, 10 ** 12, 2 ** 32 + 5])
        return rng.randint(0, 10 ** rng.randint(1, 9))
    rl = rng.randint(1, 5) if rng.random() < 0.85 else rng.randint(6, 10)
    d = {"epoch": n() if rng.random() < 0.2 else 0, "release": [n() for _ in range(rl)], "pre": None, "post": None,
         "dev": None, "local": None}
    if rng.random() < 0.4:
        d["pre"] = (rng.choice(["a", "b", "rc"]), n())
    if rng.random() < 0.35:
        d["post"] = n()
    if rng.random() < 0.35:
        d["dev"] = n()
    if rng.random() < 0.3:
        d["local"] = [rng.choice([n(), "abc", "x1", "ubuntu", "ubuntu2", "ubuntu20", "rc", "rc1", "a", "ab", "abc1", "g1234abc", "g1234abcd", "1a", "g" + "%x" % rng.randint(0, 2 ** 28),
                                  # alphanumeric labels that START with digits / zeros (short commit hashes do): text, never numbers - no zero stripping
                                  "0a", "00a", "0abc123", "0b", "007x", "1e5", "123abc", "0x10", "%07x" % rng.randint(0, 2 ** 20) + "f"])
                      for _ in range(rng.randint(1, 4))]
    return d


def perturb(rng, a):
    """a copy of a with one field (or one release position) changed"""
    b = dict(a)
    k = rng.choice(["epoch", "release", "release", "pre", "post", "dev", "local"])
    f = rand_fields(rng, big=False)
    if k == "release":
        rel = list(a["release"])
        r = rng.random()
        if r < 0.5:
            i = rng.randrange(len(rel))
            rel[i] = rng.choice([rel[i] + 1, max(0, rel[i] - 1), f["release"][0]])
        elif r < 0.8:
            rel = rel + [0] * rng.randint(0, 3) + [rng.choice([0, 1, 2])]
        else:
            rel = rel[:max(1, len(rel) - 1)]
        b["release"] = rel
    elif k == "local" and a["local"] and rng.random() < 0.6:
        # one local segment extended / shortened (a strict prefix must sort lower), or its case changed (equal)
        loc = list(a["local"])
        i = rng.randrange(len(loc))
        if isinstance(loc[i], str):
            loc[i] = rng.choice([loc[i] + rng.choice("0a9z"), loc[i][:-1] or "a", loc[i].upper()])
        else:
            loc[i] = rng.choice([loc[i] + 1, max(0, loc[i] - 1), loc[i] * 10])
        b["local"] = loc
    elif k in ("post", "dev") and a[k] is not None and rng.random() < 0.5:
        b[k] = rng.choice([a[k] + 1, max(0, a[k] - 1), 0, 2 ** 32 - 1, 2 ** 31])
    else:
        b[k] = f[k]
    return b


def mutations(s, rng, k):
    res = []
    for _ in range(k):
        i = rng.randint(0, len(s))
        op = rng.random()
        ch = rng.choice(ALPHA + [" ", "\n", "/", "０", "١", "é"])
        if op < 0.4:
            res.append(s[:i] + ch + s[i:])
        elif op < 0.7 and i < len(s):
            res.append(s[:i] + s[i + 1:])
        elif i < len(s):
            res.append(s[:i] + ch + s[i + 1:])
    return res


def nontrivial(c, r):
    return r.startswith("OK")


def py_oracle(run, stream, res):
    """independent normal-form / acceptance oracle on the implementation's answers"""
    for c, r, m, v in res:
        if not c.startswith("PEP "):
            continue
        s = unhx(c.split(" ")[1])
        p = ref.parse(s)
        if r.startswith("OK"):
            printed = unhx(r.split(" ")[1])
            if p is None:
                run.add_violation("oracle", {"stream": stream, "request": c, "described": describe(c), "impl_reply": r,
                                             "oracle": "python-reference: not a PEP 440 string but accepted"}, True)
            elif ref.normal_form(p) != printed:
                run.add_violation("oracle", {"stream": stream, "request": c, "described": describe(c), "impl_reply": r,
                                             "expected_normal_form": ref.normal_form(p),
                                             "oracle": "python-reference: printed form is not the PEP 440 normal form / a number changed"}, True)
        elif r == "ERR" and p is not None and ref.max_number(p) < 2 ** 32:
            run.add_violation("oracle", {"stream": stream, "request": c, "described": describe(c), "impl_reply": r,
                                         "oracle": "python-reference: PEP 440 string with numbers < 2^32 rejected"}, True)


def corpus():
    ws = ["1.0poſt1", "1.0+ſ", "1.0+aſb", "99999999999.0", "1.0a99999999999", "4294967295!1.0", "4294967296!1.0", "1.0+99999999999",
          "1.0.post4294967296", "1.0a.-1", "1.0a-1", "1.0-1", "1.0-a1", "1.0.a.1", "1.0a.post1", "1.0a-post1", "1.0post-1", "1.0post-dev",
          "1.0dev-1", "V1.0.0RC", "1.0previe", "1.0r1", "1.0rev", "1.0c", "1.0pre1", "1.0+abc.007", "1.٣", "1.0a٣", "1.0 ", " 1.0", "1.0\n",
          "1", "1.", ".1", "1..0", "1!", "!1", "1!1!1", "1.0+", "1.0+a+b", "1.0+a..b", "1.0+-a", "1.0+a-", "1.0.post1.dev2+Ubuntu_20-04",
          "1.0.dev4294967295", "1.0.post4294967295.dev3000000000", "0!0", "00!00.00", "1.0a", "1.0b.", "1.0rc_", "1.0-", "1.0_", "1.0-dev"]
    return ["PEP " + hx(w) for w in ws] + ["CHK pep440 " + hx(w) for w in ws]


def run_check(tier, seed):
    run = Run(PID, tier, seed)
    rng = random.Random(seed * 1000003 + 9)
    kw = dict(nontrivial=nontrivial, describe=describe, known=known)

    def go(stream, cases):
        res = correspond(run, stream, cases, **kw)
        py_oracle(run, stream, res)
        return res

    go("corpus", corpus())
    L = 4 if tier == "quick" else 5
    go(f"exhaustive_chars_len<={L}_alphabet21", ["PEP " + hx("".join(t)) for k in range(L + 1) for t in itertools.product(ALPHA, repeat=k)])
    T = 3 if tier == "quick" else 4
    toks = ["PEP " + hx("1" + "".join(t)) for k in range(T + 1) for t in itertools.product(TOKENS, repeat=k)]
    go(f"exhaustive_token_sequences_len<={T}_after_release_1", toks)
    run.exhaustive = True
    run.extra["exhaustive_scope"] = f"all strings of length <= {L} over {ALPHA}; all sequences of <= {T} tokens from {TOKENS} appended to '1'"
    if tier == "quick":
        extra = ["PEP " + hx("1" + "".join(rng.choice(TOKENS) for _ in range(rng.choice([4, 5, 6])))) for _ in range(60000)]
        go("sampled_token_sequences_len4-6", extra)
    else:
        extra = ["PEP " + hx("1" + "".join(rng.choice(TOKENS) for _ in range(rng.choice([5, 6, 7])))) for _ in range(1500000)]
        go("sampled_token_sequences_len5-7", extra)

    n = 25000 if tier == "quick" else 600000
    cases = []
    spelled = []
    for _ in range(n):
        s = spell(rng, rand_fields(rng))
        spelled.append(s)
        cases.append("PEP " + hx(s))
        if rng.random() < 0.5:
            cases += ["PEP " + hx(m) for m in mutations(s, rng, 1)]
    go("random_structured_versions_all_spellings_and_mutations", cases)
    ub = ["1.0", "v2!1.0a1+local", "1!2.3rc4.post5.dev6+sk.7", "1.0.POST2", "1.0+abc.k", "1.0-1", "1.0.dev0", "1_0_alpha_1"]
    uni = unicode_neighbours(ub, rng, 3 if tier == "quick" else 12)
    go("unicode_neighbours_of_the_alphabet_around_and_inside_valid_versions", ["PEP " + hx(s) for s in uni])
    correspond(run, "unicode_neighbours_zerv_check", ["CHK pep440 " + hx(s) for s in uni[::5]], **kw)
    sample = rng.sample(spelled, min(len(spelled), n // 8))
    sample += [m for s in sample[:2000] for m in mutations(s, rng, 1)]
    correspond(run, "zerv_check_format_pep440", ["CHK pep440 " + hx(s) for s in sample], **kw)
    return run


RULE = ("requests are strings given to PEP440::from_str (and `zerv check --format pep440`); exhaustive over short strings of a 21-character "
        "alphabet incl. the case-folding look-alikes U+017F and U+212A, exhaustive over short token sequences (labels inserted as tokens), "
        "random structured versions in random spellings (case, separators, alternative labels, leading zeros, implicit numbers, v prefix) "
        "and their single-edit mutations, every non-ASCII character whose case / compatibility form is ASCII or that is a digit, space or format character "
        "(2769 of them, computed from unicodedata: BOM, zero-width and direction marks, digits of other scripts, full-width and mathematical letters ...) before, behind, inside and "
        "in place of a character of valid versions; every implementation answer is also judged by an independent Python reference written from the PEP; "
        "non-trivial = accepted by the implementation")
