"""C03 - flow versions sort consistently with history."""
import time
from .common import *
from . import zgen, pep440_ref as ref
from .c04 import flw, rules_ron, rand_rules, BRANCHES, describe, DEFAULT_RULES
from .c10 import py_key

PID = "C03"
TARGETS = ["Props/C03.vo"]
PRESETS_WITH_PRE = ["standard", "standard-no-context", "standard-context", "standard-base-prerelease", "standard-base-prerelease-post",
                    "standard-base-prerelease-post-dev", "standard-base-prerelease-context", "standard-base-prerelease-post-context",
                    "standard-base-prerelease-post-dev-context"]


def out_of(r):
    return unhx(r.split(" ")[1]) if r.startswith("OK ") else None


def lt(fmt, a, b):
    """strictly lower in the public order of the format (independent references)"""
    if fmt == "semver":
        ka, kb = py_key(a), py_key(b)
        return ka is not None and kb is not None and ka < kb
    da, db = ref.parse(a), ref.parse(b)
    return da is not None and db is not None and ref.std_lt(da, db)


def make_canon(now):
    def canon(r):
        if r == "ARGERR":
            return "ERR"
        if not r.startswith("OK x"):
            return r
        t = unhx(r.split(" ")[1])
        # mask a wall-clock dev timestamp
        import re
        t2 = re.sub(r"(dev\.?)(\d{9,11})", lambda m: m.group(1) + ("NOW" if abs(int(m.group(2)) - now) <= 7200 else m.group(2)), t)
        return "OK " + hx(t2)
    return canon


def nontrivial(c, r):
    return r.startswith("OK") and ("2d" in r or "706f7374" in r or "646576" in r)


def run_check(tier, seed):
    run = Run(PID, tier, seed)
    rng = random.Random(seed * 1000003 + 3)
    now = int(time.time())
    kw = dict(nontrivial=nontrivial, describe=describe, canon=make_canon(now))
    n = 2500 if tier == "quick" else 100000

    def viol(stream, what, detail):
        run.add_violation("oracle", dict({"stream": stream, "what": what}, **detail), True)

    def base_args(tag, fmt_in, branch, rules, mode, hash_len, preset, out):
        a = ["--source=none", f"--tag-version={tag}", f"--input-format={fmt_in}", f"--output-format={out}"]
        if branch is not None:
            a.append(f"--bumped-branch={branch}")
        if rules is not None:
            a.append("--branch-rules=" + rules_ron(rules))
        if mode:
            a.append(f"--post-mode={mode}")
        if hash_len != 5:
            a.append(f"--hash-branch-len={hash_len}")
        if preset:
            a.append(f"--schema={preset}")
        return a

    # (a)+(b): exact at the tag; strictly between X.Y.Z and X.Y.(Z+1) in every other state
    cases, meta = [], []
    for _ in range(n):
        X, Y, Z = (rng.choice([0, 1, 2, 10, 99, 2 ** 32 - 2]) for _ in range(3))
        tag = f"{X}.{Y}.{Z}"
        out = rng.choice(["semver", "pep440"])
        branch = rng.choice(BRANCHES + [None])
        rules = rand_rules(rng)
        mode = rng.choice([None, None, "tag", "commit"])
        hash_len = rng.choice([5, 1, 3, 7, 9])
        preset = rng.choice(PRESETS_WITH_PRE + [None])
        distance = rng.choice([None, 0, 1, 2, 9, 1000])
        dirty = rng.choice([None, False, True])
        a = base_args(tag, rng.choice(["semver", "pep440", "auto"]), branch, rules, mode, hash_len, preset, out)
        if distance is not None:
            a.append(f"--distance={distance}")
        if dirty is True:
            a.append("--dirty")
        if dirty is False:
            a.append("--no-dirty")
        cases.append(flw("text", None, a, now, rules=rules))
        meta.append((X, Y, Z, out, distance, dirty, preset))
    res = correspond(run, "final_tag_all_states", cases, **kw)
    for (c, r, m, v), (X, Y, Z, out, distance, dirty, preset) in zip(res, meta):
        o = out_of(r)
        if o is None:
            continue
        clean = dirty is not True and distance in (None, 0)
        lo, hi = f"{X}.{Y}.{Z}", f"{X}.{Y}.{Z + 1}"
        if clean:
            core = o.split("+")[0]
            if core != lo:
                viol("final_tag_all_states", "a clean checkout exactly at a final tag must yield exactly the tag", {"request": c, "described": describe(c), "output": o})
        elif not (lt(out, lo, o) and lt(out, o, hi)):
            viol("final_tag_all_states", f"X.Y.Z < V < X.Y.(Z+1) violated in the {out} order", {"request": c, "described": describe(c), "output": o, "low": lo, "high": hi})

    # (c) commit post-mode: more commits after the same tag on the same branch give a strictly greater version
    cases, meta = [], []
    for _ in range(n // 2):
        X, Y, Z = (rng.choice([0, 1, 7]) for _ in range(3))
        out = rng.choice(["semver", "pep440"])
        branch = rng.choice(["main", "develop", "feature/x", "feature/12", "é", "hotfix/a"])
        # presets that print the post component (the smart ones do whenever distance > 0)
        preset = rng.choice(["standard", "standard-no-context", "standard-context", "standard-base-prerelease-post", "standard-base-prerelease-post-dev",
                             "standard-base-prerelease-post-context", None])
        ds = sorted(rng.sample([1, 2, 3, 9, 10, 11, 99, 100, 4000], 3))
        tagk = rng.choice([f"{X}.{Y}.{Z}", f"{X}.{Y}.{Z}-rc.2", f"{X}.{Y}.{Z}-alpha.1.post.3"])
        g = []
        for d in ds:
            a = base_args(tagk, "semver", branch, None, "commit", 5, preset, out) + [f"--distance={d}"]
            g.append(len(cases))
            cases.append(flw("text", None, a, now))
        meta.append((g, out))
    res = correspond(run, "commit_mode_growing_distance", cases, **kw)
    for g, out in meta:
        outs = [out_of(res[i][1]) for i in g]
        if None in outs:
            continue
        for a, b in zip(outs, outs[1:]):
            if not lt(out, a, b):
                viol("commit_mode_growing_distance", "adding commits must yield a strictly greater version", {"outputs": outs, "requests": [describe(res[i][0])["argv"] for i in g]})
                break

    # (d) a clean checkout at a pre-release tag of flow's own shapes yields that tag
    cases, meta = [], []
    for _ in range(n // 2):
        X, Y, Z = (rng.choice([0, 1, 7]) for _ in range(3))
        lab = rng.choice(["alpha", "beta", "rc"])
        N = rng.choice([0, 1, 12, 54321])
        P = rng.choice([None, 0, 1, 8])
        sv = f"{X}.{Y}.{Z}-{lab}.{N}" + (f".post.{P}" if P is not None else "")
        pp = f"{X}.{Y}.{Z}{ {'alpha': 'a', 'beta': 'b', 'rc': 'rc'}[lab] }{N}" + (f".post{P}" if P is not None else "")
        out = rng.choice(["semver", "pep440"])
        a = base_args(rng.choice([sv, pp]), "auto", rng.choice(BRANCHES + [None]), None, rng.choice([None, "tag", "commit"]), 5, rng.choice([None, "standard", "standard-no-context"]), out)
        if rng.random() < 0.5:
            a.append("--distance=0")
        if rng.random() < 0.5:
            a.append("--no-dirty")
        cases.append(flw("text", None, a, now))
        meta.append((sv if out == "semver" else pp))
    res = correspond(run, "clean_at_prerelease_tag", cases, **kw)
    for (c, r, m, v), want in zip(res, meta):
        if out_of(r) != want:
            viol("clean_at_prerelease_tag", "a clean checkout at a pre-release tag of flow's own shape must yield the tag unchanged", {"request": c, "described": describe(c), "output": r[:200], "expected": want})
    return run


RULE = ("requests are `zerv flow` runs (source none) with semver / pep440 text output over final-release tags x branch names x distances x dirty flags x rule sets "
        "x post modes x hash lengths x the standard presets that print the pre-release; each output is compared with the model and judged by the PUBLIC "
        "orders of the formats implemented independently in Python (SemVer section 11; PEP 440 standard _cmpkey order): exactness at the tag, strict "
        "two-sided bound, strict growth with distance, fixed point at flow-shaped pre-release tags; non-trivial = output carries a pre-release/post/dev part")
