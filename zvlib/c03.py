"""C03 - flow versions sort consistently with history."""
import time
from .common import *
from . import zgen, pep440_ref as ref
from .c04 import flw, rules_ron, rand_rules, BRANCHES, describe, DEFAULT_RULES
from .c10 import py_key

PID = "C03"
TARGETS = ["Props/C03.vo"]
PRESETS_WITH_PRE = ["standard", "standard-no-context", "standard-context", "standard-base-prerelease", "standard-base-prerelease-post",
                    "standard-base-prerelease-post-dev", "standard-base-prerelease-context", "standard-base-prerelease-post-context",
                    "standard-base-prerelease-post-dev-context"]


PRESETS_BASE = ["standard-base", "standard-base-context"]
KNOWN_BASE = "base-presets-print-the-next-release-itself"
PRESETS_NO_POST = ["standard-base", "standard-base-context", "standard-base-prerelease", "standard-base-prerelease-context"]
KNOWN_NOPOST = "presets-without-post-do-not-grow-with-commits"


def out_of(r):
    return unhx(r.split(" ")[1]) if r.startswith("OK ") else None


def lt(fmt, a, b):
    """strictly lower in the public order of the format (independent references)"""
    if fmt == "semver":
        ka, kb = py_key(a), py_key(b)
        return ka is not None and kb is not None and ka < kb
    da, db = ref.parse(a), ref.parse(b)
    return da is not None and db is not None and ref.std_lt(da, db)


def make_canon(now):
    def canon(r):
        if r == "ARGERR":
            return "ERR"
        if not r.startswith("OK x"):
            return r
        t = unhx(r.split(" ")[1])
        # mask a wall-clock dev timestamp
        import re
        t2 = re.sub(r"(dev\.?)(\d{9,11})", lambda m: m.group(1) + ("NOW" if abs(int(m.group(2)) - now) <= 7200 else m.group(2)), t)
        return "OK " + hx(t2)
    return canon


def nontrivial(c, r):
    return r.startswith("OK") and ("2d" in r or "706f7374" in r or "646576" in r)


def run_check(tier, seed):
    run = Run(PID, tier, seed)
    rng = random.Random(seed * 1000003 + 3)
    now = int(time.time())
    kw = dict(nontrivial=nontrivial, describe=describe, canon=make_canon(now))
    n = 2500 if tier == "quick" else 100000

    def viol(stream, what, detail):
        run.add_violation("oracle", dict({"stream": stream, "what": what}, **detail), True)

    def base_args(tag, fmt_in, branch, rules, mode, hash_len, preset, out):
        a = ["--source=none", f"--tag-version={tag}", f"--input-format={fmt_in}", f"--output-format={out}"]
        if branch is not None:
            a.append(f"--bumped-branch={branch}")
        if rules is not None:
            a.append("--branch-rules=" + rules_ron(rules))
        if mode:
            a.append(f"--post-mode={mode}")
        if hash_len != 5:
            a.append(f"--hash-branch-len={hash_len}")
        if preset:
            a.append(f"--schema={preset}")
        return a

    # (a)+(b): exact at the tag; strictly between X.Y.Z and X.Y.(Z+1) in every other state
    cases, meta = [], []
    for _ in range(n):
        X, Y, Z = (rng.choice([0, 1, 2, 10, 99, 2 ** 32 - 2]) for _ in range(3))
        tag = f"{X}.{Y}.{Z}"
        out = rng.choice(["semver", "pep440"])
        branch = rng.choice(BRANCHES + [None])
        rules = rand_rules(rng)
        mode = rng.choice([None, None, "tag", "commit"])
        hash_len = rng.choice([5, 1, 3, 7, 9])
        preset = rng.choice(PRESETS_WITH_PRE + [None]) if rng.random() < 0.9 else rng.choice(PRESETS_BASE)
        distance = rng.choice([None, 0, 1, 2, 9, 1000])
        dirty = rng.choice([None, False, True])
        a = base_args(tag, rng.choice(["semver", "pep440", "auto"]), branch, rules, mode, hash_len, preset, out)
        if distance is not None:
            a.append(f"--distance={distance}")
        if dirty is True:
            a.append("--dirty")
        if dirty is False:
            a.append("--no-dirty")
        stdin = None
        if rng.random() < 0.2:
            # the base tag comes from --tag-version while the object on stdin still carries the parts of an older pre-release
            # (what a repository looks like whose previous tag was a flow version): the override replaces ALL version parts
            ov = zgen.rand_vars(rng)
            ov.update({"major": 0, "minor": 9, "patch": 0, "pre": (rng.choice(["a", "b", "rc"]), rng.choice([0, 2, 14467])), "post": rng.choice([None, 3]), "dev": rng.choice([None, 1700000000]),
                       "epoch": None, "distance": None, "dirty": None})
            stdin = zgen.enc_zerv({"core": [("v", "Major"), ("v", "Minor"), ("v", "Patch")], "extra": [("v", "Epoch"), ("v", "PreRelease"), ("v", "Post"), ("v", "Dev")], "build": []}, ov)
            a[0] = "--source=stdin"
            if preset is None:
                a.append("--schema=standard")
                preset = "standard"
        cases.append(flw("text", stdin, a, now, rules=rules))
        meta.append((X, Y, Z, out, distance, dirty, preset))
    res = correspond(run, "final_tag_all_states", cases, **kw)
    for (c, r, m, v), (X, Y, Z, out, distance, dirty, preset) in zip(res, meta):
        o = out_of(r)
        if o is None:
            continue
        clean = dirty is not True and distance in (None, 0)
        lo, hi = f"{X}.{Y}.{Z}", f"{X}.{Y}.{Z + 1}"
        if clean:
            core = o.split("+")[0]
            if core != lo:
                viol("final_tag_all_states", "a clean checkout exactly at a final tag must yield exactly the tag", {"request": c, "described": describe(c), "output": o})
        elif preset in PRESETS_BASE and o.split("+")[0] == hi:
            run.known_hits[KNOWN_BASE] += 1        # the base presets hide the pre-release: the version printed is X.Y.(Z+1) itself (listed finding)
        elif not (lt(out, lo, o) and lt(out, o, hi)):
            viol("final_tag_all_states", f"X.Y.Z < V < X.Y.(Z+1) violated in the {out} order", {"request": c, "described": describe(c), "output": o, "low": lo, "high": hi})

    # (c) commit post-mode: more commits after the same tag on the same branch give a strictly greater version
    cases, meta = [], []
    for _ in range(n // 2):
        X, Y, Z = (rng.choice([0, 1, 7]) for _ in range(3))
        out = rng.choice(["semver", "pep440"])
        branch = rng.choice(["main", "develop", "feature/x", "feature/12", "é", "hotfix/a"])
        # presets that print the post component (the smart ones do whenever distance > 0)
        preset = rng.choice(["standard", "standard-no-context", "standard-context", "standard-base-prerelease-post", "standard-base-prerelease-post-dev",
                             "standard-base-prerelease-post-context", None]) if rng.random() < 0.9 else rng.choice(PRESETS_NO_POST)
        ds = sorted(rng.sample([1, 2, 3, 9, 10, 11, 99, 100, 4000], 3))
        tagk = rng.choice([f"{X}.{Y}.{Z}", f"{X}.{Y}.{Z}-rc.2", f"{X}.{Y}.{Z}-alpha.1.post.3"])
        g = []
        for d in ds:
            a = base_args(tagk, "semver", branch, None, "commit", 5, preset, out) + [f"--distance={d}"]
            g.append(len(cases))
            cases.append(flw("text", None, a, now))
        meta.append((g, out, preset))
    res = correspond(run, "commit_mode_growing_distance", cases, **kw)
    for g, out, preset in meta:
        outs = [out_of(res[i][1]) for i in g]
        if None in outs:
            continue
        for a, b in zip(outs, outs[1:]):
            if preset in PRESETS_NO_POST and not lt(out, a, b) and not lt(out, b, a):
                run.known_hits[KNOWN_NOPOST] += 1       # the distance is not shown (or only as build metadata): equal precedence (listed finding)
                break
            if not lt(out, a, b):
                viol("commit_mode_growing_distance", "adding commits must yield a strictly greater version", {"outputs": outs, "requests": [describe(res[i][0])["argv"] for i in g]})
                break

    # (d) a clean checkout at a pre-release tag of flow's own shapes yields that tag
    cases, meta = [], []
    for _ in range(n // 2):
        X, Y, Z = (rng.choice([0, 1, 7]) for _ in range(3))
        lab = rng.choice(["alpha", "beta", "rc"])
        N = rng.choice([0, 1, 12, 54321])
        P = rng.choice([None, 0, 1, 8])
        sv = f"{X}.{Y}.{Z}-{lab}.{N}" + (f".post.{P}" if P is not None else "")
        pp = f"{X}.{Y}.{Z}{ {'alpha': 'a', 'beta': 'b', 'rc': 'rc'}[lab] }{N}" + (f".post{P}" if P is not None else "")
        out = rng.choice(["semver", "pep440"])
        a = base_args(rng.choice([sv, pp]), "auto", rng.choice(BRANCHES + [None]), None, rng.choice([None, "tag", "commit"]), 5, rng.choice([None, "standard", "standard-no-context"]), out)
        if rng.random() < 0.5:
            a.append("--distance=0")
        if rng.random() < 0.5:
            a.append("--no-dirty")
        cases.append(flw("text", None, a, now))
        meta.append((sv if out == "semver" else pp))
    res = correspond(run, "clean_at_prerelease_tag", cases, **kw)
    for (c, r, m, v), want in zip(res, meta):
        if out_of(r) != want:
            viol("clean_at_prerelease_tag", "a clean checkout at a pre-release tag of flow's own shape must yield the tag unchanged", {"request": c, "described": describe(c), "output": r[:200], "expected": want})

    real_histories(run, rng, tier, viol)
    return run


def real_histories(run, rng, tier, viol):
    """(e) the same laws on REAL repositories through the binary (`zerv flow` reading git): the git layer decides what 'clean', 'ahead'
    and 'the base tag' are, so a defect there (staged changes not dirty, a pre-release tag preferred to the final tag on the same commit,
    tags read in another order) breaks the order of the versions although the flow logic is untouched."""
    import shutil, tempfile
    from . import gitfx
    from .cli import run_procs
    root = tempfile.mkdtemp(prefix="zv03-")
    T = 1700000000
    X, Y, Z = rng.choice([(1, 2, 3), (0, 0, 9), (7, 10, 0)])
    final = f"v{X}.{Y}.{Z}"
    extra_tags = [[], [("tag", f"v{X}.{Y}.{Z}-rc.2"), ("tag", f"v{X}.{Y}.{Z}-rc.10")], [("tag", f"v{X}.{Y}.{Z}-alpha.1"), ("tag", f"{X}.{Y}.{Z}rc1")],
                  [("atag", f"v{X}.{Y}.{Z}-beta.3", T + 2), ("tag", "nightly")]]
    states = {
        "clean": [],
        "staged_new_file": [("dirty", "staged")],
        "modified_unstaged": [("dirty", "modified")],
        "untracked": [("dirty", "untracked")],
        "ahead1": [("commit", T + 100)],
        "ahead3": [("commit", T + 100), ("commit", T + 200), ("commit", T + 300)],
        "ahead1_staged": [("commit", T + 100), ("dirty", "staged")],
        "feature_ahead2": [("branch", "feature/login-7"), ("commit", T + 100), ("commit", T + 200)],
        "release_ahead1": [("branch", "release/2"), ("commit", T + 100)],
        "develop_ahead1_dirty": [("branch", "develop"), ("commit", T + 100), ("dirty", "modified")],
    }
    jobs = []
    try:
        for ti, tags in enumerate(extra_tags):
            for sn, steps in states.items():
                # the final tag is created last or first among the tags of the commit: creation order must not matter
                order = [("tag", final)] + tags if (ti + len(sn)) % 2 else tags + [("tag", final)]
                path = os.path.join(root, f"r{ti}_{sn}")
                gitfx.build_repo(path, [("commit", T)] + order + steps)
                for out in ("semver", "pep440"):
                    for extra in ([], ["--schema=standard-base-prerelease-post-dev"]):
                        jobs.append((ti, sn, path, out, ["flow", f"--output-format={out}"] + extra))
        st = run.streams.setdefault("real_git_histories_at_a_final_tag", {"repositories": len(extra_tags) * len(states), "runs": 0, "exit0": 0})
        groups = {}
        for j in jobs:
            groups.setdefault(j[2], []).append(j)
        results = {}
        for path, js in groups.items():
            res = run_procs([(j[4], None) for j in js], env={"TZ": "UTC"}, cwd=path)
            for j, r in zip(js, res):
                results[(j[2], j[3], tuple(j[4]))] = r
        lo, hi = f"{X}.{Y}.{Z}", f"{X}.{Y}.{Z + 1}"
        for ti, sn, path, out, argv in jobs:
            rc, so, se = results[(path, out, tuple(argv))]
            st["runs"] += 1
            run.evaluations += 1
            desc = {"repository": f"one commit tagged {final} plus {[t[1] for t in extra_tags[ti]]}, then {states[sn] or 'nothing'}", "argv": argv}
            if rc != 0:
                viol("real_git_histories_at_a_final_tag", "flow fails on a plain repository", {"described": desc, "stderr": se.decode("utf-8", "replace")[-300:]})
                continue
            st["exit0"] += 1
            o = so.decode("utf-8", "replace").strip()
            run.nontrivial.add(o)
            if sn == "clean":
                if o.split("+")[0] != lo:
                    viol("real_git_histories_at_a_final_tag", "a clean checkout exactly at a final tag must yield exactly the tag (the final tag outranks the pre-release tags on the same commit)",
                         {"described": desc, "output": o, "expected": lo})
            elif not (lt(out, lo, o) and lt(out, o, hi)):
                viol("real_git_histories_at_a_final_tag", f"X.Y.Z < V < X.Y.(Z+1) violated in the {out} order for a dirty / ahead checkout",
                     {"described": desc, "output": o, "low": lo, "high": hi})
        # more commits on the same branch after the same tag: strictly growing
        for ti in range(len(extra_tags)):
            for out in ("semver", "pep440"):
                a = results[(os.path.join(root, f"r{ti}_ahead1"), out, ("flow", f"--output-format={out}"))]
                b = results[(os.path.join(root, f"r{ti}_ahead3"), out, ("flow", f"--output-format={out}"))]
                if a[0] == 0 and b[0] == 0:
                    oa, ob = a[1].decode().strip(), b[1].decode().strip()
                    run.evaluations += 1
                    if not lt(out, oa, ob):
                        viol("real_git_histories_at_a_final_tag", "adding commits must yield a strictly greater version", {"outputs": [oa, ob], "format": out})
        # along the first-parent chain of main through criss-cross --no-ff merges: every step adds commits (the last one only merge
        # commits), so every step must print a strictly greater version
        base = [("commit", T), ("tag", final), ("branch", "side"), ("commit", T + 10), ("checkout", "main"), ("commit", T + 20)]
        chain = [base, base + [("merge", "side", T + 30)],
                 base + [("merge", "side", T + 30), ("checkout", "side"), ("merge", "main", T + 40), ("checkout", "main"), ("merge", "side", T + 50)],
                 base + [("merge", "side", T + 30), ("checkout", "side"), ("merge", "main", T + 40), ("checkout", "main"), ("merge", "side", T + 50), ("commit", T + 60)]]
        cpaths = []
        for k, script in enumerate(chain):
            pth = os.path.join(root, f"chain{k}")
            gitfx.build_repo(pth, script)
            cpaths.append(pth)
        for out in ("semver", "pep440"):
            outs = []
            for pth in cpaths:
                rc, so, se = run_procs([(["flow", f"--output-format={out}"], None)], env={"TZ": "UTC"}, cwd=pth)[0]
                outs.append(so.decode("utf-8", "replace").strip() if rc == 0 else None)
            st["merge_chain_steps"] = len(cpaths)
            run.evaluations += len(cpaths)
            if None in outs:
                viol("real_git_histories_at_a_final_tag", "flow fails along a chain of merges", {"outputs": outs, "format": out})
            else:
                for a, b in zip(outs, outs[1:]):
                    if not lt(out, a, b):
                        viol("real_git_histories_at_a_final_tag", "adding commits (criss-cross merges on the first-parent chain of main) must yield a strictly greater version",
                             {"outputs": outs, "format": out, "history": "tag; side: b1; main: a1 | main merges side | side merges main, main merges side | main: a2"})
                        break
        # commits after the tag whose committer dates are OLDER than the tagged commit's (clock skew, replayed or imported commits): every commit
        # counts, whatever its date - growth along the chain and the bounds hold
        bpaths = []
        for k in (1, 2, 3):
            pth = os.path.join(root, f"backdated{k}")
            gitfx.build_repo(pth, [("commit", T), ("tag", final)] + [("commit", T - 86400 * (5 - j)) for j in range(min(k, 2))] + ([("commit", T + 500)] if k == 3 else []))
            bpaths.append(pth)
        for out in ("semver", "pep440"):
            outs = []
            for pth in bpaths:
                rc, so, se = run_procs([(["flow", f"--output-format={out}"], None)], env={"TZ": "UTC"}, cwd=pth)[0]
                run.evaluations += 1
                st["runs"] += 1
                outs.append(so.decode("utf-8", "replace").strip() if rc == 0 else None)
            if None in outs:
                viol("real_git_histories_at_a_final_tag", "flow fails on a history with back-dated commits", {"outputs": outs, "format": out})
            else:
                for o in outs:
                    if not (lt(out, lo, o) and lt(out, o, hi)):
                        viol("real_git_histories_at_a_final_tag", f"X.Y.Z < V < X.Y.(Z+1) violated in the {out} order after back-dated commits", {"outputs": outs, "low": lo, "high": hi})
                        break
                for a, b in zip(outs, outs[1:]):
                    if not lt(out, a, b):
                        viol("real_git_histories_at_a_final_tag", "adding commits (with committer dates older than the tag's) must yield a strictly greater version",
                             {"outputs": outs, "format": out, "history": "tag; one, two back-dated commits; then one normally dated"})
                        break
        # the base tag reaches HEAD only through the SECOND parent of a merge (a release tagged on its branch and merged --no-ff into a main
        # that moved on), with and without an older tag on the first-parent chain: the bounds are those of the reachable final tag
        older = f"v{X}.{Y}.{Z - 1}" if Z > 0 else (f"v{X}.{Y - 1}.5" if Y > 0 else f"v{X - 1}.0.0" if X > 0 else None)
        merged = []
        for k, with_older in enumerate([False, True]):
            if with_older and older is None:
                continue
            script = [("commit", T)] + ([("tag", older)] if with_older else []) + [("branch", "release/1"), ("commit", T + 10), ("tag", final), ("checkout", "main"),
                      ("commit", T + 20), ("merge", "release/1", T + 30)]
            for extra_steps, nm in (([], "merged"), ([("commit", T + 40)], "merged_then_commit"), ([("branch", "develop"), ("commit", T + 40), ("merge", "main", T + 50)], "develop")):
                pth = os.path.join(root, f"second_parent{k}_{nm}")
                gitfx.build_repo(pth, script + extra_steps)
                merged.append((pth, f"{'older tag ' + older + ' on the first commit; ' if with_older else ''}release/1: commit tagged {final}; main: commit, merge --no-ff release/1; {nm}"))
        for pth, hist in merged:
            for out in ("semver", "pep440"):
                rc, so, se = run_procs([(["flow", f"--output-format={out}"], None)], env={"TZ": "UTC"}, cwd=pth)[0]
                run.evaluations += 1
                st["runs"] += 1
                if rc != 0:
                    viol("real_git_histories_at_a_final_tag", "flow fails although a final tag is reachable (through the second parent of a merge)", {"history": hist, "stderr": se.decode("utf-8", "replace")[-300:]})
                    continue
                st["exit0"] += 1
                o = so.decode("utf-8", "replace").strip()
                if not (lt(out, lo, o) and lt(out, o, hi)):
                    viol("real_git_histories_at_a_final_tag", f"X.Y.Z < V < X.Y.(Z+1) violated in the {out} order: the base must be the reachable final tag, whichever parent it is reached through",
                         {"history": hist, "output": o, "low": lo, "high": hi})
        # a checkout exactly at the tag with the state overridden on the command line: --distance N / --dirty are the state the version is derived from
        for ti in range(len(extra_tags)):
            pth = os.path.join(root, f"r{ti}_clean")
            for out in ("semver", "pep440"):
                got = {}
                for ov in (["--distance=1"], ["--distance=3"], ["--dirty"], ["--distance=2", "--dirty"], ["--distance=0"], ["--distance=3", "--schema=standard-base-prerelease-post-dev"]):
                    rc, so, se = run_procs([(["flow", f"--output-format={out}"] + ov, None)], env={"TZ": "UTC"}, cwd=pth)[0]
                    run.evaluations += 1
                    st["runs"] += 1
                    o = so.decode("utf-8", "replace").strip() if rc == 0 else None
                    got[tuple(ov)] = o
                    if o is None:
                        viol("real_git_histories_at_a_final_tag", "flow fails at the tag under a state override", {"argv": ov, "stderr": se.decode("utf-8", "replace")[-300:]})
                    elif ov == ["--distance=0"]:
                        if o.split("+")[0] != lo:
                            viol("real_git_histories_at_a_final_tag", "--distance 0 at the tag is the clean tagged state", {"argv": ov, "output": o, "expected": lo})
                    elif not (lt(out, lo, o) and lt(out, o, hi)):
                        viol("real_git_histories_at_a_final_tag", f"X.Y.Z < V < X.Y.(Z+1) violated in the {out} order for a checkout at the tag with the state overridden",
                             {"argv": ov, "output": o, "low": lo, "high": hi})
                a, b = got.get(("--distance=1",)), got.get(("--distance=3",))
                if a and b and not lt(out, a, b):
                    viol("real_git_histories_at_a_final_tag", "a larger --distance must yield a strictly greater version", {"outputs": [a, b], "format": out})
        run.samples.append({"stream": "real_git_histories_at_a_final_tag", "argv": jobs[0][4], "output": results[(jobs[0][2], jobs[0][3], tuple(jobs[0][4]))][1].decode("utf-8", "replace")[:200]})
    finally:
        shutil.rmtree(root, ignore_errors=True)


RULE = ("requests are `zerv flow` runs (source none) with semver / pep440 text output over final-release tags x branch names x distances x dirty flags x rule sets "
        "x post modes x hash lengths x the standard presets that print the pre-release; each output is compared with the model and judged by the PUBLIC "
        "orders of the formats implemented independently in Python (SemVer section 11; PEP 440 standard _cmpkey order): exactness at the tag, strict "
        "two-sided bound, strict growth with distance, fixed point at flow-shaped pre-release tags; the same laws on 40 real repositories through the binary "
        "(final tag alone or sharing its commit with pre-release tags; clean / staged / modified / untracked / ahead on main, feature, release, develop; the tag reached only through the second parent of a merge; commits after the tag dated before it; the checkout at the tag under --distance / --dirty overrides); "
        "non-trivial = output carries a pre-release/post/dev part")
