"""C10 - SemVer comparison is SemVer 2.0.0 precedence."""
import itertools
from .common import *

PID = "C10"
TARGETS = ["Props/C10.vo"]
NUMS = ["0", "1", "2", "10"]
IDS6 = ["0", "1", "10", "a", "B", "a-"]


def describe(c):
    f = c.split(" ")
    try:
        if f[0] == "SVC":
            return {"op": "SemVer cmp / ==", "a": unhx(f[1]), "b": unhx(f[2])}
        if f[0] == "VMAX":
            return {"op": "GitUtils::find_max_version_tag", "format": f[1], "tags": [unhx(x) for x in f[3:]]}
    except Exception:
        pass
    return c


def universe_pre():
    pres = [None]
    for k in (1, 2, 3):
        for t in itertools.product(IDS6, repeat=k):
            pres.append(".".join(t))
    return pres


def mk(core, pre, build=None):
    s = core
    if pre is not None:
        s += "-" + pre
    if build is not None:
        s += "+" + build
    return s


def rand_id(rng):
    r = rng.random()
    if r < 0.4:
        return str(rng.choice([0, 1, 2, 9, 10, 11, 99, 100, 2 ** 32, 2 ** 64 - 1, 2 ** 64 - 2, 2 ** 63]))
    if r < 0.55:      # same stem, digit tails whose numeric and ASCII orders disagree (SemVer compares alphanumerics in ASCII order)
        return rng.choice(["rc9", "rc10", "a1b", "a9", "a10", "beta11", "beta100", "build7", "build12", "rc1", "rc01", "x-9", "x-10", "9a", "10a"])
    if r < 0.7:       # the words zerv itself gives a meaning to elsewhere (labels of its own SemVer shape): in precedence they are plain identifiers;
                      # and identifiers around '-' (0x2D sorts below '.', which must never matter: identifiers are compared one by one)
        return rng.choice(["post", "dev", "epoch", "alpha", "beta", "rc", "Post", "postfix", "pos", "post1", "alpha-beta", "alpha-", "-", "--", "-alpha", "a-", "a-b", "rc-x", "x-"])
    return "".join(rng.choice("012abAB-zZ") for _ in range(rng.randint(1, 4))) or "a"


def fix_id(x):
    # keep it inside the grammar: numeric identifiers without leading zeros
    if x.isdigit() and len(x) > 1 and x[0] == "0":
        return x.lstrip("0") or "0"
    return x


def rand_ver(rng):
    core = ".".join(str(rng.choice([0, 1, 2, 10, 2 ** 64 - 1, 7, 2 ** 32, 2 ** 32 + 1, 2 ** 32 - 1, 1700000000000, 1717171717171, 2 ** 63])) for _ in range(3))
    pre = None
    if rng.random() < 0.75:
        pre = ".".join(fix_id(rand_id(rng)) for _ in range(rng.randint(1, 5)))
    build = None
    if rng.random() < 0.3:
        build = rng.choice(["b", "001", "b.2", "x-y"])
    return rng.choice(["", "", "v"]) + mk(core, pre, build)


def rand_family(rng, k):
    """k versions that share the core triple and a pre-release prefix and differ from one position on: precedence is then decided
    by a single identifier comparison (or by list length), which is where the section 11 rules live"""
    core = ".".join(str(rng.choice([0, 1, 2, 10, 2 ** 64 - 1, 2 ** 32])) for _ in range(3))
    prefix = [fix_id(rand_id(rng)) for _ in range(rng.randint(0, 2))]
    out = []
    for _ in range(k):
        r = rng.random()
        if r < 0.08:
            ids = list(prefix)                                    # the bare prefix (shorter list / the release itself when empty)
        else:
            ids = prefix + [fix_id(rand_id(rng))]
            if rng.random() < 0.3:
                ids += [fix_id(rand_id(rng)) for _ in range(rng.randint(1, 2))]
        build = rng.choice([None, None, "b", "001"])
        out.append(rng.choice(["", "", "v"]) + mk(core, ".".join(ids) if ids else None, build))
    return out


import re as _re
_SV = _re.compile(r"^v?(0|[1-9][0-9]*)\.(0|[1-9][0-9]*)\.(0|[1-9][0-9]*)(?:-([0-9A-Za-z.-]+))?(?:\+([0-9A-Za-z.-]+))?$")
KNOWN_BIG = "numeric-identifier>=2^64"


def py_key(s):
    """SemVer 2.0.0 section 11 on strings, with exact integers (independent reference)"""
    m = _SV.match(s)
    if not m:
        return None
    core = tuple(int(m.group(i)) for i in (1, 2, 3))
    if m.group(4) is None:
        return (core, (1,))                       # no pre-release: higher
    ids = tuple((0, int(x), "") if x.isdigit() else (1, 0, x) for x in m.group(4).split("."))
    return (core, (0, ids))


def has_big(s):
    m = _SV.match(s)
    return bool(m and m.group(4) and any(x.isdigit() and int(x) >= 2 ** 64 for x in m.group(4).split(".")))


def py_oracle(run, stream, res):
    for c, r, m, v in res:
        f = c.split(" ")
        if f[0] != "SVC" or r == "ERR":
            continue
        a, b = unhx(f[1]), unhx(f[2])
        ka, kb = py_key(a), py_key(b)
        if ka is None or kb is None:
            continue
        exp = "LT" if ka < kb else "GT" if ka > kb else "EQ"
        if r.split(" ")[0] != exp:
            if has_big(a) or has_big(b):
                run.known_hits[KNOWN_BIG] += 1
            else:
                run.add_violation("oracle", {"stream": stream, "request": c, "described": describe(c), "impl_reply": r, "expected": exp,
                                             "oracle": "python reference of SemVer section 11 on the strings"}, True)


def nontrivial(c, r):
    return r.startswith(("LT", "GT", "OK"))


def corpus():
    pairs = [("1.0.0-alpha", "1.0.0"), ("1.0.0-Beta", "1.0.0-alpha"), ("1.0.0-SNAPSHOT", "1.0.0-rc.1"), ("1.2.3+build.1", "1.2.3+build.2"),
             ("1.2.3", "1.2.3+sha.abc"), ("1.0.0-rc.1+9", "1.0.0-rc.1+10"), ("1.0.0-alpha.1", "1.0.0-alpha.beta"), ("1.0.0-2", "1.0.0-10"),
             ("1.0.0-a", "1.0.0-a.0"), ("1.0.0-18446744073709551615", "1.0.0-a"), ("1.0.0--", "1.0.0-0"), ("2.0.0", "10.0.0"),
             ("1.0.0-18446744073709551616", "1.0.0-100000000000000000000"), ("1.0.0-18446744073709551616", "1.0.0--"), ("1.0.0-18446744073709551616", "1.0.0-5")]
    cs = []
    for a, b in pairs:
        cs.append(f"SVC {hx(a)} {hx(b)}")
        cs.append(f"SVC {hx(b)} {hx(a)}")
    cs.append("VMAX semver 2 " + hx("v1.0.0-Beta") + " " + hx("v1.0.0-alpha"))
    cs.append("VMAX semver 3 " + hx("v1.0.0+9") + " " + hx("v1.0.0+10") + " " + hx("1.0.0"))
    return cs


def run_check(tier, seed):
    run = Run(PID, tier, seed)
    rng = random.Random(seed * 1000003 + 10)
    kw = dict(nontrivial=nontrivial, describe=describe)
    from . import common as _common

    def correspond(run_, stream, cases, **k):       # every stream is also judged by the python reference
        res = _common.correspond(run_, stream, cases, **k)
        py_oracle(run_, stream, res)
        return res
    correspond(run, "corpus", corpus(), **kw)

    pres = universe_pre()
    # all pairs over one core triple x all pre-release lists (<=3 identifiers over a 6-element alphabet)
    core = "1.2.10"
    vs = [mk(core, p) for p in pres]
    if tier == "quick":
        pairs = [(a, b) for a in vs for b in vs if rng.random() < 0.45]
    else:
        pairs = [(a, b) for a in vs for b in vs]
    correspond(run, "all_pairs_one_core_x_prerelease_lists<=3_over_6_ids" + ("(45% sample)" if tier == "quick" else ""),
               [f"SVC {hx(a)} {hx(b)}" for a, b in pairs], **kw)
    # all core triples over {0,1,2,10}, no pre-release, plus a few pre-releases
    cores = [".".join(t) for t in itertools.product(NUMS, repeat=3)]
    pairs = [(a, b) for a in cores for b in cores]
    pairs += [(mk(a, p), mk(b, q)) for a in cores[:16] for b in cores[:16] for p in (None, "a", "1") for q in (None, "a", "1")]
    correspond(run, "all_pairs_core_triples_over_{0,1,2,10}", [f"SVC {hx(a)} {hx(b)}" for a, b in pairs], **kw)
    run.exhaustive = tier != "quick"

    n = 15000 if tier == "quick" else 500000
    cases = []
    for _ in range(n):
        a, b = rand_ver(rng), rand_ver(rng)
        if rng.random() < 0.3:
            b = a.split("+")[0] + rng.choice(["", "+zz", "+1"])
        cases.append(f"SVC {hx(a)} {hx(b)}")
    res = correspond(run, "random_pairs_incl_u64_boundary_numbers", cases, **kw)
    cases = []
    for _ in range(n):
        a, b = rand_family(rng, 2)
        cases.append(f"SVC {hx(a)} {hx(b)}")
    correspond(run, "pairs_sharing_core_and_prerelease_prefix(one identifier decides)", cases, **kw)

    # antisymmetry / transitivity judged on the implementation's own answers (independent of the model)
    triples = [(rand_ver(rng), rand_ver(rng), rand_ver(rng)) for _ in range(n // 10)] + [tuple(rand_family(rng, 3)) for _ in range(n // 5)]
    reqs = []
    for a, b, c in triples:
        reqs += [f"SVC {hx(a)} {hx(b)}", f"SVC {hx(b)} {hx(c)}", f"SVC {hx(a)} {hx(c)}", f"SVC {hx(b)} {hx(a)}"]
    res = correspond(run, "random_triples_transitivity_antisymmetry", reqs, **kw)
    opp = {"LT": "GT", "GT": "LT", "EQ": "EQ"}
    for i in range(0, len(res), 4):
        ab, bc, ac, ba = [res[i + k][1].split(" ")[0] for k in range(4)]
        if "ERR" in (ab, bc, ac, ba):
            continue
        bad = None
        if any(x not in opp for x in (ab, bc, ac, ba)):
            bad = "a comparison did not return an ordering (panic / unexpected reply): the order is not total"
        elif opp[ab] != ba:
            bad = "antisymmetry"
        elif ab == bc and ab != "EQ" and ac != ab:
            bad = "transitivity"
        elif ab == "EQ" and ac != bc:
            bad = "equality-congruence"
        if bad:
            run.add_violation("oracle", {"stream": "triples", "what": bad, "triple": [describe(res[i + k][0]) for k in range(4)],
                                         "impl": [ab, bc, ac, ba]}, True)

    cases = []
    for _ in range(n // 5):
        k = rng.randint(1, 6)
        tags = [rand_ver(rng) for _ in range(k)] if rng.random() < 0.5 else rand_family(rng, k)
        if rng.random() < 0.4:
            tags.append(tags[0].split("+")[0] + "+dup")
        rng.shuffle(tags)
        cases.append(f"VMAX semver {len(tags)} " + " ".join(hx(t) for t in tags))
    correspond(run, "find_max_version_tag_random_tag_sets", cases, **kw)
    return run


RULE = ("requests are pairs / triples / tag sets of SemVer strings compared through Ord::cmp, == and find_max_version_tag; "
        "exhaustive over the small universe of the property's quantifier (numbers {0,1,2,10}; identifier lists up to length 3 over "
        "6 identifiers, one core triple) plus random large versions; non-trivial = the pair is ordered (LT/GT) or a maximum was chosen")
