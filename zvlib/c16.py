"""C16 - the sanitiser contract: generators and stream definitions."""
import itertools
from .common import *

PID = "C16"
TARGETS = ["Props/C16.vo"]
ALPHA9 = ["0", "1", "a", "A", ".", "-", "_", "/", "é"]
SEPS = [".", "-", "_", None]

POOL_ALNUM = list("0019aAzZbB")
POOL_SEP = list(".-_/ +@#\t\n")
POOL_UNI = ["é", "ß", "İ", "K", "ſ", "Σ", "ǅ", "١", "５",
            "́", "\U0001d7d8", "\U0001f600", " ", " ", "　", "\u0085", "\u0001", "中"]


def describe(c):
    f = c.split(" ")
    try:
        if f[0] == "SAN":
            return {"op": "Sanitizer::str(sep,lower,keep_zeros,max).sanitize(s)", "sep": None if f[1] == "~" else unhx(f[1]),
                    "lower": f[2] == "1", "keep_zeros": f[3] == "1", "max_length": None if f[4] == "~" else int(f[4]),
                    "s": unhx(f[5])}
        if f[0] == "SANP":
            return {"op": f"Sanitizer::{f[1]}().sanitize(s)", "s": unhx(f[2])}
    except Exception:
        pass
    return c


def san(sep, lower, keep, mx, s):
    return f"SAN {ohx(sep)} {b01(lower)} {b01(keep)} {'~' if mx is None else mx} {hx(s)}"


def strings_upto(n):
    for k in range(n + 1):
        for t in itertools.product(ALPHA9, repeat=k):
            yield "".join(t)


def rand_str(rng, maxlen=24):
    n = rng.randint(0, maxlen)
    out = []
    for _ in range(n):
        r = rng.random()
        pool = POOL_ALNUM if r < 0.55 else POOL_SEP if r < 0.8 else POOL_UNI
        out.append(rng.choice(pool))
    return "".join(out)


def nontrivial(c, r):
    d = describe(c)
    s = d.get("s", "") if isinstance(d, dict) else ""
    return any(ch.isascii() and ch.isalnum() for ch in s) and any(not (ch.isascii() and ch.isalnum()) for ch in s)


def corpus():
    cs = []
    # witnesses of the defects repaired by the fix: commits (regression corpus)
    cs.append(san(".", False, False, None, "fé/β"))           # D6
    cs.append(san(None, False, True, 3, "ééé"))           # D7 (truncate off a boundary)
    cs.append(san(".", False, False, 4, "a.00a"))                       # D8
    cs.append(san(".", True, False, None, "K"))                    # D18
    cs.append(san(".", True, False, None, "İx"))
    cs.append(san("-", False, False, 2, "-abc"))
    cs.append("SANP uint " + hx("  42  "))
    cs.append("SANP uint " + hx("١٢"))
    cs.append("SANP pep440 " + hx("Feature/API-v2"))
    return cs


def run_check(tier, seed):
    run = Run(PID, tier, seed)
    rng = random.Random(seed * 1000003 + 16)
    kw = dict(nontrivial=nontrivial, describe=describe)

    correspond(run, "corpus", corpus(), **kw)

    # exhaustive short strings x all configurations
    L = 4 if tier == "quick" else 5
    maxes = [None, 0, 1, 2, 3, 5] if tier == "quick" else [None, 0, 1, 2, 3, 4, 5, 6, 7]
    cases = []
    for s in strings_upto(L):
        for sep in SEPS:
            for lower in (False, True):
                for keep in (False, True):
                    for mx in maxes:
                        cases.append(san(sep, lower, keep, mx, s))
    correspond(run, f"exhaustive_len<={L}_alphabet9_x_all_configs", cases, **kw)
    run.exhaustive = True
    run.extra["exhaustive_scope"] = f"all strings of length <= {L} over {ALPHA9} x separators {SEPS} x lowercase x keep_zeros x max_length in {maxes}"

    # sampled length 5..6 (quick) / 6 (thorough)
    cases = []
    nsamp = 60000 if tier == "quick" else 1500000
    for _ in range(nsamp):
        n = rng.choice([5, 6]) if tier == "quick" else 6
        s = "".join(rng.choice(ALPHA9) for _ in range(n))
        cases.append(san(rng.choice(SEPS), rng.random() < 0.5, rng.random() < 0.5,
                         rng.choice([None, 0, 1, 2, 3, 4, 5, 6, 7]), s))
    correspond(run, "sampled_len5-6_alphabet9", cases, **kw)

    # random unicode strings, max_length straddling multi-byte characters
    cases = []
    nr = 30000 if tier == "quick" else 600000
    for _ in range(nr):
        s = rand_str(rng)
        mx = rng.choice([None, None, rng.randint(0, 30)])
        cases.append(san(rng.choice(SEPS), rng.random() < 0.5, rng.random() < 0.5, mx, s))
    correspond(run, "random_unicode", cases, **kw)

    # presets and the integer sanitiser
    cases = []
    for _ in range(nr // 3):
        r = rng.random()
        if r < 0.5:
            n = rng.randint(0, 8)
            s = "".join(rng.choice("0012345679 \t ١-+a") if rng.random() < 0.3 else rng.choice("0123456789") for _ in range(n))
            if rng.random() < 0.3:
                s = rng.choice([" ", "\t", "　", "\n"]) + s + rng.choice(["", " ", " "])
            cases.append("SANP uint " + hx(s))
        else:
            cases.append(f"SANP {rng.choice(['semver', 'pep440', 'key'])} " + hx(rand_str(rng)))
    correspond(run, "presets_and_uint", cases, **kw)

    # long digit runs: values around and beyond u32 / u64 / u128, with and without leading zeros - a sanitiser that goes through an
    # integer type (parse::<u64>() and print) instead of working on the text is wrong only here
    cases = []
    edges = [2 ** 32 - 1, 2 ** 32, 2 ** 63, 2 ** 64 - 1, 2 ** 64, 10 ** 19, 10 ** 19 - 1, 10 ** 20, 2 ** 128 - 1, 2 ** 128, 10 ** 40 + 7]
    nl = 1500 if tier == "quick" else 40000
    for i in range(nl):
        v = rng.choice(edges) + rng.choice([0, 0, 1, -1, rng.randint(-1000, 1000)]) if rng.random() < 0.6 else rng.randint(0, 10 ** rng.randint(1, 45))
        d = "0" * rng.choice([0, 0, 1, 2, 5]) + str(max(v, 0))
        r = rng.random()
        if r < 0.35:
            ws = rng.choice(["", "", " ", "\t", "  "])
            cases.append("SANP uint " + hx(ws + d + rng.choice(["", "", " "])))
        elif r < 0.55:
            cases.append(f"SANP {rng.choice(['semver', 'pep440', 'key'])} " + hx(rng.choice(["", "v", "rel/", "a-"]) + d + rng.choice(["", ".x", "/0" + d[:3], "-00"])))
        else:
            text = rng.choice(["", "x.", "a/"]) + d + rng.choice(["", ".0" + d, "-b", "_007"])
            cases.append(san(rng.choice(SEPS), rng.random() < 0.5, rng.random() < 0.5, rng.choice([None, None, 19, 20, 21, 40]), text))
    correspond(run, "long_digit_runs_around_u64_u128", cases, **kw)

    # multi-character and alphanumeric separators: outside the property's quantifier, compared with the model only
    cases = []
    for _ in range(nr // 6):
        sep = rng.choice(["..", "-_", "ab", "x", "é", "/", " ", "0"])
        cases.append(san(sep, rng.random() < 0.5, rng.random() < 0.5, rng.choice([None, rng.randint(0, 12)]), rand_str(rng, 14)))
    correspond(run, "other_separators_model_only", cases, **kw)
    return run


RULE = ("requests are Sanitizer configurations x input strings; exhaustive over short strings of the 9-character alphabet "
        "of the property's quantifier x all configurations, plus seeded random Unicode strings; a case is non-trivial when its "
        "input contains both an ASCII alphanumeric and another character; distinct = distinct request lines")
