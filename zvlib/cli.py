"""Process-level execution of the zerv binary and shared CLI case generation."""
import concurrent.futures, os, re, subprocess, time, collections
from .common import *
from . import zgen
from .c05 import ver, rand_named_flags, flags_to_argv, rand_start_vars, start_to_tag, FULL
from .c04 import flw, gen_case as gen_flow_case, rules_ron

BASE_ENV = {"PATH": "/usr/bin:/bin", "HOME": "/tmp", "LANG": "C"}


def run_procs(cmds, env=None, timeout=30, workers=NPROC, cwd="/tmp", binary=None, times=None):
    """cmds: list of (argv-without-program, stdin bytes|None). returns list of (rc, stdout, stderr) (bytes); rc=-999 on timeout"""
    e = dict(BASE_ENV)
    if env:
        e.update(env)
    prog = binary or ZERV

    def one(ic):
        i, (argv, inp) = ic
        t0 = int(time.time())
        try:
            p = subprocess.run([prog] + argv, input=inp if inp is not None else b"", stdout=subprocess.PIPE, stderr=subprocess.PIPE,
                               env=e, timeout=timeout, cwd=cwd)
            r = (p.returncode, p.stdout, p.stderr)
        except subprocess.TimeoutExpired:
            r = (-999, b"", b"timeout")
        except (ValueError, OSError) as ex:          # e.g. embedded NUL in an argument
            r = (-998, b"", str(ex).encode())
        if times is not None:
            times[i] = (t0, int(time.time()))
        return r
    with concurrent.futures.ThreadPoolExecutor(max_workers=workers) as ex:
        return list(ex.map(one, enumerate(cmds)))


def ron_texts(objs):
    """RON text of (schema, vars) objects through the harness (schema verbatim, vars via the ron serializer)"""
    reqs = ["RONTXT " + zgen.enc_zerv(s, v) for s, v in objs]
    out = run_lines([ZVH], reqs)
    return [unhx(r.split(" ")[1]) for r in out]


NOW_RE = re.compile(r"(?<!\d)(\d{9,11})(?!\d)")


def mask_now(t, now):
    """replace any decimal number within two hours of the wall clock by NOW"""
    return NOW_RE.sub(lambda m: "NOW" if abs(int(m.group(1)) - now) <= 7200 else m.group(1), t)


def panicked(rc, err):
    return rc == 101 or b"panicked at" in err or rc < 0 and rc not in (-999, -998)


# ---------------------------------------------------------------- case generators (argv in --name=value form)
PRESET_NAMES = zgen.PRESETS


def gen_version_case(rng, text_pool=None):
    """a `zerv version` case on source none or stdin: returns dict(cmd, argv, stdin_obj, ron, custom)"""
    argv = []
    stdin_obj = None
    ron = None
    custom = None
    texts = text_pool or zgen.TEXTS
    if rng.random() < 0.55:
        argv.append("--source=none")
        if rng.random() < 0.9:
            tag = rng.choice([start_to_tag(rand_start_vars(rng)), "1.2.3", "v2.0.0-rc.1", "1.0a2.post3.dev4", "1!2.3.4+local.7", "0.0.0", "3.4.5-alpha.1.post.2.dev.3+b.9",
                              "10.20.30-feature.x", "1.2", "1.2.3.4.5", "4294967295.4294967295.4294967295"])
            argv.append("--tag-version=" + tag)
    else:
        s = zgen.rand_schema(rng, valid=rng.random() < 0.95)
        v = zgen.rand_vars(rng)
        stdin_obj = (s, v)
        if rng.random() < 0.8:
            argv.append("--source=stdin")
        if rng.random() < 0.25:          # --tag-version over an object that carries its own version parts: the override replaces ALL of them
            argv.append("--tag-version=" + rng.choice(["1.2.3", "v2.0.0", "0.0.0", "1.2.3-rc.1", "1.0a2.post3.dev4", "1!2.3.4", "3.4.5-alpha.1.post.2.dev.3"]))
    r = rng.random()
    if r < 0.45:
        argv.append("--schema=" + rng.choice(PRESET_NAMES))
    elif r < 0.6:
        rs = zgen.rand_schema(rng, valid=rng.random() < 0.9)
        argv.append("--schema-ron=" + zgen.ron_schema(rs))
        ron = dict(rs)
        ron.setdefault("prec", zgen.DEFAULT_PREC)
    for name in ("bumped-branch", "bumped-commit-hash"):
        if rng.random() < 0.45:
            argv.append(f"--{name}=" + rng.choice(texts))
    if rng.random() < 0.4:
        argv.append(f"--distance={rng.choice([0, 1, 5, 4294967295])}")
    d = rng.random()
    if d < 0.2:
        argv.append("--dirty")
    elif d < 0.35:
        argv.append("--no-dirty")
    elif d < 0.42 and not any(a.startswith("--distance") for a in argv):
        argv.append("--clean")
    if rng.random() < 0.25:
        argv.append(f"--bumped-timestamp={rng.choice([0, 1700000000, 1710511845, 4102444800, -5, 253402300800])}")
    if rng.random() < 0.2:
        j = zgen.rand_json(rng)
        if isinstance(j, (dict,)) or rng.random() < 0.3:
            argv.append("--custom=" + json.dumps(j))
            custom = ("J", j)
    argv += flags_to_argv(rand_named_flags(rng) if rng.random() < 0.5 else {}, rng)
    return {"cmd": "version", "argv": argv, "stdin_obj": stdin_obj, "ron": ron, "custom": custom}


def gen_flow_text_case(rng, now):
    argv, rules, law = gen_flow_case(rng, now)
    if rng.random() < 0.5:
        argv.append("--schema=" + rng.choice([p for p in PRESET_NAMES if p.startswith("standard")]))
    return {"cmd": "flow", "argv": argv, "stdin_obj": None, "rules": rules}


def model_request(case, extra_argv, now=0):
    stdin = zgen.enc_zerv(*case["stdin_obj"]) if case.get("stdin_obj") else None
    argv = case["argv"] + extra_argv
    if case["cmd"] == "version":
        return ver("text", stdin, argv, case.get("ron"), case.get("custom")) + f" N {now}"
    return flw("text", stdin, argv, now, ron=case.get("ron"), rules=case.get("rules"))


def model_texts(cases, extras, times):
    """model's text-mode prediction for each case, the clock taken from the case's own process window.
    Returns list of (reply, alternatives) where alternatives are replies for the other seconds of the window."""
    reqs, idx = [], []
    for i, (c, extra) in enumerate(zip(cases, extras)):
        t0, t1 = times.get(i, (0, 0))
        for t in range(t0, min(t1, t0 + 5) + 1):
            reqs.append(model_request(c, extra, t) + " | -")
            idx.append(i)
    mo = run_lines([ZVM], reqs)
    out = [[] for _ in cases]
    for i, m in zip(idx, mo):
        out[i].append(m.partition("\t")[0])
    return out


def text_matches(replies, text):
    """does the binary's stdout text equal one of the model's predictions (OK <hex>)?"""
    for r in replies:
        if r.startswith("OK ") and unhx(r.split(" ")[1]) == text:
            return True
    return False


def really_differs(job_a, job_b, env_a=None, env_b=None, cwd_a="/tmp", cwd_b="/tmp", now=None, tries=3):
    """Two runs printed different text.  Is that a property of the runs, or the wall clock ticking between them (dirty states carry
    the clock, possibly formatted into calendar fields)?  Run A, B, A again back to back: only a difference that survives while A
    agrees with itself counts.  Returns (differs, last outputs)."""
    last = None
    for _ in range(tries):
        ra = run_procs([job_a], env=env_a, cwd=cwd_a)[0]
        rb = run_procs([job_b], env=env_b, cwd=cwd_b)[0]
        ra2 = run_procs([job_a], env=env_a, cwd=cwd_a)[0]
        last = (ra, rb)
        n = now if now is not None else int(time.time())
        ta, tb, ta2 = (mask_now(x[1].decode("utf-8", "replace"), n) for x in (ra, rb, ra2))
        if (ra[0] == 0) != (rb[0] == 0):
            return True, last
        if ta == tb:
            return False, last
        if ta == ta2:
            return True, last
    return False, last          # A never agreed with itself: the text depends on the clock, not on what is being compared
