"""C15 - template variables agree with the rendered version; functions keep contracts."""
import datetime, time
from .common import *
from . import zgen
from .cli import *
from . import c12
from .c04 import siphash13

PID = "C15"
TARGETS = ["Props/C15.vo"]

SCALARS = ["major", "minor", "patch", "epoch", "post", "dev", "distance", "dirty", "bumped_branch", "bumped_commit_hash", "bumped_commit_hash_short", "bumped_timestamp",
           "last_commit_hash", "last_commit_hash_short", "last_timestamp"]
CTX = {"semver": "semver", "pep440": "pep440", "sv_base": "semver_obj.base_part", "sv_pre": "semver_obj.pre_release_part", "sv_build": "semver_obj.build_part", "sv_docker": "semver_obj.docker",
       "pep_base": "pep440_obj.base_part", "pep_pre": "pep440_obj.pre_release_part", "pep_build": "pep440_obj.build_part",
       "pre_label": "pre_release.label", "pre_number": "pre_release.number", "pre_label_code": "pre_release.label_code", "pre_label_pep440": "pre_release.label_pep440"}
for s_ in SCALARS:
    CTX[s_] = s_
STRVARS = ["bumped_branch", "bumped_commit_hash", "bumped_commit_hash_short", "last_commit_hash", "semver", "pep440", "major", "dirty", "epoch", "sv_build", "pep_build"]
NUMVARS = ["bumped_timestamp", "last_timestamp", "major", "distance", "post", "dev"]
LITS = ["", "a", "Feature/API-007", "0012", "é/ü", "x" * 30, "release/1.2.3", "None", "null", "  pad  ", "A_b-C.d", "000", "ÀÉÎ/õü", "12ab", "a--b__c", "ブランチ/1"]
SEPS = ["-", ".", "_", "/", "+", "", "--", "x", "é", " "]
FMTS_MODEL = [None, "%Y-%m-%d", "%Y%m%d", "%H:%M:%S", "%Y%m%d%H%M%S", "compact_date", "compact_datetime", "%y.%j", "%Y-W%W", "%%Y", "lit", "", "%d/%m/%Y %H%M"]
FMTS_PY = ["%A %B", "%a %b %e", "%H:%M %p", "%Z", "%z", "%:z", "%+", "%s", "%G-%V-%u", "%U", "%D", "%F %T", "%R", "%C", "%h", "%I", "%l", "%n%t", "%c", "%x", "%X"]


def tera_str(s):
    """a Tera string literal: no escapes exist, so pick a delimiter the text does not contain"""
    for q in ('"', "'", "`"):
        if q not in s:
            return q + s + q
    return '"' + s.replace('"', "") + '"'


def lit_ok(s):
    return any(q not in s for q in ('"', "'", "`"))


def rand_src(rng):
    if rng.random() < 0.55:
        v = rng.choice(STRVARS)
        return CTX[v], "v:" + v
    l = rng.choice(LITS)
    return tera_str(l), "l:" + hx(l)


def rand_atom(rng):
    """returns (template text, atom tokens)"""
    r = rng.random()
    if r < 0.25:
        v = rng.choice(list(CTX))
        return "{{ " + CTX[v] + " }}", ["var", v]
    if r < 0.32:
        l = rng.choice(["-", "+", " ", "v", ".", "é", "||", "none"])
        return l, ["lit", hx(l)]
    if r < 0.42:
        t, a = rand_src(rng)
        n = rng.choice([None, 0, 1, 5, 7, 16, 17, 40])
        return "{{ hash(value=" + t + ("" if n is None else f", length={n}") + ") }}", ["hash", a, "~" if n is None else str(n)]
    if r < 0.54:
        t, a = rand_src(rng)
        n = rng.choice([None, 0, 1, 5, 7, 19, 20, 21, 30])
        z = rng.choice([None, True, False])
        return ("{{ hash_int(value=" + t + ("" if n is None else f", length={n}") + ("" if z is None else f", allow_leading_zero={'true' if z else 'false'}") + ") }}",
                ["hash_int", a, "~" if n is None else str(n), "~" if z is None else b01(z)])
    if r < 0.64:
        t, a = rand_src(rng)
        n = rng.choice([None, 0, 1, 3, 10, 100])
        return "{{ prefix(value=" + t + ("" if n is None else f", length={n}") + ") }}", ["prefix", a, "~" if n is None else str(n)]
    if r < 0.72:
        t, a = rand_src(rng)
        p = rng.choice(["+", "-", ".", "", "é", "pre"])
        return "{{ prefix_if(value=" + t + ", prefix=" + tera_str(p) + ") }}", ["prefix_if", a, hx(p)]
    if r < 0.8:
        t, a = rand_src(rng)
        p = rng.choice(["semver_str", "semver", "dotted", "pep440_local_str", "pep440", "lower_dotted", "uint", "bogus", ""])
        return "{{ sanitize(value=" + t + ", preset=" + tera_str(p) + ") }}", ["san_preset", a, hx(p)]
    if r < 0.92:
        t, a = rand_src(rng)
        sep = rng.choice([None] + SEPS)
        lo = rng.choice([None, True, False])
        ke = rng.choice([None, True, False])
        mx = rng.choice([None, None, 0, 1, 3, 8, 50])
        args = "".join([("" if sep is None else ", separator=" + tera_str(sep)), ("" if lo is None else f", lowercase={'true' if lo else 'false'}"),
                        ("" if ke is None else f", keep_zeros={'true' if ke else 'false'}"), ("" if mx is None else f", max_length={mx}")])
        return "{{ sanitize(value=" + t + args + ") }}", ["san_custom", a, ohx(sep), "~" if lo is None else b01(lo), "~" if ke is None else b01(ke), "~" if mx is None else str(mx)]
    if rng.random() < 0.5:
        v = rng.choice(NUMVARS)
        t, a = CTX[v], "v:" + v
    else:
        n = rng.choice([0, 1, 86399, 86400, 951782400, 1709164800, 1710511845, 1703123456, 4102444800, 253402300799, 253402300800, 2 ** 31, 2 ** 32, 10 ** 12, 8210298412800 - 1, 2 ** 63 - 1,
                        rng.randint(0, 4102444800)])
        t, a = str(n), f"n:{n}"
    f = rng.choice(FMTS_MODEL)
    return "{{ format_timestamp(value=" + t + ("" if f is None else ", format=" + tera_str(f)) + ") }}", ["fmt_ts", a, ohx(f)]


def binary_template_equals_direct(run, rng, n):
    import time
    from .cli import run_procs, ron_texts, mask_now, gen_version_case
    from .c05 import flags_to_argv, rand_named_flags
    cases = []
    for _ in range(n):
        if rng.random() < 0.5:
            c = gen_version_case(rng)
        else:
            s = zgen.rand_schema(rng, valid=True)
            v = zgen.rand_vars(rng)
            v["dirty"] = rng.choice([None, False])
            argv = ["--source=stdin"]
            for sec, flag in (("core", "core"), ("extra", "extra-core"), ("build", "build")):
                L = len(s[sec])
                for _ in range(rng.choice([0, 1, 1, 2])):
                    i = rng.randint(0, max(L - 1, 0))
                    val = rng.choice(["0", "1", "5", "x", "stable", "rel", "007", "{{ major }}", "{{ bumped_branch }}", "nightly"])
                    if rng.random() < 0.7:
                        argv.append(f"--{flag}={i}={val}")
                    else:
                        argv.append(f"--bump-{flag}={i}" + (f"={rng.choice(['1', '2', '{{ distance }}'])}" if rng.random() < 0.6 else ""))
            argv += flags_to_argv(rand_named_flags(rng) if rng.random() < 0.4 else {}, rng)
            c = {"cmd": "version", "argv": argv, "stdin_obj": (s, v)}
        cases.append(c)
    objs = [c["stdin_obj"] for c in cases if c.get("stdin_obj")]
    texts = iter(ron_texts(objs)) if objs else iter([])
    jobs = []
    for c in cases:
        inp = next(texts).encode() if c.get("stdin_obj") else None
        base = [c["cmd"]] + c["argv"]
        jobs += [(base + ["--output-format=semver"], inp), (base + ["--output-format=pep440"], inp),
                 (base + ["--output-template={{ semver }}\x1f{{ pep440 }}\x1f{{ semver_obj.base_part }}{% if semver_obj.pre_release_part %}-{{ semver_obj.pre_release_part }}{% endif %}{% if semver_obj.build_part %}+{{ semver_obj.build_part }}{% endif %}"], inp)]
    res = run_procs(jobs, timeout=60)
    now = int(time.time())
    st = run.streams.setdefault("binary_template_equals_direct_rendering", {"cases": 0, "all_three_succeed": 0})
    for k, c in enumerate(cases):
        (r1, o1, e1), (r2, o2, e2), (r3, o3, e3) = res[3 * k: 3 * k + 3]
        st["cases"] += 1
        run.evaluations += 1
        desc = {"argv": [c["cmd"]] + c["argv"], "stdin": (jobs[3 * k][1] or b"").decode("utf-8", "replace")[:1500]}
        if (r1 == 0) != (r3 == 0) and not (r1 == 0 and r2 != 0):
            # the template needs both renderings: it may fail when the PEP 440 one does, not otherwise
            run.add_violation("oracle", {"stream": "binary_template_equals_direct_rendering", "what": "--output-template succeeds / fails differently from --output-format", "described": desc,
                                         "direct": [r1, e1.decode("utf-8", "replace")[-200:]], "template": [r3, e3.decode("utf-8", "replace")[-200:]]}, True)
            continue
        if not (r1 == 0 and r2 == 0 and r3 == 0):
            continue
        st["all_three_succeed"] += 1
        t = mask_now(o3.decode("utf-8", "replace").rstrip("\n"), now).split("\x1f")
        d1, d2 = mask_now(o1.decode("utf-8", "replace").rstrip("\n"), now), mask_now(o2.decode("utf-8", "replace").rstrip("\n"), now)
        run.nontrivial.add(d1)
        if len(t) != 3 or t[0] != d1 or t[1] != d2 or t[2] != d1:
            run.add_violation("oracle", {"stream": "binary_template_equals_direct_rendering", "what": "{{ semver }} / {{ pep440 }} / the recomposed parts differ from what --output-format prints for the same command line",
                                         "described": desc, "direct": [d1, d2], "template": t}, True)


def run_check(tier, seed):
    run = Run(PID, tier, seed)
    rng = random.Random(seed * 1000003 + 15)
    q = tier == "quick"
    n = 4000 if q else 120000

    # ---- stream 1: atoms against the model (in-process)
    cases = []
    for _ in range(n):
        s = zgen.rand_schema(rng, valid=True)
        v = c12.nasty_vars(rng) if rng.random() < 0.2 else zgen.rand_vars(rng)
        k = rng.choice([1, 1, 2, 3, 5])
        atoms = [rand_atom(rng) for _ in range(k)]
        if rng.random() < 0.15:        # a template whose own text ends like a file name: template engines pick auto-escaping from such suffixes
            l = rng.choice([".html", ".htm", ".xml", ".HTML", "index.html", ".j2", ".txt"])
            atoms.append((l, ["lit", hx(l)]))
            k += 1
        tpl = "".join(t for t, _ in atoms)
        toks = " ".join(" ".join(a) for _, a in atoms)
        cases.append(f"TPL {hx(tpl)} {zgen.enc_zerv(s, v)} T {k} {toks}")
    res = correspond(run, "template_atoms_vs_model", cases, nontrivial=lambda c, r: r.startswith("OK x") and len(r) > 6,
                     describe=lambda c: {"template": unhx(c.split(" ")[1]), "object": c.split(" T ")[0][:1200]})

    # ---- stream 1b: through the binary: `--output-template "{{ semver }}"` / "{{ pep440 }}" must print what --output-format semver / pep440
    # prints for the SAME command line - with overrides, bumps and schema-index operations in it (values that are themselves templates are
    # rendered before the components are processed, so a context built too early, or cached, shows up here)
    binary_template_equals_direct(run, rng, 400 if q else 4000)

    # ---- stream 2: coherence laws checked on the implementation's own output (independent of the model)
    laws = []
    for _ in range(n // 2):
        s = zgen.rand_schema(rng, valid=True)
        v = c12.nasty_vars(rng) if rng.random() < 0.2 else zgen.rand_vars(rng)
        laws.append((s, v))
    tpl = ("{{ semver }}\x1f{{ semver_obj.base_part }}\x1f{{ semver_obj.pre_release_part }}\x1f{{ semver_obj.build_part }}\x1f{{ semver_obj.docker }}\x1f"
           "{{ pep440 }}\x1f{{ pep440_obj.base_part }}\x1f{{ pep440_obj.pre_release_part }}\x1f{{ pep440_obj.build_part }}\x1f"
           "{% if semver_obj.pre_release_part %}1{% else %}0{% endif %}{% if semver_obj.build_part %}1{% else %}0{% endif %}{% if pep440_obj.build_part %}1{% else %}0{% endif %}\x1fend")
    reqs = [f"TPL {hx(tpl)} {zgen.enc_zerv(s, v)} T 0" for s, v in laws]
    out = run_lines([ZVH], reqs)
    direct = run_lines([ZVH], [f"FMTZ semver {zgen.enc_zerv(s, v)}" for s, v in laws])
    directp = run_lines([ZVH], [f"FMTZ pep440 {zgen.enc_zerv(s, v)}" for s, v in laws])
    st = run.streams.setdefault("coherence_laws_on_implementation", {"cases": 0, "with_pre": 0, "with_build": 0})
    for (s, v), r, ds, dp in zip(laws, out, direct, directp):
        st["cases"] += 1
        run.evaluations += 1
        desc = {"object": zgen.enc_zerv(s, v)[:1500]}
        if not r.startswith("OK "):
            run.add_violation("oracle", {"stream": "coherence_laws_on_implementation", "what": "the context template fails to render: " + r[:60], "described": desc}, True)
            continue
        f = unhx(r.split(" ")[1]).split("\x1f")
        sv, base, pre, build, docker, pep, pbase, ppre, pbuild, flags = f[:10]
        bad = None
        if ds.startswith("OK ") and unhx(ds.split(" ")[1]) != sv:
            bad = "{{ semver }} differs from --output-format semver"
        elif dp.startswith("OK ") and unhx(dp.split(" ")[1]) != pep:
            bad = "{{ pep440 }} differs from --output-format pep440"
        elif sv != base + ("-" + pre if flags[0] == "1" else "") + ("+" + build if flags[1] == "1" else ""):
            bad = "semver_obj parts do not recompose to {{ semver }}"
        elif docker != sv.replace("+", "-"):
            bad = "semver_obj.docker is not the SemVer string with + replaced by -"
        elif pep != pbase + ppre + ("+" + pbuild if flags[2] == "1" else ""):
            bad = "pep440_obj parts do not recompose to {{ pep440 }}"
        elif (flags[0] == "0" and pre) or (flags[1] == "0" and build) or (flags[2] == "0" and pbuild):
            bad = "a part is falsy but prints text"
        if bad:
            run.add_violation("oracle", {"stream": "coherence_laws_on_implementation", "what": bad, "described": desc, "fields": f}, True)
        st["with_pre"] += flags[0] == "1"
        st["with_build"] += flags[1] == "1"

    # ---- stream 3: function contracts on the implementation's output, with independent references
    fc = []
    zbase = zgen.enc_zerv({"core": [("v", "Major")], "extra": [], "build": []}, zgen.rand_vars(random.Random(1)))
    for _ in range(n // 2):
        kind = rng.choice(["hash", "hash_int", "prefix", "prefix_if", "fmt"])
        val = rng.choice(LITS + c12.NASTY[:20]) if rng.random() < 0.7 else "".join(rng.choice("abcXYZ019/-_.é ") for _ in range(rng.randint(0, 25)))
        val = val.replace("\0", "")
        if not lit_ok(val):
            val = val.replace("`", "")
        if kind == "hash":
            L = rng.choice([0, 1, 5, 7, 15, 16, 17, 64])
            fc.append((kind, val, L, None, "{{ hash(value=" + tera_str(val) + f", length={L}) }}}}"))
        elif kind == "hash_int":
            L = rng.choice([0, 1, 5, 7, 19, 20, 21, 40])
            z = rng.random() < 0.5
            fc.append((kind, val, L, z, "{{ hash_int(value=" + tera_str(val) + f", length={L}, allow_leading_zero={'true' if z else 'false'}) }}}}"))
        elif kind == "prefix":
            L = rng.choice([0, 1, 3, 10, 100])
            fc.append((kind, val, L, None, "{{ prefix(value=" + tera_str(val) + f", length={L}) }}}}"))
        elif kind == "prefix_if":
            p = rng.choice(["+", "-", "", "é."])
            fc.append((kind, val, p, None, "{{ prefix_if(value=" + tera_str(val) + ", prefix=" + tera_str(p) + ") }}"))
        else:
            t = rng.choice([0, 86399, 951782400, 1709164800, 1710511845, 4102444800, 253402300799, rng.randint(0, 4102444800), rng.randint(0, 253402300799)])
            f = rng.choice(FMTS_PY + [x for x in FMTS_MODEL if x])
            fc.append((kind, t, f, None, "{{ format_timestamp(value=" + str(t) + ", format=" + tera_str(f) + ") }}"))
    wrapped = ["\x02" + t + "\x03" for *_, t in fc]          # guard against trimming
    out = run_lines([ZVH], [f"TPL {hx(w)} {zbase} T 0" for w in wrapped])
    st = run.streams.setdefault("function_contracts_on_implementation", {"cases": 0, "by_function": collections.Counter()})
    for (kind, a, b, c, t), r in zip(fc, out):
        st["cases"] += 1
        st["by_function"][kind] += 1
        run.evaluations += 1
        desc = {"template": t}
        if not r.startswith("OK "):
            if kind == "fmt" and b not in FMTS_PY and b not in FMTS_MODEL:
                continue            # an unsupported specifier is an error, which is allowed
            if kind == "fmt" and (b == "" or a > 8210298412799):
                continue
            run.add_violation("oracle", {"stream": "function_contracts_on_implementation", "what": "function call fails: " + r[:40], "described": desc}, True)
            continue
        o = unhx(r.split(" ")[1])
        o = o[1:-1] if o.startswith("\x02") and o.endswith("\x03") else o
        bad = None
        if kind == "hash":
            want = ("%x" % siphash13(a.encode() + b"\xff"))[:b]
            if len(o) > b or o != want:
                bad = f"hash: expected the first {b} hex digits {want!r}"
        elif kind == "hash_int":
            h = str(siphash13(a.encode() + b"\xff"))
            want = (h.rjust(min(b, 65535), "0") if c else h)[:b]
            if len(o) > b or not (o.isdigit() or o == "") or o != want or (not c and len(o) > 1 and o[0] == "0"):
                bad = f"hash_int: expected {want!r}"
        elif kind == "prefix":
            if o != a[:b]:
                bad = "prefix: not the first `length` characters"
        elif kind == "prefix_if":
            if o != ((b + a) if a != "" else ""):
                bad = "prefix_if: prefix must be added exactly when the value is non-empty"
        else:
            try:
                d = datetime.datetime.fromtimestamp(a, datetime.timezone.utc)
                pyfmt = {"compact_date": "%Y%m%d", "compact_datetime": "%Y%m%d%H%M%S"}.get(b, b)
                if all(x not in pyfmt for x in ("%:z", "%+", "%n", "%t", "%c", "%x", "%X", "%Z", "%e", "%l", "%s", "%h", "%C", "%D", "%F", "%T", "%R")) and d.year <= 9999:
                    want = d.strftime(pyfmt)
                    if o != want:
                        bad = f"format_timestamp: UTC calendar formatting gives {want!r}"
                elif "%s" == pyfmt and o != str(a):
                    bad = "format_timestamp %s"
                elif pyfmt in ("%Z", "%z", "%:z") and o != {"%Z": "UTC", "%z": "+0000", "%:z": "+00:00"}[pyfmt]:
                    bad = "format_timestamp: zone must be UTC"
                elif pyfmt == "%+" and d.year <= 9999 and o != d.strftime("%Y-%m-%dT%H:%M:%S+00:00"):
                    bad = "format_timestamp: %+ must be the ISO 8601 UTC form"
            except (ValueError, OverflowError):
                pass
        if bad:
            run.add_violation("oracle", {"stream": "function_contracts_on_implementation", "what": bad, "described": desc, "output": o}, True)
        run.nontrivial.add(t)
    st["by_function"] = dict(st["by_function"])
    return run


RULE = ("template_atoms_vs_model: templates assembled from 1-5 atoms (every context variable incl. the semver_obj / pep440_obj parts and pre_release fields, literals, and "
        "hash / hash_int / prefix / prefix_if / sanitize (presets and custom parameters) / format_timestamp calls with variable or literal arguments and boundary lengths) rendered on "
        "random valid objects through OutputFormatter::format_output, compared with the Coq template model. coherence_laws_on_implementation: {{ semver }} / {{ pep440 }} against the "
        "plain renderings, recomposition of the parts, docker = SemVer with + replaced by -, decided on the implementation's own output. function_contracts_on_implementation: "
        "length bounds and exact values against independent references (own SipHash-1-3, Python slicing, Python UTC datetime). distinct_nontrivial = distinct rendered templates")
