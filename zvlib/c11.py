"""C11 - PEP 440 comparison is a spelling-independent total order on a fixed key."""
import itertools
from .common import *
from . import pep440_ref as ref
from .c09 import spell, rand_fields, perturb

PID = "C11"
TARGETS = ["Props/C11.vo"]


def describe(c):
    f = c.split(" ")
    try:
        if f[0] == "PEC":
            return {"op": "PEP440 cmp / ==", "a": unhx(f[1]), "b": unhx(f[2])}
        if f[0] == "VMAX":
            return {"op": "GitUtils::find_max_version_tag", "format": f[1], "tags": [unhx(x) for x in f[3:]]}
    except Exception:
        pass
    return c


def universe():
    out = []
    for ep in (0, 1):
        for rel in ([1], [1, 0], [1, 1], [1, 0, 1], [2]):
            for pre in (None, ("a", 0), ("b", 2), ("rc", 1)):
                for post in (None, 0, 3):
                    for dev in (None, 0, 5):
                        for loc in (None, [1], ["a"], [1, "a"]):
                            out.append({"epoch": ep, "release": rel, "pre": pre, "post": post, "dev": dev, "local": loc})
    return out


def nontrivial(c, r):
    return r.startswith(("LT", "GT", "OK"))


KNOWN_LOCAL = "local-numeric-part>=2^32"


def big_local(d):
    return d is not None and d["local"] is not None and any(isinstance(x, int) and x >= 2 ** 32 for x in d["local"])


def known_pair(c):
    f = c.split(" ")
    if f[0] != "PEC":
        return None
    a, b = ref.parse(unhx(f[1])), ref.parse(unhx(f[2]))
    return KNOWN_LOCAL if big_local(a) and big_local(b) else None


def py_oracle(run, stream, res):
    for c, r, m, v in res:
        if not c.startswith("PEC "):
            continue
        f = c.split(" ")
        a, b = ref.parse(unhx(f[1])), ref.parse(unhx(f[2]))
        if a is None or b is None or r == "ERR":
            continue
        exp = ref.c11_cmp(a, b)
        got = r.split(" ")
        if got[0] != exp or got[1] != ("1" if exp == "EQ" else "0"):
            kf = known_pair(c)
            if kf:
                run.known_hits[kf] += 1
                continue
            run.add_violation("oracle", {"stream": stream, "request": c, "described": describe(c), "impl_reply": r, "expected": exp,
                                         "oracle": "python-reference key order of property C11 (epoch, release padded, pre a<b<rc<none, post none lowest, dev none highest, local)"}, True)


def corpus():
    pairs = [("1.0.0.post3000000000", "1.0.0"), ("1.0.0-4294967295", "1.0.0"), ("1.0.0.dev3000000000", "1.0.0.dev1"), ("1.0.0.dev2147483647", "1.0.0"),
             ("1.0", "1.0.0.0.0.0.1"), ("2025.12.31.23.59.59.1", "2025.12.31.23.59.59.2"), ("1.2.3.4.5.6.7", "1.2.3.4.5.6.8.dev1"),
             ("1.0a1", "1.0.dev1"), ("1.0", "1.0+a"), ("1.0+1", "1.0+a"), ("1.0+A", "1.0+a"), ("1.0+a", "1.0+a.1"), ("v1.0", "1"), ("1.0rc1", "1.0c1"),
             ("1.0-1", "1.0.post1"), ("0!1.0", "1.0"), ("1!0.1", "2.0"), ("1.0+4294967296", "1.0+abc"), ("1.0+4294967296", "1.0+10000000000"), ("1.0+4294967296", "1.0+5"), ("1.0a", "1.0a0"), ("1.0.post", "1.0.post0")]
    cs = []
    for a, b in pairs:
        cs.append(f"PEC {hx(a)} {hx(b)}")
        cs.append(f"PEC {hx(b)} {hx(a)}")
    return cs


def run_check(tier, seed):
    run = Run(PID, tier, seed)
    rng = random.Random(seed * 1000003 + 11)
    kw = dict(nontrivial=nontrivial, describe=describe)

    def go(stream, cases):
        res = correspond(run, stream, cases, **kw)
        py_oracle(run, stream, res)
        return res

    go("corpus", corpus())
    U = universe()
    if tier == "quick":
        pairs = [(rng.choice(U), rng.choice(U)) for _ in range(100000)]
    else:
        pairs = [(a, b) for a in U for b in U]
        run.exhaustive = True
    run.extra["universe"] = f"{len(U)} versions: 2 epochs x 5 releases x 4 pre x 3 post x 3 dev x 4 locals; each side rendered in a random spelling"
    go("small_universe_pairs_random_spellings" + ("" if tier != "quick" else "(100000 sampled pairs)"),
       [f"PEC {hx(spell(rng, a))} {hx(spell(rng, b))}" for a, b in pairs])

    # every version against two other spellings of itself: must be EQ
    cases = []
    for d in U if tier != "quick" else rng.sample(U, 500):
        s0 = spell(rng, d)
        for _ in range(3):
            cases.append(f"PEC {hx(s0)} {hx(spell(rng, d))}")
    go("spellings_of_one_version", cases)

    n = 15000 if tier == "quick" else 400000
    cases = []
    for _ in range(n):
        a = rand_fields(rng, big=False)
        b = rand_fields(rng, big=False)
        if rng.random() < 0.6:     # near neighbours: copy a and perturb one field / one release position
            b = perturb(rng, a)
        cases.append(f"PEC {hx(spell(rng, a))} {hx(spell(rng, b))}")
    go("random_pairs_and_one_field_perturbations", cases)

    triples = [[spell(rng, rand_fields(rng, big=False)) for _ in range(3)] for _ in range(n // 5)]
    reqs = []
    for a, b, c in triples:
        reqs += [f"PEC {hx(a)} {hx(b)}", f"PEC {hx(b)} {hx(c)}", f"PEC {hx(a)} {hx(c)}", f"PEC {hx(b)} {hx(a)}"]
    res = go("random_triples_transitivity_antisymmetry", reqs)
    opp = {"LT": "GT", "GT": "LT", "EQ": "EQ"}
    for i in range(0, len(res), 4):
        ab, bc, ac, ba = [res[i + k][1].split(" ")[0] for k in range(4)]
        if "ERR" in (ab, bc, ac, ba):
            continue
        bad = None
        if any(x not in opp for x in (ab, bc, ac, ba)):
            bad = "a comparison did not return an ordering (panic / unexpected reply): the order is not total"
        elif opp[ab] != ba:
            bad = "antisymmetry"
        elif ab == bc and ab != "EQ" and ac != ab:
            bad = "transitivity"
        elif ab == "EQ" and ac != bc:
            bad = "equality-congruence"
        if bad:
            run.add_violation("oracle", {"stream": "triples", "what": bad, "triple": [describe(res[i + k][0]) for k in range(4)],
                                         "impl": [ab, bc, ac, ba]}, True)

    cases = []
    for _ in range(n // 5):
        k = rng.randint(1, 6)
        ds = [rand_fields(rng, big=False) for _ in range(k)]
        tags = [spell(rng, d) for d in ds]
        if rng.random() < 0.4:
            tags.append(spell(rng, ds[0]))
        rng.shuffle(tags)
        cases.append(f"VMAX pep440 {len(tags)} " + " ".join(hx(t) for t in tags))
    correspond(run, "find_max_version_tag_random_tag_sets", cases, **kw)
    return run


RULE = ("requests are pairs / triples / tag sets of PEP 440 strings compared through Ord::cmp, == and find_max_version_tag; pairs over a small "
        "universe of field values (2 epochs x 5 releases x 4 pre x 3 post x 3 dev x 4 locals), each side in a random spelling, plus random "
        "versions and one-field perturbations; answers are also judged by an independent Python implementation of the property's key order; "
        "non-trivial = ordered pair (LT/GT) or a maximum chosen")
