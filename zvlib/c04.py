"""C04 - flow derives pre-release, post and dev parts from the documented branch rules."""
import time
from .common import *
from . import zgen
from .c05 import describe as describe_ver, sort_json

PID = "C04"
TARGETS = ["Props/C04.vo"]
KNOWN_HASH10 = "hash-branch-len=10-exceeds-u32"
M64 = (1 << 64) - 1


# ---------------------------------------------------------------- independent SipHash-1-3 (reference algorithm, keys 0,0)
def _rotl(x, b):
    return ((x << b) | (x >> (64 - b))) & M64


def siphash13(data: bytes) -> int:
    v0, v1, v2, v3 = 0x736f6d6570736575, 0x646f72616e646f6d, 0x6c7967656e657261, 0x7465646279746573

    def rnd():
        nonlocal v0, v1, v2, v3
        v0 = (v0 + v1) & M64; v1 = _rotl(v1, 13); v1 ^= v0; v0 = _rotl(v0, 32)
        v2 = (v2 + v3) & M64; v3 = _rotl(v3, 16); v3 ^= v2
        v0 = (v0 + v3) & M64; v3 = _rotl(v3, 21); v3 ^= v0
        v2 = (v2 + v1) & M64; v1 = _rotl(v1, 17); v1 ^= v2; v2 = _rotl(v2, 32)
    n = len(data)
    for i in range(0, n - n % 8, 8):
        m = int.from_bytes(data[i:i + 8], "little")
        v3 ^= m; rnd(); v0 ^= m
    b = ((n & 0xff) << 56) | int.from_bytes(data[n - n % 8:], "little")
    v3 ^= b; rnd(); v0 ^= b
    v2 ^= 0xff
    rnd(); rnd(); rnd()
    return v0 ^ v1 ^ v2 ^ v3


def ref_hash_int(branch, length):
    return int(str(siphash13((branch or "").encode() + b"\xff"))[:length])


# ---------------------------------------------------------------- the flow law of the property text
DEFAULT_RULES = [("develop", "beta", 1, "commit"), ("release/*", "rc", None, "tag"), ("*", "alpha", None, "commit")]
LAB = {"alpha": "a", "beta": "b", "rc": "rc"}


def rule_matches(pat, branch):
    if pat == "*":
        return branch != ""
    if pat.endswith("/*"):
        pre = pat[:-1]
        return branch.startswith(pre) and len(branch) > len(pre)
    return pat == branch


def first_digits(path):
    for seg in path.split("/"):
        if seg and all("0" <= c <= "9" for c in seg):
            return int(seg) if int(seg) < 2 ** 32 else None
    return None


def resolve_rule(rules, branch):
    if branch is None:
        return ("alpha", None, "commit")
    for pat, lab, num, mode in rules:
        if rule_matches(pat, branch):
            if num is None:
                num = first_digits(branch) if pat == "*" else first_digits(branch[len(pat) - 1:])
            return (lab, num, mode)
    return ("alpha", None, "commit")


def flow_law(tag, branch, distance, dirty, post_flag, label_flag, num_flag, mode_flag, hash_len, rules):
    """tag: dict(major, minor, patch, epoch, pre, post, dev) ; returns expected vars (dev: None | 'NOW') or 'ERR'"""
    lab, num, mode = resolve_rule(rules, branch)
    lab = label_flag or lab
    num = num_flag if num_flag is not None else num
    mode = mode_flag or mode
    v = dict(tag)
    d = dirty is True
    ahead = distance is not None and distance > 0
    if mode == "tag" and dirty is None and ahead:
        d = True
    base_post = post_flag if post_flag is not None else tag["post"]
    if not (d or ahead):
        v["post"] = base_post
        v["dirty_out"] = dirty
        return v
    if num is None:
        num = ref_hash_int(branch, hash_len)
    if num >= 2 ** 32:
        return "ERR"
    if tag["pre"] is None:
        v["patch"] = tag["patch"] + 1
    v["pre"] = (LAB[lab], num)
    if mode == "commit":
        v["post"] = base_post if distance is None else (base_post or 0) + distance
    else:
        v["post"] = (base_post or 0) + 1
    v["dev"] = "NOW" if (d if mode == "commit" else (d or ahead)) else None
    v["dirty_out"] = True if d else dirty
    return v


# ---------------------------------------------------------------- requests
def flw(mode, stdin, argv, now, ron=None, rules=None):
    x = ["X", "~" if ron is None else "R " + zgen.enc_schema(ron)]
    if rules is None:
        x.append("~")
    else:
        x.append(" ".join(["K %d" % len(rules)] + [f"{hx(p)} {l} {'~' if n is None else n} {m}" for p, l, n, m in rules]))
    x.append(str(now))
    return " ".join(["FLW", mode, "~" if stdin is None else stdin, "A", str(len(argv))] + [hx(a) for a in argv] + x)


def rules_ron(rules):
    return "[" + ", ".join(f'(pattern: "{p}", pre_release_label: {l}, ' + (f"pre_release_num: {n}, " if n is not None else "") + f"post_mode: {m})"
                           for p, l, n, m in rules) + "]"


def describe(c):
    try:
        d = describe_ver(c.replace("FLW", "VER", 1))
        d["op"] = "zerv flow (run_flow_pipeline)"
        return d
    except Exception as e:
        return {"request": c[:300], "error": str(e)}


def make_canon(now):
    def canon(r):
        if r == "ARGERR":
            return "ERR"
        if not r.startswith("OK Z "):
            return r
        try:
            s, v, _ = zgen.dec_zerv(r.split(" ")[1:])
            if v["dev"] is not None and abs(v["dev"] - now) <= 7200:
                v["dev"] = 1
            if v["dirty"] and v["bumped_ts"] is not None and abs(v["bumped_ts"] - now) <= 7200:
                v["bumped_ts"] = 1
            v["custom"] = sort_json(v["custom"])
            return "OK " + zgen.enc_zerv(s, v)
        except Exception:
            return r
    return canon


BRANCHES = ["main", "develop", "develops", "release/1", "release/2.1", "release/x/12/3", "releases", "release-7", "release", "release/", "feature/foo",
            "feature/42", "feature/a/007/b", "feature/99999999999/8", "hotfix/+7", "é/β", "", "1", "bugfix/0", "x/4294967295", "x/4294967296", "feat/12abc/3",
            # letter-case variants of rule prefixes (rules are case-sensitive), multi-segment prefixes with digit segments, prefix look-alikes
            "Release/2", "RELEASE/x", "release/X", "Develop", "DEVELOP", "Feature/42", "HotFix/7", "hotfix/7", "sprint/7/login/12", "sprint/7/0/x", "sprint/7/login",
            "sprint/7", "sprint/7/", "sprint/70/1", "team/12/feature/3", "team/12/feature/x", "a/1/b/2/c/3", "x/y", "X/4", "feature/A/5"]


def rand_rules(rng):
    if rng.random() < 0.6:
        return None
    rs = []
    for _ in range(rng.randint(0, 4)):
        k = rng.random()
        lab = rng.choice(["alpha", "beta", "rc"])
        mode = rng.choice(["tag", "commit"])
        if k < 0.4:
            rs.append((rng.choice(["main", "develop", "release", "feature/foo", "1"]), lab, rng.randint(0, 9), mode))
        elif k < 0.85:
            rs.append((rng.choice(["release/*", "feature/*", "x/*", "feature/a/*", "é/*", "sprint/7/*", "team/12/feature/*", "hotfix/*", "a/1/b/*", "Release/*", "sprint/*"]), lab, None, mode))
        else:
            rs.append(("*", lab, None, mode))
    return rs


def rand_tag(rng):
    n = lambda: rng.choice([0, 1, 2, 9, 41, 2 ** 32 - 1])
    t = {"major": n(), "minor": n(), "patch": rng.choice([0, 1, 7, 2 ** 32 - 2]), "epoch": None, "pre": None, "post": None, "dev": None}
    r = rng.random()
    if r < 0.35:
        t["pre"] = (rng.choice(["a", "b", "rc"]), rng.choice([0, 1, 5, 77]))
        if rng.random() < 0.5:
            t["post"] = rng.choice([0, 1, 4])
    elif r < 0.45:
        t["post"] = rng.choice([0, 3])
    return t


def tag_text(t, fmt):
    if fmt == "semver":
        s = f"{t['major']}.{t['minor']}.{t['patch']}"
        pre = []
        if t["pre"]:
            pre += [{"a": "alpha", "b": "beta", "rc": "rc"}[t["pre"][0]], str(t["pre"][1])]
        if t["post"] is not None:
            pre += ["post", str(t["post"])]
        return s + ("-" + ".".join(pre) if pre else "")
    s = f"{t['major']}.{t['minor']}.{t['patch']}"
    if t["pre"]:
        s += t["pre"][0] + str(t["pre"][1])
    if t["post"] is not None:
        s += f".post{t['post']}"
    return s


def nontrivial(c, r):
    return r.startswith("OK") and ("--distance" in str(describe(c).get("argv")) or "--dirty" in str(describe(c).get("argv")))


def gen_case(rng, now, mode="zerv"):
    tag = rand_tag(rng)
    fmt = rng.choice(["semver", "pep440"])
    branch = rng.choice(BRANCHES + [None])
    distance = rng.choice([None, 0, 1, 3, 17, 2 ** 32 - 1])
    dirty = rng.choice([None, True, False])
    post_flag = rng.choice([None, None, None, 0, 2, 9])
    label_flag = rng.choice([None, None, None, "alpha", "beta", "rc"])
    num_flag = rng.choice([None, None, None, 0, 7, 2 ** 32 - 1])
    mode_flag = rng.choice([None, None, "tag", "commit"])
    hash_len = rng.choice([5, 5, 1, 2, 3, 4, 6, 7, 8, 9, 10])
    rules = rand_rules(rng)
    argv = ["--source=none", f"--tag-version={tag_text(tag, fmt)}", f"--input-format={fmt}"]
    if branch is not None:
        argv.append(f"--bumped-branch={branch}")
    if distance is not None:
        argv.append(f"--distance={distance}")
    if dirty is True:
        argv.append("--dirty")
    if dirty is False:
        argv.append("--no-dirty")
    if post_flag is not None:
        argv.append(f"--post={post_flag}")
    if label_flag:
        argv.append(f"--pre-release-label={label_flag}")
    if num_flag is not None:
        argv.append(f"--pre-release-num={num_flag}")
    if mode_flag:
        argv.append(f"--post-mode={mode_flag}")
    if hash_len != 5 or rng.random() < 0.2:
        argv.append(f"--hash-branch-len={hash_len}")
    if rules is not None:
        argv.append("--branch-rules=" + rules_ron(rules))
    law = (tag, branch, distance, dirty, post_flag, label_flag, num_flag, mode_flag, hash_len, rules if rules is not None else DEFAULT_RULES)
    return argv, rules, law


def check_law(run, stream, c, r, law):
    want = flow_law(*law)
    if want == "ERR":
        if r.startswith("OK") :
            run.add_violation("oracle", {"stream": stream, "request": c, "described": describe(c), "impl_reply": r[:400],
                                         "oracle": "flow law: the branch number does not fit u32, an error is expected"}, True)
        elif law[8] == 10:
            run.known_hits[KNOWN_HASH10] += 1
        return
    if not r.startswith("OK Z "):
        run.add_violation("oracle", {"stream": stream, "request": c, "described": describe(c), "impl_reply": r[:400], "expected_vars": want,
                                     "oracle": "flow law of the property text: a result is expected"}, True)
        return
    _, got, _ = zgen.dec_zerv(r.split(" ")[1:])
    ok = all(got[k] == want[k] for k in ("major", "minor", "patch", "pre", "post", "epoch"))
    ok = ok and ((got["dev"] is None) == (want["dev"] is None))
    if not ok:
        run.add_violation("oracle", {"stream": stream, "request": c, "described": describe(c), "impl_vars": {k: got[k] for k in ("major", "minor", "patch", "pre", "post", "dev", "dirty", "distance")},
                                     "expected_vars": want, "oracle": "flow law of the property text (independent Python reference incl. SipHash-1-3)"}, True)


def run_check(tier, seed):
    run = Run(PID, tier, seed)
    rng = random.Random(seed * 1000003 + 4)
    now = int(time.time())
    kw = dict(nontrivial=nontrivial, describe=describe, canon=make_canon(now))
    n = 6000 if tier == "quick" else 250000

    cases, laws = [], []
    for _ in range(n):
        argv, rules, law = gen_case(rng, now)
        argv.append("--output-format=zerv")
        if rng.random() < 0.5:
            argv.append("--schema=" + rng.choice(["standard", "standard-base-prerelease-post-dev", "standard-context", "standard-base", "standard-no-context"]))
        cases.append(flw("zerv", None, argv, now, rules=rules))
        laws.append(law)
    res = correspond(run, "source_none_tag_branch_distance_dirty_flags_rules", cases, **kw)
    for (c, r, m, v), law in zip(res, laws):
        check_law(run, "source_none_tag_branch_distance_dirty_flags_rules", c, r, law)

    # the same states delivered as a stdin Zerv object (tag fields in vars, VCS fields from the object)
    cases, laws = [], []
    FULL = {"core": [("v", "Major"), ("v", "Minor"), ("v", "Patch")], "extra": [("v", "Epoch"), ("v", "PreRelease"), ("v", "Post"), ("v", "Dev")], "build": []}
    for _ in range(n // 2):
        tag = rand_tag(rng)
        branch = rng.choice(BRANCHES + [None])
        distance = rng.choice([None, 0, 1, 3, 17])
        dirty = rng.choice([None, True, False])
        mode_flag = rng.choice([None, None, "tag", "commit"])
        hash_len = rng.choice([5, 1, 3, 7, 9, 10])
        vars_ = {"major": tag["major"], "minor": tag["minor"], "patch": tag["patch"], "pre": tag["pre"], "post": tag["post"], "distance": distance,
                 "dirty": dirty, "bumped_branch": branch, "bumped_hash": "abcdef0123", "custom": {}}
        argv = ["--source=stdin", "--output-format=zerv", f"--hash-branch-len={hash_len}"] + ([f"--post-mode={mode_flag}"] if mode_flag else [])
        # overrides on top of the object, each alone and combined: the flow decisions must follow the overridden state, exactly as on source none
        e_branch, e_distance, e_dirty = branch, distance, dirty
        if rng.random() < 0.5:
            for k in rng.sample(["distance", "branch", "dirty"], rng.choice([1, 1, 1, 2, 3])):
                if k == "distance":
                    e_distance = rng.choice([0, 0, 1, 2, 5, 17])
                    argv.append(f"--distance={e_distance}")
                elif k == "branch":
                    e_branch = rng.choice(BRANCHES)
                    argv.append(f"--bumped-branch={e_branch}")
                else:
                    e_dirty = rng.choice([True, False])
                    argv.append("--dirty" if e_dirty else "--no-dirty")
            rng.shuffle(argv)
        cases.append(flw("zerv", zgen.enc_zerv(FULL, vars_), argv, now))
        laws.append((tag, e_branch, e_distance, e_dirty, None, None, None, mode_flag, hash_len, DEFAULT_RULES))
    res = correspond(run, "stdin_object_states", cases, **kw)
    for (c, r, m, v), law in zip(res, laws):
        check_law(run, "stdin_object_states", c, r, law)

    # hash contract: depends only on (branch, length); at most `length` digits, no leading zero; every length 1..10 works
    cases, meta = [], []
    for b in BRANCHES + ["feature/" + "".join(rng.choice("abcxyz-_/") for _ in range(rng.randint(1, 12))) for _ in range(n // 40)]:
        for L in range(1, 11):
            argv = ["--source=none", "--tag-version=1.0.0", "--distance=1", f"--bumped-branch={b}", f"--hash-branch-len={L}", "--output-format=zerv",
                    "--branch-rules=" + rules_ron([("nomatch", "alpha", 1, "commit")])]
            cases.append(flw("zerv", None, argv, now, rules=[("nomatch", "alpha", 1, "commit")]))
            meta.append((b, L))
    res = correspond(run, "hash_length_1_to_10_for_every_branch", cases, **kw)
    for (c, r, m, v), (b, L) in zip(res, meta):
        exp = ref_hash_int(b, L)
        if r.startswith("OK Z "):
            _, got, _ = zgen.dec_zerv(r.split(" ")[1:])
            num = got["pre"][1] if got["pre"] else None
            if num != exp or len(str(num)) > L:
                run.add_violation("oracle", {"stream": "hash_length_1_to_10_for_every_branch", "branch": b, "length": L, "impl_number": num, "expected": exp,
                                             "oracle": "hash_int(branch, length) = first `length` decimal digits of SipHash-1-3(branch bytes ++ 0xFF)"}, True)
        elif L == 10 and exp >= 2 ** 32:
            run.known_hits[KNOWN_HASH10] += 1
        else:
            run.add_violation("oracle", {"stream": "hash_length_1_to_10_for_every_branch", "branch": b, "length": L, "impl_reply": r[:200],
                                         "oracle": "every documented length works for every branch"}, True)
    return run


RULE = ("requests are `zerv flow` argument vectors over the product of the quantifier: tags (final and pre-release, both formats) x branch names (rule names, "
        "rule name plus suffix without slash, nested paths, digit segments, non-ASCII, empty) x distance x dirty x --post x label/num flags x post mode x "
        "hash length 1-10 x random rule lists, on sources none and stdin (stdin objects also under --distance / --bumped-branch / --dirty overrides); results are compared with the model and judged by an independent Python "
        "reference of the flow law incl. its own SipHash-1-3; dev is compared as present/absent within the wall-clock window; non-trivial = ahead or dirty state")
