"""C14 - output is deterministic and independent of the environment."""
import shutil, tempfile, time
from .common import *
from . import zgen, gitfx
from .cli import *
from . import c12

PID = "C14"
TARGETS = ["Props/C14.vo"]

TZS = ["UTC", "Pacific/Kiritimati", "Pacific/Pago_Pago", "Asia/Kolkata", "<+14>-14", "<-11>11", ":America/New_York", "Europe/London", "XXX-5:45", ""]
LOCALES = ["C", "C.utf8", "POSIX", "tr_TR.UTF-8", "de_DE.UTF-8", "ja_JP.eucJP", "en_US.UTF-8"]
JUNK = [{"RUST_BACKTRACE": "1"}, {"NO_COLOR": "1"}, {"CLICOLOR_FORCE": "1", "TERM": "xterm-256color"}, {"COLUMNS": "20", "LINES": "3"}, {"ZERV_SCHEMA": "calver", "ZERV_OUTPUT_FORMAT": "pep440"},
        {"HOME": "/nonexistent", "USER": "someone"}, {"SOURCE_DATE_EPOCH": "0"}, {"RUST_LOG": "debug"}, {"RUST_LOG": "trace", "ZERV_FORCE_RUST_LOG_OFF": "0"}, {"PAGER": "cat"},
        {"ZERV_TEST_NATIVE_GIT": "true", "ZERV_TEST_DOCKER": "false"}, {"TZDIR": "/nonexistent"}, {"LC_TIME": "tr_TR.UTF-8", "LC_NUMERIC": "de_DE.UTF-8"}, {"TMPDIR": "/nonexistent"},
        {"RANDOM_SEED": "7", "RUST_MIN_STACK": "8388608"}]
# what CI systems export: none of it is an input of zerv (the branch, the commit and the tag come from git or from the command line)
CI_VARS = {"CI": "true", "GITHUB_ACTIONS": "true", "GITHUB_HEAD_REF": "release/2.0", "GITHUB_REF_NAME": "release/2.0", "GITHUB_REF": "refs/heads/release/2.0", "GITHUB_BASE_REF": "main",
           "GITHUB_SHA": "f" * 40, "GITHUB_RUN_NUMBER": "77", "GITLAB_CI": "true", "CI_COMMIT_REF_NAME": "develop", "CI_COMMIT_BRANCH": "develop", "CI_COMMIT_TAG": "v9.9.9",
           "CI_COMMIT_SHA": "e" * 40, "CI_COMMIT_SHORT_SHA": "eeeeeee", "CI_PIPELINE_IID": "12", "BRANCH_NAME": "release/3", "GIT_BRANCH": "origin/release/3", "GIT_COMMIT": "d" * 40,
           "BUILD_NUMBER": "78", "TRAVIS_BRANCH": "release/4", "TRAVIS_TAG": "v8.8.8", "CIRCLE_BRANCH": "release/5", "CIRCLE_TAG": "v7.7.7", "BITBUCKET_BRANCH": "release/6", "DRONE_BRANCH": "release/7",
           "BUILD_SOURCEBRANCHNAME": "release/8", "BUILD_SOURCEBRANCH": "refs/heads/release/8", "APPVEYOR_REPO_BRANCH": "release/9", "BUILDKITE_BRANCH": "release/10", "SEMAPHORE_GIT_BRANCH": "release/11",
           "VERSION": "6.6.6", "PACKAGE_VERSION": "5.5.5", "SETUPTOOLS_SCM_PRETEND_VERSION": "4.4.4", "SOURCE_DATE_EPOCH": "1234567890", "BUILD_DATE": "2001-02-03", "DIRTY": "1"}
TS_TEMPLATES = ["{{ format_timestamp(value=bumped_timestamp) }}", "{{ format_timestamp(value=bumped_timestamp, format='%Y%m%d.%H%M') }}", "{{ format_timestamp(value=bumped_timestamp, format='%c|%x|%X|%A|%B') }}",
                "{{ format_timestamp(value=last_timestamp, format='compact_datetime') }}", "{{ format_timestamp(value=bumped_timestamp, format='%H:%M %p %Z %z') }}",
                "{{ hash(value=bumped_branch) }}.{{ hash_int(value=bumped_branch, length=9) }}", "{{ semver }} {{ pep440 }}", "{{ format_timestamp(value=bumped_timestamp, format='%s %j %U %W %G-%V-%u') }}",
                "{{ format_timestamp(value=last_timestamp, format='%Y%m%d%H%M%S') }}", "{{ format_timestamp(value=last_timestamp, format='%s') }}|{{ format_timestamp(value=bumped_timestamp, format='%s') }}"]
TS_SCHEMAS = [{"core": [("t", "YYYY"), ("t", "MM"), ("t", "DD")], "extra": [], "build": [("t", "HH"), ("t", "mm"), ("t", "SS"), ("t", "WW")]},
              {"core": [("t", "YY"), ("t", "0M"), ("t", "0D")], "extra": [("v", "PreRelease")], "build": [("t", "0H"), ("t", "0m"), ("t", "0S"), ("t", "0W"), ("t", "compact_datetime")]},
              {"core": [("v", "Major"), ("t", "compact_date")], "extra": [], "build": [("v", "BumpedBranch")]}]


def env_variants(rng, k):
    out = []
    for _ in range(k):
        e = {"TZ": rng.choice(TZS), "LANG": rng.choice(LOCALES)}
        if rng.random() < 0.4:
            e["LC_ALL"] = rng.choice(LOCALES)
        if rng.random() < 0.6:
            e.update(rng.choice(JUNK))
        if rng.random() < 0.35:          # git translates its messages (e.g. the "(HEAD detached at ...)" marker) under a non-C locale with LANGUAGE set
            e["LANGUAGE"] = rng.choice(["de", "fr", "es", "de:en", "ja", "pt_BR"])
            e["LC_ALL"] = "C.UTF-8"
            e["LANG"] = "C.UTF-8"
        out.append(e)
    return out


KNOWN_TERA = "tera-builtin-functions-now-get_env-get_random"


def run_check(tier, seed):
    run = Run(PID, tier, seed)
    rng = random.Random(seed * 1000003 + 14)
    q = tier == "quick"
    now = int(time.time())
    K = 5 if q else 9
    root = tempfile.mkdtemp(prefix="zv14-")
    try:
        cwds = ["/", "/tmp", os.path.join(root, "some dir é")]
        os.makedirs(cwds[2])

        # ---------------- stream 1: stdin / none sources under the environment matrix, base run compared with the model
        cases = []
        for _ in range(350 if q else 8000):
            c = gen_version_case(rng) if rng.random() < 0.7 else gen_flow_text_case(rng, now)
            r = rng.random()
            if c["cmd"] == "version" and r < 0.35 and not any(a.startswith("--schema") for a in c["argv"]):
                c["argv"].append("--schema=" + rng.choice([p for p in zgen.PRESETS if p.startswith("calver")]))
            elif c["cmd"] == "version" and r < 0.5 and not any(a.startswith("--schema") for a in c["argv"]):
                rs = rng.choice(TS_SCHEMAS)
                c["argv"].append("--schema-ron=" + zgen.ron_schema(rs))
                c["ron"] = dict(rs, prec=zgen.DEFAULT_PREC)
            if not any(a.startswith("--bumped-timestamp") for a in c["argv"]) and rng.random() < 0.6:
                c["argv"].append(f"--bumped-timestamp={rng.randint(0, 4102444800)}")
            if rng.random() < 0.3:
                c["extra"] = ["--output-template=" + rng.choice(TS_TEMPLATES)]
                c["model"] = False
            else:
                c["extra"] = ["--output-format=" + rng.choice(["semver", "pep440", "zerv"])]
                c["model"] = True
            cases.append(c)
        objs = [c["stdin_obj"] for c in cases if c.get("stdin_obj")]
        texts = iter(ron_texts(objs)) if objs else iter([])
        for c in cases:
            c["stdin_text"] = next(texts).encode() if c.get("stdin_obj") else None
        base_cmds = [([c["cmd"]] + c["argv"] + c["extra"], c["stdin_text"]) for c in cases]
        times = {}
        base = run_procs(base_cmds, env={"TZ": "UTC", "LANG": "C"}, times=times)
        run.evaluations += len(base)
        st = run.streams.setdefault("env_matrix_stdin_none", {"cases": 0, "variants_per_case": K, "runs": len(base), "exit0": 0, "model_compared": 0, "env_pool": {"TZ": TZS, "LANG/LC_ALL": LOCALES, "extra_vars": len(JUNK), "cwd": 3}})
        # variants: grouped by environment so that one pool call shares an environment
        variants = []          # (case index, env, cwd)
        for i in range(len(cases)):
            for e in env_variants(rng, K - 1):
                variants.append((i, e, rng.choice(cwds)))
            variants.append((i, {"TZ": "UTC", "LANG": "C"}, "/tmp"))      # plain repetition

        def one(v):
            i, e, cwd = v
            env = dict(BASE_ENV)
            env.update(e)
            try:
                p = subprocess.run([ZERV] + base_cmds[i][0], input=base_cmds[i][1] or b"", stdout=subprocess.PIPE, stderr=subprocess.PIPE, env=env, cwd=cwd, timeout=60)
                return p.returncode, p.stdout, p.stderr
            except subprocess.TimeoutExpired:
                return -999, b"", b"timeout"
        with concurrent.futures.ThreadPoolExecutor(max_workers=NPROC) as ex:
            vres = list(ex.map(one, variants))
        run.evaluations += len(vres)
        st["runs"] += len(vres)
        # which cases read the wall clock?  decided by the model: the emitted object differs between two clock values
        # (theorem c14_version_clock_only_when_dirty: exactly the dirty final states); for those only numbers near the clock can be
        # masked, so cases that format the clock into calendar fields are compared on exit status alone
        probe = []
        for c in cases:
            for t in (1, 2000000000):
                probe.append(model_request(c, ["--output-format=zerv"], t) + " | -")
        pr = [m.partition("\t")[0] for m in run_lines([ZVM], probe)]
        for i, c in enumerate(cases):
            c["clock"] = pr[2 * i] != pr[2 * i + 1] or pr[2 * i].startswith("MODELERR")
            c["formats_clock"] = c["clock"] and (any("output-template" in x for x in c["extra"]) or any(a.startswith("--schema-ron") or "calver" in a for a in c["argv"])
                                                 or bool(c.get("stdin_obj") and not any(a.startswith("--schema") for a in c["argv"])))
        st["clock_sensitive_cases"] = sum(1 for c in cases if c["clock"])
        st["status_only_cases"] = sum(1 for c in cases if c["formats_clock"])
        for (i, e, cwd), (rc, out, err) in zip(variants, vres):
            brc, bout, berr = base[i]
            c = cases[i]
            if c["formats_clock"]:
                if (rc == 0) != (brc == 0):
                    run.add_violation("oracle", {"stream": "env_matrix_stdin_none", "what": "success depends on the environment", "described": {"argv": base_cmds[i][0]}, "environment": e, "cwd": cwd,
                                                 "baseline": [brc, berr.decode("utf-8", "replace")[-200:]], "variant": [rc, err.decode("utf-8", "replace")[-200:]]}, True)
                continue
            # a state that does not read the clock (model probe above; theorem c14_version_clock_only_when_dirty) gets no clock tolerance:
            # there, two runs that print different text are a violation even when the difference comes and goes with time
            if ((rc == 0) != (brc == 0) or (rc == 0 and mask_now(out.decode("utf-8", "replace"), now) != mask_now(bout.decode("utf-8", "replace"), now))) and \
                    (not c["clock"] or really_differs(base_cmds[i], base_cmds[i], env_a={"TZ": "UTC", "LANG": "C"}, env_b=e, cwd_b=cwd)[0]):
                run.add_violation("oracle", {"stream": "env_matrix_stdin_none", "what": "output depends on the environment", "described": {"argv": base_cmds[i][0], "stdin": (c["stdin_text"] or b"").decode("utf-8", "replace")[:1500]},
                                             "environment": e, "cwd": cwd, "baseline_env": {"TZ": "UTC", "LANG": "C", "cwd": "/tmp"},
                                             "baseline": [brc, bout.decode("utf-8", "replace")[:400]], "variant": [rc, out.decode("utf-8", "replace")[:400], err.decode("utf-8", "replace")[-200:]]}, True)
        # model comparison of the base run (the model has no environment at all)
        midx = [i for i, c in enumerate(cases) if c["model"]]
        mo = model_texts([cases[i] for i in midx], [cases[i]["extra"] for i in midx], {j: times.get(i, (0, 0)) for j, i in enumerate(midx)})
        for j, i in enumerate(midx):
            rc, out, err = base[i]
            c = cases[i]
            st["model_compared"] += 1
            ok = text_matches(mo[j], out.decode("utf-8", "replace")[:-1]) if rc == 0 else not all(r.startswith("OK") for r in mo[j])
            if not ok:
                run.disagreements += 1
                run.add_violation("correspondence", {"stream": "env_matrix_stdin_none", "what": "model and binary disagree", "described": {"argv": base_cmds[i][0], "stdin": (c["stdin_text"] or b"").decode("utf-8", "replace")[:1500]},
                                                     "impl": [rc, out.decode("utf-8", "replace")[:400]], "model_reply": mo[j][0][:400]}, False)
        for i, c in enumerate(cases):
            st["cases"] += 1
            if base[i][0] == 0:
                st["exit0"] += 1
                run.nontrivial.add(base[i][1])
        run.samples.append({"stream": "env_matrix_stdin_none", "argv": base_cmds[0][0], "output": base[0][1].decode("utf-8", "replace")[:200]})

        # ---------------- stream 1a: the bytes on stdin decide, not how fast they arrive: a producer that writes late (after 1.5 s and
        # after 3 s, in two pieces) must give what the same document gives when it is there at once
        st = run.streams.setdefault("slow_stdin_producers", {"cases": 0})
        slow_docs = [c for c in cases if c.get("stdin_text") and c["cmd"] == "version"][:4]

        def slow(ic):
            c, delay = ic
            p = subprocess.Popen([ZERV, c["cmd"]] + c["argv"] + c["extra"], stdin=subprocess.PIPE, stdout=subprocess.PIPE, stderr=subprocess.PIPE, env=dict(BASE_ENV, TZ="UTC", LANG="C"), cwd="/tmp")
            half = len(c["stdin_text"]) // 2
            time.sleep(delay)
            try:
                p.stdin.write(c["stdin_text"][:half]); p.stdin.flush()
                time.sleep(delay / 2)
                p.stdin.write(c["stdin_text"][half:]); p.stdin.close()
            except BrokenPipeError:
                pass
            out = p.stdout.read(); err = p.stderr.read(); p.wait()
            return p.returncode, out, err
        sj = [(c, d) for c in slow_docs for d in (1.5, 3.0)]
        with concurrent.futures.ThreadPoolExecutor(max_workers=max(1, len(sj))) as ex:
            sres = list(ex.map(slow, sj))
        for (c, d), (rc, out, err) in zip(sj, sres):
            st["cases"] += 1
            run.evaluations += 1
            i = cases.index(c)
            brc, bout, berr = base[i]
            if (rc == 0) != (brc == 0) or (rc == 0 and not c["clock"] and out != bout) or (rc == 0 and c["clock"] and mask_now(out.decode("utf-8", "replace"), now) != mask_now(bout.decode("utf-8", "replace"), now) and not c["formats_clock"]):
                run.add_violation("oracle", {"stream": "slow_stdin_producers", "what": "the result depends on how late the stdin document arrives", "described": {"argv": [c["cmd"]] + c["argv"] + c["extra"], "delay_s": d,
                                             "stdin": c["stdin_text"].decode("utf-8", "replace")[:800]}, "immediate": [brc, bout.decode("utf-8", "replace")[:300]], "delayed": [rc, out.decode("utf-8", "replace")[:300], err.decode("utf-8", "replace")[-200:]]}, True)

        # ---------------- stream 1b: Tera's built-in functions are reachable from templates (known finding, recorded with these inputs):
        # zerv's own variables and functions must stay deterministic next to them
        st = run.streams.setdefault("tera_builtins_in_templates", {"cases": 0, "environment_dependent(known)": 0, "own_part_deterministic": 0})
        probes = ["{{ now() }}", "{{ now(utc=false) }}", '{{ get_env(name="ZV_PROBE", default="-") }}', "{{ get_random(start=0, end=1000000000) }}"]
        for tpl in probes:
            argv = ["version", "--source=none", "--tag-version=1.2.3", "--bumped-timestamp=1700000000", "--output-template=" + tpl + "|{{ semver }}|{{ format_timestamp(value=bumped_timestamp, format='%Y-%m-%dT%H') }}"]
            a = run_procs([(argv, None)], env={"TZ": "UTC", "ZV_PROBE": "one"})[0]
            time.sleep(1.1)
            b = run_procs([(argv, None)], env={"TZ": "Pacific/Kiritimati", "ZV_PROBE": "two"})[0]
            st["cases"] += 1
            run.evaluations += 1
            if a[0] != 0 or b[0] != 0:
                continue                                   # the built-in is not available (any more): nothing to record
            oa, ob = a[1].decode("utf-8", "replace").strip().split("|"), b[1].decode("utf-8", "replace").strip().split("|")
            if oa[0] != ob[0]:
                st["environment_dependent(known)"] += 1
                run.known_hits[KNOWN_TERA] += 1
            if oa[1:] == ob[1:] == ["1.2.3", "2023-11-14T22"]:
                st["own_part_deterministic"] += 1
            else:
                run.add_violation("oracle", {"stream": "tera_builtins_in_templates", "what": "zerv's own variables / functions differ between two environments",
                                             "described": {"argv": argv}, "outputs": [a[1].decode("utf-8", "replace")[:300], b[1].decode("utf-8", "replace")[:300]]}, True)

        # ---------------- stream 2: git source: cwd / -C / subdirectory / environment
        repos = gitfx.standard_repos(os.path.join(root, "repos"))
        names = [n for n in repos if n not in ("not_a_repo", "empty_repo", "ahead_subdir")]
        cmds = [["version"], ["version", "--output-format=pep440"], ["flow"], ["version", "--output-format=zerv"], ["version", "--schema=calver"], ["flow", "--schema=standard-base-prerelease-post"],
                ["version", "--output-template=" + TS_TEMPLATES[1]], ["version", "--schema-ron=" + zgen.ron_schema(TS_SCHEMAS[0])], ["flow", "--output-format=zerv"]]
        # presentation settings a user may well have in ~/.gitconfig: none of them may reach zerv's reading of git's output
        gitconfigs = []
        for i, body in enumerate(["[column]\n\tui = always\n[color]\n\tui = always\n[core]\n\tabbrev = 5\n\tquotePath = true\n[log]\n\tdate = iso\n\tdecorate = full\n[format]\n\tpretty = fuller\n[status]\n\tshort = true\n\tbranch = true\n",
                                  "[tag]\n\tsort = -version:refname\n[column]\n\ttag = always\n\tbranch = always\n[branch]\n\tsort = -committerdate\n[log]\n\tshowSignature = true\n\tabbrevCommit = true\n[pager]\n\ttag = cat\n\tlog = cat\n",
                                  "[tag]\n\tsort = -creatordate\n[versionsort]\n\tsuffix = -rc\n[i18n]\n\tlogOutputEncoding = latin1\n[core]\n\tpager = cat\n\tabbrev = 40\n"]):
            gp = os.path.join(root, f"gitconfig{i}")
            open(gp, "w").write(body)
            gitconfigs.append(gp)
        st = run.streams.setdefault("env_matrix_git", {"repos": len(names), "commands": len(cmds), "runs": 0, "user_gitconfigs": len(gitconfigs)})
        jobs = []
        for n in names:
            for c in cmds:
                jobs.append((n, c, repos[n], [], {"TZ": "UTC", "LANG": "C"}))                       # baseline: cwd = repository root
                jobs.append((n, c, "/tmp", ["-C", repos[n]], {"TZ": "UTC", "LANG": "C"}))           # -C from elsewhere
                jobs.append((n, c, cwds[2], ["--directory=" + repos[n]], rng.choice(env_variants(rng, 1))))
                if n == "ahead":
                    jobs.append((n, c, repos["ahead_subdir"], [], {"TZ": "UTC", "LANG": "C"}))       # from a subdirectory
                    # a relative -C with leading ".." under a PWD variable that is right, stale (points elsewhere) or nonsense: the
                    # directory is resolved by the operating system from the real working directory, never from $PWD
                    for pwd in (repos["ahead_subdir"], repos["tagged_clean"], "/nonexistent/zz", ""):
                        jobs.append((n, c, repos["ahead_subdir"], ["-C", "../.."], {"TZ": "UTC", "LANG": "C", "PWD": pwd, "OLDPWD": repos["no_tags"]}))
                for e in env_variants(rng, 2 if q else 5):
                    e.pop("TZDIR", None)
                    jobs.append((n, c, repos[n], [], e))
                jobs.append((n, c, repos[n], [], {"TZ": "UTC", "LANG": "C"}))                       # repetition
                jobs.append((n, c, repos[n], [], dict(CI_VARS, TZ="UTC", LANG="C")))                # everything a CI system exports, at once
                for g in gitconfigs:                                                              # the user's git configuration
                    jobs.append((n, c, repos[n], [], {"TZ": "UTC", "LANG": "C", "ZV_GITCONFIG": g}))

        def oneg(j):
            n, c, cwd, extra, e = j
            env = dict(BASE_ENV)
            env.update(e)
            env.update({"GIT_CONFIG_GLOBAL": env.pop("ZV_GITCONFIG", "/dev/null"), "GIT_CONFIG_SYSTEM": "/dev/null"})
            p = subprocess.run([ZERV] + c[:1] + extra + c[1:], stdin=subprocess.DEVNULL, stdout=subprocess.PIPE, stderr=subprocess.PIPE, env=env, cwd=cwd, timeout=120)
            return p.returncode, p.stdout, p.stderr
        with concurrent.futures.ThreadPoolExecutor(max_workers=NPROC) as ex:
            gres = list(ex.map(oneg, jobs))
        run.evaluations += len(gres)
        st["runs"] = len(gres)
        basemap = {}
        for (n, c, cwd, extra, e), (rc, out, err) in zip(jobs, gres):
            key = (n, tuple(c))
            if key not in basemap:
                basemap[key] = (rc, out, err, cwd, e)
                if rc == 0:
                    run.nontrivial.add(out)
                continue
            brc, bout, berr, bcwd, be = basemap[key]
            if n in ("ahead_dirty", "tagged_dirty", "release_branch") and any("calver" in x or "ts(" in x or "format_timestamp" in x for x in c):
                if (rc == 0) != (brc == 0):       # the wall clock is formatted into calendar fields: status only
                    run.add_violation("oracle", {"stream": "env_matrix_git", "what": "success depends on the environment", "described": {"repository_state": n, "argv": c}, "environment": e}, True)
                continue
            if (rc == 0) != (brc == 0) or (rc == 0 and mask_now(out.decode("utf-8", "replace"), now) != mask_now(bout.decode("utf-8", "replace"), now)):
                run.add_violation("oracle", {"stream": "env_matrix_git", "what": "output depends on the environment / working directory", "described": {"repository_state": n, "argv": c[:1] + extra + c[1:]},
                                             "environment": e, "cwd": cwd.replace(root, "<scratch>"), "baseline": [brc, bout.decode("utf-8", "replace")[:400], berr.decode("utf-8", "replace")[-200:]],
                                             "variant": [rc, out.decode("utf-8", "replace")[:400], err.decode("utf-8", "replace")[-200:]]}, True)
        # repositories whose dates lie in the future, and calm states in general: the same command after a pause prints byte for byte the same
        # (no masking of numbers near the wall clock here: nothing in these states reads it) and carries git's own dates
        st2 = run.streams.setdefault("calm_git_states_repeated_after_a_pause", {"runs": 0})
        calm = [n for n in ("tagged_clean", "future_dated_tagged_clean", "future_dated_ahead", "ahead", "detached", "shallow_clone") if n in repos]
        pj = [(n, c) for n in calm for c in (["version", "--output-format=zerv"], ["version", "--schema=calver-base"], ["version", "--output-template=" + TS_TEMPLATES[9]])]
        first = [oneg((n, c, repos[n], [], {"TZ": "UTC", "LANG": "C"})) for n, c in pj]
        time.sleep(1.2)
        second = [oneg((n, c, repos[n], [], {"TZ": "Pacific/Kiritimati", "LANG": "C"})) for n, c in pj]
        for (n, c), a, b in zip(pj, first, second):
            st2["runs"] += 2
            run.evaluations += 2
            if a[0] != b[0] or a[1] != b[1]:
                run.add_violation("oracle", {"stream": "calm_git_states_repeated_after_a_pause", "what": "a state that does not read the clock prints something else 1.2 s later",
                                             "described": {"repository_state": n, "argv": c}, "first": a[1].decode("utf-8", "replace")[-500:], "second": b[1].decode("utf-8", "replace")[-500:]}, True)
            if n.startswith("future_dated") and a[0] == 0 and c[-1] == "--output-format=zerv" and b"bumped_timestamp: Some(40709" not in a[1]:
                run.add_violation("oracle", {"stream": "calm_git_states_repeated_after_a_pause", "what": "the commit time of a future-dated commit is not reported as git records it",
                                             "described": {"repository_state": n, "argv": c}, "output": a[1].decode("utf-8", "replace")[-500:]}, True)
    finally:
        shutil.rmtree(root, ignore_errors=True)
    return run


RULE = ("env_matrix_stdin_none: version/flow cases (stdin RON and source none; presets incl. all calver ones, timestamp schemas, format_timestamp/hash templates, random "
        "bumped timestamps) run once in TZ=UTC/LANG=C and again under K-1 random environments (10 time zones incl. +14/-11 so that the local date differs from the UTC date "
        "for every instant in at least one of them, 7 locales, 15 sets of unrelated variables, 3 working directories) plus a plain repetition; stdout and success must be "
        "identical (numbers within two hours of the wall clock masked); the base run of every non-template case must equal the model, which has no environment. "
        "env_matrix_git: real repository states (incl. a shallow clone, future-dated commits, a detached HEAD) x 9 commands from the repository root, via -C/--directory from elsewhere, from a subdirectory, under random environments, under everything CI systems export (GITHUB_*, CI_COMMIT_*, BRANCH_NAME, ... at once), and repeated; calm states repeated after a pause are compared unmasked. "
        "distinct_nontrivial = distinct successful outputs")
