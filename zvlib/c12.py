"""C12 - Zerv RON is a lossless interchange format and invalid objects are refused."""
import itertools, time
from .common import *
from . import zgen
from .cli import *
from . import c05

PID = "C12"
TARGETS = ["Props/C12.vo"]

NASTY = ['"', "\\", "'", "\n", "\r", "\t", "\0", "a\"b", "a\\b", "\\n", "tab\there", "line\nbreak", "é", "ブランチ", "\u007f", "\u0080", "­", "​", " ",
         "\U0001F600", "\u00a0", "e\u0301", "\u2028", "\u3000", "\ufeff", "x" * 200, "", " ", "  lead", "trail  ", "(", ")", "[", "]", "{", "}", ",", ":", "//c", "/*c*/", "Some(1)", "None", "r#\"raw\"#", "\\u{41}", "\x1b[0m"]
TEMPLATES = ["{{ semver }}|{{ pep440 }}", "{{ major }}.{{ minor }}.{{ patch }}-{{ bumped_branch }}", "{{ semver_obj.docker }} {{ pep440_obj.base_part }}",
             "{% if dirty %}D{% else %}C{% endif %}{{ distance }}:{{ bumped_commit_hash_short }}", "{{ custom | json_encode() }}",
             "{{ pre_release.label }}/{{ pre_release.number }}", "{{ hash(value=bumped_branch, length=7) }}.{{ hash_int(value=bumped_branch, length=5) }}"]


def nasty_vars(rng):
    v = zgen.rand_vars(rng)
    for k in ("bumped_branch", "bumped_hash", "last_branch", "last_hash", "last_tag"):
        if rng.random() < 0.5:
            v[k] = rng.choice(NASTY) if rng.random() < 0.7 else "".join(rng.choice(NASTY) for _ in range(rng.randint(1, 3)))
    if rng.random() < 0.5:
        def nj(d):
            r = rng.random()
            if d > 2 or r < 0.4:
                return rng.choice([rng.choice(NASTY), 0, 2 ** 64 - 1, -2 ** 63, True, False, None])
            if r < 0.75:
                return {rng.choice(NASTY + ["k", "a.b"]): nj(d + 1) for _ in range(rng.randint(0, 3))}
            return [nj(d + 1) for _ in range(rng.randint(0, 3))]
        c = nj(0)
        v["custom"] = c if isinstance(c, dict) else {"k": c}
    return v


def nasty_schema(rng):
    s = zgen.rand_schema(rng, valid=rng.random() < 0.93)
    for part in ("core", "extra", "build"):
        s[part] = [(("s", rng.choice(NASTY)) if c[0] == "s" and rng.random() < 0.6 else ("c", rng.choice(NASTY)) if c[0] == "c" and rng.random() < 0.4 else c) for c in s[part]]
    r = rng.random()
    if r < 0.08:
        s["prec"] = []
    elif r < 0.16:
        p = list(zgen.DEFAULT_PREC)
        rng.shuffle(p)
        s["prec"] = p[:rng.randint(1, len(p))]
    return s


def systematic_schemas():
    """every arrangement of primaries (with repetition, up to 3) in core and of secondaries (up to 3 of 4, with repetition) in extra, plus misplacements"""
    out = []
    for n in range(0, 4):
        for seq in itertools.product(zgen.PRIMARY, repeat=n):
            core = [("v", p) for p in seq]
            out.append({"core": core, "extra": [], "build": [("s", "x")]})
            if n:
                inter = []
                for c in core:
                    inter += [c, ("v", "Distance")]
                out.append({"core": [("s", "lit")] + inter, "extra": [("v", "Post")], "build": []})
    for n in range(1, 4):
        for seq in itertools.product(zgen.SECONDARY, repeat=n):
            out.append({"core": [("v", "Major")], "extra": [("v", p) for p in seq], "build": []})
    for p in zgen.PRIMARY + zgen.SECONDARY:
        out.append({"core": [("v", "Major")], "extra": [], "build": [("v", p)]})
        if p in zgen.PRIMARY:
            out.append({"core": [], "extra": [("v", p)], "build": []})
        else:
            out.append({"core": [("v", p)], "extra": [], "build": []})
    # the valid names, their neighbours, and every proper substring / join / case variant of a valid name (a lookup that is not an exact
    # match of the whole name - prefix, substring, case-insensitive - accepts one of these)
    near = set()
    for v in zgen.TS_PATTERNS:
        for i in range(len(v)):
            for j in range(i + 1, len(v) + 1):
                near.add(v[i:j])
        near.update([v.lower(), v.upper(), v + " ", " " + v, v + v[-1], v + ", " + zgen.TS_PATTERNS[0], v + "," + v])
    near -= set(zgen.TS_PATTERNS)
    for pat in zgen.TS_PATTERNS + ["YYYYMM", "%Y", "bogus", "", "yyyy", "YY", "0W", "WW", "HH", "0H", "mm", "0m", "SS", "0S", "YYYY0M0D", "YYYY0M0D0H0m0S", "YYYY-MM"] + sorted(near):
        for part in ("core", "extra", "build"):
            s = {"core": [], "extra": [], "build": []}
            s[part] = [("t", pat)]
            out.append(s)
    out.append({"core": [], "extra": [], "build": []})
    return out


def mutate_must_reject(rng, t):
    """document damage whose verdict is known without a RON grammar: the result is certainly not a valid Zerv document"""
    k = rng.random()
    if k < 0.3:                         # truncation strictly inside the document
        body = t.rstrip()
        cut = rng.randint(1, len(body) - 1)
        return "truncate", body[:cut]
    if k < 0.5:                         # unbalance: delete one bracket outside strings
        idx = [i for i, ch in enumerate(t) if ch in "()[]" and not _in_string(t, i)]
        i = rng.choice(idx)
        return "drop-bracket", t[:i] + t[i + 1:]
    if k < 0.65:                        # unknown variant names
        for old, new in rng.sample([("var(Major)", "var(Majr)"), ("var(Minor)", "var(minor)"), ("Some(", "Sone("), ("uint(", "unit("), ("str(", "string("), ("var(", "variable("),
                                    ("Epoch", "Epoc"), ("Alpha", "alpha"), ("Beta", "Gamma"), ("Rc", "RC")], 10):
            if old in t and not _in_string(t, t.index(old)):
                return "unknown-variant", t.replace(old, new, 1)
        return "truncate", t.rstrip()[:-1]
    if k < 0.8:                         # type confusion
        for old, new in rng.sample([("major: Some(", "major: Some(\"x\""), ("distance: ", "distance: [1], //"), ("dirty: Some(true)", "dirty: Some(2)"), ("dirty: Some(false)", "dirty: Some(\"no\")"),
                                    ("core: [", "core: 5, //["), ("vars: (", "vars: [("), ("minor: None", "minor: Nothing"), ("patch: None", "patch: -1")], 8):
            if old in t and not _in_string(t, t.index(old)):
                return "type-confusion", t.replace(old, new, 1)
        return "truncate", t.rstrip()[:-2]
    if k < 0.9:
        return "garbage-suffix", t.rstrip() + rng.choice([" x", ")", " (", " ,", " 1", "]"])
    return "not-ron", rng.choice(["", "   ", "hello", "{}", "[]", "()", "(schema: ())", "(vars: ())", "null", "\x00", "1.2.3", "(schema: (core: [var(Major)]))", "((", "(schema: (core: [], extra_core: [], build: []), vars: ())"])


def _in_string(t, i):
    q = False
    j = 0
    while j < i:
        if t[j] == "\\" and q:
            j += 2
            continue
        if t[j] == '"':
            q = not q
        j += 1
    return q


def mutate_free(rng, t):
    """variations whose verdict depends on RON's own rules: only consistency is demanded"""
    k = rng.random()
    if k < 0.2:
        return t.replace(",\n", "\n", 1)
    if k < 0.4:
        return t.replace("(", "( /* c */ ", 1).replace("\n", " // x\n", 1)
    if k < 0.55:
        lines = t.split("\n")
        i = rng.randrange(len(lines))
        return "\n".join(lines[:i] + [lines[i]] + lines[i:])          # a duplicated line
    if k < 0.7:
        lines = t.split("\n")
        i = rng.randrange(len(lines))
        return "\n".join(lines[:i] + lines[i + 1:])                   # a deleted line
    if k < 0.85:
        i = rng.randrange(len(t))
        return t[:i] + rng.choice(" ,()[]\"\\x0") + t[i + 1:]
    return t.replace("    ", "", rng.randint(1, 5)).replace("\n", "", rng.randint(1, 4))


def string_literals(rng, n):
    """RON string literal texts: plain characters and escapes of every kind, valid and invalid; never raw strings, `\\x` escapes of 0x80 and above or
    comments (not modelled)"""
    plain = list("abcXYZ019 .-_+/!#{}()[],:'") + ["é", "ß", "日", "😀", "\u0301", "\u200b", "\u00a0", "\ufeff", "\t", "\n", "\r"]
    good = ['\\"', "\\\\", "\\'", "\\n", "\\r", "\\t", "\\0", "\\x41", "\\x7f", "\\x00", "\\x0A", "\\x7F", "\\u{41}", "\\u{0}", "\\u{7f}", "\\u{e9}", "\\u{E9}", "\\u{00e9}", "\\u{301}",
            "\\u{200b}", "\\u{2028}", "\\u{feff}", "\\u{1F600}", "\\u{1f600}", "\\u{10ffff}", "\\u{10FFFF}", "\\u{d7ff}", "\\u{e000}", "\\u{000041}", "\\u{22}", "\\u{5c}"]
    bad = ["\\q", "\\ ", "\\u{}", "\\u{d800}", "\\u{dfff}", "\\u{110000}", "\\u{ffffff}", "\\u{1234567}", "\\u{0000041}", "\\u{12", "\\u41", "\\u{g}", "\\u{4 1}", "\\x4", "\\xg1", "\\x4g", "\\N", "\\U{41}", "\\X41",
           "\\u{-1}", "\\u{+41}", "\\u{４１}", "\\", "\\1", "\\a", "\\e", "\\b", "\\f", "\\v"]
    tails = ["", "", "", "", " ", "\n", "\t\r\n ", "\u0085", "\u200e\u200f", "\u2028\u2029", "\x0b\x0c", "x", '"', '""', " x", "\u00a0", "\u200b", ",", ")", "\\"]
    heads = ["", "", "", "", " ", "\n\t"]
    out = []
    for _ in range(n):
        k = rng.choice([0, 1, 2, 3, 5, 8, 20])
        r = rng.random()
        body = "".join(rng.choice(plain) if rng.random() < 0.5 else rng.choice(good) if (r < 0.7 or rng.random() < 0.8) else rng.choice(bad) for _ in range(k))
        if rng.random() < 0.1:                      # random code point escapes, all lengths, both cases, leading zeros
            cp = rng.choice([rng.randrange(0, 0x80), rng.randrange(0x80, 0x800), rng.randrange(0x800, 0x10000), rng.randrange(0x10000, 0x110000), rng.randrange(0xD800, 0xE000), rng.randrange(0x110000, 0x1000000)])
            h = ("%x" if rng.random() < 0.5 else "%X") % cp
            h = "0" * rng.choice([0, 0, 1, 2, 3]) + h
            body += "\\u{" + h + "}"
        lit = rng.choice(heads) + '"' + body + ('"' if rng.random() < 0.95 else "") + rng.choice(tails)
        out.append(lit)
    return out


def run_check(tier, seed):
    run = Run(PID, tier, seed)
    rng = random.Random(seed * 1000003 + 12)
    now = int(time.time())
    q = tier == "quick"

    # ---- stream 1: in-process round trip of arbitrary objects, printer model compared byte for byte
    objs = [(nasty_schema(rng), nasty_vars(rng)) for _ in range(1500 if q else 40000)]
    cases = ["RONRT " + zgen.enc_zerv(s, v) for s, v in objs]
    correspond(run, "roundtrip_objects", cases, nontrivial=lambda c, r: r.startswith("OK"), describe=lambda c: {"object": c[:2000]})

    # ---- stream 2: refusal of invalid schemas, systematic and random
    sch = systematic_schemas() + [zgen.rand_schema(rng, valid=rng.random() < 0.4) for _ in range(600 if q else 20000)]
    cases = ["RONV " + zgen.enc_zerv(s, zgen.rand_vars(rng)) for s in sch]
    correspond(run, "schema_refusal", cases, nontrivial=lambda c, r: r == "REJECT", describe=lambda c: {"object": c[:2000]})

    # ---- stream 2b: the READER of string literals (ron's parse_escape with the options zerv reads documents with) against the model's state machine
    # (Model/RonRead.v; theorem c12_string_values_survive: what the writer prints is read back) - valid and invalid escapes of every kind
    cases = ["RONSTR " + hx(t) for t in string_literals(rng, 4000 if q else 150000)]
    correspond(run, "string_literals_read", cases, nontrivial=lambda c, r: r.startswith("OK") and len(r) > 3, describe=lambda c: {"literal": unhx(c.split(" ")[1])[:300]})

    # ---- stream 3: emitted objects of the pipelines: pipe equality through the binary
    n = 400 if q else 12000
    pcs = []
    for _ in range(n):
        c = gen_version_case(rng, NASTY + zgen.TEXTS) if rng.random() < 0.7 else gen_flow_text_case(rng, now)
        if c.get("stdin_obj") and rng.random() < 0.5:
            c["stdin_obj"] = (c["stdin_obj"][0], nasty_vars(rng))
        pcs.append(c)
    objs = [c["stdin_obj"] for c in pcs if c.get("stdin_obj")]
    texts = iter(ron_texts(objs)) if objs else iter([])
    for c in pcs:
        c["stdin_text"] = next(texts).encode() if c.get("stdin_obj") else None
    first = run_procs([([c["cmd"]] + c["argv"] + ["--output-format=zerv"], c["stdin_text"]) for c in pcs])
    run.evaluations += len(first)
    st = run.streams.setdefault("pipe_equality", {"cases": 0, "emitted": 0, "failed_cleanly": 0, "renderings_compared": 0})
    emitted = []
    for c, (rc, out, err) in zip(pcs, first):
        st["cases"] += 1
        desc = {"argv": [c["cmd"]] + c["argv"], "stdin": (c["stdin_text"] or b"").decode("utf-8", "replace")[:1500]}
        if panicked(rc, err):
            run.add_violation("oracle", {"stream": "pipe_equality", "what": "panic", "described": desc, "stderr": err.decode("utf-8", "replace")[-400:]}, True)
        elif rc == 0:
            st["emitted"] += 1
            emitted.append((c, out, desc))
        else:
            st["failed_cleanly"] += 1
    # emitted text parses, satisfies the placement rules (model decides) and re-emits byte-identically
    rp = run_lines([ZVH], ["RONP " + hx(o.decode("utf-8", "replace")) for _, o, _ in emitted]) if emitted else []
    mo = run_lines([ZVM], [f"RONP - | {r}" for r in rp]) if rp else []
    rr = run_lines([ZVH], ["RONRT " + r[3:] for r in rp if r.startswith("OK ")]) if rp else []
    rri = iter(rr)
    for (c, out, desc), r, m in zip(emitted, rp, mo):
        run.evaluations += 1
        verdict = m.partition("\t")[2]
        if not r.startswith("OK "):
            run.add_violation("oracle", {"stream": "pipe_equality", "what": "emitted Zerv RON does not parse back: " + r[:40], "described": desc, "emitted": out.decode("utf-8", "replace")[:1500]}, True)
            continue
        if verdict.startswith("BAD"):
            run.add_violation("oracle", {"stream": "pipe_equality", "what": verdict, "described": desc, "emitted": out.decode("utf-8", "replace")[:1500]}, True)
        x = next(rri)
        if not x.startswith("OK ") or unhx(x.split(" ")[1]) + "\n" != out.decode("utf-8", "replace"):
            run.add_violation("oracle", {"stream": "pipe_equality", "what": "parsed-back object does not re-emit byte-identically: " + x[:30], "described": desc,
                                         "emitted": out.decode("utf-8", "replace")[:1500]}, True)
        run.nontrivial.add(out)
    # renderings: direct vs piped
    jobs, meta = [], []
    for c, out, desc in emitted:
        fmts = [["--output-format=semver"], ["--output-format=pep440"], ["--output-template=" + rng.choice(TEMPLATES)]]
        for f in (fmts if not q else rng.sample(fmts, 2)):
            jobs.append(([c["cmd"]] + c["argv"] + f, c["stdin_text"]))
            jobs.append((["version", "--source=stdin"] + f, out))
            meta.append((c, f, desc, out))
    res = run_procs(jobs)
    run.evaluations += len(res)
    for i, (c, f, desc, out) in enumerate(meta):
        d, p = res[2 * i], res[2 * i + 1]
        st["renderings_compared"] += 1
        for (rc, o, e) in (d, p):
            if panicked(rc, e):
                run.add_violation("oracle", {"stream": "pipe_equality", "what": "panic", "described": desc, "format": f, "stderr": e.decode("utf-8", "replace")[-400:]}, True)
        same = (d[0] == 0) == (p[0] == 0) and (d[0] != 0 or mask_now(d[1].decode("utf-8", "replace"), now) == mask_now(p[1].decode("utf-8", "replace"), now))
        if not same:
            # dirty objects carry the wall clock (possibly formatted): only a difference that is stable counts
            differs, (d, p) = really_differs(jobs[2 * i], jobs[2 * i + 1])
            same = not differs
        if not same:
            run.add_violation("oracle", {"stream": "pipe_equality", "what": "rendering obtained through the pipe differs from the direct rendering", "described": desc, "format": f,
                                         "direct": [d[0], d[1].decode("utf-8", "replace")[:300], d[2].decode("utf-8", "replace")[-200:]],
                                         "piped": [p[0], p[1].decode("utf-8", "replace")[:300], p[2].decode("utf-8", "replace")[-200:]],
                                         "zerv_ron": out.decode("utf-8", "replace")[:1500]}, True)
    for c, out, desc in emitted[:3]:
        run.samples.append({"stream": "pipe_equality", "argv": desc["argv"], "emitted_head": out.decode("utf-8", "replace")[:200]})

    # ---- stream 3b: the binary is the identity on a document it is given unchanged (no override, not dirty): stdout = stdin text, byte for byte.
    #      Includes documents well above 8 KiB with multi-byte characters at every alignment (chunked readers, buffer boundaries).
    ident = [(nasty_schema(rng), nasty_vars(rng)) for _ in range(150 if q else 3000)]
    big = []
    for pad in ("", "a", "ab", "abc"):
        for ch in ("日", "é", "\U0001F600", "é日\U0001F600a"):
            v = zgen.rand_vars(rng)
            v["bumped_branch"] = pad + ch * 4000
            v["custom"] = {("k" + ch * 50 + str(i)): ch * 100 for i in range(8)}
            big.append(({"core": [("v", "Major"), ("v", "Minor"), ("v", "Patch")], "extra": [("v", "PreRelease")], "build": [("v", "BumpedBranch"), ("s", pad + ch * 700)]}, v))
    ident = [(s_, v_) for s_, v_ in ident + big if v_.get("dirty") is not True and v_.get("epoch") != 0]
    pretty = run_lines([ZVH], ["RONRT " + zgen.enc_zerv(s_, v_) for s_, v_ in ident])
    docs = [(o, unhx(r.split(" ")[1])) for o, r in zip(ident, pretty) if r.startswith("OK ")]
    outs = run_procs([(["version", "--source=stdin", "--output-format=zerv"], t.encode()) for _, t in docs])
    run.evaluations += len(outs)
    st = run.streams.setdefault("identity_through_binary", {"cases": 0, "documents_over_8KiB": 0, "max_bytes": 0})
    for (o, t), (rc, out, err) in zip(docs, outs):
        st["cases"] += 1
        nb = len(t.encode())
        st["documents_over_8KiB"] += nb > 8192
        st["max_bytes"] = max(st["max_bytes"], nb)
        if panicked(rc, err):
            run.add_violation("oracle", {"stream": "identity_through_binary", "what": "panic", "described": {"stdin_bytes": nb, "stdin_head": t[:300]}, "stderr": err.decode("utf-8", "replace")[-300:]}, True)
        elif rc != 0 or out.decode("utf-8", "replace") != t + "\n":
            got = out.decode("utf-8", "replace")
            k = next((i for i, (a, b) in enumerate(zip(got, t + "\n")) if a != b), min(len(got), len(t) + 1))
            run.add_violation("oracle", {"stream": "identity_through_binary", "what": "a document piped through `zerv version --source stdin --output-format zerv` does not come back byte-identical",
                                         "described": {"argv": ["version", "--source=stdin", "--output-format=zerv"], "stdin_bytes": nb, "stdin_head": t[:400], "first_difference_at_char": k,
                                                       "expected_there": (t + "\n")[max(0, k - 20):k + 20], "got_there": got[max(0, k - 20):k + 20]}, "rc": rc,
                                         "stderr": err.decode("utf-8", "replace")[-300:]}, True)
        run.nontrivial.add(t[:200] + str(nb))

    # ---- stream 4: damaged documents through the binary and the parser entry point
    base_objs = [(zgen.rand_schema(rng), nasty_vars(rng) if rng.random() < 0.3 else zgen.rand_vars(rng)) for _ in range(300 if q else 6000)]
    pretty = run_lines([ZVH], ["RONRT " + zgen.enc_zerv(s, v) for s, v in base_objs])
    docs = []
    for (s, v), r in zip(base_objs, pretty):
        if not r.startswith("OK "):
            continue
        t = unhx(r.split(" ")[1])
        for _ in range(2):
            kind, m = mutate_must_reject(rng, t)
            if m != t:
                docs.append((kind, True, m))
        m = mutate_free(rng, t)
        docs.append(("free", False, m))
    rp = run_lines([ZVH], ["RONP " + hx(d) for _, _, d in docs])
    mo = run_lines([ZVM], [f"RONP - | {r}" for r in rp])
    outs = run_procs([(["version", "--source=stdin", "--output-format=" + rng.choice(["semver", "pep440", "zerv"])], d.encode()) for _, _, d in docs])
    run.evaluations += 2 * len(docs)
    # ---- deeply nested custom values: whatever --custom accepts must be emitted as a document that zerv reads back (also `zerv flow`,
    # which re-reads its own intermediate document), byte-identically; what it does not accept must be refused up front
    st = run.streams.setdefault("deeply_nested_custom_json", {"cases": 0, "accepted": 0, "refused_up_front": 0})
    for depth in [1, 5, 30, 60, 61, 62, 63, 64, 65, 90, 100, 120, 125, 126, 127, 128, 200, 1000]:
        for shape in ("array", "object"):
            if shape == "array":
                j = '{"a":' + "[" * depth + "1" + "]" * depth + "}"
            else:
                j = '{"a":' * depth + "1" + "}" * depth
            r1 = run_procs([(["version", "--source=none", "--tag-version=1.2.3", "--custom=" + j, "--output-format=zerv"], None)], timeout=60)[0]
            st["cases"] += 1
            run.evaluations += 1
            desc = {"custom": f"{shape} nested {depth} deep"}
            if panicked(r1[0], r1[2]):
                run.add_violation("oracle", {"stream": "deeply_nested_custom_json", "what": "panic", "described": desc, "stderr": r1[2].decode("utf-8", "replace")[-300:]}, True)
                continue
            if r1[0] != 0:
                st["refused_up_front"] += 1
                if r1[1] or depth <= 100:
                    run.add_violation("oracle", {"stream": "deeply_nested_custom_json", "what": "a moderately nested custom value is refused, or output accompanies the refusal", "described": desc,
                                                 "stderr": r1[2].decode("utf-8", "replace")[-300:]}, True)
                continue
            st["accepted"] += 1
            r2, r3 = run_procs([(["version", "--source=stdin", "--output-format=zerv"], r1[1]), (["flow", "--source=stdin"], r1[1])], timeout=60)
            if r2[0] != 0 or r2[1] != r1[1]:
                run.add_violation("oracle", {"stream": "deeply_nested_custom_json", "what": "an emitted document is not read back (or not re-emitted byte-identically)", "described": desc, "rc": r2[0],
                                             "stderr": r2[2].decode("utf-8", "replace")[-300:]}, True)
            elif r3[0] != 0 or r3[1].strip() != b"1.2.3":
                run.add_violation("oracle", {"stream": "deeply_nested_custom_json", "what": "`zerv flow` cannot process a document that `zerv version` emitted", "described": desc, "rc": r3[0],
                                             "stdout": r3[1].decode("utf-8", "replace")[:100], "stderr": r3[2].decode("utf-8", "replace")[-300:]}, True)

    st = run.streams.setdefault("damaged_documents", {"cases": 0, "must_reject": 0, "free": 0, "rejected": 0, "accepted": 0, "kinds": collections.Counter()})
    for (kind, must, d), r, m, (rc, out, err) in zip(docs, rp, mo, outs):
        st["cases"] += 1
        st["kinds"][kind] += 1
        st["must_reject" if must else "free"] += 1
        desc = {"kind": kind, "stdin": d[:2500], "argv": ["version", "--source=stdin"]}
        verdict = m.partition("\t")[2]
        accepted = r.startswith("OK ")
        st["accepted" if accepted else "rejected"] += 1
        if panicked(rc, err):
            run.add_violation("oracle", {"stream": "damaged_documents", "what": "panic", "described": desc, "stderr": err.decode("utf-8", "replace")[-400:]}, True)
            continue
        if must and (accepted or rc == 0):
            run.add_violation("oracle", {"stream": "damaged_documents", "what": "a document that is not valid Zerv RON was accepted", "described": desc, "parser": r[:200], "rc": rc,
                                         "stdout": out.decode("utf-8", "replace")[:200]}, True)
        elif verdict.startswith("BAD"):
            run.add_violation("oracle", {"stream": "damaged_documents", "what": verdict, "described": desc, "parser": r[:400]}, True)
        elif not accepted and (rc == 0 or out):
            run.add_violation("oracle", {"stream": "damaged_documents", "what": "the parser refuses the document but the binary printed a result", "described": desc, "rc": rc,
                                         "stdout": out.decode("utf-8", "replace")[:200]}, True)
        if not accepted:
            run.nontrivial.add(d)
    st["kinds"] = dict(st["kinds"])
    return run


RULE = ("stream roundtrip_objects: arbitrary (schema, vars) objects with quotes, backslashes, control characters, Unicode, nested custom JSON, empty and permuted "
        "precedence lists go through Zerv::new -> to_string -> from_str -> ==/re-emit in-process; the reply must be OK and its text equal to the Coq printer "
        "model byte for byte. schema_refusal: every arrangement of primaries/secondaries up to length 3, misplacements, timestamp patterns and random schemas; "
        "acceptance must equal the proved placement predicate. pipe_equality: version/flow runs of the binary emitting zerv, parsed back (placement rules decided by "
        "the model, byte-identical re-emission), then each of semver/pep440/template rendered directly and through `version --source stdin`. damaged_documents: "
        "truncations, unbalanced brackets, unknown variants, type confusion, garbage (must be refused) and free-form edits (consistency only). "
        "distinct_nontrivial = distinct round-tripped objects + refused documents")
