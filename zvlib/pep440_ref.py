"""Independent reference for PEP 440, written from the PEP text (Appendix B regex + "Normalization" section),
used as an oracle on implementation outputs.  It is NOT derived from zerv or from the Coq model."""
import re

VERSION_PATTERN = r"""
    v?
    (?:
        (?:(?P<epoch>[0-9]+)!)?                           # epoch
        (?P<release>[0-9]+(?:\.[0-9]+)*)                  # release segment
        (?P<pre>                                          # pre-release
            [-_\.]?
            (?P<pre_l>(a|b|c|rc|alpha|beta|pre|preview))
            [-_\.]?
            (?P<pre_n>[0-9]+)?
        )?
        (?P<post>                                         # post release
            (?:-(?P<post_n1>[0-9]+))
            |
            (?:
                [-_\.]?
                (?P<post_l>post|rev|r)
                [-_\.]?
                (?P<post_n2>[0-9]+)?
            )
        )?
        (?P<dev>                                          # dev release
            [-_\.]?
            (?P<dev_l>dev)
            [-_\.]?
            (?P<dev_n>[0-9]+)?
        )?
    )
    (?:\+(?P<local>[a-z0-9]+(?:[-_\.][a-z0-9]+)*))?       # local version
"""
RX = re.compile(r"\A" + VERSION_PATTERN + r"\Z", re.VERBOSE | re.IGNORECASE | re.ASCII)
LABEL = {"a": "a", "alpha": "a", "b": "b", "beta": "b", "c": "rc", "rc": "rc", "pre": "rc", "preview": "rc"}


def parse(s):
    """None if not PEP 440; else dict of fields with exact integers"""
    m = RX.match(s)
    if not m:
        return None
    d = {"epoch": int(m.group("epoch")) if m.group("epoch") else 0,
         "release": [int(x) for x in m.group("release").split(".")],
         "pre": None, "post": None, "dev": None, "local": None}
    if m.group("pre_l"):
        d["pre"] = (LABEL[m.group("pre_l").lower()], int(m.group("pre_n")) if m.group("pre_n") else 0)
    if m.group("post"):
        n = m.group("post_n1") or m.group("post_n2")
        d["post"] = int(n) if n else 0
    if m.group("dev"):
        d["dev"] = int(m.group("dev_n")) if m.group("dev_n") else 0
    if m.group("local") is not None:
        d["local"] = [int(p) if p.isdigit() else p.lower() for p in re.split(r"[-_.]", m.group("local"))]
    return d


def normal_form(d):
    s = (f"{d['epoch']}!" if d["epoch"] else "") + ".".join(str(x) for x in d["release"])
    if d["pre"]:
        s += d["pre"][0] + str(d["pre"][1])
    if d["post"] is not None:
        s += ".post" + str(d["post"])
    if d["dev"] is not None:
        s += ".dev" + str(d["dev"])
    if d["local"] is not None:
        s += "+" + ".".join(str(x) for x in d["local"])
    return s


def max_number(d):
    nums = [d["epoch"]] + d["release"]
    for k in ("post", "dev"):
        if d[k] is not None:
            nums.append(d[k])
    if d["pre"]:
        nums.append(d["pre"][1])
    return max(nums)


# ---- the order of property C11 (zerv's key), transcribed from the property text ----
PHASE = {"a": 0, "b": 1, "rc": 2}


def c11_key(d):
    rel = list(d["release"])
    while rel and rel[-1] == 0:
        rel.pop()
    pre = (3, 0) if d["pre"] is None else (PHASE[d["pre"][0]], d["pre"][1])          # none highest
    post = (0, 0) if d["post"] is None else (1, d["post"])                            # none lowest
    dev = (1, 0) if d["dev"] is None else (0, d["dev"])                               # none highest
    if d["local"] is None:
        local = (0, ())
    else:
        # numeric parts by value and below alphabetic parts, shorter prefix lower
        local = (1, tuple((0, x, "") if isinstance(x, int) else (1, 0, x) for x in d["local"]))
    return (d["epoch"], tuple(rel), pre, post, dev, local)


def c11_cmp(a, b):
    ka, kb = c11_key(a), c11_key(b)
    return "LT" if ka < kb else "GT" if ka > kb else "EQ"


# ---- the standard PEP 440 order (packaging's _cmpkey), used for C03 ----
def std_key(d):
    """packaging's _cmpkey: the public PEP 440 ordering (dev-only releases sort before pre-releases)"""
    rel = list(d["release"])
    while rel and rel[-1] == 0:
        rel.pop()
    NEG, POS = (0,), (2,)
    if d["pre"] is None and d["post"] is None and d["dev"] is not None:
        pre = NEG
    elif d["pre"] is None:
        pre = POS
    else:
        pre = (1, PHASE[d["pre"][0]], d["pre"][1])
    post = NEG if d["post"] is None else (1, d["post"])
    dev = POS if d["dev"] is None else (1, d["dev"])
    if d["local"] is None:
        local = NEG
    else:
        local = (1, tuple((1, x, "") if isinstance(x, int) else (0, 0, x) for x in d["local"]))
    return (d["epoch"], tuple(rel), pre, post, dev, local)


def std_lt(a, b):
    return std_key(a) < std_key(b)
