"""C02 - git state extraction is faithful to the repository history."""
import re, shutil, tempfile, time
from .common import *
from . import zgen, gitfx, pep440_ref
from .cli import *
from .c10 import py_key, _SV

PID = "C02"
TARGETS = ["Props/C02.vo"]

SEM_TAGS = ["v1.0.0", "1.0.0", "v1.2.3", "v2.0.0", "v2.0.0-rc.1", "v0.1.0", "v1.10.0", "v1.9.0", "1.0.0-alpha", "1.0.0-alpha.1", "v1.0.0+build.5", "v3.0.0-beta.2", "v10.0.0", "v1.0.1", "0.0.1",
            "v1.0.0-rc.1", "v1.0.0-1", "v2.1.0-0.3.7"]
PEP_TAGS = ["1.0.0rc1", "1.1.0a1", "1.2.0b2", "2.0", "1.0.post1", "1.0.dev3", "1!0.5", "v1.0.0a2", "3.1", "2.0.0.post2", "1.0.0rc2", "0.9", "1.0+local.1", "2.0.0.0",
            # spellings only the PEP 440 grammar accepts (capital V, capital labels, underscores): any pre-filter on tag NAMES must not drop them
            "V2.5.0", "V0.3.0", "V1.0.0RC3", "1.4.0_POST_2", "V3.0.DEV1"]
JUNK_TAGS = ["release", "latest", "foo-1", "nightly", "v", "1", "x1.0.0", "build/7", "v1.0", "vv1.0.0", "1.0.0-", "é"]
BRANCHES = ["dev", "feature/x", "release/7", "hotfix/zeta", "feature/Ünï-42", "release", "v1.1.0", "main2", "user/joe/fix-1"]
FORMATS = ["auto", "semver", "pep440"]


def rand_history(rng):
    """a script for gitfx.build_repo, with unreachable tagged commits, merges, equal / skewed timestamps, several tags per commit"""
    T = 1700000000
    t = T
    steps = [("commit", t)]
    branches = ["main"]
    cur = "main"
    used = set()
    ncommits = 1

    def fresh(pool):
        for _ in range(20):
            x = rng.choice(pool)
            if x not in used and x not in branches:
                used.add(x)
                return x
        return None
    skew = rng.choice(["increasing", "equal", "skewed", "increasing", "skewed"])
    if rng.random() < 0.12:           # a history dated in the future (clock skew, reproducible-build dates): git's dates are data
        T = t = 4070908800 + rng.randint(0, 10 ** 6)
        steps = [("commit", t)]
    for _ in range(rng.randint(1, 14)):
        r = rng.random()
        if r < 0.38:
            if skew == "increasing":
                t += rng.randint(1, 1000)
            elif skew == "skewed":
                t += rng.randint(-500, 500)
            steps.append(("commit", t))
            ncommits += 1
        elif r < 0.68:
            k = rng.choice([1, 1, 1, 2, 3])
            for _ in range(k):
                name = fresh(rng.choice([SEM_TAGS, SEM_TAGS, PEP_TAGS, JUNK_TAGS]))
                if name is None:
                    continue
                steps.append(("atag", name, t + 5) if rng.random() < 0.3 else ("tag", name))
        elif r < 0.78 and len(branches) < 5:
            b = fresh(BRANCHES)
            if b:
                steps.append(("branch", b))
                branches.append(b)
                cur = b
        elif r < 0.88 and len(branches) > 1:
            cur = rng.choice(branches)
            steps.append(("checkout", cur))
        elif r < 0.97 and len(branches) > 1:
            o = rng.choice([b for b in branches if b != cur])
            if skew != "equal":
                t += rng.randint(1, 100)
            steps.append(("merge", o, t))
        else:
            if cur not in used and rng.random() < 0.5:           # a tag named like the checked-out branch
                steps.append(("tag", cur))
                used.add(cur)
    # a forced fork so that merges, unreachable tags and competing tagged branches are common
    shape = rng.random()
    if shape < 0.75:
        b = fresh(BRANCHES)
        if b:
            base = cur
            steps.append(("branch", b))
            for _ in range(rng.randint(1, 3)):
                if skew != "equal":
                    t += rng.randint(-50, 300) if skew == "skewed" else rng.randint(1, 300)
                steps.append(("commit", t))
                if rng.random() < 0.7:
                    name = fresh(rng.choice([SEM_TAGS, SEM_TAGS, PEP_TAGS]))
                    if name:
                        steps.append(("atag", name, t + 1) if rng.random() < 0.3 else ("tag", name))
            steps.append(("checkout", base))
            for _ in range(rng.randint(0, 2)):
                if skew != "equal":
                    t += rng.randint(-50, 300) if skew == "skewed" else rng.randint(1, 300)
                steps.append(("commit", t))
                if rng.random() < 0.5:
                    name = fresh(rng.choice([SEM_TAGS, PEP_TAGS, JUNK_TAGS]))
                    if name:
                        steps.append(("tag", name))
            k = rng.random()
            if k < 0.5:
                if skew != "equal":
                    t += 7
                steps.append(("merge", b, t))
                if rng.random() < 0.4:
                    steps.append(("commit", t + (0 if skew == "equal" else 3)))
            elif k < 0.65:
                steps.append(("checkout", b))
                steps.append(("merge", base, t + (0 if skew == "equal" else 9)))
            # else: the branch stays unmerged - its tags are unreachable from HEAD
    fin = rng.random()
    if fin < 0.15:
        steps.append(("detach",))
    # a branch named exactly like one of the version tags (git then abbreviates the tag as "tags/<name>" in some listings)
    vtags = [st[1] for st in steps if st[0] in ("tag", "atag") and st[1] not in branches and "/" not in st[1]]
    if vtags and rng.random() < 0.25:
        steps.append(("branchat", rng.choice(vtags)))
    # a work-tree file named exactly like one of the version tags, committed or untracked (a bare `<tag>` argument of a git command is then
    # "ambiguous: both revision and filename")
    ftags = [x for x in vtags if x not in (".", "..")]
    if ftags and rng.random() < 0.2:
        nm = rng.choice(ftags)
        steps.append(("commitfile", nm, t + 11) if rng.random() < 0.5 else ("dirty", "untracked_named", nm))
    if rng.random() < 0.4:
        steps.append(("dirty", rng.choice(["untracked", "modified", "staged", "index_only_mod", "index_only_add", "deleted", "staged_delete"])))
    if rng.random() < 0.1:
        steps.append(("ignored",))
    return steps


def observe(repo):
    """ground truth read with git plumbing, independent of the commands zerv uses"""
    g = lambda *a: gitfx.git(repo, *a, check=False)
    head = g("rev-parse", "--verify", "-q", "HEAD")
    commits = []
    if head:
        for line in g("log", "--topo-order", "--format=%H %P|%ct", "HEAD").split("\n"):
            left, ts = line.rsplit("|", 1)
            hs = left.split()
            commits.append((hs[0], hs[1:], int(ts)))
    tags = []
    for line in g("for-each-ref", "--format=%(refname:short) %(objecttype) %(objectname) %(*objecttype) %(*objectname)", "refs/tags").split("\n"):
        if not line.strip():
            continue
        p = line.split(" ")
        name = p[0]
        target = p[4] if len(p) > 4 and p[3] == "commit" else (p[2] if p[1] == "commit" else None)
        if target:
            tags.append((name, target))
    # short names can be ambiguous with branches ("heads/x"): take the name after refs/tags/
    full = [l for l in g("for-each-ref", "--format=%(refname)", "refs/tags").split("\n") if l.strip()]
    names = [f[len("refs/tags/"):] for f in full]
    if len(names) == len(tags):
        tags = [(n, t) for n, (_, t) in zip(names, tags)]
    br = g("symbolic-ref", "-q", "HEAD")
    branch = br[len("refs/heads/"):] if br.startswith("refs/heads/") else None
    dirty = bool(g("status", "--porcelain", "--untracked-files=normal").strip())
    return {"commits": commits, "tags": tags, "branch": branch, "dirty": dirty}


def encode_git(fmt, obs, argv, now):
    ids = {h: i for i, (h, _, _) in enumerate(obs["commits"])}
    toks = ["GIT", fmt, str(len(obs["commits"]))]
    for h, ps, ts in obs["commits"]:
        toks += [str(ids[h]), str(len(ps))] + [str(ids[p]) for p in ps] + [str(ts), hx(h)]
    toks.append(str(len(obs["tags"])))
    for n, tgt in obs["tags"]:
        toks += [hx(n), str(ids.get(tgt, 900000 + len(toks)))]
    toks += [ohx(obs["branch"]), b01(obs["dirty"]), "A", str(len(argv))] + [hx(a) for a in argv] + ["N", str(now)]
    return " ".join(toks)


def sem_valid(n):
    return _SV.match(n) is not None and all(not (x.isdigit() and len(x) > 1 and x[0] == "0") for x in (_SV.match(n).group(4) or "").split(".") if x) \
        and all(x != "" for x in (_SV.match(n).group(4) or "x").split(".")) and all(x != "" for x in (_SV.match(n).group(5) or "x").split("."))


def pep_valid(n):
    d = pep440_ref.parse(n)
    return d is not None and pep440_ref.max_number(d) < 2 ** 32


def independent_oracle(obs, fmt, got):
    """got: dict of vars zerv reported, or None when zerv failed.  Returns None if fine, else text."""
    commits = obs["commits"]
    if not commits:
        return None if got is None else "a repository without commits was given a version"
    par = {h: ps for h, ps, _ in commits}
    tsof = {h: ts for h, _, ts in commits}

    def anc(h):
        seen, st = set(), [h]
        while st:
            x = st.pop()
            if x not in seen and x in par:
                seen.add(x)
                st += par[x]
        return seen
    head = commits[0][0]
    reach = anc(head)
    by_commit = collections.defaultdict(list)
    for n, tgt in obs["tags"]:
        if tgt in reach:
            by_commit[tgt].append(n)

    def valid_names(names):
        s = [n for n in names if sem_valid(n)]
        p = [n for n in names if pep_valid(n)]
        if fmt == "semver":
            return s, "semver"
        if fmt == "pep440":
            return p, "pep440"
        return (s, "semver") if len(s) >= len(p) else (p, "pep440")
    valid_commits = {c for c, names in by_commit.items() if valid_names(names)[0]}
    if got is None:
        return None if not valid_commits else "zerv reports no version although a valid version tag is reachable from HEAD"
    if not valid_commits:
        return "a repository without any valid version tag was given a version"
    tag = got["last_tag"]
    owners = [tgt for n, tgt in obs["tags"] if n == tag]
    if not owners:
        return f"reported base tag {tag!r} does not exist"
    C = owners[0]
    if C not in reach:
        return f"base tag {tag!r} is on a commit unreachable from HEAD"
    names, kind = valid_names(by_commit[C])
    if tag not in names:
        return f"base tag {tag!r} is not a valid {fmt} version tag"
    between = [c for c in valid_commits if c != C and C in anc(c)]
    if between:
        return f"base tag {tag!r} is not on a nearest tagged commit: validly tagged commit(s) {[b[:8] for b in between]} lie between it and HEAD"
    if kind == "semver":
        keys = {n: py_key(n if not n.startswith("v") else n) for n in names}
        if any(keys[n] > keys[tag] for n in names):
            return f"base tag {tag!r} is not a highest SemVer version among {names}"
    else:
        keys = {n: pep440_ref.c11_key(pep440_ref.parse(n)) for n in names}
        if any(keys[n] > keys[tag] for n in names):
            return f"base tag {tag!r} is not a highest PEP 440 version among {names}"
    want = {"distance": len(reach - anc(C)), "dirty": obs["dirty"], "bumped_branch": obs["branch"], "bumped_hash": "g" + head, "bumped_ts": tsof[head],
            "last_hash": "g" + C, "last_ts": tsof[C]}
    if obs["dirty"]:
        want.pop("bumped_ts")            # a dirty tree carries the wall clock (documented)
    for k, v in want.items():
        if got.get(k) != v:
            return f"{k}: zerv reports {got.get(k)!r}, the repository says {v!r}"
    return None


def run_check(tier, seed):
    run = Run(PID, tier, seed)
    rng = random.Random(seed * 1000003 + 2)
    q = tier == "quick"
    nrepos = 110 if q else 1500
    root = tempfile.mkdtemp(prefix="zv02-")
    st = run.streams.setdefault("random_histories", {"repositories": 0, "runs": 0, "with_merge": 0, "with_unreachable_tags": 0, "detached": 0, "dirty": 0, "no_valid_tag": 0,
                                                    "commits_total": 0, "tags_total": 0, "model_agree": 0, "model_disagree": 0, "build_failures": 0})
    try:
        scripts = [(os.path.join(root, f"r{i}"), rand_history(rng)) for i in range(nrepos)]

        def build(ps):
            p, script = ps
            try:
                ign = ("ignored",) in script
                gitfx.build_repo(p, [s for s in script if s != ("ignored",)])
                if ign:                           # an ignored file must not make the tree dirty
                    with open(os.path.join(p, ".git", "info", "exclude"), "a") as f:
                        f.write("ignored.tmp\n")
                    open(os.path.join(p, "ignored.tmp"), "w").write("x")
                return True
            except Exception:
                shutil.rmtree(p, ignore_errors=True)
                return False
        with concurrent.futures.ThreadPoolExecutor(max_workers=NPROC) as ex:
            built = list(ex.map(build, scripts))
        repos = [ps for ps, ok in zip(scripts, built) if ok]
        st["build_failures"] = built.count(False)
        for name, p in gitfx.standard_repos(os.path.join(root, "std")).items():
            if name not in ("not_a_repo", "ahead_subdir"):
                repos.append((p, [("standard", name)]))
        jobs = []
        with concurrent.futures.ThreadPoolExecutor(max_workers=NPROC) as ex:
            observed = list(ex.map(observe, [p for p, _ in repos]))
        for (p, script), obs in zip(repos, observed):
            st["repositories"] += 1
            st["commits_total"] += len(obs["commits"])
            st["tags_total"] += len(obs["tags"])
            reach = {h for h, _, _ in obs["commits"]}
            st["with_merge"] += any(len(ps) > 1 for _, ps, _ in obs["commits"])
            st["with_unreachable_tags"] += any(t not in reach for _, t in obs["tags"])
            st["detached"] += obs["branch"] is None
            st["dirty"] += obs["dirty"]
            for fmt in FORMATS:
                jobs.append((p, script, obs, fmt))
        times = {}
        cmds = [(["version", "-C", p, "--input-format=" + fmt, "--schema=standard-base-prerelease-post-dev-context", "--output-format=zerv"], None) for p, _, _, fmt in jobs]
        outs = run_procs(cmds, env={"GIT_CONFIG_GLOBAL": "/dev/null", "GIT_CONFIG_SYSTEM": "/dev/null"}, times=times)
        run.evaluations += len(outs)
        # decode the implementation's objects
        oks = [i for i, (rc, out, err) in enumerate(outs) if rc == 0]
        dec = run_lines([ZVH], ["RONP " + hx(outs[i][1].decode("utf-8", "replace")) for i in oks]) if oks else []
        decoded = dict(zip(oks, dec))
        mreqs = [encode_git(fmt, obs, ["--input-format=" + fmt, "--schema=standard-base-prerelease-post-dev-context", "--output-format=zerv"], times.get(i, (0, 0))[0]) + " | -"
                 for i, (p, script, obs, fmt) in enumerate(jobs)]
        mo = run_lines([ZVM], mreqs)
        for i, ((p, script, obs, fmt), (rc, out, err), m) in enumerate(zip(jobs, outs, mo)):
            st["runs"] += 1
            desc = {"history": [list(s) for s in script], "input_format": fmt, "argv": ["version", "-C", "<repo>", "--input-format=" + fmt, "--output-format=zerv"],
                    "commits": [(h[:10], [x[:10] for x in ps], ts) for h, ps, ts in obs["commits"]][:40], "tags": [(n, t[:10]) for n, t in obs["tags"]], "branch": obs["branch"], "dirty": obs["dirty"]}
            if panicked(rc, err):
                run.add_violation("oracle", {"stream": "random_histories", "what": "panic", "described": desc, "stderr": err.decode("utf-8", "replace")[-400:]}, True)
                continue
            got = None
            if rc == 0:
                r = decoded[i]
                if not r.startswith("OK Z "):
                    run.add_violation("oracle", {"stream": "random_histories", "what": "emitted object does not parse: " + r[:40], "described": desc}, True)
                    continue
                _, got, _ = zgen.dec_zerv(r.split(" ")[1:])
            verdict = independent_oracle(obs, fmt, got)
            if got is None and not obs["commits"]:
                pass
            if got is None:
                st["no_valid_tag"] += 1
            if verdict:
                run.add_violation("oracle", {"stream": "random_histories", "what": verdict, "described": desc, "reported": got, "stderr": err.decode("utf-8", "replace")[-300:]}, True)
            # model correspondence
            mr = m.partition("\t")[0]
            if rc == 0:
                a = zgen.dec_zerv(decoded[i].split(" ")[1:])
                b = zgen.dec_zerv(mr.split(" ")[1:]) if mr.startswith("OK Z ") else None
                same = b is not None and a[0] == b[0] and {k: v for k, v in a[1].items() if k != "bumped_ts" or not obs["dirty"]} == {k: v for k, v in b[1].items() if k != "bumped_ts" or not obs["dirty"]}
            else:
                same = not mr.startswith("OK")
            if same:
                st["model_agree"] += 1
            else:
                st["model_disagree"] += 1
                run.disagreements += 1
                if not verdict:
                    run.add_violation("correspondence", {"stream": "random_histories", "what": "model and implementation disagree", "described": desc, "impl": [rc, decoded.get(i, "")[:600], err.decode("utf-8", "replace")[-200:]],
                                                         "model_reply": mr[:600]}, False)
            run.nontrivial.add((p, fmt))
        run.samples.append({"history": [list(s) for s in repos[0][1]], "stdout_head": outs[0][1].decode("utf-8", "replace")[:200]})
    finally:
        shutil.rmtree(root, ignore_errors=True)
    return run


RULE = ("random commit DAGs built with the system git from commit / branch / checkout / merge / lightweight and annotated tag (semver, pep440, non-version and branch-named tags, "
        "several per commit, tags on commits unreachable from HEAD) / detach / dirty (untracked, modified, staged) / work-tree files named like a tag / ignored-file steps with increasing, equal or skewed commit "
        "times, plus the standard repository states; each repository is read with git plumbing (log --topo-order with parents, for-each-ref, symbolic-ref, status) and "
        "`zerv version -C <repo> --output-format zerv` under each input format is judged (a) by an independent Python oracle of the property text (reachability sets, nearest valid "
        "tag, highest version by the Python SemVer / PEP 440 references, distance = |anc(HEAD) - anc(tagged)|, dirty, branch, hashes, times, no-tag refusal) and (b) against the "
        "Coq git model. distinct_nontrivial = (repository, format) pairs")
