"""C08 - the SemVer parser accepts exactly SemVer 2.0.0 (+ optional v) and loses nothing."""
import itertools, re
from .common import *

PID = "C08"
TARGETS = ["Props/C08.vo"]
ALPHA = ["0", "1", "9", "a", "Z", ".", "-", "+", "v", "١", "é"]
KNOWN_RANGE = "core-number>=2^64"


def regen():
    from tools_bridge import regen_regex
    regen_regex()


def describe(c):
    f = c.split(" ")
    try:
        if f[0] == "SVP":
            return {"op": "SemVer::from_str(s) -> Display", "s": unhx(f[1])}
        if f[0] == "CHK":
            return {"op": f"zerv check --format {f[1]}", "s": unhx(f[2])}
    except Exception:
        pass
    return c


def oversize(s, bits=64):
    return any(int(m) >= 2 ** bits for m in re.findall(r"[0-9]+", s))


def known(c, r, verdict):
    if verdict == "BAD:rejects-out-of-range-number":
        d = describe(c)
        if isinstance(d, dict) and oversize(d["s"]):
            return KNOWN_RANGE
    return None


NUMS = ["0", "1", "9", "10", "01", "00", "18446744073709551615", "18446744073709551616"]
IDS = ["0", "1", "10", "01", "a", "Z", "-", "a-", "0a", "00a", "a.b", "1.a", "rc.1", "--", "a0", "-1"]


def valid_like(rng=None):
    out = []
    for v in ["", "v"]:
        for a, b, c in itertools.product(["0", "1", "10", "01"], ["0", "9"], ["0", "1", "00"]):
            core = f"{v}{a}.{b}.{c}"
            out.append(core)
            for p in IDS:
                out.append(core + "-" + p)
                for q in ["0", "01", "a", "a.0", "-"]:
                    out.append(core + "-" + p + "+" + q)
            for q in IDS:
                out.append(core + "+" + q)
    return out


def mutations(s, rng, k):
    res = []
    for _ in range(k):
        i = rng.randint(0, len(s))
        op = rng.random()
        ch = rng.choice(ALPHA + ["V", " ", "\n", "_", "!", "０"])
        if op < 0.4:
            res.append(s[:i] + ch + s[i:])
        elif op < 0.7 and i < len(s):
            res.append(s[:i] + s[i + 1:])
        elif i < len(s):
            res.append(s[:i] + ch + s[i + 1:])
    return res


def rand_version(rng):
    def num():
        r = rng.random()
        if r < 0.6:
            return str(rng.randint(0, 30))
        if r < 0.8:
            return str(rng.choice([2 ** 32 - 1, 2 ** 32, 2 ** 63, 2 ** 64 - 1, 2 ** 64, 10 ** 25 + 7]))
        return str(rng.randint(0, 10 ** rng.randint(1, 30)))

    def ident(build):
        r = rng.random()
        if r < 0.35:
            return num()
        if r < 0.45:
            return "0" * rng.randint(1, 3) + num() if build or rng.random() < 0.3 else num()
        n = rng.randint(1, 8)
        return "".join(rng.choice("0123456789abcXYZ-") for _ in range(n))
    s = rng.choice(["", "", "v"]) + ".".join(num() for _ in range(3))
    if rng.random() < 0.6:
        s += "-" + ".".join(ident(False) for _ in range(rng.randint(1, 12 if rng.random() < 0.1 else 4)))
    if rng.random() < 0.5:
        s += "+" + ".".join(ident(True) for _ in range(rng.randint(1, 4)))
    return s


def nontrivial(c, r):
    return r.startswith("OK") or any(ch in c for ch in ("2e", "2d", "2b"))


def corpus():
    ws = ["1.0.0-1١", "1.0.0-99999999999999999999999", "1.0.0+99999999999999999999999", "1.0.0-18446744073709551615",
          "1.0.0-18446744073709551616", "18446744073709551616.0.0", "v1.2.3", "V1.2.3", "1.2.3\n", "1.2", "1.2.3.4",
          "1.0.0-", "1.0.0+", "1.0.0-a..b", "1.0.0-01", "1.0.0+01", "1.0.0-0a", "01.0.0", "1.0.0-é", "1.2.+3", "+1.2.3",
          "1.0.0+00", "1.0.0+20240315.0000", "1.0.0-rc.1+build.5", "0.0.0", "1.0.0--", "1.0.0-+", "1.0.0+a+b"]
    return ["SVP " + hx(w) for w in ws] + ["CHK semver " + hx(w) for w in ws]


def run_check(tier, seed):
    run = Run(PID, tier, seed)
    rng = random.Random(seed * 1000003 + 8)
    kw = dict(nontrivial=nontrivial, describe=describe, known=known)
    correspond(run, "corpus", corpus(), **kw)

    L = 5 if tier == "quick" else 6
    cases = ["SVP " + hx("".join(t)) for k in range(L + 1) for t in itertools.product(ALPHA, repeat=k)]
    correspond(run, f"exhaustive_len<={L}_alphabet11", cases, **kw)
    run.exhaustive = True
    run.extra["exhaustive_scope"] = f"all strings of length <= {L} over {ALPHA}"

    base = valid_like()
    cases = ["SVP " + hx(s) for s in base]
    muts = []
    per = 6 if tier == "quick" else 60
    for s in base:
        muts += mutations(s, rng, per)
    cases += ["SVP " + hx(s) for s in muts]
    correspond(run, "structured_valid_and_single_edit_mutations", cases, **kw)

    n = 20000 if tier == "quick" else 600000
    cases = []
    for _ in range(n):
        s = rand_version(rng)
        cases.append("SVP " + hx(s))
        if rng.random() < 0.5:
            cases += ["SVP " + hx(m) for m in mutations(s, rng, 1)]
    correspond(run, "random_long_versions_and_mutations", cases, **kw)

    # every non-ASCII character a Unicode-aware regex flag, class or pre-processing step relates to the grammar's alphabet, around and inside valid versions
    ub = ["1.2.3", "v1.2.3-alpha.1+build.5", "0.0.0-0a.K-s+00.k", "10.20.30-rc.1", "1.0.0+sk.SK", "1.0.0-s", "1.0.0+k"]
    uni = unicode_neighbours(ub, rng, 3 if tier == "quick" else 12)
    correspond(run, "unicode_neighbours_of_the_alphabet_around_and_inside_valid_versions",
               ["SVP " + hx(s) for s in uni] + ["CHK semver " + hx(s) for s in uni[::7]], **kw)

    # the check command on a sample of everything above
    sample = [rand_version(rng) for _ in range(n // 10)] + rng.sample(muts, min(len(muts), n // 10)) + rng.sample(base, min(len(base), 500))
    correspond(run, "zerv_check_format_semver", ["CHK semver " + hx(s) for s in sample], **kw)
    return run


RULE = ("requests are strings given to SemVer::from_str (and to `zerv check --format semver`); exhaustive over short strings of an "
        "11-character grammar alphabet incl. a non-ASCII digit and letter, structured valid versions with all single-edit mutations "
        "sampled, random long versions with numbers up to 30 digits, every non-ASCII character whose case / compatibility form is ASCII or that is a digit, space or format character (2769 of them, from unicodedata) before, behind, inside and in place of a character of valid versions; non-trivial = accepted by the implementation or containing a "
        "separator; distinct = distinct request lines")
