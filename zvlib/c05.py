"""C05 - override, bump and reset semantics follow the precedence order."""
from .common import *
from . import zgen

PID = "C05"
TARGETS = ["Props/C05.vo"]
LEVELS = ["epoch", "major", "minor", "patch", "pre_label", "pre_num", "post", "dev"]


def harg(a):
    return hx(a)


def ver(mode, stdin, argv, ron=None, custom=None):
    """ron: None | "!" | schema dict ; custom: None | "!" | ("J", json value)"""
    x = ["X"]
    x.append("~" if ron is None else "!" if ron == "!" else "R " + zgen.enc_schema(ron))
    x.append("~" if custom is None else "!" if custom == "!" else "J " + zgen.enc_json(custom[1]))
    return " ".join(["VER", mode, "~" if stdin is None else stdin, "A", str(len(argv))] + [harg(a) for a in argv] + x)


def parse_req(c):
    f = c.split(" ")
    i = 2
    stdin = None
    if f[2] == "~":
        i = 3
    else:
        s, v, i = zgen.dec_zerv(f[2:])
        stdin = (s, v)
        i += 2
    assert f[i] == "A", (i, f[:8])
    n = int(f[i + 1])
    argv = [unhx(t) for t in f[i + 2:i + 2 + n]]
    return stdin, argv


def describe(c):
    try:
        stdin, argv = parse_req(c)
        d = {"op": "zerv version (run_version_pipeline)", "argv": argv}
        if stdin:
            d["stdin_schema"] = stdin[0]
            d["stdin_vars"] = {k: v for k, v in stdin[1].items() if v not in (None, {})}
        return d
    except Exception as e:
        return {"request": c[:300], "decode_error": str(e)}


def sort_json(j):
    if isinstance(j, dict):
        return {k: sort_json(j[k]) for k in sorted(j)}
    if isinstance(j, list):
        return [sort_json(x) for x in j]
    return j


def canon(r):
    """mask the wall-clock bumped_timestamp of dirty results"""
    if not r.startswith("OK Z "):
        return r
    t = r.split(" ")
    try:
        s, v, _ = zgen.dec_zerv(t[1:])
        if v["dirty"]:
            v["bumped_ts"] = 0
        v["custom"] = sort_json(v["custom"])
        return "OK " + zgen.enc_zerv(s, v)
    except Exception:
        return r


def canon_model(r):
    return canon(r)


# ---------------------------------------------------------------- independent reference of the level fold (default order, by-name flags)
def ref_fold(start, flags):
    """start: vars dict (epoch/major/minor/patch/pre/post/dev); flags: dict name -> value (overrides: 'major': n ... ; bumps: 'bump_major': n ...;
    'core_ops' / 'extra_ops': {index: (override|None, bump|None)} addressing the FULL schema [major,minor,patch] / [epoch,pre_num,post,dev]).
    Returns the expected vars per the property text, or None when an addition overflows u64."""
    v = dict(start)
    order = LEVELS

    def reset_after(level):
        for l in order[order.index(level) + 1:]:
            if l in ("epoch", "major", "minor", "patch"):
                v[l] = 0
            elif l == "pre_label":
                v["pre"] = None
            elif l == "pre_num":
                if v["pre"] is not None:
                    v["pre"] = (v["pre"][0], 0)
            else:
                v[l] = None

    def field(l, ov, bump):
        if l in ("epoch", "major", "minor", "patch", "post", "dev"):
            if ov is not None:
                v[l] = ov
            if bump is not None:
                v[l] = (v[l] or 0) + bump
                if v[l] >= 2 ** 64:
                    return False
                reset_after(l)
        elif l == "pre_num":
            if ov is not None:
                v["pre"] = ((v["pre"][0] if v["pre"] else "a"), ov)
            if bump is not None:
                if v["pre"] is not None:
                    v["pre"] = (v["pre"][0], (v["pre"][1] or 0) + bump)
                    if v["pre"][1] >= 2 ** 64:
                        return False
                else:
                    v["pre"] = ("a", bump)
                reset_after("pre_num")
        return True

    full = ["epoch", "major", "minor", "patch", "CORE", "pre_label", "pre_num", "post", "dev", "EXTRA"]
    for l in full:
        if l == "CORE":
            for i in sorted(flags.get("core_ops", {})):
                if not field(["major", "minor", "patch"][i], *flags["core_ops"][i]):
                    return None
        elif l == "EXTRA":
            for i in sorted(flags.get("extra_ops", {})):
                if not field(["epoch", "pre_num", "post", "dev"][i], *flags["extra_ops"][i]):
                    return None
        elif l == "pre_label":
            if flags.get("pre_label") is not None:
                num = flags.get("pre_num")
                if num is None:
                    num = v["pre"][1] if v["pre"] is not None and v["pre"][1] is not None else 0
                v["pre"] = (flags["pre_label"], num)
            if flags.get("bump_pre_label") is not None:
                reset_after("pre_label")
                v["pre"] = (flags["bump_pre_label"], 0)
        else:
            if not field(l, flags.get(l), flags.get("bump_" + l)):
                return None
    if v.get("epoch") == 0:
        v["epoch"] = None
    return v


LAB = {"a": "alpha", "b": "beta", "rc": "rc"}


def flags_to_argv(flags, rng):
    argv = []
    for k, val in flags.items():
        if val is None or k in ("core_ops", "extra_ops"):
            continue
        name = "--" + k.replace("_", "-").replace("pre-label", "pre-release-label").replace("pre-num", "pre-release-num")
        if k in ("pre_label", "bump_pre_label"):
            argv.append(f"{name}={LAB[val]}")
        elif k.startswith("bump_") and val == 1 and rng.random() < 0.5:
            argv.append(name)
        else:
            argv.append(f"{name}={val}")
    rng.shuffle(argv)
    return argv


def rand_amount(rng):
    r = rng.random()
    if r < 0.6:
        return rng.randint(0, 5)
    if r < 0.85:
        return rng.choice([0, 1, 2 ** 31, 2 ** 32 - 1, 1000])
    return rng.randint(0, 2 ** 32 - 1)


def rand_named_flags(rng):
    f = {}
    for l in ("epoch", "major", "minor", "patch", "post", "dev", "pre_num"):
        if rng.random() < 0.22:
            f[l] = rand_amount(rng)
        if rng.random() < 0.28:
            f["bump_" + l] = rand_amount(rng) if rng.random() < 0.6 else 1
    r = rng.random()
    if r < 0.15:
        f["pre_label"] = rng.choice(["a", "b", "rc"])
    elif r < 0.3:
        f["bump_pre_label"] = rng.choice(["a", "b", "rc"])
    return f


def rand_start_vars(rng):
    def n():
        return rng.choice([0, 1, 2, 7, 2 ** 32 - 1, 2 ** 64 - 1, 2 ** 64 - 2, rng.randint(0, 100)])
    return {"major": n(), "minor": n(), "patch": n(), "epoch": rng.choice([None, None, 1, 3]),
            "pre": rng.choice([None, None, ("a", 1), ("b", None), ("rc", 2 ** 64 - 1), ("rc", 0)]),
            "post": rng.choice([None, None, 0, 4]), "dev": rng.choice([None, None, 0, 9])}


def start_to_tag(v):
    """a SemVer tag carrying these vars (canonical shape) - None when not expressible"""
    s = f"{v['major']}.{v['minor']}.{v['patch']}"
    pre = []
    if v["epoch"] is not None:
        pre += ["epoch", str(v["epoch"])]
    if v["pre"] is not None:
        pre += [LAB[v["pre"][0]]] + ([str(v["pre"][1])] if v["pre"][1] is not None else [])
    if v["post"] is not None:
        pre += ["post", str(v["post"])]
    if v["dev"] is not None:
        pre += ["dev", str(v["dev"])]
    return s + ("-" + ".".join(pre) if pre else "")


FULL = {"core": [("v", "Major"), ("v", "Minor"), ("v", "Patch")], "extra": [("v", "Epoch"), ("v", "PreRelease"), ("v", "Post"), ("v", "Dev")], "build": []}


def nontrivial(c, r):
    return r.startswith("OK") and ("bump" in c or "2d2d62756d70" in c)


def run_check(tier, seed):
    run = Run(PID, tier, seed)
    rng = random.Random(seed * 1000003 + 5)
    kw = dict(nontrivial=nontrivial, describe=describe, canon=canon)
    n = 5000 if tier == "quick" else 200000

    # 1. by-name flags on the default order, start given as stdin object: judged by the independent level-fold reference
    cases, exp = [], []
    for _ in range(n):
        sv = rand_start_vars(rng)
        fl = rand_named_flags(rng)
        vars_ = dict(sv, custom={})
        stdin = zgen.enc_zerv(FULL, vars_)
        argv = ["--source=stdin", "--output-format=zerv"] + flags_to_argv(fl, rng)
        # index-addressed operations on the same object, in every spelling
        for sec, flag, L in (("core_ops", "core", 3), ("extra_ops", "extra-core", 4)):
            if rng.random() < 0.45:
                ops = {}
                for i in rng.sample(range(L), rng.randint(1, L)):
                    ov = rand_amount(rng) if rng.random() < 0.5 else None
                    bump = (rand_amount(rng) if rng.random() < 0.6 else 1) if (rng.random() < 0.6 or ov is None) else None
                    ops[i] = (ov, bump)
                    sp = lambda: rng.choice([str(i), str(i - L), "~" + str(L - i)])
                    if ov is not None:
                        argv.append(f"--{flag}={sp()}={ov}")
                    if bump is not None:
                        argv.append(f"--bump-{flag}={sp()}" + ("" if bump == 1 and rng.random() < 0.5 else f"={bump}"))
                fl[sec] = ops
        rng.shuffle(argv)
        cases.append(ver("zerv", stdin, argv))
        exp.append((sv, fl))
    res = correspond(run, "named_flags_default_order_stdin_start", cases, **kw)
    for (c, r, m, v), (sv, fl) in zip(res, exp):
        want = ref_fold(sv, fl)
        if want is None:
            ok = r == "ERR"
        elif r.startswith("OK Z "):
            _, got, _ = zgen.dec_zerv(r.split(" ")[1:])
            ok = all(got[k] == want[k] for k in ("epoch", "major", "minor", "patch", "pre", "post", "dev"))
        else:
            ok = False
        if not ok:
            run.add_violation("oracle", {"stream": "named_flags_default_order_stdin_start", "request": c, "described": describe(c),
                                         "start": sv, "flags": fl, "expected_vars": want, "impl_reply": r[:600],
                                         "oracle": "python reference of the level fold in the property text"}, True)

    # 2. the same through --tag-version (SemVer tag) and source none; flag order shuffled three ways must agree
    cases, groups = [], []
    for _ in range(n // 2):
        sv = rand_start_vars(rng)
        if sv["pre"] is not None and sv["pre"][1] is None and (sv["post"] is not None or sv["dev"] is not None):
            sv["pre"] = (sv["pre"][0], 0)
        fl = rand_named_flags(rng)
        base = ["--source=none", f"--tag-version={start_to_tag(sv)}", "--input-format=semver", "--output-format=zerv",
                "--schema=standard-base-prerelease-post-dev"]
        g = []
        for _ in range(3):
            argv = base + flags_to_argv(fl, rng)
            rng.shuffle(argv)
            g.append(len(cases))
            cases.append(ver("zerv", None, argv))
        groups.append((g, sv, fl))
    res = correspond(run, "named_flags_tag_version_three_flag_orders", cases, **kw)
    for g, sv, fl in groups:
        outs = {canon(res[i][1]) for i in g}
        if len(outs) != 1:
            run.add_violation("oracle", {"stream": "named_flags_tag_version_three_flag_orders", "what": "result depends on the order flags are written",
                                         "requests": [describe(res[i][0]) for i in g], "impl_replies": [res[i][1][:300] for i in g]}, True)
        r = res[g[0]][1]
        want = ref_fold(sv, fl)
        if want is None:
            ok = r == "ERR"
        elif r.startswith("OK Z "):
            _, got, _ = zgen.dec_zerv(r.split(" ")[1:])
            ok = all(got[k] == want[k] for k in ("epoch", "major", "minor", "patch", "pre", "post", "dev"))
        else:
            ok = False
        if not ok:
            run.add_violation("oracle", {"stream": "named_flags_tag_version_three_flag_orders", "request": res[g[0]][0], "described": describe(res[g[0]][0]),
                                         "start": sv, "flags": fl, "expected_vars": want, "impl_reply": r[:600],
                                         "oracle": "python reference of the level fold in the property text"}, True)

    # 3. schema-index operations on random valid schemas: model correspondence + index-spelling / by-name equivalences
    cases, meta = [], []
    for _ in range(n):
        s = zgen.rand_schema(rng, valid=True)
        v = zgen.rand_vars(rng)
        v["dirty"] = rng.choice([None, False])
        stdin = zgen.enc_zerv(s, v)
        argv = ["--source=stdin", "--output-format=zerv"]
        for sec, flag in (("core", "core"), ("extra", "extra-core"), ("build", "build")):
            L = len(s[sec])
            for _ in range(rng.choice([0, 0, 1, 2])):
                i = rng.randint(-L - 1, L)
                spell = rng.choice([str(i), str(i) if i >= 0 else "~" + str(-i), str(i - L) if 0 <= i < L else str(i)])
                val = rng.choice(["0", "1", "5", "4294967295", "4294967296", "x", "-1", "", "rel", "18446744073709551615", "007", "+3"])
                if rng.random() < 0.5:
                    argv.append(f"--{flag}={spell}={val}")
                else:
                    argv.append(f"--bump-{flag}={spell}" + (f"={val}" if rng.random() < 0.6 else ""))
        argv += flags_to_argv(rand_named_flags(rng) if rng.random() < 0.4 else {}, rng)
        cases.append(ver("zerv", stdin, argv))
    correspond(run, "schema_index_ops_random_schemas", cases, **kw)

    # 3b. several operations on LITERAL components of one section (str / uint, mixed with variables): every operation works on the section as the
    # previous ones left it - two or three operations per section, overrides and bumps, all index spellings, both flag orders
    cases = []
    LIT = [[("u", 7), ("s", "nightly")], [("s", "x"), ("s", "y")], [("u", 1), ("u", 2), ("s", "z")], [("s", "a"), ("u", 0), ("s", "b"), ("u", 9)], [("v", "Distance"), ("u", 5), ("s", "k")]]
    for _ in range(n // 2):
        lit = rng.choice(LIT)
        sec, flag = rng.choice([("build", "build"), ("extra", "extra-core"), ("core", "core")])
        s = {"core": [("v", "Major"), ("v", "Minor"), ("v", "Patch")], "extra": [("v", "Epoch"), ("v", "PreRelease"), ("v", "Post")], "build": []}
        s[sec] = s[sec] + lit
        L = len(s[sec])
        v = dict(rand_start_vars(rng), custom={})
        ops = []
        for i in rng.sample(range(L - len(lit), L), rng.choice([2, 2, min(3, len(lit))])):
            sp = rng.choice([str(i), str(i - L), "~" + str(L - i)])
            kind = s[sec][i][0]
            if kind == "s":
                ops.append(f"--{flag}={sp}={rng.choice(['weekly', 'q', 'rel', '0x'])}")
            elif rng.random() < 0.5:
                ops.append(f"--{flag}={sp}={rng.choice([0, 3, 10, 4294967295])}")
            else:
                ops.append(f"--bump-{flag}={sp}" + rng.choice(["", "=3", "=0", "=1"]))
        rng.shuffle(ops)
        cases.append(ver("zerv", zgen.enc_zerv(s, v), ["--source=stdin", "--output-format=zerv"] + ops))
    correspond(run, "several_operations_on_literal_components_of_one_section", cases, **kw)

    # 4. index spellings i, i-len, ~(len-i) and the by-name flag address the same component (single operation)
    cases, groups = [], []
    names = {"Major": "major", "Minor": "minor", "Patch": "patch", "Epoch": "epoch", "Post": "post", "Dev": "dev", "PreRelease": "pre-release-num"}
    for _ in range(n // 2):
        sv = dict(rand_start_vars(rng), custom={})
        sec, flag = rng.choice([("core", "core"), ("extra", "extra-core")])
        L = len(FULL[sec])
        i = rng.randrange(L)
        val = rand_amount(rng)
        bump = rng.random() < 0.6
        spellings = [str(i), str(i - L), "~" + str(L - i)]
        name = names[FULL[sec][i][1]]
        argvs = [["--source=stdin", "--output-format=zerv", (f"--bump-{flag}={sp}={val}" if bump else f"--{flag}={sp}={val}")] for sp in spellings]
        argvs.append(["--source=stdin", "--output-format=zerv", (f"--bump-{name}={val}" if bump else f"--{name}={val}")])
        g = []
        for a in argvs:
            g.append(len(cases))
            cases.append(ver("zerv", zgen.enc_zerv(FULL, sv), a))
        groups.append(g)
    res = correspond(run, "index_spellings_equal_by_name", cases, **kw)
    for g in groups:
        outs = {canon(res[i][1]) for i in g}
        if len(outs) != 1:
            run.add_violation("oracle", {"stream": "index_spellings_equal_by_name", "what": "i, i-len, ~(len-i) and the by-name flag do not agree",
                                         "requests": [describe(res[i][0])["argv"] for i in g], "impl_replies": [res[i][1][:400] for i in g]}, True)

    # 4b. the same position addressed twice (in any two spellings) in one list must be rejected without output
    cases = []
    for _ in range(n // 4):
        sv = dict(rand_start_vars(rng), custom={})
        sec, flag, L = rng.choice([("core", "core", 3), ("extra", "extra-core", 4)])
        i = rng.randrange(L)
        sp = [str(i), str(i - L), "~" + str(L - i), "0" + str(i), "+" + str(i)]
        a, b = rng.sample(sp, 2) if rng.random() < 0.8 else (sp[0], sp[0])
        if rng.random() < 0.5:
            args = [f"--{flag}={a}={rand_amount(rng)}", f"--{flag}={b}={rand_amount(rng)}"]
        else:
            a, b = [x for x in (a, b)]
            args = [f"--bump-{flag}={a}" if not a.startswith(("0", "+")) or len(a) == 1 else f"--bump-{flag}={i}", f"--bump-{flag}={b}=2" if not b.startswith(("0", "+")) or len(b) == 1 else f"--bump-{flag}={i - L}=2"]
        cases.append(ver("zerv", zgen.enc_zerv(FULL, sv), ["--source=stdin", "--output-format=zerv"] + args))
    res = correspond(run, "duplicate_index_any_spelling_rejected", cases, **kw)
    for c, r, m, v in res:
        if r != "ERR":
            run.add_violation("oracle", {"stream": "duplicate_index_any_spelling_rejected", "request": c, "described": describe(c), "impl_reply": r[:300],
                                         "oracle": "a duplicate index must be rejected without output"}, True)

    # 5. custom precedence orders from stdin, --schema presets, --schema-ron, --clean / --no-bump-context / --custom
    cases = []
    for _ in range(n):
        s = zgen.rand_schema(rng, valid=rng.random() < 0.9)
        if rng.random() < 0.5:
            p = list(zgen.DEFAULT_PREC)
            rng.shuffle(p)
            if rng.random() < 0.3:
                p = p[:rng.randint(3, 11)] + ([p[0]] if rng.random() < 0.3 else [])
            s["prec"] = p
        v = zgen.rand_vars(rng)
        argv = ["--output-format=zerv"]
        r = rng.random()
        stdin = zgen.enc_zerv(s, v)
        ron = None
        if r < 0.5:
            argv.append("--source=stdin")
        elif r < 0.75:
            argv += ["--source=none", f"--tag-version={rng.choice(['1.2.3', 'v2.0.0-rc.1', '1.0a2.post3', '1!2.3.4.dev5+x', 'bad', '1.2'])}"]
            stdin = None if rng.random() < 0.5 else stdin
        if rng.random() < 0.3:
            argv.append("--schema=" + rng.choice(zgen.PRESETS + ["bogus", "standard-base-context-x"]))
        elif rng.random() < 0.3:
            rs = zgen.rand_schema(rng, valid=rng.random() < 0.8)
            if rng.random() < 0.15:
                argv.append("--schema-ron=(core: [var(Major)")
                ron = "!"
            else:
                argv.append("--schema-ron=" + zgen.ron_schema(rs))
                ron = dict(rs)
                if "prec" not in ron:
                    ron["prec"] = zgen.DEFAULT_PREC
        cust = None
        if rng.random() < 0.2:
            if rng.random() < 0.2:
                argv.append("--custom={bad json")
                cust = "!"
            else:
                j = zgen.rand_json(rng)
                argv.append("--custom=" + json.dumps(j))
                cust = ("J", j)
        for fl in ("--clean", "--no-bump-context", "--dirty", "--no-dirty", "--bump-context"):
            if rng.random() < 0.12:
                argv.append(fl)
        if rng.random() < 0.2:
            argv.append(f"--distance={rng.choice([0, 1, 7])}")
        if rng.random() < 0.2:
            argv.append(f"--bumped-branch={rng.choice(['main', 'feature/é', ''])}")
        if rng.random() < 0.15:
            argv.append(f"--bumped-timestamp={rng.choice([0, -5, 1700000000])}")
        argv += flags_to_argv(rand_named_flags(rng) if rng.random() < 0.6 else {}, rng)
        if rng.random() < 0.1 and not any(a.startswith("--major") for a in argv):
            argv.append("--major=" + rng.choice(["none", "x", " 7 ", "NULL", "+5", "07", "4294967296"]))
        cases.append(ver("zerv", stdin, argv, ron, cust))
    correspond(run, "custom_orders_presets_schema_ron_context_flags", cases, **kw)
    return run


RULE = ("requests are `zerv version` argument vectors (source none with --tag-version, or stdin Zerv objects incl. custom precedence orders) with "
        "random subsets of the override / bump / schema-index flags, amounts incl. 0 and 2^32-1, every index spelling incl. out-of-range ones, "
        "the same flag set in three shuffled orders; results (`--output-format zerv`, re-parsed) are compared with the model and judged by an "
        "independent Python reference of the level fold, by flag-order invariance and by index-spelling / by-name equivalence on the "
        "implementation's own answers; non-trivial = a successful run containing a bump")
