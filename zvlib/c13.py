"""C13 - zerv fails cleanly: it never panics and never prints a result on failure."""
import re, shutil, tempfile, time
from .common import *
from . import zgen, gitfx
from .cli import *
from . import c05, c04, c07, c12

PID = "C13"
TARGETS = ["Props/C13.vo"]

NUMS = ["0", "1", "007", "-1", "4294967295", "4294967296", "18446744073709551615", "18446744073709551616", "99999999999999999999999", "1e3", "１２", "", " 5", "+5", "0x10",
        "{{ major }}", "{{ distance + 1 }}", "{{ 1/0 }}", "{{", "{% if %}", "{{ bumped_timestamp * 1000000000000 }}", "{{ 4294967295 + 1 }}", "none", "null", "{{ custom.x }}", "3.5", "-0"]
TEXTS = c12.NASTY + zgen.TEXTS + ["release/4294967296", "feature/20261001123456/x", "release/007", "release/", "/", "a/b/c/1/2", "1", "4294967295", "18446744073709551616",
                                   "é" * 9, "aé" * 5, "1234567é", "ééééééé8", "\U0001F600" * 3]
TEMPLATES_BAD = ["{{", "}}", "{{ unknown_fn() }}", "{{ nope }}", "{{ hash_int(value=bumped_branch, length=100000) }}", "{{ hash_int(value='x', length=0) }}",
                 "{{ hash(value='x', length=-1) }}", "{{ hash(value='x', length=99999999999) }}", "{{ format_timestamp(value=bumped_timestamp, format='%Q') }}",
                 "{{ format_timestamp(value=99999999999999999) }}", "{{ format_timestamp(value=-99999999999999999) }}", "{{ format_timestamp(value='x') }}",
                 "{{ prefix(value=bumped_branch, length=-1) }}", "{{ prefix(value='ééééé', length=3) }}", "{{ prefix(value='aé', length=2) }}",
                 "{{ sanitize(value=bumped_branch, preset='x') }}", "{{ sanitize(value='ÀÉÎ/õü', max_length=3) }}", "{{ sanitize(value='aéé', max_length=2, separator='é') }}",
                 "{{ major / 0 }}", "{{ major % 0 }}", "{% for i in range(end=10) %}x{% endfor %}", "{{ '%s' }}", "{{ bumped_branch | truncate(length=1) }}",
                 "{{ major * 99999999999999999999 }}", "{{ prefix_if(value='', prefix='x') }}", "{{ prefix_if() }}", "{{ custom | json_encode() }}", "\n", "  ", "none", "{{ semver }}\n{{ pep440 }}",
                 "{{ format_timestamp(value=bumped_timestamp, format='%+') }}", "{{ format_timestamp(value=0, format='%') }}", "{{ format_timestamp(value=0, format='%Z%z%:z') }}",
                 "{{ hash_int(value=bumped_branch, length=20) }}", "{{ hash_int(value=bumped_branch, length=19, allow_leading_zero=true) }}"]
VERSIONS = ["1.2.3", "v1.2.3", "1.2.3-rc.1+b.7", "1.0a1.post2.dev3+x.y", "1!2.3", "", " ", "v", "1", "1.2", "1.2.3.4.5.6", "01.2.3", "1.2.3-01", "1.2.3-", "1.2.3+", "１.２.３", "1.2.3-é", "é",
            "1.0.0-epoch.post.epoch", "1.0.0-epoch.1.post.2.dev.3.rc.4", "1.0.0-dev", "1.0.0-post", "1.0.0-rc", "1.0.0-alpha.beta.rc", "99999999999999999999.1.1", "1.99999999999999999999.1",
            "1.0.0-99999999999999999999", "1.0.0+99999999999999999999", "4294967296.0.0", "1.0.post4294967296", "1.0.dev99999999999", "1.0+00000000000000000000099999999999", "1.0a", "1.0rc",
            "1.0-1", "1.0.post", "1.0_dev_3", "1.0-r4", "1.0-C5", "1.0.0-x" * 40, "1." * 200 + "1", "-1.0.0", "--help", "1.0.0\n", "1.0.0\x00", "1.0.0 ", "V1.0.0", "1.0.0-ALPHA.1", "1.0.0a.1", "2!1.0.0-1.dev0+abc"]
RONS = ["(core:[var(Major)],extra_core:[],build:[])", "(core:[var(Major),var(Minor),var(Patch)],extra_core:[var(PreRelease)],build:[var(BumpedBranch),var(ts(\"YYYY\"))])",
        "(", "", "(core:[],extra_core:[],build:[])", "(core:[var(Minor),var(Major)],extra_core:[],build:[])", "(core:[var(ts(\"%Q\"))],extra_core:[],build:[])",
        "(core:[str(\"é\"),uint(18446744073709551615)],extra_core:[],build:[var(custom(\"a.b\"))])", "(core:[uint(18446744073709551616)],extra_core:[],build:[])", "[]", "null",
        "(core:[var(Major)],extra_core:[],build:[],precedence_order:[])", "(core:[var(Major)],extra_core:[],build:[],precedence_order:[Major,Major])"]
JSONS = ["{}", "{\"a\":1}", "{\"a\":{\"b\":\"x\"}}", "[1,2]", "1", "\"s\"", "null", "{", "", "{\"a\":1e400}", "{\"a\":1.5}", "{\"é\":\"ü\"}", "{\"a\":[{\"b\":null}]}", "{\"a\":18446744073709551616}", "x"]
INDEXED = ["0=5", "1=x", "-1=3", "~1=3", "99=1", "=", "a=b", "0", "0=", "1=１", "0=-1", "0=99999999999999999999", "-99999999999999999999=1", "1", "-1", "~0", "0=é", "2=é/ü", "0=00", "1=4294967296"]
FORMATS = ["semver", "pep440", "auto", "zerv", "SEMVER", "Pep440", "AUTO", "ZERV", "json", ""]
SCHEMAS = zgen.PRESETS + ["bogus", "", "standard-", "calver", "Standard"]
RULES = ["[(pattern:\"develop\",pre_release_label:beta,pre_release_num:1,post_mode:commit)]", "[]", "[(pattern:\"x/*\",pre_release_label:rc,post_mode:tag)]", "(", "",
         "[(pattern:\"*\",pre_release_label:alpha,pre_release_num:4294967296,post_mode:tag)]", "[(pattern:\"\",pre_release_label:rc,post_mode:tag)]",
         "[(pattern:\"a/*\",pre_release_label:gamma,post_mode:tag)]", "[(pattern:\"é*\",pre_release_label:alpha,post_mode:commit)]"]


def help_flags(sub):
    """flag table of a subcommand, read from the binary's own --help"""
    rc, out, err = run_procs([([sub, "--help"], None)])[0]
    flags = []
    for line in out.decode("utf-8", "replace").split("\n"):
        m = re.match(r"^\s+(?:-(\w), )?--([\w-]+)(?: (\[?<[^>]+>\]?)(\.\.\.)?)?\s*$", line) or re.match(r"^\s+(?:-(\w), )?--([\w-]+)(?: (\[?<[^>]+>\]?)(\.\.\.)?)?\s", line)
        if m and m.group(2) not in ("help",):
            kind = "none" if not m.group(3) else "optional" if m.group(3).startswith("[") else "value"
            flags.append((m.group(2), kind, m.group(1)))
    positional = "<VERSION>" in out.decode("utf-8", "replace")
    return flags, positional


def pool_for(name):
    if name in ("source",):
        return ["none", "stdin", "git", "svn", "", "NONE", "Stdin", "GIT"]
    if name in ("input-format", "output-format", "format"):
        return FORMATS
    if name == "schema":
        return SCHEMAS
    if name == "schema-ron":
        return RONS
    if name == "output-template":
        return c12.TEMPLATES + TEMPLATES_BAD
    if name == "custom":
        return JSONS
    if name in ("core", "extra-core", "build", "bump-core", "bump-extra-core", "bump-build"):
        return INDEXED
    if name == "tag-version":
        return VERSIONS
    if name == "directory":
        return ["/nonexistent", "/tmp", "", "/dev/null", "/", "é"]
    if name == "branch-rules":
        return RULES
    if name == "post-mode":
        return ["tag", "commit", "x", "", "TAG", "Commit", "cOMMIT", "Tag"]
    if name in ("pre-release-label", "bump-pre-release-label"):
        return ["alpha", "beta", "rc", "a", "b", "c", "pre", "preview", "ALPHA", "Beta", "RC", "", "é", "gamma", "{{ 'rc' }}", "{{"]
    if name == "bumped-branch":
        return TEXTS + ["release/20251001120000", "feature/4294967296/login", "hotfix/99999999999999999999999", "release/18446744073709551616", "release/4294967296", "x/+5", "release/-1",
                        "release/00000000000000000000001", "release/1e9", "develop/99999999999"]
    if name in ("bumped-commit-hash", "output-prefix"):
        return TEXTS
    return NUMS


def fuzz_argv(rng, sub, flags, positional):
    argv = [sub]
    if positional and rng.random() < 0.95:
        v = rng.choice(VERSIONS)
        if v.startswith("-"):
            argv.append("--")
        argv.append(v)
    if sub in ("version", "flow") and rng.random() < 0.85:
        argv.append("--source=" + rng.choice(["none", "none", "stdin", "stdin", "git"]))
    for _ in range(rng.choice([0, 1, 1, 2, 2, 3, 4, 6])):
        name, kind, short = rng.choice(flags)
        if kind == "none":
            argv.append("--" + name)
        else:
            v = rng.choice(pool_for(name))
            r = rng.random()
            if kind == "optional" and r < 0.2:
                argv.append("--" + name)
            elif r < 0.75 or "\0" in v:
                argv.append(f"--{name}={v}")
            else:
                argv += ["--" + name, v]
    argv = [a for a in argv if "\0" not in a]
    if rng.random() < 0.03:
        argv.append(b"--output-prefix=\xff\xfe")
    if rng.random() < 0.03:
        argv.append(rng.choice(["--bogus", "-x", "extra", "--", "-vvvv", "--llm-help", "-V", "--version", "-h"]))
    return argv


def fuzz_stdin(rng, texts):
    r = rng.random()
    if r < 0.35:
        return None
    if r < 0.7:
        return rng.choice(texts).encode()
    if r < 0.85:
        t = rng.choice(texts)
        return (c12.mutate_must_reject(rng, t)[1] if rng.random() < 0.5 else c12.mutate_free(rng, t)).encode()
    return rng.choice([b"\xff\xfe\x00garbage", b"   \n", b"hello", b"(" * 5000, b"1.2.3", "é".encode() * 10])


KNOWN_DEEP = "template-nesting-thousands-deep-overflows-tera-stack"


def discipline(rc, out, err):
    """None if the outcome is clean, else a description"""
    if panicked(rc, err):
        return "panic or abort"
    if rc == -999:
        return "timeout"
    if rc == 0:
        return None
    if out:
        return "non-zero exit status with output on stdout"
    if not err.strip():
        return "non-zero exit status without a diagnostic on stderr"
    return None


LOGLINE = re.compile(r"(\x1b\[|^\s*\d{4}-\d\d-\d\dT\d\d:\d\d:\d\d|\b(ERROR|WARN|INFO|DEBUG|TRACE)\b.*\bzerv\b)")


def run_check(tier, seed):
    run = Run(PID, tier, seed)
    rng = random.Random(seed * 1000003 + 13)
    q = tier == "quick"
    now = int(time.time())

    # ---------------- stream 1: in-process adversarial calls, compared with the panic-free models
    cases = []
    for _ in range(1200 if q else 30000):
        a, b = rng.choice([("semver", "pep440"), ("pep440", "semver"), ("auto", "semver"), ("auto", "pep440"), ("semver", "semver"), ("pep440", "pep440")])
        v = rng.choice(VERSIONS) if rng.random() < 0.6 else c07.rand_version(rng) if hasattr(c07, "rand_version") else rng.choice(VERSIONS)
        cases.append(f"CNV {a} {b} {ohx(rng.choice([None, 'v', 'é']))} {hx(v)}")
    correspond(run, "inprocess_render", cases, nontrivial=lambda c, r: True, describe=lambda c: {"request": c[:600]})
    vcases = []
    while len(vcases) < (800 if q else 20000):
        c = gen_version_case(rng, TEXTS)
        if "--dirty" in c["argv"] or (c.get("stdin_obj") and c["stdin_obj"][1].get("dirty")):
            continue                       # the wall clock enters only there; covered at process level (C01, C14)
        fmt = rng.choice(["semver", "pep440", "zerv"])
        stdin = zgen.enc_zerv(*c["stdin_obj"]) if c.get("stdin_obj") else None
        vcases.append(c05.ver("zerv" if fmt == "zerv" else "text", stdin, c["argv"] + ["--output-format=" + fmt], c.get("ron"), c.get("custom")))
    correspond(run, "inprocess_version", vcases, canon=c05.canon, nontrivial=lambda c, r: r.startswith("OK"), describe=c05.describe)

    # ---------------- stream 2: the binary under adversarial argument vectors and stdin
    objs = [(zgen.rand_schema(rng, valid=rng.random() < 0.9), c12.nasty_vars(rng) if rng.random() < 0.5 else zgen.rand_vars(rng)) for _ in range(60 if q else 600)]
    texts = ron_texts(objs)
    tables = {s: help_flags(s) for s in ("version", "flow", "render", "check")}
    for s, (fl, pos) in tables.items():
        if len(fl) < 2:
            run.add_violation("tie", {"what": f"could not read the flag table of `zerv {s}` from --help", "flags": fl}, False)
    jobs = []
    for _ in range(2500 if q else 80000):
        sub = rng.choice(["version", "version", "flow", "flow", "render", "check"])
        jobs.append((fuzz_argv(rng, sub, *tables[sub]), fuzz_stdin(rng, texts)))
    # systematically: every text of the pools as the branch name, through flow and version, from the command line and from a stdin object
    for t in sorted(set(pool_for("bumped-branch"))):
        jobs.append((["flow", "--source=none", "--tag-version=1.2.3", "--bumped-branch=" + t], None))
        jobs.append((["flow", "--source=none", "--tag-version=1.2.3rc4", "--distance=2", "--output-format=pep440", "--bumped-branch=" + t], None))
        jobs.append((["version", "--source=none", "--tag-version=1.2.3", "--schema=standard-context", "--distance=1", "--bumped-branch=" + t], None))
    jobs = [([x for x in a if x not in ("-v", "--verbose", "-vvvv")], i) for a, i in jobs]
    res = run_procs(jobs)
    vjobs = [(a[:1] + ["-v"] + a[1:], i) for a, i in jobs]
    resv = run_procs(vjobs, env={"RUST_LOG": "trace"} if rng.random() < 0.5 else None)
    run.evaluations += 2 * len(jobs)
    st = run.streams.setdefault("binary_adversarial_argv", {"cases": 0, "exit0": 0, "exit1": 0, "exit2_usage": 0, "other": 0, "by_subcommand": collections.Counter(), "verbose_pairs": 0})
    for (argv, inp), (rc, out, err), (rcv, outv, errv) in zip(jobs, res, resv):
        st["cases"] += 1
        st["by_subcommand"][argv[0]] += 1
        st["exit0" if rc == 0 else "exit1" if rc == 1 else "exit2_usage" if rc == 2 else "other"] += 1
        desc = {"argv": [a if isinstance(a, str) else "bytes:" + a.hex() for a in argv], "stdin": (inp or b"").decode("utf-8", "replace")[:1500], "stdin_hex_head": (inp or b"")[:40].hex()}
        for tag, (r, o, e) in (("", (rc, out, err)), (" (with -v)", (rcv, outv, errv))):
            d = discipline(r, o, e)
            if d:
                run.add_violation("oracle", {"stream": "binary_adversarial_argv", "what": d + tag, "described": desc, "rc": r, "stdout": o.decode("utf-8", "replace")[:300],
                                             "stderr": e.decode("utf-8", "replace")[-500:]}, True)
        st["verbose_pairs"] += 1
        if (rc != rcv or mask_now(out.decode("utf-8", "replace"), now) != mask_now(outv.decode("utf-8", "replace"), now)) and \
                (rc != rcv or really_differs((argv, inp), (argv[:1] + ["-v"] + argv[1:], inp))[0]):
            run.add_violation("oracle", {"stream": "binary_adversarial_argv", "what": "-v changes the exit status or what is printed on stdout (logs must go to stderr)", "described": desc,
                                         "rc": [rc, rcv], "stdout": out.decode("utf-8", "replace")[:300], "stdout_verbose": outv.decode("utf-8", "replace")[:600]}, True)
        if rc == 0 and argv[0] in ("version", "flow", "render") and not any(isinstance(a, str) and (a.startswith("--output-template") or a in ("-h", "--help", "--llm-help", "-V", "--version")
                                                                                                    or a.startswith("--output-format=zerv")) for a in argv):
            t = out.decode("utf-8", "replace")
            if "--output-format" in " ".join(a for a in argv if isinstance(a, str)) and "zerv" in " ".join(a for a in argv if isinstance(a, str)):
                pass
            elif any(isinstance(a, str) and "\n" in a for a in argv):
                pass
            elif not t.endswith("\n") or "\n" in t[:-1]:
                run.add_violation("oracle", {"stream": "binary_adversarial_argv", "what": "success, but stdout is not exactly the one-line result", "described": desc, "stdout": t[:600]}, True)
        run.nontrivial.add((rc, out[:60]))
    st["by_subcommand"] = dict(st["by_subcommand"])

    # ---------------- stream 3: closed stdout (a reader that went away)
    closed = [(["--help"], None), (["version", "--help"], None), (["version", "--source=none", "--tag-version=1.2.3"], None), (["render", "1.2.3"], None), (["check", "1.2.3"], None),
              (["--llm-help"], None), (["--version"], None), (["flow", "--source=none", "--tag-version=1.2.3"], None)]
    st = run.streams.setdefault("closed_stdout", {"cases": 0})
    for argv, _ in closed:
        r, w = os.pipe()
        os.close(r)
        p = subprocess.run([ZERV] + argv, stdin=subprocess.DEVNULL, stdout=w, stderr=subprocess.PIPE, env=dict(BASE_ENV), cwd="/tmp")
        os.close(w)
        st["cases"] += 1
        run.evaluations += 1
        if panicked(p.returncode, p.stderr):
            run.add_violation("oracle", {"stream": "closed_stdout", "what": "panic when stdout is a closed pipe", "described": {"argv": argv}, "rc": p.returncode,
                                         "stderr": p.stderr.decode("utf-8", "replace")[:400]}, True)

    # ---------------- stream 3c: documents whose precedence order omits levels, with operations that address the omitted levels
    # (by name and through the section index): every combination must end cleanly
    st = run.streams.setdefault("partial_precedence_orders", {"cases": 0, "exit0": 0})
    full = list(zgen.DEFAULT_PREC)
    orders = [[], ["Core", "ExtraCore", "Build"], ["Build", "ExtraCore", "Core"], ["Major"], ["Patch", "Minor", "Major"], ["PreReleaseNum", "PreReleaseLabel"], ["Post", "Dev"], full[::-1], full[:5], full[5:]]
    for _ in range(6 if q else 40):
        o = list(full)
        rng.shuffle(o)
        orders.append(o[:rng.randint(0, len(o))])
    schema = {"core": [("v", "Major"), ("v", "Minor"), ("v", "Patch")], "extra": [("v", "Epoch"), ("v", "PreRelease"), ("v", "Post"), ("v", "Dev")], "build": [("s", "b"), ("u", 7)]}
    vars_ = {"major": 1, "minor": 2, "patch": 3, "epoch": 1, "pre": ("rc", 4), "post": 5, "dev": 6}
    docs = ron_texts([(dict(schema, prec=o), dict(zgen.rand_vars(rng), **{k: v for k, v in vars_.items() if k in ("major", "minor", "patch", "post", "dev", "epoch")})) for o in orders])
    ops = [["--bump-core=0"], ["--bump-core=~1=2"], ["--bump-core=1"], ["--bump-extra-core=0"], ["--bump-extra-core=2"], ["--bump-extra-core=3=0"], ["--bump-build=1"], ["--core=0=9"], ["--extra-core=2=1"],
           ["--bump-major"], ["--bump-minor"], ["--bump-patch"], ["--bump-post"], ["--bump-dev"], ["--bump-epoch"], ["--bump-pre-release-num"], ["--bump-pre-release-label=beta"],
           ["--major=4", "--bump-patch"], ["--bump-core=0", "--bump-extra-core=2", "--bump-build=1"]]
    oj = []
    for d in docs:
        for op in (ops if not q else rng.sample(ops, 9)):
            oj.append((["version", "--source=stdin", "--output-format=" + rng.choice(["semver", "pep440", "zerv"])] + op, d.encode()))
    ores = run_procs(oj, timeout=60)
    for (argv, inp), (rc, out, err) in zip(oj, ores):
        st["cases"] += 1
        run.evaluations += 1
        st["exit0"] += rc == 0
        bad = discipline(rc, out, err)
        if bad:
            run.add_violation("oracle", {"stream": "partial_precedence_orders", "what": bad, "described": {"argv": argv, "stdin": inp.decode("utf-8", "replace")[:1500]}, "rc": rc,
                                         "stderr": err.decode("utf-8", "replace")[:400]}, True)

    # ---------------- stream 3d: stdin documents that are well-formed up to a value nested far deeper than anything zerv emits:
    # they must be refused with an error (a reader without a depth limit overflows the stack and aborts)
    st = run.streams.setdefault("stdin_documents_nested_beyond_any_limit", {"cases": 0, "clean": 0})
    seed_doc = run_procs([(["version", "--source=none", "--tag-version=1.2.3", '--custom={"a":"MARK"}', "--output-format=zerv"], None)])[0][1].decode("utf-8", "replace")
    dj = []
    if '"MARK"' in seed_doc:
        # depths on both sides of every limit involved (serde_json 128, ron's writer default 128, zerv's reader limit 512 counted about twice per level)
        for depth in (60, 100, 124, 126, 128, 130, 160, 200, 250, 254, 256, 300, 600, 5000, 20000, 200000):
            for opn, cls in (("[", "]"), ('{"k":', "}")):
                doc = seed_doc.replace('"MARK"', opn * depth + "1" + cls * depth)
                for argv in (["version", "--source=stdin"], ["flow", "--source=stdin"], ["version", "--source=stdin", "--output-format=zerv"]):
                    dj.append((depth, argv, doc.encode()))
        dres = run_procs([(a, d) for _, a, d in dj], timeout=120)
        for (depth, argv, _), (rc, out, err) in zip(dj, dres):
            st["cases"] += 1
            run.evaluations += 1
            bad = discipline(rc, out, err)
            # a success prints a result: the version, or a Zerv document that zerv itself reads back and re-emits unchanged
            if bad is None and rc == 0 and "--output-format=zerv" in argv:
                again = run_procs([(["version", "--source=stdin", "--output-format=zerv"], out)], timeout=120)[0]
                run.evaluations += 1
                if not out.startswith(b"(") or again[0] != 0 or again[1] != out:
                    bad = "exit status 0 but stdout is not a Zerv document that reads back and re-emits unchanged"
            if bad is None and rc == 0 and "--output-format=zerv" not in argv and (not out.endswith(b"\n") or b"\n" in out[:-1] or not out[:1].isdigit()):
                bad = "exit status 0 but stdout is not the one-line version"
            if bad:
                run.add_violation("oracle", {"stream": "stdin_documents_nested_beyond_any_limit", "what": bad, "described": {"argv": argv, "stdin": f"an emitted document whose custom value is nested {depth} levels deep"},
                                             "rc": rc, "stderr": err.decode("utf-8", "replace")[:300]}, True)
            else:
                st["clean"] += 1
    else:
        run.add_violation("tie", {"what": "could not obtain a seed document for the nested-stdin stream", "stdout": seed_doc[:300]}, False)

    # ---------------- stream 3a: timestamp patterns that look like strftime specifiers, with a timestamp available to format
    st = run.streams.setdefault("percent_timestamp_patterns", {"cases": 0, "exit0": 0})
    pj = []
    for pat in ["%Q", "%", "%Y%", "%%", "%Y-%m", "%+", "%:z", "%3f", "%\u00e9", "%-", "%Y%m%d%H%M%S", "%E", "%O", "%1", "% Y", "%#z", "%.3f", "%_"]:
        for sec in ("core", "extra_core", "build"):
            parts = {"core": "var(Major)", "extra_core": "", "build": ""}
            parts[sec] = (parts[sec] + "," if parts[sec] else "") + 'var(ts("%s"))' % pat
            ron = "(core:[%s],extra_core:[%s],build:[%s])" % (parts["core"], parts["extra_core"], parts["build"])
            for sub in ("version", "flow") if sec == "build" else ("version",):
                for fmt in ("semver", "pep440", "zerv"):
                    pj.append(([sub, "--source=none", "--tag-version=1.2.3", "--bumped-timestamp=1700000000", "--schema-ron=" + ron, "--output-format=" + fmt] + (["--dirty"] if sub == "flow" else []), None))
    pres = run_procs(pj, timeout=60)
    for (argv, _), (rc, out, err) in zip(pj, pres):
        st["cases"] += 1
        run.evaluations += 1
        st["exit0"] += rc == 0
        bad = discipline(rc, out, err)
        if bad:
            run.add_violation("oracle", {"stream": "percent_timestamp_patterns", "what": bad, "described": {"argv": argv}, "rc": rc, "stderr": err.decode("utf-8", "replace")[:400]}, True)

    # ---------------- stream 3b: templates that are large or deeply nested
    # Tera's parser and renderer (third-party, recursive) are handed the template text as it is: moderately nested templates must work or
    # be refused cleanly; nesting / chains thousands deep overflow the stack inside Tera (known finding, listed with this exact input class)
    def deep(kind, n):
        if kind == "parens":
            return "{{ " + "(" * n + "1" + ")" * n + " }}"
        if kind == "plus_chain":
            return "{{ 1" + " + 1" * n + " }}"
        if kind == "if_blocks":
            return "{% if true %}" * n + "x" + "{% endif %}" * n
        if kind == "brackets":
            return "{{ " + "[" * n + "1" + "]" * n + " }}"
        if kind == "not_chain":
            return "{{ " + "not " * n + "true }}"
        return "{{ major" + " | abs" * n + " }}"
    st = run.streams.setdefault("large_and_nested_templates", {"cases": 0, "clean": 0, "stack_overflow_in_tera(known)": 0})
    tj = []
    for kind in ("parens", "plus_chain", "if_blocks", "brackets", "not_chain", "filter_chain"):
        for n in (3, 40, 150, 3000, 20000 if kind in ("plus_chain", "filter_chain", "not_chain") else 6000):
            for sub in (["version", "--source=none", "--tag-version=1.2.3"], ["render", "1.2.3"], ["flow", "--source=none", "--tag-version=1.2.3"]):
                tj.append((kind, n, sub + ["--output-template=" + deep(kind, n)]))
    tres = run_procs([(a, None) for _, _, a in tj], timeout=60)
    for (kind, n, argv), (rc, out, err) in zip(tj, tres):
        st["cases"] += 1
        run.evaluations += 1
        bad = discipline(rc, out, err)
        overflow = rc in (134, -6, -11, 139) and b"overflowed its stack" in err
        if bad is None:
            st["clean"] += 1
            if n <= 150 and kind in ("parens", "plus_chain", "if_blocks", "filter_chain") and rc != 0:
                run.add_violation("oracle", {"stream": "large_and_nested_templates", "what": "a moderately nested template is refused", "described": {"kind": kind, "depth": n, "argv": argv[:-1] + [argv[-1][:200] + "..."]},
                                             "stderr": err.decode("utf-8", "replace")[:300]}, True)
        elif overflow and n >= 500:
            st["stack_overflow_in_tera(known)"] += 1
            run.known_hits[KNOWN_DEEP] += 1
        else:
            run.add_violation("oracle", {"stream": "large_and_nested_templates", "what": bad, "described": {"kind": kind, "depth": n, "argv": argv[:-1] + [argv[-1][:200] + "..."]},
                                         "rc": rc, "stderr": err.decode("utf-8", "replace")[:400]}, True)

    # ---------------- stream 4: every git invocation failing in turn
    root = tempfile.mkdtemp(prefix="zv13-")
    try:
        repos = gitfx.standard_repos(os.path.join(root, "repos"))
        stub = gitfx.make_stub(os.path.join(root, "stub"))
        cmds = [["version"], ["version", "--output-format=pep440"], ["flow"], ["version", "--output-format=zerv"], ["flow", "--output-format=pep440", "--schema=standard-base"],
                ["version", "--schema=calver", "-v"]]
        names = list(repos) if not q else ["ahead", "tagged_dirty", "no_tags", "annotated", "feature_branch", "empty_repo", "not_a_repo", "multi_tags", "release_branch",
                                           "long_unicode_branch2", "long_unicode_branch3", "shallow_clone", "detached"]
        st = run.streams.setdefault("git_fault_injection", {"repos": len(names), "baseline_runs": 0, "fault_runs": 0, "git_calls_seen": 0, "clean_failures": 0, "tolerated": 0, "modes": gitfx.MODES})
        base_jobs = []
        for n in names:
            for ci, c in enumerate(cmds if not q else cmds[:4]):
                base_jobs.append((n, ci, c))
        # pass-through runs count the invocations
        plan = []
        for bi, (n, ci, c) in enumerate(base_jobs):
            cf, lg = os.path.join(root, f"count-{bi}"), os.path.join(root, f"log-{bi}")
            env = dict(BASE_ENV)
            env.update(gitfx.stub_env(stub, cf, None, None, lg))
            p = subprocess.run([ZERV] + c, stdin=subprocess.DEVNULL, stdout=subprocess.PIPE, stderr=subprocess.PIPE, env=env, cwd=repos[n])
            st["baseline_runs"] += 1
            d = discipline(p.returncode, p.stdout, p.stderr)
            desc = {"repo": n, "argv": c, "fault": None}
            if d:
                run.add_violation("oracle", {"stream": "git_fault_injection", "what": d, "described": desc, "rc": p.returncode, "stdout": p.stdout.decode("utf-8", "replace")[:300],
                                             "stderr": p.stderr.decode("utf-8", "replace")[-400:]}, True)
            if d is None and p.returncode == 0 and "--output-format=zerv" not in c:
                t0_ = p.stdout.decode("utf-8", "replace")
                if not t0_.endswith("\n") or "\n" in t0_[:-1] or LOGLINE.search(t0_):
                    run.add_violation("oracle", {"stream": "git_fault_injection", "what": "success, but stdout is not exactly the one-line result (warnings and logs belong on stderr)", "described": desc,
                                                 "stdout": t0_[:400]}, True)
            # the -v twin of the undisturbed run: logging (which prints git's answers) may neither fail nor change stdout
            if "-v" not in c:
                pv = subprocess.run([ZERV] + c + ["-v"], stdin=subprocess.DEVNULL, stdout=subprocess.PIPE, stderr=subprocess.PIPE, env=dict(BASE_ENV, RUST_LOG=rng.choice(["", "debug", "trace"])), cwd=repos[n])
                st["verbose_twins"] = st.get("verbose_twins", 0) + 1
                run.evaluations += 1
                dv = discipline(pv.returncode, pv.stdout, pv.stderr)
                if dv is None and (pv.returncode != p.returncode or (p.returncode == 0 and mask_now(pv.stdout.decode("utf-8", "replace"), now) != mask_now(p.stdout.decode("utf-8", "replace"), now))):
                    dv = "-v changes the exit status or stdout"
                if dv:
                    run.add_violation("oracle", {"stream": "git_fault_injection", "what": dv, "described": {"repo": n, "argv": c + ["-v"], "fault": None}, "rc": pv.returncode,
                                                 "stdout": pv.stdout.decode("utf-8", "replace")[:300], "stderr": pv.stderr.decode("utf-8", "replace")[-400:]}, True)
            ncalls = int(open(cf).read().strip()) if os.path.exists(cf) else 0
            st["git_calls_seen"] += ncalls
            for k in list(range(1, ncalls + 1)) + ["all"]:
                for mode in gitfx.MODES:
                    plan.append((bi, n, c, k, mode, p.stdout))
            plan.append((bi, n, c, None, "git-missing", p.stdout))
        if q and len(plan) > 2500:
            plan = rng.sample(plan, 2500)

        def one(job):
            j, (bi, n, c, k, mode, base_out) = job
            env = dict(BASE_ENV)
            if mode == "git-missing":
                env["PATH"] = os.path.join(root, "nothing-here")
            else:
                env.update(gitfx.stub_env(stub, os.path.join(root, f"fc-{j}"), k, mode))
            try:
                p = subprocess.run([ZERV] + c, stdin=subprocess.DEVNULL, stdout=subprocess.PIPE, stderr=subprocess.PIPE, env=env, cwd=repos[n], timeout=60)
                return p.returncode, p.stdout, p.stderr
            except subprocess.TimeoutExpired:
                return -999, b"", b"timeout"
        with concurrent.futures.ThreadPoolExecutor(max_workers=NPROC) as ex:
            outs = list(ex.map(one, enumerate(plan)))
        for (bi, n, c, k, mode, base_out), (rc, out, err) in zip(plan, outs):
            st["fault_runs"] += 1
            run.evaluations += 1
            desc = {"repo": n, "argv": c, "fault": {"git_invocation": k, "mode": mode}}
            d = discipline(rc, out, err)
            if d is None and rc == 0:
                st["tolerated"] += 1
                t = out.decode("utf-8", "replace")
                fmt_zerv = any(a == "--output-format=zerv" for a in c)
                if not fmt_zerv and (not t.endswith("\n") or "\n" in t[:-1] or LOGLINE.search(t)):
                    d = "success, but stdout is not exactly the one-line result"
                if fmt_zerv and not t.startswith("("):
                    d = "success, but stdout does not start with the Zerv document"
            elif d is None:
                st["clean_failures"] += 1
            if d:
                run.add_violation("oracle", {"stream": "git_fault_injection", "what": d, "described": desc, "rc": rc, "stdout": out.decode("utf-8", "replace")[:400],
                                             "stderr": err.decode("utf-8", "replace")[-500:]}, True)
            run.nontrivial.add((n, tuple(c), k, mode))
    finally:
        shutil.rmtree(root, ignore_errors=True)
    return run


RULE = ("inprocess_*: render / version calls with adversarial version strings, texts and numbers through the library entry points under catch_unwind, compared with the models "
        "proved panic-free. binary_adversarial_argv: the binary with argument vectors drawn from the flag tables read from its own --help (values: non-ASCII and "
        "control text, numbers around 2^32 / 2^64, good and bad templates incl. every template function with extreme arguments, RON, JSON, index specs, invalid UTF-8 bytes) "
        "and stdin (valid / damaged RON, bytes); each run and its -v twin must be clean (status 0 with the result only, or non-zero with stderr and empty stdout), and -v / RUST_LOG "
        "must not change stdout. closed_stdout: output paths with the reader gone. git_fault_injection: real repositories (tagged, ahead, dirty, detached, annotated, merge, "
        "empty, none) with a stub git that makes each single git invocation zerv performs fail in 8 ways (error exits with and without a message, not-a-repository, no HEAD, garbage, empty, killed, noisy) "
        "plus git missing. distinct_nontrivial = distinct (status, output) classes and fault points")
