"""C06 - rendering places every schema component where the documented rules say."""
from .common import *
from . import zgen

PID = "C06"
TARGETS = ["Props/C06.vo"]
KNOWN_U32 = "numeric-value>=2^32-not-integer-valued"


def describe(c):
    f = c.split(" ")
    return {"op": {"REN": "From<Zerv> -> " + f[1], "RENP": "preset schema_with_zerv -> " + f[1]}.get(f[0], f[0]), "request": c[:400]}


def nontrivial(c, r):
    return r.startswith("OK") and ("2d" in r.split(" ")[1] or "2b" in r.split(" ")[1])   # has '-' or '+'


def corpus(rng):
    v = {"major": 1, "minor": None, "patch": 3, "custom": {}}
    s = {"core": [("v", "Major"), ("v", "Minor"), ("v", "Patch")], "extra": [("v", "Epoch")], "build": []}
    cs = ["REN semver " + zgen.enc_zerv(s, v), "REN pep440 " + zgen.enc_zerv(s, v)]
    v2 = {"major": 1, "minor": 0, "patch": 0, "dev": 3, "dirty": False, "custom": {}}
    cs += [f"RENP {fmt} {hx(p)} {zgen.enc_vars(v2)}" for fmt in ("semver", "pep440") for p in ("standard", "calver", "standard-context")]
    v3 = {"major": 5000000000, "minor": 2, "patch": 3, "custom": {}}
    cs += ["REN semver " + zgen.enc_zerv(s, v3), "REN pep440 " + zgen.enc_zerv(s, v3)]
    v4 = {"major": 1, "minor": 2, "patch": 3, "bumped_branch": "ブランチ", "custom": {}}
    s4 = {"core": s["core"], "extra": [], "build": [("v", "BumpedBranch")]}
    cs += ["REN semver " + zgen.enc_zerv(s4, v4), "REN pep440 " + zgen.enc_zerv(s4, v4)]
    return cs


def run_check(tier, seed):
    run = Run(PID, tier, seed)
    rng = random.Random(seed * 1000003 + 6)
    kw = dict(nontrivial=nontrivial, describe=describe)
    correspond(run, "corpus", corpus(rng), **kw)

    n = 12000 if tier == "quick" else 400000
    cases = []
    for _ in range(n):
        s = zgen.rand_schema(rng, valid=rng.random() < 0.92)
        v = zgen.rand_vars(rng)
        z = zgen.enc_zerv(s, v)
        cases.append("REN semver " + z)
        cases.append("REN pep440 " + z)
    correspond(run, "random_schemas_x_random_vars_both_formats", cases, **kw)

    # all 22 presets x tier-relevant states x random remaining vars
    cases = []
    reps = 6 if tier == "quick" else 150
    for p in zgen.PRESETS:
        for dirty in (None, False, True):
            for dist in (None, 0, 3):
                for pre in (None, ("a", 1), ("rc", None)):
                    for post in (None, 0, 2):
                        for _ in range(reps):
                            v = zgen.rand_vars(rng)
                            v.update({"dirty": dirty, "distance": dist, "pre": pre, "post": post})
                            if rng.random() < 0.7:
                                v.update({"major": rng.randint(0, 9), "minor": rng.randint(0, 9), "patch": rng.randint(0, 9)})
                            cases.append(f"RENP {rng.choice(['semver', 'pep440'])} {hx(p)} {zgen.enc_vars(v)}")
    res = correspond(run, "all_22_presets_x_tier_states", cases, **kw)
    # metamorphic oracle on the implementation alone: a smart preset must render exactly like the fixed preset of the tier that
    # (dirty, distance>0, pre_release, post) select - whatever the other variables are
    pairs, fixed_cases = [], []
    for c, r, m, v in res:
        f = c.split(" ")
        name = unhx(f[2])
        fam = "standard" if name.startswith("standard") else "calver"
        kind = name[len(fam):]
        if kind not in ("", "-no-context", "-context"):
            continue
        # decode the four inputs from the vars encoding: fields 3.. = major minor patch epoch pre post dev distance dirty ...
        pre, post, dist, dirty = f[7], f[8], f[10], f[11]
        d = dirty == "1"
        ahead = dist not in ("~", "0")
        tier = "-prerelease-post-dev" if d else "-prerelease-post" if (ahead or (pre != "~" and post != "~")) else "-prerelease" if pre != "~" else ""
        ctx = {"": d or ahead, "-no-context": False, "-context": True}[kind]
        fixed = fam + "-base" + tier + ("-context" if ctx else "")
        fixed_cases.append(" ".join(f[:2] + [hx(fixed)] + f[3:]))
        pairs.append((c, r, fixed))
    fixed_res = run_lines([ZVH], fixed_cases)
    run.evaluations += len(fixed_cases)
    for (c, r, fixed), fr in zip(pairs, fixed_res):
        if r != fr:
            run.add_violation("oracle", {"stream": "smart_preset_equals_fixed_preset_of_its_tier", "request": c, "described": describe(c),
                                         "impl_reply": r, "fixed_preset": fixed, "impl_reply_fixed_preset": fr,
                                         "oracle": "tier must be chosen solely from dirty / distance>0 / pre_release / post"}, True)
    run.streams["smart_preset_equals_fixed_preset_of_its_tier"] = {"cases": len(fixed_cases)}
    run.extra["preset_tier_grid"] = "22 presets x dirty{None,false,true} x distance{None,0,3} x pre_release{None,a1,rc} x post{None,0,2}"
    return run


RULE = ("requests are Zerv objects (schema x variable assignment) rendered by SemVer::from / PEP440::from: random schemas mixing var / str / uint / ts / "
        "custom components in the three sections (8% deliberately invalid, to compare validation), random variable assignments incl. non-ASCII text, "
        "leading zeros, numbers around 2^32 and 2^64, nested custom JSON; plus all 22 presets over the full tier-state grid; non-trivial = the "
        "rendering has a pre-release / build / local part")
