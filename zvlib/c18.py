"""C18 - the Python API is a faithful wrapper of the CLI."""
import shutil, tempfile, time, inspect
from .common import *
from . import zgen, gitfx
from .cli import *

PID = "C18"
TARGETS = ["Props/C18.vo"]
FUNCS = ["version", "flow", "check", "render"]

DRIVER = r'''
import sys, json, subprocess
sys.path.insert(0, sys.argv[1])
import zerv
captured = []
real_run = subprocess.run
def fake_run(cmd, **kw):
    captured.append(list(cmd[1:]))
    if kw.get("input") is None and "stdin" not in kw:
        kw["stdin"] = subprocess.DEVNULL        # do not let the child consume this driver's request stream
    return real_run(cmd, **kw)
subprocess.run = fake_run
import inspect
sigs = {}
for fn in ("version", "flow", "check", "render"):
    s = inspect.signature(getattr(zerv, fn))
    sigs[fn] = [[p.name, p.kind.name] for p in s.parameters.values()]
print(json.dumps({"signatures": sigs, "bin": zerv.find_zerv_bin()}), flush=True)
for line in sys.stdin:
    call = json.loads(line)
    del captured[:]
    if call["fn"] == "__git__":          # change the repository between two calls (stateful sequences)
        r = real_run(call["args"], cwd=call["cwd"], stdin=subprocess.DEVNULL, stdout=subprocess.PIPE, stderr=subprocess.PIPE, text=True, env=call["env"])
        print(json.dumps({"ok": r.stdout.strip(), "argv": None, "rc": r.returncode}), flush=True)
        continue
    try:
        r = getattr(zerv, call["fn"])(*call.get("args", []), **call["kwargs"])
        out = {"ok": r}
    except RuntimeError as e:
        out = {"raised": str(e)[:300]}
    except Exception as e:
        out = {"error": type(e).__name__ + ": " + str(e)[:300]}
    out["argv"] = captured[0] if captured else None
    print(json.dumps(out), flush=True)
'''

FULL_S = {"core": [("v", "Major"), ("v", "Minor"), ("v", "Patch")], "extra": [("v", "Epoch"), ("v", "PreRelease"), ("v", "Post"), ("v", "Dev")],
          "build": [("v", "BumpedBranch"), ("v", "Distance"), ("s", "lit"), ("u", 7)]}
FULL_V = {"major": 1, "minor": 2, "patch": 3, "epoch": None, "pre": ("a", 1), "post": 4, "dev": None, "distance": 5, "dirty": False, "bumped_branch": "feature/test",
          "bumped_hash": "gabc123def456", "bumped_ts": 1700000000, "last_branch": None, "last_hash": "g000111", "last_ts": 1699990000, "last_tag": "v1.2.3", "custom": {"a": "x", "n": 5}}
RON_SCHEMA = "(core:[var(Major),var(Minor),var(Patch)],extra_core:[var(PreRelease),var(Post)],build:[var(BumpedBranch),var(custom(\"a\"))])"
RULES = "[(pattern:\"feature/*\",pre_release_label:beta,pre_release_num:3,post_mode:commit)]"

POOLS = {
    "input_format": ["semver", "pep440", "auto"], "output_format": ["semver", "pep440", "zerv"], "output_template": ["{{ major }}.{{ minor }}", "{{ semver }}", "x", "", "a\rb{{ major }}", "\u00e9 {{ semver }}\r\nz"],
    "output_prefix": ["v", "release-", "", "a\rb", "\u00e9\u6f22-", "x\r\ny"], "schema": ["standard", "standard-base", "standard-context", "calver", "standard-base-prerelease-post-dev-context"], "schema_ron": [RON_SCHEMA],
    "tag_version": ["2.0.0", "v3.1.4-rc.2", "1.0a2"], "distance": [0, 1, 7], "dirty": [True], "no_dirty": [True], "clean": [True],
    "bumped_branch": ["hotfix/zeta", "main", ""], "bumped_commit_hash": ["deadbeefcafe", "g1234567", ""], "bumped_timestamp": [0, 1710511845],
    "major": [0, 9], "minor": [0, 8], "patch": [0, 7], "epoch": [0, 2], "post": [0, 6], "dev": [0, 5], "pre_release_label": ["alpha", "beta", "rc"], "pre_release_num": [0, 4],
    "custom": ["{\"a\":\"y\"}", "{}"], "core": ["0=5", "~1=2", "-1=2", "0={{ major + 4 }}", "1= 7"], "extra_core": ["2=9", "2={{ post + 1 }}"], "build": ["2=zzz", "3=1", "2=a b", "2={{ bumped_branch }} x"],
    "bump_major": [0, 1, 3], "bump_minor": [0, 1, 3], "bump_patch": [0, 1, 3], "bump_post": [0, 2], "bump_dev": [0, 2], "bump_pre_release_num": [0, 2], "bump_epoch": [0, 1],
    "bump_pre_release_label": ["beta", "rc"], "bump_core": ["0=1", "1", "0={{ 1 + 1 }}"], "bump_extra_core": ["2=1", "2={{ 1 + 1 }}"], "bump_build": ["3=2", "3={{ 1 + 1 }}"], "bump_context": [True], "no_bump_context": [True],
    "verbose": [True], "post_mode": ["tag", "commit"], "branch_rules": [RULES], "hash_branch_len": [1, 5, 9], "format": ["semver", "pep440"],
}
VERSION_ONLY_LABELS = ["none"]
VERSIONS = ["1.2.3", "v2.0.0-rc.1", "1.0a1.post2", "not a version", ""]


def long_flag(kw):
    return "--" + {"repo_path": "directory"}.get(kw, kw.replace("_", "-"))


def run_check(tier, seed):
    run = Run(PID, tier, seed)
    rng = random.Random(seed * 1000003 + 18)
    q = tier == "quick"
    now = int(time.time())
    root = tempfile.mkdtemp(prefix="zv18-")
    try:
        # the package from /repo's working tree, with the binary built from it beside it (pkg_root/bin/zerv)
        shutil.copytree("/repo/python/zerv", os.path.join(root, "pkg", "zerv"))
        os.makedirs(os.path.join(root, "pkg", "bin"))
        os.symlink(ZERV, os.path.join(root, "pkg", "bin", "zerv"))
        open(os.path.join(root, "driver.py"), "w").write(DRIVER)
        repo = os.path.join(root, "repo")
        gitfx.build_repo(repo, [("commit", 1700000000), ("tag", "v1.2.3"), ("commit", 1700000100)])
        ron_text = ron_texts([(FULL_S, FULL_V)])[0]

        tables = {}
        from . import c13
        for f in FUNCS:
            fl, pos = c13.help_flags(f)
            tables[f] = {name: kind for name, kind, short in fl}

        def start_driver():
            env = dict(BASE_ENV)
            env.update({"GIT_CONFIG_GLOBAL": "/dev/null", "GIT_CONFIG_SYSTEM": "/dev/null", "PYTHONDONTWRITEBYTECODE": "1"})
            p = subprocess.Popen([sys.executable, os.path.join(root, "driver.py"), os.path.join(root, "pkg")], stdin=subprocess.PIPE, stdout=subprocess.PIPE, stderr=subprocess.PIPE,
                                 env=env, cwd=repo, text=True)
            hello = p.stdout.readline()
            if not hello:
                raise RuntimeError("python driver did not start: " + p.stderr.read()[-600:])
            return p, json.loads(hello)
        p0, hello = start_driver()
        p0.stdin.close()
        p0.wait()
        sigs = hello["signatures"]
        if os.path.realpath(hello["bin"]) != os.path.realpath(ZERV):
            run.add_violation("tie", {"what": "the Python package does not resolve to the binary built from /repo", "found": hello["bin"]}, False)

        # ---------------- calls
        calls = []          # (fn, args, kwargs, why)
        def base(fn):
            return {"source": "stdin", "stdin": ron_text} if fn in ("version", "flow") else {}
        for fn in FUNCS:
            kws = [n for n, kind in sigs[fn] if kind == "KEYWORD_ONLY"]
            posn = [n for n, kind in sigs[fn] if kind != "KEYWORD_ONLY"]
            args0 = ["1.2.3"] if posn else []
            calls.append((fn, args0, base(fn), "base"))
            for kw in kws:
                if kw == "stdin":
                    continue
                if kw == "source":
                    calls.append((fn, args0, {"source": "stdin", "stdin": ron_text}, "single:source"))
                    calls.append((fn, args0, {"source": "git"}, "single:source"))
                    calls.append((fn, args0, {"source": "none", "tag_version": "1.0.0"}, "single:source"))
                    continue
                if kw == "repo_path":
                    calls.append((fn, args0, {"repo_path": repo}, "single:repo_path"))
                    calls.append((fn, args0, {"repo_path": "/nonexistent"}, "single:repo_path"))
                    continue
                pool = list(POOLS.get(kw, ["x"]))
                if fn == "version" and kw == "pre_release_label":
                    pool += VERSION_ONLY_LABELS
                for v in pool:
                    k = dict(base(fn))
                    k[kw] = v
                    calls.append((fn, args0, k, "single:" + kw))
                for v in (None, False):
                    k = dict(base(fn))
                    k[kw] = v
                    calls.append((fn, args0, k, "nothing:" + kw))
            if posn:
                for v in VERSIONS:
                    calls.append((fn, [v], {}, "positional"))
            for _ in range(150 if q else 6000):
                k = dict(base(fn)) if rng.random() < 0.9 else {}
                for kw in rng.sample([x for x in kws if x not in ("stdin", "source", "repo_path")], min(len(kws) - 1, rng.randint(1, 6)) if len(kws) > 3 else rng.randint(0, len(kws))):
                    k[kw] = rng.choice(POOLS.get(kw, ["x"]) + [None])
                calls.append((fn, [rng.choice(VERSIONS[:3])] if posn else [], k, "subset"))

        # a child that does not exit but DIES (signal): the deeply nested template of known finding C13 aborts the process; the wrapper
        # must raise for it as for any other failure
        deep = "{{ " + "(" * 3000 + "1" + ")" * 3000 + " }}"
        calls.append(("render", [VERSIONS[0]], {"output_template": deep}, "dies"))
        calls.append(("version", [], {"source": "none", "tag_version": "1.2.3", "output_template": deep}, "dies"))
        calls.append(("flow", [], {"source": "none", "tag_version": "1.2.3", "output_template": deep}, "dies"))

        # ---------------- stateful sequences: the same call repeated in one interpreter while the repository changes in between
        seq_repo = os.path.join(root, "seqrepo")
        gitfx.build_repo(seq_repo, [("commit", 1700000000), ("tag", "v1.0.0")])
        genv = dict(gitfx.GIT_ENV)
        genv.update({"GIT_AUTHOR_DATE": "1700000500 +0000", "GIT_COMMITTER_DATE": "1700000500 +0000"})
        gcmd = lambda *a: {"fn": "__git__", "args": [gitfx.REAL_GIT] + list(a), "cwd": seq_repo, "env": genv}
        seq = []
        for fn, kw in (("version", {"repo_path": seq_repo}), ("flow", {"repo_path": seq_repo}), ("version", {"repo_path": seq_repo, "output_format": "pep440"})):
            seq.append({"fn": fn, "args": [], "kwargs": kw})
        seq.append(gcmd("commit", "-q", "--allow-empty", "-m", "second"))
        for fn, kw in (("version", {"repo_path": seq_repo}), ("flow", {"repo_path": seq_repo}), ("version", {"repo_path": seq_repo, "output_format": "pep440"})):
            seq.append({"fn": fn, "args": [], "kwargs": kw})
        seq.append(gcmd("tag", "v1.1.0"))
        for fn, kw in (("version", {"repo_path": seq_repo}), ("flow", {"repo_path": seq_repo}), ("version", {"repo_path": seq_repo, "output_format": "pep440"})):
            seq.append({"fn": fn, "args": [], "kwargs": kw})
        pseq, _ = start_driver()
        st_seq = run.streams.setdefault("stateful_sequences", {"steps": 0, "python_calls": 0})
        for step in seq:
            pseq.stdin.write(json.dumps(step) + "\n")
            pseq.stdin.flush()
            ans = json.loads(pseq.stdout.readline())
            st_seq["steps"] += 1
            if step["fn"] == "__git__":
                continue
            st_seq["python_calls"] += 1
            run.evaluations += 1
            cli_argv = [step["fn"], "--directory", seq_repo] + ([f"--output-format={step['kwargs']['output_format']}"] if "output_format" in step["kwargs"] else [])
            rc, out, err = run_procs([(cli_argv, None)], env={"GIT_CONFIG_GLOBAL": "/dev/null", "GIT_CONFIG_SYSTEM": "/dev/null"}, cwd=repo)[0]
            want = out.decode("utf-8", "replace").strip()
            if (rc == 0) != ("ok" in ans) or (rc == 0 and mask_now(ans["ok"], now) != mask_now(want, now)):
                run.add_violation("oracle", {"stream": "stateful_sequences", "what": "after the repository changed, the same Python call no longer returns what the command line prints",
                                             "described": {"sequence": [x["fn"] + (" " + " ".join(x["args"][1:]) if x["fn"] == "__git__" else str({k: v for k, v in x["kwargs"].items() if k != "repo_path"})) for x in seq[:seq.index(step) + 1]]},
                                             "python": ans, "cli": [rc, want[:200]]}, True)
        pseq.stdin.close()
        pseq.wait()

        # python side, sharded
        shards = [calls[i::NPROC] for i in range(NPROC)]

        def work(sh):
            if not sh:
                return []
            p, _ = start_driver()
            inp = "".join(json.dumps({"fn": fn, "args": a, "kwargs": k}) + "\n" for fn, a, k, _ in sh)
            out, err = p.communicate(inp, timeout=3000)
            res = [json.loads(l) for l in out.split("\n") if l.strip()]
            if len(res) != len(sh):
                raise RuntimeError("python driver died: " + err[-800:])
            return res
        with concurrent.futures.ThreadPoolExecutor(max_workers=NPROC) as ex:
            parts = list(ex.map(work, shards))
        pres = [None] * len(calls)
        for si, part in enumerate(parts):
            for j, r in enumerate(part):
                pres[si + j * NPROC] = r

        # the equivalent command lines, built by an independent rule (long options read from --help)
        cli_jobs, unmapped = [], {}
        for ci, (fn, a, k, why) in enumerate(calls):
            argv = [fn] + list(a)
            ok = True
            for kw, v in k.items():
                if kw == "stdin" or v is None or v is False:
                    continue
                lf = long_flag(kw)
                if lf[2:] not in tables[fn]:
                    unmapped[ci] = (kw, lf)
                    ok = False
                    continue
                argv += [lf] if v is True else [lf, str(v)]          # the plain transcription: option, then value as its own argument
            cli_jobs.append((argv, (k.get("stdin") or "").encode() if "stdin" in k else None))
        cres = run_procs(cli_jobs, env={"GIT_CONFIG_GLOBAL": "/dev/null", "GIT_CONFIG_SYSTEM": "/dev/null"}, cwd=repo)
        run.evaluations += 2 * len(calls)

        # the model's argv
        def enc_val(v):
            return "n" if v is None else "t" if v is True else "f" if v is False else f"i:{v}" if isinstance(v, int) else "s:" + hx(v)
        mreqs = []
        for fn, a, k, why in calls:
            kk = [(kw, v) for kw, v in k.items() if kw != "stdin"]
            mreqs.append(" ".join(["PYA", fn, str(len(a))] + [hx(x) for x in a] + [str(len(kk))] + [f"{hx(kw)} {enc_val(v)}" for kw, v in kk]) + " | -")
        mo = run_lines([ZVM], mreqs)

        st = run.streams.setdefault("python_vs_cli", {"calls": 0, "by_kind": collections.Counter(), "returned": 0, "raised": 0, "argv_model_agree": 0, "keywords_seen": 0})
        seen_kw = set()
        base_argv = {}
        for ci, ((fn, a, k, why), pr, (rc, out, err), m) in enumerate(zip(calls, pres, cres, mo)):
            st["calls"] += 1
            st["by_kind"][why.split(":")[0]] += 1
            seen_kw.update((fn, kw) for kw in k)
            desc = {"call": f"zerv.{fn}(" + ", ".join([repr(x) for x in a] + [f"{kw}={'<RON>' if kw == 'stdin' else repr(v)}" for kw, v in k.items()]) + ")", "equivalent_cli": cli_jobs[ci][0], "python_argv": pr.get("argv")}
            if why == "base":
                base_argv[fn] = pr.get("argv")
            if "error" in pr:
                run.add_violation("oracle", {"stream": "python_vs_cli", "what": "the Python function failed with " + pr["error"], "described": desc}, True)
                continue
            if ci in unmapped:
                kw, lf = unmapped[ci]
                # the keyword has no option of its name: the call must not silently succeed with something else
                run.add_violation("oracle", {"stream": "python_vs_cli", "what": f"keyword {kw!r}: the sub-command has no option {lf}", "described": desc, "python": pr}, True)
                continue
            if why.startswith("nothing:") and pr.get("argv") != base_argv.get(fn):
                run.add_violation("oracle", {"stream": "python_vs_cli", "what": "a None / False argument changed the command line", "described": desc, "base_argv": base_argv.get(fn)}, True)
            if rc == 0:
                st["returned"] += 1
                want = out.decode("utf-8", "replace").strip()
                if "ok" not in pr:
                    run.add_violation("oracle", {"stream": "python_vs_cli", "what": "the command succeeds but the Python call raises", "described": desc, "python": pr, "cli_stdout": want[:300]}, True)
                elif mask_now(pr["ok"], now) != mask_now(want, now):
                    run.add_violation("oracle", {"stream": "python_vs_cli", "what": "the Python call does not return the stripped stdout of the equivalent command", "described": desc,
                                                 "python_returned": pr["ok"][:400], "cli_stdout": want[:400]}, True)
            else:
                st["raised"] += 1
                if "raised" not in pr:
                    run.add_violation("oracle", {"stream": "python_vs_cli", "what": "the command fails but the Python call returns text", "described": desc, "python": pr,
                                                 "cli": [rc, err.decode("utf-8", "replace")[-300:]]}, True)
            # model tie: the argv the package built is the one the regenerated tables predict
            mr = m.partition("\t")[0]
            margv = [unhx(x) for x in mr.split(" ")[1:]] if mr.startswith("OK") else None
            if margv is not None and pr.get("argv") is not None and margv == pr["argv"]:
                st["argv_model_agree"] += 1
            else:
                run.disagreements += 1
                run.add_violation("correspondence", {"stream": "python_vs_cli", "what": "the argv built by the package differs from the model over the regenerated tables", "described": desc,
                                                     "model_argv": margv, "model_reply": mr[:200]}, False)
            run.nontrivial.add((fn, tuple(sorted(kw for kw, v in k.items() if v not in (None, False)))))
        st["keywords_seen"] = len(seen_kw)
        st["by_kind"] = dict(st["by_kind"])
        st["signature_keywords"] = {fn: sum(1 for n, kind in sigs[fn] if kind == "KEYWORD_ONLY") for fn in FUNCS}
    finally:
        shutil.rmtree(root, ignore_errors=True)
    return run


def regen():
    from tools_bridge import regen_pyapi
    regen_pyapi()


RULE = ("the package python/zerv from /repo's working tree is imported with the binary built from it; for version / flow / check / render every keyword of the live "
        "signature is called individually with each value of its pool (including 0 and the empty string), with None and with False (the command line must not change), the "
        "positional version string with valid and invalid texts, and random subsets of keywords; each call's return value / exception is compared with the stripped stdout / "
        "failure of the equivalent command line, which is built by an independent rule (--<keyword-with-dashes>, repo_path -> --directory) checked against the options the "
        "sub-command's own --help lists; the argv captured from subprocess.run is compared with the Coq model over the tables regenerated from the source. "
        "distinct_nontrivial = distinct (function, keyword set) combinations")
