#!/usr/bin/env python3
"""Translate the two Regex::new(r"...") literals of /repo (semver/parser.rs, pep440/parser.rs) and the spec
regexes under tools/spec/ into RelationAlgebra `regex'` terms over a common alphabet of *atoms*
(the partition of all code points induced by every character set occurring in source and spec).

Subset handled (anything else raises, which the orchestrator reports as a broken tie):
  flags group at the very start  (?flags)  with flags from  i x u  and  -u / -i
  ^ at the start and $ at the end (full anchoring is required)
  literals, escapes  \\.  \\+  \\-  \\!  \\_  \\d , classes [...] with ranges and the same escapes,
  groups (...), (?:...), (?P<name>...), alternation |, postfix ? * +
  verbose mode: white space and #-comments outside classes are ignored.
Semantics are those documented by the `regex` crate: with the u flag (default) \\d is the Unicode Nd category
and (?i) uses Unicode simple case folding (for ASCII letters that adds U+212A for k and U+017F for s);
without u both are ASCII-only.
"""
import os, re, sys, unicodedata

REPO = os.environ.get("ZV_REPO", "/repo")
HERE = os.path.dirname(os.path.abspath(__file__))
MAXCP = 0x10FFFF


class Unsupported(Exception):
    pass


# ---------------------------------------------------------------- character sets as sorted disjoint ranges
def norm(rs):
    rs = sorted(rs)
    out = []
    for lo, hi in rs:
        if out and lo <= out[-1][1] + 1:
            out[-1] = (out[-1][0], max(out[-1][1], hi))
        else:
            out.append((lo, hi))
    return tuple(out)


_ND = None


def unicode_nd():
    global _ND
    if _ND is None:
        rs = []
        for c in range(MAXCP + 1):
            if 0xD800 <= c <= 0xDFFF:
                continue
            if unicodedata.category(chr(c)) == "Nd":
                rs.append((c, c))
        _ND = norm(rs)
    return _ND


def fold(rs, unicode_mode):
    """close a set under case-insensitive matching"""
    out = list(rs)
    for lo, hi in rs:
        for c in range(max(lo, 65), min(hi, 90) + 1):
            out.append((c + 32, c + 32))
        for c in range(max(lo, 97), min(hi, 122) + 1):
            out.append((c - 32, c - 32))
    out = norm(out)
    if unicode_mode:
        def has(c):
            return any(lo <= c <= hi for lo, hi in out)
        extra = []
        if has(ord("k")) or has(0x212A):
            extra += [(ord("k"),) * 2, (ord("K"),) * 2, (0x212A, 0x212A)]
        if has(ord("s")) or has(0x17F):
            extra += [(ord("s"),) * 2, (ord("S"),) * 2, (0x17F, 0x17F)]
        # other non-ASCII members would need the full folding table
        for lo, hi in out:
            if hi >= 128 and (lo, hi) not in ((0x212A, 0x212A), (0x17F, 0x17F)):
                raise Unsupported("case-insensitive match of a non-ASCII class")
        out = norm(list(out) + extra)
    return out


# ---------------------------------------------------------------- parser -> AST
# AST: ("set", ranges) | ("cat", [..]) | ("alt", [..]) | ("star", x) | ("plus", x) | ("opt", x) | ("eps",)
class P:
    def __init__(self, text):
        self.t = text
        self.i = 0
        self.flags = {"i": False, "x": False, "u": True}

    def peek(self):
        return self.t[self.i] if self.i < len(self.t) else None

    def skip(self):
        if not self.flags["x"]:
            return
        while self.i < len(self.t):
            ch = self.t[self.i]
            if ch in " \t\r\n":
                self.i += 1
            elif ch == "#":
                while self.i < len(self.t) and self.t[self.i] != "\n":
                    self.i += 1
            else:
                break

    def parse_flags(self):
        m = re.match(r"\(\?([a-z]*)(?:-([a-z]+))?\)", self.t[self.i:])
        if m:
            for f in m.group(1):
                if f not in self.flags:
                    raise Unsupported(f"flag {f}")
                self.flags[f] = True
            for f in (m.group(2) or ""):
                if f not in self.flags:
                    raise Unsupported(f"flag -{f}")
                self.flags[f] = False
            self.i += m.end()

    def mkset(self, rs):
        rs = norm(rs)
        if self.flags["i"]:
            rs = fold(rs, self.flags["u"])
        return ("set", rs)

    def escape(self, in_class):
        self.i += 1
        ch = self.peek()
        if ch is None:
            raise Unsupported("dangling backslash")
        self.i += 1
        if ch == "d":
            return unicode_nd() if self.flags["u"] else ((48, 57),)
        if ch in ".+-!_*?()[]{}|^$\\/ #":
            return ((ord(ch), ord(ch)),)
        raise Unsupported(f"escape \\{ch}")

    def cls(self):
        assert self.peek() == "["
        self.i += 1
        if self.peek() == "^":
            raise Unsupported("negated class")
        rs = []
        first = True
        while True:
            ch = self.peek()
            if ch is None:
                raise Unsupported("unterminated class")
            if ch == "]" and not first:
                self.i += 1
                break
            first = False
            if ch == "\\":
                r = self.escape(True)
                if len(r) == 1 and r[0][0] == r[0][1]:
                    lo = r[0][0]
                else:
                    rs += list(r)
                    continue
            elif ch == "[":
                raise Unsupported("nested class")
            else:
                lo = ord(ch)
                self.i += 1
            if self.peek() == "-" and self.i + 1 < len(self.t) and self.t[self.i + 1] != "]":
                self.i += 1
                ch2 = self.peek()
                if ch2 == "\\":
                    r2 = self.escape(True)
                    if not (len(r2) == 1 and r2[0][0] == r2[0][1]):
                        raise Unsupported("range end")
                    hi = r2[0][0]
                else:
                    hi = ord(ch2)
                    self.i += 1
                if hi < lo:
                    raise Unsupported("reversed range")
                rs.append((lo, hi))
            else:
                rs.append((lo, lo))
        return self.mkset(rs)

    def atom(self):
        self.skip()
        ch = self.peek()
        if ch == "(":
            self.i += 1
            if self.t.startswith("?:", self.i):
                self.i += 2
            elif self.t.startswith("?P<", self.i):
                j = self.t.index(">", self.i)
                self.i = j + 1
            elif self.peek() == "?":
                raise Unsupported("group kind " + self.t[self.i:self.i + 4])
            x = self.alt()
            self.skip()
            if self.peek() != ")":
                raise Unsupported("expected )")
            self.i += 1
            return x
        if ch == "[":
            return self.cls()
        if ch == "\\":
            return self.mkset(self.escape(False))
        if ch == ".":
            raise Unsupported("dot")
        if ch in "^$":
            raise Unsupported("inner anchor")
        if ch in "{}":
            raise Unsupported("counted repetition")
        self.i += 1
        return self.mkset([(ord(ch), ord(ch))])

    def postfix(self):
        x = self.atom()
        while True:
            self.skip()
            ch = self.peek()
            if ch == "?":
                x = ("opt", x)
            elif ch == "*":
                x = ("star", x)
            elif ch == "+":
                x = ("plus", x)
            else:
                break
            self.i += 1
            if self.peek() == "?":
                raise Unsupported("lazy quantifier")
        return x

    def cat(self):
        xs = []
        while True:
            self.skip()
            ch = self.peek()
            if ch is None or ch in "|)" or (ch == "$" and self.at_final_dollar()):
                break
            xs.append(self.postfix())
        if not xs:
            return ("eps",)
        return xs[0] if len(xs) == 1 else ("cat", xs)

    def at_final_dollar(self):
        j = self.i + 1
        rest = self.t[j:]
        if self.flags["x"]:
            rest = re.sub(r"#[^\n]*", "", rest)
            rest = rest.strip()
        return rest == ""

    def alt(self):
        xs = [self.cat()]
        while True:
            self.skip()
            if self.peek() == "|":
                self.i += 1
                xs.append(self.cat())
            else:
                break
        return xs[0] if len(xs) == 1 else ("alt", xs)

    def top(self):
        self.parse_flags()
        self.skip()
        if self.peek() != "^":
            raise Unsupported("regex is not anchored at the start")
        self.i += 1
        x = self.alt()
        self.skip()
        if self.peek() != "$" or not self.at_final_dollar():
            raise Unsupported("regex is not anchored at the end (or trailing text): " + repr(self.t[self.i:self.i + 20]))
        return x


def expand_macros(text):
    """spec files: lines 'NAME := body' define macros used as {NAME}; the last block is the regex"""
    macros = {}
    body = []
    for line in text.split("\n"):
        m = re.match(r"^([A-Z_]+)\s*:=\s*(.*?)\s*(?:#.*)?$", line)
        if m:
            macros[m.group(1)] = m.group(2)
        else:
            body.append(line)
    # header comment lines (before the flags group) are dropped
    while body and (body[0].strip() == "" or body[0].lstrip().startswith("#")):
        body.pop(0)
    t = "\n".join(body)
    for _ in range(20):
        t2 = re.sub(r"\{([A-Z_]+)\}", lambda m: "(?:" + macros[m.group(1)] + ")", t)
        if t2 == t:
            break
        t = t2
    return t


def sets_of(x, acc):
    if x[0] == "set":
        acc.add(x[1])
    elif x[0] in ("cat", "alt"):
        for y in x[1]:
            sets_of(y, acc)
    elif x[0] in ("star", "plus", "opt"):
        sets_of(x[1], acc)


def partition(sets):
    """atoms = classes of code points with the same membership signature; returns list of (ranges) per atom,
    atom 1 is 'everything else'"""
    points = {0, MAXCP + 1}
    for s in sets:
        for lo, hi in s:
            points.add(lo)
            points.add(hi + 1)
    pts = sorted(points)
    sig_to_atom = {}
    atoms = []          # list of list of ranges
    other_sig = tuple(False for _ in sets)
    sig_to_atom[other_sig] = 0
    atoms.append([])
    sl = list(sets)
    for a, b in zip(pts, pts[1:]):
        sig = tuple(any(lo <= a <= hi for lo, hi in s) for s in sl)
        if sig not in sig_to_atom:
            sig_to_atom[sig] = len(atoms)
            atoms.append([])
        atoms[sig_to_atom[sig]].append((a, b - 1))
    return [norm(a) for a in atoms]


def pos(n):
    """Coq positive literal in xH/xO/xI form (numerals are not available for RelationAlgebra's sigma)"""
    assert n >= 1
    t = "xH"
    for b in bin(n)[3:]:
        t = ("xI " if b == "1" else "xO ") + (t if t == "xH" else "(" + t + ")")
    return t if t == "xH" else "(" + t + ")"


def set_to_rx(rs, atoms):
    members = []
    for k, a in enumerate(atoms):
        if not a:
            continue
        inside = all(any(lo <= x and y <= hi for lo, hi in rs) for x, y in a)
        outside = all(not any(not (y < lo or x > hi) for lo, hi in rs) for x, y in a)
        if inside:
            members.append(k + 1)
        elif not outside:
            raise Unsupported("atom partition does not refine a set (internal error)")
    if not members:
        return "r_zer"
    t = f"r_var {pos(members[0])}"
    for m in members[1:]:
        t = f"r_pls ({t}) (r_var {pos(m)})"
    return t


def to_rx(x, atoms):
    k = x[0]
    if k == "eps":
        return "r_one"
    if k == "set":
        return set_to_rx(x[1], atoms)
    if k == "cat":
        t = to_rx(x[1][-1], atoms)
        for y in reversed(x[1][:-1]):
            t = f"r_dot ({to_rx(y, atoms)}) ({t})"
        return t
    if k == "alt":
        t = to_rx(x[1][-1], atoms)
        for y in reversed(x[1][:-1]):
            t = f"r_pls ({to_rx(y, atoms)}) ({t})"
        return t
    if k == "star":
        return f"r_str ({to_rx(x[1], atoms)})"
    if k == "plus":
        r = to_rx(x[1], atoms)
        return f"r_dot ({r}) (r_str ({r}))"
    if k == "opt":
        return f"r_pls r_one ({to_rx(x[1], atoms)})"
    raise Unsupported(k)


def atom_of_def(name, atoms):
    """decision list over breakpoints"""
    segs = []
    for k, a in enumerate(atoms):
        for lo, hi in a:
            segs.append((lo, hi, k + 1))
    segs.sort()
    # segs cover [0, MAXCP] without gaps
    body = pos(segs[-1][2])
    for lo, hi, k in reversed(segs[:-1]):
        body = f"if N.ltb c {hi + 1} then {pos(k)} else\n    {body}"
    return f"Definition {name} (c : N) : positive :=\n    {body}.\n"


def extract_literal(path, static_name):
    src = open(path, encoding="utf-8").read()
    m = re.search(static_name + r".*?Regex::new\(\s*r(#*)\"(.*?)\"\1\s*,?\s*\)", src, flags=re.S)
    if not m:
        raise Unsupported(f"{static_name}: Regex::new(r\"...\") literal not found in {path}")
    return m.group(2)


def describe_atoms(atoms):
    out = []
    for k, a in enumerate(atoms):
        d = ",".join((f"U+{lo:04X}" if lo == hi else f"U+{lo:04X}-U+{hi:04X}") for lo, hi in a[:6])
        if len(a) > 6:
            d += f",...({len(a)} ranges)"
        out.append(f"  atom {k + 1}: {d}")
    return "\n".join(out)


def parse_classes(text):
    """class files: lines 'name := body' - each becomes its own regex over the shared atoms"""
    out = []
    for line in text.split("\n"):
        m = re.match(r"^([a-z_0-9]+)\s*:=\s*(.*?)\s*$", line)
        if m:
            out.append((m.group(1), P("(?x-u)^(?:" + m.group(2) + ")$").top()))
    return out


def one(tag, src_text, spec_text, classes_text=None):
    src = P(src_text).top()
    spec = P(expand_macros(spec_text)).top()
    extras = parse_classes(classes_text) if classes_text else []
    sets = set()
    sets_of(src, sets)
    sets_of(spec, sets)
    for _, x in extras:
        sets_of(x, sets)
    atoms = partition(sorted(sets))
    out = f"(* {tag}: {len(atoms)} atoms\n{describe_atoms(atoms)}\n*)\n"
    out += atom_of_def(f"{tag}_atom_of", atoms)
    out += f"Definition {tag}_src : regex' :=\n  {to_rx(src, atoms)}.\n"
    out += f"Definition {tag}_spec : regex' :=\n  {to_rx(spec, atoms)}.\n"
    for name, x in extras:
        out += f"Definition {tag}_cls_{name} : regex' :=\n  {to_rx(x, atoms)}.\n"
    return out, len(atoms)


def generate():
    sv = extract_literal(os.path.join(REPO, "src/version/semver/parser.rs"), "SEMVER_REGEX")
    pp = extract_literal(os.path.join(REPO, "src/version/pep440/parser.rs"), "PEP440_REGEX")
    sv_spec = open(os.path.join(HERE, "spec", "semver_bnf.rx"), encoding="utf-8").read()
    pp_spec = open(os.path.join(HERE, "spec", "pep440_appendix_b.rx"), encoding="utf-8").read()
    head = ("(* GENERATED by tools/regex2coq.py from /repo's regex literals and tools/spec/ - do not edit. *)\n"
            "From Coq Require Import NArith PArith.\n"
            "From RelationAlgebra Require Import kleene regex.\n"
            "Open Scope N_scope.\n\n")
    def opt(name):
        p = os.path.join(HERE, "spec", name)
        return open(p, encoding="utf-8").read() if os.path.exists(p) else None
    a, na = one("semver", sv, sv_spec, opt("semver_classes.rx"))
    b, nb = one("pep440", pp, pp_spec, opt("pep440_classes.rx"))
    return head + a + "\n" + b, {"semver_atoms": na, "pep440_atoms": nb, "semver_regex": sv, "pep440_regex": pp}


def write_if_changed(path, text):
    if os.path.exists(path) and open(path, encoding="utf-8").read() == text:
        return False
    open(path, "w", encoding="utf-8").write(text)
    return True


if __name__ == "__main__":
    txt, info = generate()
    out = sys.argv[1] if len(sys.argv) > 1 else os.path.join(os.path.dirname(HERE), "coq", "Gen", "RegexSrc.v")
    ch = write_if_changed(out, txt)
    print(("written " if ch else "unchanged ") + out, {k: v for k, v in info.items() if k.endswith("atoms")})
