#!/usr/bin/env python3
"""seeded_import.py PID mK [check-PIDs...]: confirm the change /tmp/mut/PID/out/mK in a scratch worktree of /repo HEAD,
run the given checks (default: PID) against it in /repo (applied and reverted), and store it under seeded/PID-mK/."""
import json, os, shutil, subprocess, sys
sys.path.insert(0, os.path.dirname(os.path.abspath(__file__)))
import mutant

VERIF = os.path.dirname(os.path.dirname(os.path.abspath(__file__)))
pid, mk = sys.argv[1], sys.argv[2]
checks = sys.argv[3:] or [pid]
base = os.environ.get("MUT_BASE", "/tmp/mut")                 # where the sub-agent wrote <PID>/out/<mK>
name = os.environ.get("MUT_AS", mk)                           # name to store it under (a second round continues the numbering)
src = f"{base}/{pid}/out/{mk}"
dst = os.path.join(VERIF, "seeded", f"{pid}-{name}")
conf = mutant.confirm(src)
rebased = conf.pop("rebased_patch", None)
ok = conf.get("demo_without_patch") == 0 and conf.get("demo_with_patch") not in (0, None) and conf.get("suite_ok")
print(json.dumps(conf, indent=1)[:1500])
if not ok:
    print("NOT CONFIRMED - not stored")
    sys.exit(1)
os.makedirs(dst, exist_ok=True)
open(os.path.join(dst, "patch.diff"), "w").write(rebased)
shutil.copy(os.path.join(src, "demo.sh"), os.path.join(dst, "demo.sh"))
det = mutant.detect(os.path.join(dst, "patch.diff"), checks)
meta = {}
try:
    meta = json.load(open(os.path.join(src, "meta.json")))
except Exception as e:
    meta = {"note": f"agent meta.json unreadable: {e}"}
meta["property"] = pid
meta["confirmed_by_me"] = {
    "head": subprocess.run(["git", "-C", "/repo", "rev-parse", "--short", "HEAD"], capture_output=True, text=True).stdout.strip(),
    "commands": ["tools/mutant.py confirm (scratch worktree of /repo HEAD: demo.sh without patch, git apply, demo.sh with patch, tools/baseline_check.py)",
                 "tools/mutant.py detect (git -C /repo apply; ./zv check <PID> --tier quick; git -C /repo checkout -- .)"],
    "demo_without_patch_exit": conf.get("demo_without_patch"), "demo_with_patch_exit": conf.get("demo_with_patch"),
    "suite_with_patch": conf.get("suite_with_patch"), "patch_applied_cleanly": conf.get("patch_applies"),
}
meta["detection"] = {p: {"exit": v["rc"], "violations": v["n"], "by_stream": v.get("by_stream"),
                         "first": (v.get("first_replay") or {}).get("described") or (v.get("first_replay") or {}).get("what")} for p, v in det.items()}
json.dump(meta, open(os.path.join(dst, "meta.json"), "w"), indent=1, ensure_ascii=False)
print("stored", dst, {p: (v["rc"], v["n"]) for p, v in det.items()})
