#!/usr/bin/env python3
"""Seeded-change workflow.
  mutant.py confirm <dir>            dir holds patch.diff + demo.sh: in a scratch worktree of /repo HEAD check that the
                                     demo passes without and fails with the patch, and that the pinned suite still passes
  mutant.py detect <patch> CNN...    apply the patch to /repo, run the quick checks, restore /repo
"""
import json, os, subprocess, sys, shutil, time

VERIF = os.path.dirname(os.path.dirname(os.path.abspath(__file__)))
SCR = "/tmp/scratch"


def sh(cmd, **kw):
    p = subprocess.run(cmd, stdout=subprocess.PIPE, stderr=subprocess.STDOUT, text=True, **kw)
    return p.returncode, p.stdout


def confirm(d):
    wt = os.path.join(SCR, "mw")
    tg = os.path.join(wt, "target")
    sh(["git", "-C", "/repo", "worktree", "remove", "--force", wt])
    shutil.rmtree(wt, ignore_errors=True)
    rc, o = sh(["git", "-C", "/repo", "worktree", "add", "-f", "--detach", wt, "HEAD"])
    res = {}
    try:
        demo = os.path.join(d, "demo.sh")
        os.makedirs(tg, exist_ok=True)          # some demos write a build log into the target directory before cargo creates it
        env = dict(os.environ, CARGO_NET_OFFLINE="true")
        rc0, o0 = sh(["timeout", "900", "bash", demo, wt, tg], env=env, stdin=subprocess.DEVNULL)
        res["demo_without_patch"] = rc0
        rca, oa = sh(["git", "-C", wt, "apply", os.path.join(d, "patch.diff")])
        res["patch_applies"] = rca == 0
        if rca != 0:
            rca, oa = sh(["git", "-C", wt, "apply", "--3way", os.path.join(d, "patch.diff")])
            res["patch_applies_3way"] = rca == 0
            res["apply_log"] = oa[-500:]
        if rca == 0:
            rc1, o1 = sh(["timeout", "900", "bash", demo, wt, tg], env=env, stdin=subprocess.DEVNULL)
            res["demo_with_patch"] = rc1
            res["demo_output_with_patch"] = o1[-800:]
            rcs, os_ = sh(["python3", os.path.join(VERIF, "tools", "baseline_check.py"), wt], env=env)
            res["suite_with_patch"] = os_.strip().split("\n")[0] if os_ else ""
            res["suite_ok"] = rcs == 0
            # save the patch as it applies to the current tree
            rcd, od = sh(["git", "-C", wt, "diff"])
            res["rebased_patch"] = od
    finally:
        sh(["git", "-C", "/repo", "worktree", "remove", "--force", wt])
        shutil.rmtree(wt, ignore_errors=True)
        sh(["git", "-C", "/repo", "worktree", "prune"])
    return res


def detect(patch, pids, tier="quick"):
    import fcntl
    lk = open("/tmp/zv-dev.lock", "w")          # development-time only: keeps interactive runs off /repo while a patch is applied
    fcntl.flock(lk, fcntl.LOCK_EX)
    os.environ.pop("ZV_DEV_LOCK", None)
    rc, o = sh(["git", "-C", "/repo", "status", "--porcelain", "--untracked-files=no"])
    if o.strip():
        sys.exit("/repo has local modifications; refusing")
    rc, o = sh(["git", "-C", "/repo", "apply", patch])
    if rc != 0:
        sys.exit("patch does not apply: " + o)
    out = {}
    try:
        for pid in pids:
            t = time.time()
            rc, o = sh([os.path.join(VERIF, "zv"), "check", pid, "--tier", tier], cwd=VERIF)
            v = [l for l in o.split("\n") if l.startswith("VIOLATION")]
            out[pid] = {"rc": rc, "violations": v[:1], "n": len(v), "wall": round(time.time() - t, 1)}
            hist = {}
            for l in v:
                try:
                    d = json.load(open(l.split("replay=")[1].split()[0]))
                    key = d.get("kind", "?") + "/" + str(d.get("stream", d.get("obligation_or_tie", "")))
                    hist[key] = hist.get(key, 0) + 1
                except Exception:
                    pass
            out[pid]["by_stream"] = hist
            if v:
                try:
                    rp = v[0].split("replay=")[1].split()[0]
                    out[pid]["first_replay"] = json.load(open(rp))
                except Exception as e:
                    out[pid]["first_replay"] = str(e)
    finally:
        sh(["git", "-C", "/repo", "checkout", "--", "."])
    return out


if __name__ == "__main__":
    if sys.argv[1] == "confirm":
        r = confirm(sys.argv[2])
        rp = r.pop("rebased_patch", None)
        print(json.dumps(r, indent=1))
        if rp is not None and len(sys.argv) > 3:
            open(sys.argv[3], "w").write(rp)
    elif sys.argv[1] == "detect":
        r = detect(sys.argv[2], sys.argv[3:])
        for pid, v in r.items():
            fr = v.pop("first_replay", None)
            print(pid, json.dumps(v))
            if fr:
                s = json.dumps(fr, ensure_ascii=False)
                print("   first replay:", s[:900])
