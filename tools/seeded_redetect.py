#!/usr/bin/env python3
"""seeded_redetect.py PID-mK [check-PIDs...]: re-run the checks against a stored seeded change and refresh meta.json's detection block."""
import json, os, sys
sys.path.insert(0, os.path.dirname(os.path.abspath(__file__)))
import mutant
VERIF = os.path.dirname(os.path.dirname(os.path.abspath(__file__)))
name = sys.argv[1]
checks = sys.argv[2:] or [name.split("-")[0]]
dst = os.path.join(VERIF, "seeded", name)
det = mutant.detect(os.path.join(dst, "patch.diff"), checks)
meta = json.load(open(os.path.join(dst, "meta.json")))
meta.setdefault("detection", {}).update({p: {"exit": v["rc"], "violations": v["n"], "by_stream": v.get("by_stream"),
                                              "first": (v.get("first_replay") or {}).get("described") or (v.get("first_replay") or {}).get("what")} for p, v in det.items()})
json.dump(meta, open(os.path.join(dst, "meta.json"), "w"), indent=1, ensure_ascii=False)
print(name, {p: (v["rc"], v["n"]) for p, v in det.items()})
