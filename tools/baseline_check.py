#!/usr/bin/env python3
"""Run the repository's pinned suite (guard OFF) on a tree and compare with BASELINE.json.

usage: baseline_check.py [repo_dir]     (default /repo)
exit 0 iff every test in BASELINE.stable_pass passed.
The build output goes to a scratch target dir outside /repo and /verif which is removed
afterwards unless KEEP_TARGET=1.
"""
import json, os, subprocess, sys, tempfile, shutil, xml.etree.ElementTree as ET

repo = sys.argv[1] if len(sys.argv) > 1 else "/repo"
base = json.load(open("/root/.vp/BASELINE.json"))
want = set(base["stable_pass"])
# The integration tests run <checkout>/target/debug/zerv, so the suite must build into the checkout's own
# target directory (exactly what the BASELINE.json command does).
tdir = os.path.join(repo, "target")
env = dict(os.environ, CARGO_NET_OFFLINE="true")
env.pop("CARGO_TARGET_DIR", None)
env.pop("RUSTFLAGS", None)
cfg = "/w/lib/nextest.toml"
cmd = ["cargo", "nextest", "run", "--workspace", "--no-fail-fast", "--tool-config-file",
       "pb:" + cfg, "--profile", "pb", "--test-threads", "8", "--offline"]
p = subprocess.run(cmd, cwd=repo, env=env, stdout=subprocess.PIPE, stderr=subprocess.STDOUT, text=True)
junit = os.path.join(tdir, "nextest", "pb", "junit.xml")
passed = set()
failed = set()
if os.path.exists(junit):
    for ts in ET.parse(junit).getroot().iter("testsuite"):
        for tc in ts.iter("testcase"):
            name = tc.get("classname", "") + "::" + tc.get("name", "")
            # baseline names look like "zerv::cli::app::tests::test_run"; nextest junit classname is the binary id
            bad = any(ch.tag in ("failure", "error") for ch in tc)
            (failed if bad else passed).add((tc.get("classname", ""), tc.get("name", "")))
else:
    print(p.stdout[-3000:])
    print("no junit produced")
    sys.exit(2)

def norm(cls, name):
    # classname e.g. "zerv" (lib unit tests) or "zerv::integration" ; baseline: "zerv::" + path
    return cls + "::" + name

okn = {norm(*x) for x in passed}
missing = sorted(t for t in want if t not in okn)
print(f"baseline stable_pass={len(want)} passed_now={len(okn)} failed_now={len(failed)} missing_from_pass={len(missing)}")
for m in missing[:40]:
    print("  NOT PASSING:", m)
sys.exit(0 if not missing else 1)
