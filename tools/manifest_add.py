#!/usr/bin/env python3
"""manifest_add.py PID 'level text' 'level note' 'technique' [category]: register a check and drop the property from not_applicable."""
import json, sys
pid, text, note, tech = sys.argv[1:5]
cat = sys.argv[5] if len(sys.argv) > 5 else "proof"
p = "/verif/MANIFEST.json"
m = json.load(open(p))
m["checks"] = [c for c in m["checks"] if c["property_id"] != pid]
m["checks"].append({"property_id": pid, "quick_cmd": f"./zv check {pid} --tier quick", "thorough_cmd": f"./zv check {pid} --tier thorough",
                    "evidence_file": f"evidence/{pid}.json", "replay_cmd_template": f"./zv replay {pid} {{path}}", "engine": "coq-model+correspondence",
                    "level_claimed": {"category": cat, "text": text, "design_ref": f"DESIGN.md section 4 {pid}"}, "level_note": note, "technique": tech})
m["not_applicable"] = [n for n in m["not_applicable"] if n["property_id"] != pid]
json.dump(m, open(p, "w"), indent=1)
print("ok", [c["property_id"] for c in m["checks"]])
