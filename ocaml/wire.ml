(* Wire helpers for the model driver: hex <-> code-point lists, ints <-> extracted numbers.
   Trusted glue (cross-checked against Eval vm_compute on a sample of every run). *)
open Model

let rec pos_of_int (i : int) : positive =
  if i = 1 then XH
  else if i land 1 = 0 then XO (pos_of_int (i lsr 1))
  else XI (pos_of_int (i lsr 1))

let n_of_int (i : int) : n = if i = 0 then N0 else Npos (pos_of_int i)

let rec int_of_pos (p : positive) : int =
  match p with XH -> 1 | XO q -> 2 * int_of_pos q | XI q -> 2 * int_of_pos q + 1

let int_of_n (x : n) : int = match x with N0 -> 0 | Npos p -> int_of_pos p

let rec nat_of_int (i : int) : nat = if i <= 0 then O else S (nat_of_int (i - 1))
let rec int_of_nat (x : nat) : int = match x with O -> 0 | S y -> 1 + int_of_nat y

(* decimal text of an arbitrarily large N, by repeated division in the model's own N *)
let dec_of_n (x : n) : string =
  let ten = n_of_int 10 in
  let rec go x acc =
    match x with
    | N0 -> acc
    | _ ->
      let q = N.div x ten and r = N.modulo x ten in
      go q (string_of_int (int_of_n r) ^ acc)
  in
  match x with N0 -> "0" | _ -> go x ""

let n_of_dec (s : string) : n =
  let ten = n_of_int 10 in
  let acc = ref N0 in
  String.iter (fun ch -> acc := N.add (N.mul !acc ten) (n_of_int (Char.code ch - 48))) s;
  !acc

let z_of_dec (s : string) : z =
  if String.length s > 0 && s.[0] = '-' then
    (match n_of_dec (String.sub s 1 (String.length s - 1)) with N0 -> Z0 | Npos p -> Zneg p)
  else (match n_of_dec s with N0 -> Z0 | Npos p -> Zpos p)

let dec_of_z (x : z) : string =
  match x with Z0 -> "0" | Zpos p -> dec_of_n (Npos p) | Zneg p -> "-" ^ dec_of_n (Npos p)

(* hex field -> bytes *)
let bytes_of_hexfield (f : string) : int list =
  if String.length f = 0 || f.[0] <> 'x' then failwith ("bad string field " ^ f);
  let n = (String.length f - 1) / 2 in
  List.init n (fun i -> int_of_string ("0x" ^ String.sub f (1 + 2 * i) 2))

(* UTF-8 decode (input is valid UTF-8 by construction) *)
let rec cps_of_bytes (b : int list) : int list =
  match b with
  | [] -> []
  | b0 :: r when b0 < 0x80 -> b0 :: cps_of_bytes r
  | b0 :: b1 :: r when b0 < 0xE0 -> (((b0 land 0x1F) lsl 6) lor (b1 land 0x3F)) :: cps_of_bytes r
  | b0 :: b1 :: b2 :: r when b0 < 0xF0 ->
    (((b0 land 0x0F) lsl 12) lor ((b1 land 0x3F) lsl 6) lor (b2 land 0x3F)) :: cps_of_bytes r
  | b0 :: b1 :: b2 :: b3 :: r ->
    (((b0 land 0x07) lsl 18) lor ((b1 land 0x3F) lsl 12) lor ((b2 land 0x3F) lsl 6) lor (b3 land 0x3F))
    :: cps_of_bytes r
  | _ -> failwith "bad utf8"

let str_of_field (f : string) : n list = List.map n_of_int (cps_of_bytes (bytes_of_hexfield f))

let utf8_of_cp (c : int) : int list =
  if c < 0x80 then [ c ]
  else if c < 0x800 then [ 0xC0 lor (c lsr 6); 0x80 lor (c land 0x3F) ]
  else if c < 0x10000 then [ 0xE0 lor (c lsr 12); 0x80 lor ((c lsr 6) land 0x3F); 0x80 lor (c land 0x3F) ]
  else
    [ 0xF0 lor (c lsr 18); 0x80 lor ((c lsr 12) land 0x3F); 0x80 lor ((c lsr 6) land 0x3F);
      0x80 lor (c land 0x3F) ]

let field_of_str (s : n list) : string =
  let b = Buffer.create 16 in
  Buffer.add_char b 'x';
  List.iter (fun c -> List.iter (fun by -> Buffer.add_string b (Printf.sprintf "%02x" by)) (utf8_of_cp (int_of_n c))) s;
  Buffer.contents b

let opt_str_of_field f = if f = "~" then None else Some (str_of_field f)
let field_of_opt_str o = match o with None -> "~" | Some s -> field_of_str s
let bool_of_field f = match f with "0" -> false | "1" -> true | _ -> failwith ("bad bool " ^ f)
let field_of_bool b = if b then "1" else "0"
