(* Flat token decoding of Zerv objects (mirror of harness/src/zenc.rs) *)
open Model
open Wire

type cur = { f : string array; mutable i : int }

let next c =
  if c.i >= Array.length c.f then failwith "truncated request";
  let t = c.f.(c.i) in
  c.i <- c.i + 1;
  t

let num c = let t = next c in if t = "~" then None else Some (n_of_dec t)
let ostr c = let t = next c in if t = "~" then None else Some (str_of_field t)
let obool c = match next c with "~" -> None | "0" -> Some false | "1" -> Some true | o -> failwith ("bool " ^ o)
let rest t = String.sub t 2 (String.length t - 2)

let var_of = function
  | "Major" -> Major | "Minor" -> Minor | "Patch" -> Patch | "Epoch" -> Epoch | "PreRelease" -> PreRelease
  | "Post" -> Post | "Dev" -> Dev | "Distance" -> Distance | "Dirty" -> Dirty | "BumpedBranch" -> BumpedBranch
  | "BumpedCommitHash" -> BumpedCommitHash | "BumpedCommitHashShort" -> BumpedCommitHashShort
  | "BumpedTimestamp" -> BumpedTimestamp | "LastBranch" -> LastBranch | "LastCommitHash" -> LastCommitHash
  | "LastCommitHashShort" -> LastCommitHashShort | "LastTimestamp" -> LastTimestamp
  | o -> failwith ("var " ^ o)

let comp c =
  let t = next c in
  match String.sub t 0 2 with
  | "s:" -> CStr (str_of_field (rest t))
  | "u:" -> CUInt (n_of_dec (rest t))
  | "v:" -> CVar (var_of (rest t))
  | "c:" -> CVar (Custom (str_of_field (rest t)))
  | "t:" -> CVar (Ts (str_of_field (rest t)))
  | o -> failwith ("component " ^ o)

let comps c = let n = int_of_string (next c) in List.init n (fun _ -> comp c)

let prec_of = function
  | "Epoch" -> PEpoch | "Major" -> PMajor | "Minor" -> PMinor | "Patch" -> PPatch | "Core" -> PCore
  | "PreReleaseLabel" -> PPreLabel | "PreReleaseNum" -> PPreNum | "Post" -> PPost | "Dev" -> PDev
  | "ExtraCore" -> PExtraCore | "Build" -> PBuild
  | o -> failwith ("precedence " ^ o)

let rec json c =
  let t = next c in
  if t = "jn" then JNull
  else if t = "jt" then JBool true
  else if t = "jf" then JBool false
  else
    match String.sub t 0 2 with
    | "j#" -> JNum (str_of_field (rest t))
    | "j$" -> JStr (str_of_field (rest t))
    | "ja" -> let n = int_of_string (rest t) in JArr (List.init n (fun _ -> json c))
    | "jo" ->
      let n = int_of_string (rest t) in
      (* serde_json::Map::insert: a later duplicate key replaces the earlier value *)
      let items = List.init n (fun _ -> let k = str_of_field (next c) in let v = json c in (k, v)) in
      JObj (List.fold_left (fun acc (k, v) -> obj_insert k v acc) [] items)
    | o -> failwith ("json " ^ o)

let vars c =
  let v_major = num c in let v_minor = num c in let v_patch = num c in let v_epoch = num c in
  let v_pre =
    let t = next c in
    if t = "~" then None
    else
      match String.split_on_char '/' t with
      | [ l; n ] ->
        let pr_label = (match l with "a" -> Alpha | "b" -> Beta | "rc" -> Rc | o -> failwith ("label " ^ o)) in
        Some { pr_label; pr_num = (if n = "~" then None else Some (n_of_dec n)) }
      | _ -> failwith "pre"
  in
  let v_post = num c in let v_dev = num c in let v_distance = num c in let v_dirty = obool c in
  let v_bumped_branch = ostr c in let v_bumped_hash = ostr c in let v_bumped_ts = num c in
  let v_last_branch = ostr c in let v_last_hash = ostr c in let v_last_ts = num c in let v_last_tag = ostr c in
  let v_custom = json c in
  { v_major; v_minor; v_patch; v_epoch; v_pre; v_post; v_dev; v_distance; v_dirty; v_bumped_branch; v_bumped_hash;
    v_bumped_ts; v_last_branch; v_last_hash; v_last_ts; v_last_tag; v_custom }

let schema c =
  let s_core = comps c in let s_extra = comps c in let s_build = comps c in
  let n = int_of_string (next c) in
  let s_prec = List.init n (fun _ -> prec_of (next c)) in
  { s_core; s_extra; s_build; s_prec }

(* Z <schema> <vars> *)
let zerv c =
  if next c <> "Z" then failwith "expected Z";
  let z_schema = schema c in
  let z_vars = vars c in
  { z_schema; z_vars }

(* ---------------------------------------------------------------- encoding (mirror of harness enc_zerv) *)
let on = function Some n -> dec_of_n n | None -> "~"
let os = function Some s -> field_of_str s | None -> "~"

let var_name = function
  | Major -> "Major" | Minor -> "Minor" | Patch -> "Patch" | Epoch -> "Epoch" | PreRelease -> "PreRelease" | Post -> "Post" | Dev -> "Dev"
  | Distance -> "Distance" | Dirty -> "Dirty" | BumpedBranch -> "BumpedBranch" | BumpedCommitHash -> "BumpedCommitHash"
  | BumpedCommitHashShort -> "BumpedCommitHashShort" | BumpedTimestamp -> "BumpedTimestamp" | LastBranch -> "LastBranch"
  | LastCommitHash -> "LastCommitHash" | LastCommitHashShort -> "LastCommitHashShort" | LastTimestamp -> "LastTimestamp"
  | Custom _ | Ts _ -> "?"

let enc_comp = function
  | CStr s -> "s:" ^ field_of_str s
  | CUInt n -> "u:" ^ dec_of_n n
  | CVar (Custom n) -> "c:" ^ field_of_str n
  | CVar (Ts p) -> "t:" ^ field_of_str p
  | CVar v -> "v:" ^ var_name v

let prec_name = function
  | PEpoch -> "Epoch" | PMajor -> "Major" | PMinor -> "Minor" | PPatch -> "Patch" | PCore -> "Core" | PPreLabel -> "PreReleaseLabel"
  | PPreNum -> "PreReleaseNum" | PPost -> "Post" | PDev -> "Dev" | PExtraCore -> "ExtraCore" | PBuild -> "Build"

let rec enc_json j =
  match j with
  | JNull -> [ "jn" ]
  | JBool true -> [ "jt" ]
  | JBool false -> [ "jf" ]
  | JNum t -> [ "j#" ^ field_of_str t ]
  | JStr s -> [ "j$" ^ field_of_str s ]
  | JArr l -> ("ja" ^ string_of_int (List.length l)) :: List.concat_map enc_json l
  | JObj l -> ("jo" ^ string_of_int (List.length l)) :: List.concat_map (fun (k, v) -> field_of_str k :: enc_json v) l

let enc_zerv (z : zerv) : string =
  let s = z.z_schema and v = z.z_vars in
  let part l = string_of_int (List.length l) :: List.map enc_comp l in
  let prec = Model.prec_order s in     (* the IndexMap keeps the first occurrence of each level *)
  String.concat " "
    ([ "Z" ] @ part s.s_core @ part s.s_extra @ part s.s_build
     @ (string_of_int (List.length prec) :: List.map prec_name prec)
     @ [ on v.v_major; on v.v_minor; on v.v_patch; on v.v_epoch;
         (match v.v_pre with None -> "~" | Some p -> (match p.pr_label with Alpha -> "a" | Beta -> "b" | Rc -> "rc") ^ "/" ^ on p.pr_num);
         on v.v_post; on v.v_dev; on v.v_distance; (match v.v_dirty with None -> "~" | Some true -> "1" | Some false -> "0");
         os v.v_bumped_branch; os v.v_bumped_hash; on v.v_bumped_ts; os v.v_last_branch; os v.v_last_hash; on v.v_last_ts; os v.v_last_tag ]
     @ enc_json v.v_custom)
