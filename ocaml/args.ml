(* argv (as generated: --name or --name=value) -> Model.vargs *)
open Model
open Wire

let split_eq (a : string) : string * string option =
  match String.index_opt a '=' with
  | Some i -> (String.sub a 0 i, Some (String.sub a (i + 1) (String.length a - i - 1)))
  | None -> (a, None)

let utf8_cps (s : string) : n list =
  List.map n_of_int (cps_of_bytes (List.init (String.length s) (fun i -> Char.code s.[i])))

let empty : vargs =
  { g_source = None; g_input_format = FAuto; g_output_format = OutSemver; g_prefix = None; g_schema = None; g_schema_ron = None;
    o_tag_version = None; o_distance = None; o_dirty = false; o_no_dirty = false; o_clean = false; o_branch = None; o_hash = None;
    o_ts = None; o_major = None; o_minor = None; o_patch = None; o_epoch = None; o_post = None; o_dev = None; o_pre_label = None;
    o_pre_num = None; o_custom = None; o_core = []; o_extra = []; o_build = [];
    b_major = None; b_minor = None; b_patch = None; b_post = None; b_dev = None; b_pre_num = None; b_epoch = None; b_pre_label = None;
    b_core = []; b_extra = []; b_build = []; b_context = false; b_no_context = false }

exception Unsupported of string

(* schema_ron / custom: the parse results are supplied by the generator (it wrote the texts) *)
let parse (argv : string list) (ron : schema option option) (custom : json option option) : vargs =
  List.fold_left
    (fun (a : vargs) arg ->
      let name, v = split_eq arg in
      let sv () = match v with Some x -> utf8_cps x | None -> raise (Unsupported (name ^ " needs a value")) in
      let ov () = Option.map utf8_cps v in
      match name with
      | "--source" -> { a with g_source = Some (match v with Some "none" -> SrcNone | Some "stdin" -> SrcStdin | Some "git" -> SrcGit | _ -> raise (Unsupported arg)) }
      | "--input-format" -> { a with g_input_format = (match v with Some "auto" -> FAuto | Some "semver" -> FSemver | Some "pep440" -> FPep440 | _ -> raise (Unsupported arg)) }
      | "--output-format" -> { a with g_output_format = (match v with Some "semver" -> OutSemver | Some "pep440" -> OutPep440 | Some "zerv" -> OutZerv | _ -> raise (Unsupported arg)) }
      | "--output-prefix" -> { a with g_prefix = Some (sv ()) }
      | "--schema" -> { a with g_schema = Some (sv ()) }
      | "--schema-ron" -> { a with g_schema_ron = (match ron with Some r -> Some r | None -> raise (Unsupported "schema-ron without parse")) }
      | "--tag-version" -> { a with o_tag_version = Some (sv ()) }
      | "--distance" -> { a with o_distance = Some (n_of_dec (Option.get v)) }
      | "--dirty" -> { a with o_dirty = true }
      | "--no-dirty" -> { a with o_no_dirty = true }
      | "--clean" -> { a with o_clean = true }
      | "--bumped-branch" -> { a with o_branch = Some (sv ()) }
      | "--bumped-commit-hash" -> { a with o_hash = Some (sv ()) }
      | "--bumped-timestamp" -> { a with o_ts = Some (z_of_dec (Option.get v)) }
      | "--major" -> { a with o_major = Some (sv ()) }
      | "--minor" -> { a with o_minor = Some (sv ()) }
      | "--patch" -> { a with o_patch = Some (sv ()) }
      | "--epoch" -> { a with o_epoch = Some (sv ()) }
      | "--post" -> { a with o_post = Some (sv ()) }
      | "--dev" -> { a with o_dev = Some (sv ()) }
      | "--pre-release-label" -> { a with o_pre_label = Some (sv ()) }
      | "--pre-release-num" -> { a with o_pre_num = Some (sv ()) }
      | "--custom" -> { a with o_custom = (match custom with Some c -> Some c | None -> raise (Unsupported "custom without parse")) }
      | "--core" -> { a with o_core = a.o_core @ [ sv () ] }
      | "--extra-core" -> { a with o_extra = a.o_extra @ [ sv () ] }
      | "--build" -> { a with o_build = a.o_build @ [ sv () ] }
      | "--bump-major" -> { a with b_major = Some (ov ()) }
      | "--bump-minor" -> { a with b_minor = Some (ov ()) }
      | "--bump-patch" -> { a with b_patch = Some (ov ()) }
      | "--bump-post" -> { a with b_post = Some (ov ()) }
      | "--bump-dev" -> { a with b_dev = Some (ov ()) }
      | "--bump-pre-release-num" -> { a with b_pre_num = Some (ov ()) }
      | "--bump-epoch" -> { a with b_epoch = Some (ov ()) }
      | "--bump-pre-release-label" -> { a with b_pre_label = Some (sv ()) }
      | "--bump-core" -> { a with b_core = a.b_core @ [ sv () ] }
      | "--bump-extra-core" -> { a with b_extra = a.b_extra @ [ sv () ] }
      | "--bump-build" -> { a with b_build = a.b_build @ [ sv () ] }
      | "--bump-context" -> { a with b_context = true }
      | "--no-bump-context" -> { a with b_no_context = true }
      | _ -> raise (Unsupported arg))
    empty argv

(* ---- zerv flow ---- *)
let parse_flow (argv : string list) (ron : schema option option) (rules : rule list option) : fargs =
  let label = ref None and num = ref None and mode = ref None and hlen = ref (n_of_int 5) in
  let rest =
    List.filter
      (fun arg ->
        let name, v = split_eq arg in
        match name with
        | "--pre-release-label" ->
          label := Some (match v with Some "alpha" -> Alpha | Some "beta" -> Beta | Some "rc" -> Rc | _ -> raise (Unsupported arg));
          false
        | "--pre-release-num" -> num := Some (n_of_dec (Option.get v)); false
        | "--post-mode" -> mode := Some (match v with Some "tag" -> ModeTag | Some "commit" -> ModeCommit | _ -> raise (Unsupported arg)); false
        | "--hash-branch-len" -> hlen := n_of_dec (Option.get v); false
        | "--branch-rules" -> false
        | _ -> true)
      argv
  in
  { f_base = parse rest ron None; f_label = !label; f_num = !num; f_mode = !mode; f_rules = rules; f_hash_len = !hlen }
