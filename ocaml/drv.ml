(* zvm — model side of the correspondence check.
   line:   OP f1 f2 ... [| impl-reply-fields...]
   reply:  <model reply>\t<oracle verdict>      verdict = OK | NA | BAD:<clause> *)
open Model
open Wire

let split_bar (fs : string list) : string list * string list =
  let rec go acc = function
    | [] -> (List.rev acc, [])
    | "|" :: r -> (List.rev acc, r)
    | x :: r -> go (x :: acc) r
  in
  go [] fs

let opt_nat_of_field f = if f = "~" then None else Some (nat_of_int (int_of_string f))

let cps_of_ascii (s : string) : n list = List.init (String.length s) (fun i -> n_of_int (Char.code s.[i]))

(* ---- SemVer helpers ---- *)
let ids_field (o : ident list option) : string =
  match o with
  | None -> "~"
  | Some [] -> "-"
  | Some l ->
    String.concat ","
      (List.map (function IStr s -> "s:" ^ field_of_str s | IUInt n -> "u:" ^ dec_of_n n) l)

let semver_fields (v : semver) : string =
  Printf.sprintf "%s %s %s %s %s %s" (field_of_str (semver_print v)) (dec_of_n v.sv_major) (dec_of_n v.sv_minor)
    (dec_of_n v.sv_patch) (ids_field v.sv_pre) (ids_field v.sv_build)

let cmp_name = function Eq -> "EQ" | Lt -> "LT" | Gt -> "GT"
let sv_atoms s = List.map semver_atom_of s

(* ---- PEP 440 helpers ---- *)
let optn_field = function Some n -> dec_of_n n | None -> "~"
let pep_atoms s = List.map pep440_atom_of s

let pep_fields (v : pep) : string =
  let rel = match v.p_release with [] -> "-" | l -> String.concat "," (List.map dec_of_n l) in
  let pl = match v.p_pre_label with None -> "~" | Some Alpha -> "a" | Some Beta -> "b" | Some Rc -> "rc" in
  let local =
    match v.p_local with
    | None -> "~"
    | Some [] -> "-"
    | Some l -> String.concat "," (List.map (function LStr s -> "s:" ^ field_of_str s | LUInt n -> "u:" ^ dec_of_n n) l)
  in
  Printf.sprintf "%s %s %s %s %s %s %s %s %s %s" (field_of_str (pep_print v)) (dec_of_n v.p_epoch) rel pl (optn_field v.p_pre_num)
    (if v.p_post_label then "1" else "0") (optn_field v.p_post_num) (if v.p_dev_label then "1" else "0") (optn_field v.p_dev_num) local

let preset_of_name (n : string) : preset =
  let fam, rest =
    if String.length n >= 8 && String.sub n 0 8 = "standard" then (Standard, String.sub n 8 (String.length n - 8))
    else if String.length n >= 6 && String.sub n 0 6 = "calver" then (Calver, String.sub n 6 (String.length n - 6))
    else failwith ("preset " ^ n)
  in
  match rest with
  | "" -> Smart fam
  | "-no-context" -> SmartNoContext fam
  | "-context" -> SmartContext fam
  | "-base" -> Fixed (fam, TBase, false)
  | "-base-prerelease" -> Fixed (fam, TPre, false)
  | "-base-prerelease-post" -> Fixed (fam, TPrePost, false)
  | "-base-prerelease-post-dev" -> Fixed (fam, TPrePostDev, false)
  | "-base-context" -> Fixed (fam, TBase, true)
  | "-base-prerelease-context" -> Fixed (fam, TPre, true)
  | "-base-prerelease-post-context" -> Fixed (fam, TPrePost, true)
  | "-base-prerelease-post-dev-context" -> Fixed (fam, TPrePostDev, true)
  | _ -> failwith ("preset " ^ n)

let check_text (name : string) (s : n list) (printed : n list) (normalized : bool) : n list =
  cps_of_ascii "Version: " @ s @ [ n_of_int 10; n_of_int 0x2713 ] @ cps_of_ascii (" Valid " ^ name ^ " format")
  @ if normalized then cps_of_ascii " (normalized: " @ printed @ cps_of_ascii ")" else []

let dispatch (req : string list) (impl : string list) : string * string =
  match req with
  | [ "SAN"; sep; lower; keep; mx; s ] ->
    let sep = opt_str_of_field sep and lower = bool_of_field lower and keep = bool_of_field keep in
    let mx = opt_nat_of_field mx and s = str_of_field s in
    let z = custom_str sep lower keep mx in
    let m = sanitize z s in
    let verdict =
      match (sep, impl) with
      | Some [ c ], [ "OK"; r ] when not (is_ascii_alnum c) ->
        let r = str_of_field r in
        if not (contract_b c lower keep mx r) then "BAD:contract"
        else if mx = None && not (str_eqb r (spec_sanitize c lower keep s)) then "BAD:shape"
        else if not (str_eqb (sanitize z r) r) then "BAD:idempotent(model-on-impl-output)"
        else "OK"
      | _, [ "OK"; _ ] -> "NA"
      | _ -> "BAD:not-ok"
    in
    ("OK " ^ field_of_str m, verdict)
  | [ "SANP"; preset; s ] ->
    let s = str_of_field s in
    let z =
      match preset with
      | "semver" -> semver_str
      | "pep440" -> pep440_local_str
      | "uint" -> uint_sanitizer
      | "key" -> key_sanitizer
      | _ -> failwith "preset"
    in
    let m = sanitize z s in
    let verdict =
      match impl with
      | [ "OK"; r ] ->
        let r = str_of_field r in
        if preset = "uint" then
          (* contract for inputs without surrounding white space; others are compared with the model only *)
          let edge_ws = match s with [] -> false | _ -> is_whitespace (List.hd s) || is_whitespace (List.hd (List.rev s)) in
          if edge_ws then "NA" else if str_eqb r (uint_spec s) then "OK" else "BAD:uint"
        else begin
          let lower = preset <> "semver" in
          let c = n_of_int 46 in
          if not (contract_b c lower false None r) then "BAD:contract"
          else if not (str_eqb r (spec_sanitize c lower false s)) then "BAD:shape"
          else "OK"
        end
      | _ -> "BAD:not-ok"
    in
    ("OK " ^ field_of_str m, verdict)
  | [ "SVP"; s ] ->
    let s = str_of_field s in
    let m = semver_parse s in
    let reply = match m with Some v -> "OK " ^ semver_fields v | None -> "ERR" in
    let spec_acc = rx_accepts semver_spec (sv_atoms s) in
    let extract_ok = semver_extract s <> None in
    let verdict =
      match impl with
      | "OK" :: printed :: _ ->
        if not spec_acc then "BAD:accepts-outside-grammar"
        else if not (str_eqb (str_of_field printed) (strip_v s)) then "BAD:lossy-print"
        else "OK"
      | [ "ERR" ] -> if spec_acc && extract_ok then "BAD:rejects-grammar-member" else if spec_acc then "BAD:rejects-out-of-range-number" else "OK"
      | _ -> "BAD:not-ok-or-err"
    in
    (reply, verdict)
  | [ "SVC"; a; b ] ->
    let reply =
      match (semver_parse (str_of_field a), semver_parse (str_of_field b)) with
      | Some x, Some y -> cmp_name (semver_cmp x y) ^ " " ^ if semver_eqb x y then "1" else "0"
      | _ -> "ERR"
    in
    (reply, if String.concat " " impl = reply then "OK" else "BAD:precedence")
  | "VMAX" :: "semver" :: _ :: tags ->
    let parsed = List.map (fun t -> (t, semver_parse (str_of_field t))) tags in
    if List.exists (fun (_, v) -> v = None) parsed then ("ERR", if impl = [ "ERR" ] then "OK" else "BAD:max-err")
    else begin
      let vs = List.map (fun (t, v) -> (t, Option.get v)) parsed in
      match vs with
      | [] -> ("NONE", if impl = [ "NONE" ] then "OK" else "BAD:max-none")
      | first :: rest ->
        let t, _ = max_by_last (fun (_, x) (_, y) -> semver_cmp x y) first rest in
        let verdict =
          match impl with
          | [ "OK"; it ] -> (
            match List.assoc_opt it vs with
            | None -> "BAD:max-not-a-tag"
            | Some iv -> if List.for_all (fun (_, x) -> semver_cmp x iv <> Gt) vs then "OK" else "BAD:not-maximal")
          | _ -> "BAD:max-not-ok"
        in
        ("OK " ^ t, verdict)
    end
  | ("REN" | "RENP") :: fmt :: _ ->
    let z =
      if List.hd req = "REN" then Zenc.zerv { Zenc.f = Array.of_list req; Zenc.i = 2 }
      else begin
        let c = { Zenc.f = Array.of_list req; Zenc.i = 3 } in
        let vs = Zenc.vars c in
        let name = Wire.bytes_of_hexfield (List.nth req 2) |> List.map Char.chr |> List.to_seq |> String.of_seq in
        { z_schema = schema_with_zerv (preset_of_name name) vs; z_vars = vs }
      end
    in
    if not (schema_validate z.z_schema) then ("INVALID", if impl = [ "INVALID" ] then "OK" else "BAD:schema-validation")
    else begin
      match fmt with
      | "semver" ->
        let v = semver_of_zerv z in
        let printed = semver_print v in
        (* oracle: the rendering is a SemVer-grammar string that zerv's own parser maps back to the same printed form *)
        let verdict =
          match impl with
          | "OK" :: p :: _ ->
            let ps = str_of_field p in
            if not (rx_accepts semver_spec (sv_atoms ps)) then "BAD:not-semver-grammar"
            else (match semver_parse ps with
                  | Some v2 when str_eqb (semver_print v2) ps ->
                    (* the model is PROVED equal to the placement rule (c06_semver_refines): a different answer misplaces a component *)
                    if String.concat " " impl = "OK " ^ semver_fields v then "OK" else "BAD:placement(semver)"
                  | _ -> "BAD:own-parser-rejects-or-changes")
          | _ -> "BAD:not-ok"
        in
        ignore printed;
        ("OK " ^ semver_fields v, verdict)
      | "pep440" -> (
        match pep_of_zerv z with
        | None -> ("PANIC", if (match impl with "PANIC" :: _ -> true | _ -> false) then "BAD:panic" else "BAD:model-panics")
        | Some v ->
          let verdict =
            match impl with
            | "OK" :: p :: _ ->
              let ps = str_of_field p in
              if not (rx_accepts pep440_spec (pep_atoms ps)) then "BAD:not-pep440-grammar"
              else (match pep_parse ps with Some v2 when str_eqb (pep_print v2) ps -> "OK" | _ -> "BAD:not-normal-form")
            | "PANIC" :: _ -> "BAD:panic"
            | _ -> "BAD:not-ok"
          in
          ("OK " ^ pep_fields v, verdict))
      | o -> failwith ("fmt " ^ o)
    end
  | "VER" :: mode :: _ ->
    let c = { Zenc.f = Array.of_list req; Zenc.i = 2 } in
    let stdin =
      if List.nth req 2 = "~" then (c.Zenc.i <- 3; None)
      else (let z = Zenc.zerv c in Some (Some z))
    in
    if Zenc.next c <> "A" then failwith "expected A";
    let n = int_of_string (Zenc.next c) in
    let argv = List.init n (fun _ -> let b = Wire.bytes_of_hexfield (Zenc.next c) in String.init (List.length b) (fun i -> Char.chr (List.nth b i))) in
    if Zenc.next c <> "X" then failwith "expected X";
    let ron = (match Zenc.next c with "~" -> None | "!" -> Some None | "R" -> Some (Some (Zenc.schema c)) | o -> failwith ("ron " ^ o)) in
    let custom = (match Zenc.next c with "~" -> None | "!" -> Some None | "J" -> Some (Some (Zenc.json c)) | o -> failwith ("custom " ^ o)) in
    let a = Args.parse argv ron custom in
    (* optional trailing "N <seconds>": the wall clock the run saw (process-level checks); 0 otherwise *)
    let now = if c.Zenc.i + 1 < Array.length c.Zenc.f && c.Zenc.f.(c.Zenc.i) = "N" then n_of_dec c.Zenc.f.(c.Zenc.i + 1) else N0 in
    let reply =
      if mode = "zerv" then
        (match version_zerv a stdin now with OOk z -> "OK " ^ Zenc.enc_zerv z | OErr -> "ERR" | OPanic -> "PANIC")
      else (match version_output a stdin now with OOk t -> "OK " ^ field_of_str t | OErr -> "ERR" | OPanic -> "PANIC")
    in
    (reply, (match impl with "PANIC" :: _ -> "BAD:panic" | "REPARSE-FAILED" :: _ -> "BAD:emitted-zerv-does-not-parse" | _ -> "NA"))
  | "FLW" :: mode :: _ ->
    let c = { Zenc.f = Array.of_list req; Zenc.i = 2 } in
    let stdin =
      if List.nth req 2 = "~" then (c.Zenc.i <- 3; None)
      else (let z = Zenc.zerv c in Some (Some z))
    in
    if Zenc.next c <> "A" then failwith "expected A";
    let n = int_of_string (Zenc.next c) in
    let argv = List.init n (fun _ -> let b = Wire.bytes_of_hexfield (Zenc.next c) in String.init (List.length b) (fun i -> Char.chr (List.nth b i))) in
    if Zenc.next c <> "X" then failwith "expected X";
    let ron = (match Zenc.next c with "~" -> None | "!" -> Some None | "R" -> Some (Some (Zenc.schema c)) | o -> failwith ("ron " ^ o)) in
    let rules =
      match Zenc.next c with
      | "~" -> None
      | "K" ->
        let k = int_of_string (Zenc.next c) in
        Some (List.init k (fun _ ->
          let r_pattern = str_of_field (Zenc.next c) in
          let r_label = (match Zenc.next c with "alpha" -> Alpha | "beta" -> Beta | "rc" -> Rc | o -> failwith ("label " ^ o)) in
          let r_num = Zenc.num c in
          let r_mode = (match Zenc.next c with "tag" -> ModeTag | "commit" -> ModeCommit | o -> failwith ("mode " ^ o)) in
          { r_pattern; r_label; r_num; r_mode }))
      | o -> failwith ("rules " ^ o)
    in
    let now = n_of_dec (Zenc.next c) in
    let f = Args.parse_flow argv ron rules in
    let reply =
      if mode = "zerv" then
        (match flow_zerv f stdin now with OOk z -> "OK " ^ Zenc.enc_zerv z | OErr -> "ERR" | OPanic -> "PANIC")
      else (match flow_output f stdin now with OOk t -> "OK " ^ field_of_str t | OErr -> "ERR" | OPanic -> "PANIC")
    in
    (reply, (match impl with "PANIC" :: _ -> "BAD:panic" | "REPARSE-FAILED" :: _ -> "BAD:emitted-zerv-does-not-parse" | _ -> "NA"))
  | "RONRT" :: _ ->
    let z = Zenc.zerv { Zenc.f = Array.of_list req; Zenc.i = 1 } in
    if not (schema_validate z.z_schema) then ("INVALID", if impl = [ "INVALID" ] then "OK" else "BAD:schema-validation")
    else ("OK " ^ field_of_str (zerv_ron z), (match impl with "OK" :: _ -> "OK" | "INVALID" :: _ -> "BAD:schema-validation" | _ -> "BAD:ron-roundtrip"))
  | "PYA" :: fn :: _ ->
    (* PYA <fn> <npos> pos.. <nkw> (kw value)* : the argv the Python function builds, over the regenerated tables *)
    let c = { Zenc.f = Array.of_list req; Zenc.i = 2 } in
    let npos = int_of_string (Zenc.next c) in
    let pos = List.init npos (fun _ -> str_of_field (Zenc.next c)) in
    let nkw = int_of_string (Zenc.next c) in
    let value t =
      if t = "n" then PNone else if t = "t" then PBool true else if t = "f" then PBool false
      else if String.sub t 0 2 = "i:" then PInt (z_of_dec (String.sub t 2 (String.length t - 2)))
      else PStr (str_of_field (String.sub t 2 (String.length t - 2))) in
    let kwargs = List.init nkw (fun _ -> let k = str_of_field (Zenc.next c) in let v = value (Zenc.next c) in (k, v)) in
    let base, table =
      match fn with
      | "version" -> (py_version_base, py_version_table) | "flow" -> (py_flow_base, py_flow_table)
      | "check" -> (py_check_base, py_check_table) | "render" -> (py_render_base, py_render_table)
      | o -> failwith ("fn " ^ o) in
    let version_name = List.map (fun ch -> Wire.n_of_int (Char.code ch)) [ 'v'; 'e'; 'r'; 's'; 'i'; 'o'; 'n' ] in
    let positional = match pos with [ v ] -> [ (version_name, PStr v) ] | _ -> [] in
    let argv = py_argv base table positional kwargs in
    ("OK" ^ String.concat "" (List.map (fun a -> " " ^ field_of_str a) argv), "NA")
  | "GIT" :: fmt :: _ ->
    (* GIT <fmt> <n> (<id> <k> parents.. <time> <hash>)* <m> (<name> <commit id>)* <branch|~> <dirty> A <argc> argv.. N <now> *)
    let c = { Zenc.f = Array.of_list req; Zenc.i = 2 } in
    let n = int_of_string (Zenc.next c) in
    let commits = List.init n (fun _ ->
      let id = n_of_dec (Zenc.next c) in
      let k = int_of_string (Zenc.next c) in
      let ps = List.init k (fun _ -> n_of_dec (Zenc.next c)) in
      let t = z_of_dec (Zenc.next c) in
      let h = str_of_field (Zenc.next c) in
      { c_id = id; c_parents = ps; c_time = t; c_hash = h }) in
    let m = int_of_string (Zenc.next c) in
    let tags = List.init m (fun _ -> let nm = str_of_field (Zenc.next c) in let id = n_of_dec (Zenc.next c) in (nm, id)) in
    let branch = opt_str_of_field (Zenc.next c) in
    let dirty = Zenc.next c = "1" in
    let r = { g_commits = commits; g_tags = tags; g_branch = branch; g_dirty = dirty } in
    if Zenc.next c <> "A" then failwith "expected A";
    let argc = int_of_string (Zenc.next c) in
    let argv = List.init argc (fun _ -> let b = Wire.bytes_of_hexfield (Zenc.next c) in String.init (List.length b) (fun i -> Char.chr (List.nth b i))) in
    let now = if c.Zenc.i + 1 < Array.length c.Zenc.f && c.Zenc.f.(c.Zenc.i) = "N" then n_of_dec c.Zenc.f.(c.Zenc.i + 1) else N0 in
    let fmt_of = function "semver" -> FSemver | "pep440" -> FPep440 | "auto" -> FAuto | o -> failwith ("fmt " ^ o) in
    let a = Args.parse argv None None in
    let reply =
      if not (topo_ok commits) then "NOT-TOPO"
      else if not (validate_args a) then "ERR"
      else match git_vars r (fmt_of fmt) with
        | None -> "ERR"
        | Some vs -> (match to_zerv a vs None now with OOk z -> "OK " ^ Zenc.enc_zerv z | OErr -> "ERR" | OPanic -> "PANIC")
    in
    (reply, (match impl with "PANIC" :: _ -> "BAD:panic" | _ -> "NA"))
  | "TPL" :: _ :: _ ->
    let c = { Zenc.f = Array.of_list req; Zenc.i = 2 } in
    let z = Zenc.zerv c in
    if not (schema_validate z.z_schema) then ("INVALID", if impl = [ "INVALID" ] then "OK" else "BAD:schema-validation")
    else begin
      if Zenc.next c <> "T" then failwith "expected T";
      let k = int_of_string (Zenc.next c) in
      let vs = z.z_vars in
      let ctx = match ctx_of_zerv z with Some x -> x | None -> failwith "ctx panic" in
      let num o = match o with Some n -> print_dec n | None -> [] in
      let txt o = match o with Some s -> s | None -> [] in
      let exception Render_error in
      (* the string a variable contributes (get_string_value / Tera display): null prints as nothing *)
      let var_text name =
        match name with
        | "semver" -> ctx.t_semver | "pep440" -> ctx.t_pep440
        | "sv_base" -> ctx.t_sv_base | "sv_pre" -> txt ctx.t_sv_pre | "sv_build" -> txt ctx.t_sv_build | "sv_docker" -> ctx.t_sv_docker
        | "pep_base" -> ctx.t_pep_base | "pep_pre" -> txt ctx.t_pep_pre | "pep_build" -> txt ctx.t_pep_build
        | "major" -> num vs.v_major | "minor" -> num vs.v_minor | "patch" -> num vs.v_patch | "epoch" -> num vs.v_epoch
        | "post" -> num vs.v_post | "dev" -> num vs.v_dev | "distance" -> num vs.v_distance
        | "dirty" -> (match vs.v_dirty with Some true -> s_true | Some false -> s_false | None -> [])
        | "bumped_branch" -> txt vs.v_bumped_branch | "bumped_commit_hash" -> txt vs.v_bumped_hash
        | "bumped_commit_hash_short" -> (match vs.v_bumped_hash with Some h -> short_hash h | None -> [])
        | "bumped_timestamp" -> num vs.v_bumped_ts
        | "last_commit_hash" -> txt vs.v_last_hash
        | "last_commit_hash_short" -> (match vs.v_last_hash with Some h -> short_hash h | None -> [])
        | "last_timestamp" -> num vs.v_last_ts
        | "pre_label" -> (match pre_label_long z with Some s -> s | None -> raise Render_error)
        | "pre_label_code" | "pre_label_pep440" -> (match pre_label_code z with Some s -> s | None -> raise Render_error)
        | "pre_number" -> (match vs.v_pre with Some p -> num p.pr_num | None -> raise Render_error)
        | o -> failwith ("var " ^ o)
      in
      let var_num name =
        match name with
        | "bumped_timestamp" -> vs.v_bumped_ts | "last_timestamp" -> vs.v_last_ts | "major" -> vs.v_major | "distance" -> vs.v_distance
        | "post" -> vs.v_post | "dev" -> vs.v_dev | o -> failwith ("numvar " ^ o)
      in
      let src t = if String.sub t 0 2 = "l:" then str_of_field (String.sub t 2 (String.length t - 2)) else var_text (String.sub t 2 (String.length t - 2)) in
      let onat t = if t = "~" then None else Some (nat_of_int (int_of_string t)) in
      let obool t = if t = "~" then None else Some (t = "1") in
      let atom () =
        match Zenc.next c with
        | "lit" -> str_of_field (Zenc.next c)
        | "var" -> var_text (Zenc.next c)
        | "hash" -> let v = src (Zenc.next c) in let l = onat (Zenc.next c) in fn_hash v (match l with Some n -> n | None -> nat_of_int 7)
        | "hash_int" ->
          let v = src (Zenc.next c) in let l = onat (Zenc.next c) in let a = obool (Zenc.next c) in
          fn_hash_int v (match l with Some n -> n | None -> nat_of_int 7) (match a with Some b -> b | None -> false)
        | "prefix" -> let v = src (Zenc.next c) in let l = onat (Zenc.next c) in fn_prefix v (match l with Some n -> n | None -> nat_of_int 10)
        | "prefix_if" -> let v = src (Zenc.next c) in let p = str_of_field (Zenc.next c) in fn_prefix_if v p
        | "san_preset" ->
          let v = src (Zenc.next c) in let p = str_of_field (Zenc.next c) in
          (match fn_sanitize_preset v p with Some s -> s | None -> raise Render_error)
        | "san_custom" ->
          let v = src (Zenc.next c) in let sep = opt_str_of_field (Zenc.next c) in let lo = obool (Zenc.next c) in let ke = obool (Zenc.next c) in
          let mx = onat (Zenc.next c) in
          fn_sanitize_custom v sep lo ke mx
        | "fmt_ts" ->
          let t = Zenc.next c in
          let n = if String.sub t 0 2 = "n:" then Some (n_of_dec (String.sub t 2 (String.length t - 2))) else var_num (String.sub t 2 (String.length t - 2)) in
          let f = opt_str_of_field (Zenc.next c) in
          (match n with None -> raise Render_error | Some n -> (match fn_format_timestamp n f with Some s -> s | None -> raise Render_error))
        | o -> failwith ("atom " ^ o)
      in
      let reply =
        try
          let parts = List.init k (fun _ -> atom ()) in
          "OK " ^ field_of_str (template_finish (List.concat parts))
        with Render_error -> "ERR"
      in
      (reply, (match impl with "PANIC" :: _ -> "BAD:panic" | _ -> "NA"))
    end
  | "RONV" :: _ ->
    let z = Zenc.zerv { Zenc.f = Array.of_list req; Zenc.i = 1 } in
    if schema_validate z.z_schema then ("OK", if impl = [ "OK" ] then "OK" else "BAD:valid-schema-rejected")
    else ("REJECT", if impl = [ "REJECT" ] then "OK" else "BAD:invalid-schema-accepted")
  | [ "RONSTR"; t ] ->
    let reply = match ron_string_document (str_of_field t) with Some v -> "OK " ^ field_of_str v | None -> "ERR" in
    (reply, "NA")
  | [ "RONP"; _ ] ->
    (* oracle only: whatever document the implementation accepts decodes to an object whose schema satisfies the placement rules *)
    (match impl with
     | "OK" :: toks ->
       let z = Zenc.zerv { Zenc.f = Array.of_list ("RONP" :: toks); Zenc.i = 1 } in
       ("-", if schema_validate z.z_schema then "OK" else "BAD:accepted-object-violates-placement")
     | _ -> ("-", "NA"))
  | [ "OUT"; fmt; s ] ->
    (* oracle only: is this string a well-formed version of the format, accepted unchanged by zerv's own parser? *)
    let t = str_of_field s in
    let v =
      if List.exists (fun c -> not (is_ascii c)) t then "BAD:non-ascii"
      else if fmt = "semver" then
        (if not (rx_accepts semver_spec (sv_atoms t)) then "BAD:not-semver-grammar"
         else match semver_parse t with Some v when str_eqb (semver_print v) t -> "OK" | _ -> "BAD:own-parser-rejects-or-changes")
      else
        (if not (rx_accepts pep440_spec (pep_atoms t)) then "BAD:not-pep440-grammar"
         else match pep_parse t with Some v when str_eqb (pep_print v) t -> "OK" | _ -> "BAD:not-normal-form")
    in
    ("-", v)
  | [ "BRR"; _ ] -> failwith "unused"
  | [ "CNV"; inf; outf; prefix; s ] ->
    let fmt_of = function "semver" -> FSemver | "pep440" -> FPep440 | "auto" -> FAuto | o -> failwith ("fmt " ^ o) in
    let pre = match opt_str_of_field prefix with Some p -> p | None -> [] in
    let reply =
      match render_cmd (fmt_of inf) (fmt_of outf) pre (str_of_field s) with
      | OOk t -> "OK " ^ field_of_str t
      | OErr -> "ERR"
      | OPanic -> "PANIC"
    in
    let verdict =
      match impl with
      | "PANIC" :: _ -> "BAD:panic"
      | [ "OK"; t ] when prefix = "~" ->
        let t = str_of_field t in
        if outf = "semver" then (if rx_accepts semver_spec (sv_atoms t) then "OK" else "BAD:not-semver-grammar")
        else (match pep_parse t with Some v when str_eqb (pep_print v) t -> "OK" | _ -> "BAD:not-pep440-normal-form")
      | _ -> "OK"
    in
    (reply, verdict)
  | [ "TS"; p; t ] ->
    let reply =
      match resolve_timestamp (str_of_field p) (n_of_dec t) with
      | Some v -> "OK " ^ field_of_str v
      | None -> "ERR"
    in
    (reply, if String.concat " " impl = reply then "OK" else "BAD:calendar-field")
  | [ "PEP"; s ] ->
    let s = str_of_field s in
    let m = pep_parse s in
    let reply = match m with Some v -> "OK " ^ pep_fields v | None -> "ERR" in
    let spec_acc = rx_accepts pep440_spec (pep_atoms s) in
    let extract_ok = pep_extract s <> None in
    let verdict =
      match impl with
      | "OK" :: printed :: _ ->
        if not spec_acc then "BAD:accepts-outside-grammar"
        else begin
          (* the printed form must be a fixed point of parse-print and compare equal to the original *)
          let pr = str_of_field printed in
          match (pep_parse pr, m) with
          | Some v2, Some v1 ->
            if not (str_eqb (pep_print v2) pr) then "BAD:normal-form-not-idempotent"
            else if pep_cmp v1 v2 <> Eq then "BAD:normal-form-not-equal-to-original"
            (* hypothesis of the round-trip theorem (C07), and the round trip itself, on the parsed value *)
            else if not (pep_nf_b v1) then "BAD:parsed-value-not-in-normal-form"
            else if (match pep_of_zerv (zerv_of_pep v1) with Some v3 -> pep_cmp v3 v1 <> Eq || not (str_eqb (pep_print v3) (pep_print v1)) | None -> true) then "BAD:zerv-round-trip-changes-value"
            else "OK"
          | None, _ -> "BAD:printed-form-not-accepted"
          | _, None -> "NA"
        end
      | [ "ERR" ] ->
        if spec_acc && extract_ok then "BAD:rejects-grammar-member"
        else if spec_acc then "BAD:rejects-out-of-range-number"
        else "OK"
      | _ -> "BAD:not-ok-or-err"
    in
    (reply, verdict)
  | [ "PEC"; a; b ] ->
    let reply =
      match (pep_parse (str_of_field a), pep_parse (str_of_field b)) with
      | Some x, Some y -> cmp_name (pep_cmp x y) ^ " " ^ if pep_eqb x y then "1" else "0"
      | _ -> "ERR"
    in
    (reply, if String.concat " " impl = reply then "OK" else "BAD:order")
  | "VMAX" :: "pep440" :: _ :: tags ->
    let parsed = List.map (fun t -> (t, pep_parse (str_of_field t))) tags in
    if List.exists (fun (_, v) -> v = None) parsed then ("ERR", if impl = [ "ERR" ] then "OK" else "BAD:max-err")
    else begin
      let vs = List.map (fun (t, v) -> (t, Option.get v)) parsed in
      match vs with
      | [] -> ("NONE", if impl = [ "NONE" ] then "OK" else "BAD:max-none")
      | first :: rest ->
        let t, _ = max_by_last (fun (_, x) (_, y) -> pep_cmp x y) first rest in
        let verdict =
          match impl with
          | [ "OK"; it ] -> (
            match List.assoc_opt it vs with
            | None -> "BAD:max-not-a-tag"
            | Some iv -> if List.for_all (fun (_, x) -> pep_cmp x iv <> Gt) vs then "OK" else "BAD:not-maximal")
          | _ -> "BAD:max-not-ok"
        in
        ("OK " ^ t, verdict)
    end
  | [ "CHK"; "pep440"; s ] ->
    let s = str_of_field s in
    let reply =
      match pep_check s with
      | Some (p, nz) -> "OK " ^ field_of_str (check_text "PEP440" s p nz)
      | None -> "ERR"
    in
    (reply, if String.concat " " impl = reply then "OK" else "BAD:check-verdict-or-text")
  | [ "CHK"; "semver"; s ] ->
    let s = str_of_field s in
    let reply =
      match semver_check s with
      | Some (p, nz) -> "OK " ^ field_of_str (check_text "SemVer" s p nz)
      | None -> "ERR"
    in
    (reply, if String.concat " " impl = reply then "OK" else "BAD:check-verdict-or-text")
  | op :: _ -> failwith ("unknown op " ^ op)
  | [] -> failwith "empty"

let () =
  try
    while true do
      let line = input_line stdin in
      if String.length line > 0 then begin
        let fs = String.split_on_char ' ' line in
        let req, impl = split_bar fs in
        let reply, verdict =
          try dispatch req impl with
          | Failure m -> ("MODELERR " ^ m, "NA")
          | e -> ("MODELERR " ^ String.map (fun c -> if c = ' ' || c = '\t' || c = '\n' then '_' else c) (Printexc.to_string e), "NA")
        in
        print_string reply;
        print_char '\t';
        print_endline verdict
      end
    done
  with End_of_file -> ()
