(* zvm — model side of the correspondence check.
   line:   OP f1 f2 ... [| impl-reply-fields...]
   reply:  <model reply>\t<oracle verdict>      verdict = OK | NA | BAD:<clause> *)
open Model
open Wire

let split_bar (fs : string list) : string list * string list =
  let rec go acc = function
    | [] -> (List.rev acc, [])
    | "|" :: r -> (List.rev acc, r)
    | x :: r -> go (x :: acc) r
  in
  go [] fs

let opt_nat_of_field f = if f = "~" then None else Some (nat_of_int (int_of_string f))

let dispatch (req : string list) (impl : string list) : string * string =
  match req with
  | [ "SAN"; sep; lower; keep; mx; s ] ->
    let sep = opt_str_of_field sep and lower = bool_of_field lower and keep = bool_of_field keep in
    let mx = opt_nat_of_field mx and s = str_of_field s in
    let z = custom_str sep lower keep mx in
    let m = sanitize z s in
    let verdict =
      match (sep, impl) with
      | Some [ c ], [ "OK"; r ] when not (is_ascii_alnum c) ->
        let r = str_of_field r in
        if not (contract_b c lower keep mx r) then "BAD:contract"
        else if mx = None && not (str_eqb r (spec_sanitize c lower keep s)) then "BAD:shape"
        else if not (str_eqb (sanitize z r) r) then "BAD:idempotent(model-on-impl-output)"
        else "OK"
      | _, [ "OK"; _ ] -> "NA"
      | _ -> "BAD:not-ok"
    in
    ("OK " ^ field_of_str m, verdict)
  | [ "SANP"; preset; s ] ->
    let s = str_of_field s in
    let z =
      match preset with
      | "semver" -> semver_str
      | "pep440" -> pep440_local_str
      | "uint" -> uint_sanitizer
      | "key" -> key_sanitizer
      | _ -> failwith "preset"
    in
    let m = sanitize z s in
    let verdict =
      match impl with
      | [ "OK"; r ] ->
        let r = str_of_field r in
        if preset = "uint" then
          (* contract for inputs without surrounding white space; others are compared with the model only *)
          let edge_ws = match s with [] -> false | _ -> is_whitespace (List.hd s) || is_whitespace (List.hd (List.rev s)) in
          if edge_ws then "NA" else if str_eqb r (uint_spec s) then "OK" else "BAD:uint"
        else begin
          let lower = preset <> "semver" in
          let c = n_of_int 46 in
          if not (contract_b c lower false None r) then "BAD:contract"
          else if not (str_eqb r (spec_sanitize c lower false s)) then "BAD:shape"
          else "OK"
        end
      | _ -> "BAD:not-ok"
    in
    ("OK " ^ field_of_str m, verdict)
  | op :: _ -> failwith ("unknown op " ^ op)
  | [] -> failwith "empty"

let () =
  try
    while true do
      let line = input_line stdin in
      if String.length line > 0 then begin
        let fs = String.split_on_char ' ' line in
        let req, impl = split_bar fs in
        let reply, verdict = try dispatch req impl with Failure m -> ("MODELERR " ^ m, "NA") in
        print_string reply;
        print_char '\t';
        print_endline verdict
      end
    done
  with End_of_file -> ()
