(* Proofs for C08 (lossless parsing) and C10 (precedence) on Model/SemVer.v *)
From Coq Require Import Lia.
From ZV Require Import Str Dec SemVer SemVerSpec StrFacts DecFacts OrderFacts.

(* ------------------------------------------------------------------ C10 *)
Lemma str_cmp_lex a b : str_cmp a b = lex N.compare a b.
Proof. revert b; induction a as [|x a IH]; destruct b as [|y b]; cbn [str_cmp lex]; try reflexivity. Qed.

Lemma str_cmp_good : good_cmp str_cmp.
Proof.
  pose proof (lex_good N.compare N_good) as G.
  constructor; intros; rewrite ?str_cmp_lex in *.
  - apply (gc_eq _ G).
  - apply (gc_opp _ G).
  - eapply (gc_trans _ G); eassumption.
Qed.

Lemma str_cmp_lt a b : str_cmp a b = Lt <-> str_lt a b.
Proof.
  split.
  - revert b; induction a as [|x a IH]; destruct b as [|y b]; cbn; try discriminate.
    + intros _. constructor.
    + destruct (N.compare x y) eqn:E; try discriminate.
      * apply N.compare_eq_iff in E. subst. intros H. apply sl_tl, IH, H.
      * intros _. apply sl_hd. apply N.compare_lt_iff, E.
  - induction 1; cbn.
    + reflexivity.
    + apply N.compare_lt_iff in H. rewrite H. reflexivity.
    + rewrite N.compare_refl. exact IHstr_lt.
Qed.

Lemma ident_cmp_good : good_cmp ident_cmp.
Proof.
  constructor.
  - intros [x|x] [y|y]; cbn; try (intuition congruence).
    + rewrite (gc_eq _ str_cmp_good). intuition congruence.
    + rewrite N.compare_eq_iff. intuition congruence.
  - intros [x|x] [y|y]; cbn; try reflexivity; [apply (gc_opp _ str_cmp_good)|apply N.compare_antisym].
  - intros [x|x] [y|y] [z|z]; cbn; try congruence; [apply (gc_trans _ str_cmp_good)|apply (gc_trans _ N_good)].
Qed.

Lemma ident_cmp_lt a b : ident_cmp a b = Lt <-> id_lt a b.
Proof.
  destruct a as [x|x], b as [y|y]; cbn.
  - rewrite str_cmp_lt. split; [intros H; constructor; exact H|intros H; inversion H; assumption].
  - split; [discriminate|intros H; inversion H].
  - split; [intros _; constructor|reflexivity].
  - rewrite N.compare_lt_iff. split; [intros H; constructor; exact H|intros H; inversion H; assumption].
Qed.

Lemma idents_cmp_lex a b : idents_cmp a b = lex ident_cmp a b.
Proof. revert b; induction a as [|x a IH]; destruct b as [|y b]; cbn [idents_cmp lex]; try reflexivity. Qed.

Lemma idents_cmp_good : good_cmp idents_cmp.
Proof.
  pose proof (lex_good ident_cmp ident_cmp_good) as G.
  constructor; intros; rewrite ?idents_cmp_lex in *.
  - apply (gc_eq _ G).
  - apply (gc_opp _ G).
  - eapply (gc_trans _ G); eassumption.
Qed.

Lemma idents_cmp_lt a b : idents_cmp a b = Lt <-> ids_lt a b.
Proof.
  split.
  - revert b; induction a as [|x a IH]; destruct b as [|y b]; cbn; try discriminate.
    + intros _. constructor.
    + destruct (ident_cmp x y) eqn:E; try discriminate.
      * apply (gc_eq _ ident_cmp_good) in E. subst. intros H. apply ids_tl, IH, H.
      * intros _. apply ids_hd. apply ident_cmp_lt, E.
  - induction 1; cbn.
    + reflexivity.
    + apply ident_cmp_lt in H. rewrite H. reflexivity.
    + rewrite (gc_refl _ ident_cmp_good). exact IHids_lt.
Qed.

Definition key_cmp : (N * N * N * option (list ident)) -> (N * N * N * option (list ident)) -> comparison :=
  pair_cmp (pair_cmp (pair_cmp N.compare N.compare) N.compare) (opt_high idents_cmp).

Lemma key_cmp_good : good_cmp key_cmp.
Proof.
  unfold key_cmp. repeat apply pair_good; try apply N_good. apply opt_high_good, idents_cmp_good.
Qed.

Lemma semver_cmp_key a b : semver_cmp a b = key_cmp (sv_key a) (sv_key b).
Proof.
  unfold semver_cmp, key_cmp, pair_cmp, sv_key, then_with, then_with', opt_high. cbn [fst snd].
  destruct (N.compare (sv_major a) (sv_major b)); destruct (N.compare (sv_minor a) (sv_minor b));
  destruct (N.compare (sv_patch a) (sv_patch b)); destruct (sv_pre a); destruct (sv_pre b); reflexivity.
Qed.

Theorem semver_cmp_eq a b : semver_cmp a b = Eq <-> sv_key a = sv_key b.
Proof. rewrite semver_cmp_key. apply (gc_eq _ key_cmp_good). Qed.

Theorem semver_cmp_opp a b : semver_cmp b a = CompOpp (semver_cmp a b).
Proof. rewrite !semver_cmp_key. apply (gc_opp _ key_cmp_good). Qed.

Theorem semver_cmp_trans a b c : semver_cmp a b = Lt -> semver_cmp b c = Lt -> semver_cmp a c = Lt.
Proof. rewrite !semver_cmp_key. apply (gc_trans _ key_cmp_good). Qed.

Theorem semver_cmp_lt a b : semver_cmp a b = Lt <-> sv_lt a b.
Proof.
  unfold semver_cmp, then_with. split.
  - destruct (N.compare (sv_major a) (sv_major b)) eqn:E1; try discriminate.
    2:{ intros _. apply sv_major_lt. apply N.compare_lt_iff, E1. }
    apply N.compare_eq_iff in E1.
    destruct (N.compare (sv_minor a) (sv_minor b)) eqn:E2; try discriminate.
    2:{ intros _. apply sv_minor_lt; [exact E1|]. apply N.compare_lt_iff, E2. }
    apply N.compare_eq_iff in E2.
    destruct (N.compare (sv_patch a) (sv_patch b)) eqn:E3; try discriminate.
    2:{ intros _. apply sv_patch_lt; [exact E1|exact E2|]. apply N.compare_lt_iff, E3. }
    apply N.compare_eq_iff in E3.
    destruct (sv_pre a) as [p|] eqn:Ep, (sv_pre b) as [q|] eqn:Eq; try discriminate.
    + intros H. eapply sv_pre_ids; eauto. apply idents_cmp_lt, H.
    + intros _. eapply sv_pre_rel; eauto.
  - intros H. destruct H as [H|H1 H|H1 H2 H|p H1 H2 H3 Hp Hq|p q H1 H2 H3 Hp Hq H].
    + apply N.compare_lt_iff in H. rewrite H. reflexivity.
    + rewrite H1, N.compare_refl. apply N.compare_lt_iff in H. rewrite H. reflexivity.
    + rewrite H1, H2, !N.compare_refl. apply N.compare_lt_iff in H. rewrite H. reflexivity.
    + rewrite H1, H2, H3, !N.compare_refl, Hp, Hq. reflexivity.
    + rewrite H1, H2, H3, !N.compare_refl, Hp, Hq. apply idents_cmp_lt, H.
Qed.

Theorem semver_cmp_gt a b : semver_cmp a b = Gt <-> sv_lt b a.
Proof. rewrite <- semver_cmp_lt, (semver_cmp_opp b a). destruct (semver_cmp b a); cbn; intuition congruence. Qed.

Theorem semver_cmp_eq_iff_neither a b : semver_cmp a b = Eq <-> ~ sv_lt a b /\ ~ sv_lt b a.
Proof.
  rewrite <- semver_cmp_lt, <- semver_cmp_gt. destruct (semver_cmp a b); intuition congruence.
Qed.

Theorem semver_build_ignored a b x :
  semver_cmp {| sv_major := sv_major a; sv_minor := sv_minor a; sv_patch := sv_patch a; sv_pre := sv_pre a; sv_build := x |} b
  = semver_cmp a b.
Proof. reflexivity. Qed.

(* the maximum chosen by find_max_version_tag (Iterator::max_by keeps the last of equal maxima) *)
Lemma max_by_last_spec {A} (cmp : A -> A -> comparison) :
  (forall x y z, cmp x y <> Gt -> cmp y z <> Gt -> cmp x z <> Gt) -> (forall x, cmp x x <> Gt) ->
  (forall x y, cmp x y = Gt -> cmp y x <> Gt) ->
  forall l cur, In (max_by_last cmp cur l) (cur :: l) /\ cmp cur (max_by_last cmp cur l) <> Gt /\
                forall x, In x l -> cmp x (max_by_last cmp cur l) <> Gt.
Proof.
  intros T R O. induction l as [|y l IH]; intros cur; cbn [max_by_last].
  - repeat split; [left; reflexivity|apply R|intros x []].
  - set (c2 := match cmp cur y with Gt => cur | _ => y end).
    destruct (IH c2) as [Hin [Hc Hall]].
    assert (Hcur : cmp cur c2 <> Gt) by (unfold c2; destruct (cmp cur y) eqn:E; [congruence|congruence|apply R]).
    assert (Hy : cmp y c2 <> Gt) by (unfold c2; destruct (cmp cur y) eqn:E; [apply R|apply R|apply O, E]).
    repeat split.
    + destruct Hin as [Hin|Hin]; [|right; right; exact Hin].
      rewrite <- Hin. unfold c2. destruct (cmp cur y); [right; left|right; left|left]; reflexivity.
    + eapply T; [exact Hcur|exact Hc].
    + intros x [Hx|Hx]; [|apply Hall, Hx]. subst x. eapply T; [exact Hy|exact Hc].
Qed.

Theorem semver_max_well_defined l cur :
  let m := max_by_last semver_cmp cur l in
  In m (cur :: l) /\ forall x, In x (cur :: l) -> semver_cmp x m <> Gt.
Proof.
  assert (T : forall x y z, semver_cmp x y <> Gt -> semver_cmp y z <> Gt -> semver_cmp x z <> Gt).
  { intros x y z. rewrite !semver_cmp_key. apply (good_trans_le _ key_cmp_good). }
  assert (R : forall x, semver_cmp x x <> Gt).
  { intros x. rewrite semver_cmp_key, (gc_refl _ key_cmp_good). discriminate. }
  assert (O : forall x y, semver_cmp x y = Gt -> semver_cmp y x <> Gt).
  { intros x y H. rewrite (semver_cmp_opp x y), H. discriminate. }
  destruct (max_by_last_spec semver_cmp T R O l cur) as [H1 [H2 H3]].
  cbn zeta. split; [exact H1|]. intros x [Hx|Hx]; [subst; exact H2|apply H3, Hx].
Qed.

(* ------------------------------------------------------------------ C08 *)
Lemma split_first_some c s a b : split_first c s = (a, Some b) -> s = a ++ c :: b.
Proof.
  revert a; induction s as [|x s IH]; cbn; intros a H; [inversion H|].
  destruct (N.eqb_spec x c).
  - inversion H; subst. reflexivity.
  - destruct (split_first c s) as [a' b'] eqn:E. inversion H; subst. cbn. f_equal. apply IH. reflexivity.
Qed.

Lemma split_first_none c s a : split_first c s = (a, None) -> s = a.
Proof.
  revert a; induction s as [|x s IH]; cbn; intros a H; [inversion H; reflexivity|].
  destruct (N.eqb x c); [inversion H|].
  destruct (split_first c s) as [a' b'] eqn:E. inversion H; subst. f_equal. apply IH. reflexivity.
Qed.

Lemma numeric_like_canonical p : p <> [] -> numeric_like p = true -> canonical_dec p = true.
Proof.
  unfold numeric_like, canonical_dec. destruct p as [|c p]; [congruence|]. intros _ H.
  apply andb_true_iff in H. destruct H as [H1 H2]. destruct p as [|c2 p].
  - cbn in H1. rewrite andb_true_r in H1. exact H1.
  - rewrite H1, H2. reflexivity.
Qed.

Lemma parse_u64_dec p n : all_b is_ascii_digit p = true -> parse_u64 p = Some n -> parse_dec p = Some n.
Proof.
  unfold parse_u64, parse_uint_bits. intros Hd.
  assert (E : match p with c :: t => if c =? 43 then t else p | [] => p end = p).
  { destruct p as [|c t]; [reflexivity|]. destruct (N.eqb_spec c 43); [|reflexivity]. subst c. cbn in Hd. discriminate. }
  rewrite E. destruct (parse_dec p) as [m|]; [|discriminate]. destruct (m <? 2 ^ 64); [|discriminate]. congruence.
Qed.

Lemma parse_core_num_print p n : parse_core_num p = Some n -> print_dec n = p.
Proof.
  unfold parse_core_num. destruct (canonical_dec p) eqn:Hc; [|discriminate]. intros H.
  apply print_parse_canonical; [exact Hc|]. apply parse_u64_dec; [|exact H].
  unfold canonical_dec in Hc. destruct p as [|c [|c2 p]]; [discriminate| |].
  - cbn. rewrite Hc. reflexivity.
  - apply andb_true_iff in Hc. tauto.
Qed.

Lemma parse_pre_ident_print p i : parse_pre_ident p = Some i -> ident_print i = p.
Proof.
  unfold parse_pre_ident. destruct p as [|c p]; [discriminate|].
  destruct (all_b is_ident_char (c :: p)); cbn [negb]; [|discriminate].
  destruct (all_b is_ascii_digit (c :: p)) eqn:Hd.
  - destruct (numeric_like (c :: p)) eqn:Hn; [|discriminate].
    destruct (parse_u64 (c :: p)) as [n|] eqn:Hp; intros H; inversion H; subst; [|reflexivity]. cbn [ident_print].
    apply print_parse_canonical; [apply numeric_like_canonical; [discriminate|exact Hn]|apply parse_u64_dec; assumption].
  - intros H. inversion H. reflexivity.
Qed.

Lemma parse_build_ident_print p i : parse_build_ident p = Some i -> ident_print i = p.
Proof.
  unfold parse_build_ident. destruct p as [|c p]; [discriminate|].
  destruct (all_b is_ident_char (c :: p)); cbn [negb]; [|discriminate].
  destruct (numeric_like (c :: p)) eqn:Hn.
  - destruct (parse_u64 (c :: p)) as [n|] eqn:Hp; intros H; inversion H; subst; [|reflexivity]. cbn [ident_print].
    assert (Hd : all_b is_ascii_digit (c :: p) = true) by (unfold numeric_like in Hn; apply andb_true_iff in Hn; tauto).
    apply print_parse_canonical; [apply numeric_like_canonical; [discriminate|exact Hn]|apply parse_u64_dec; assumption].
  - intros H. inversion H. reflexivity.
Qed.

Lemma map_opt_print (f : str -> option ident) parts l :
  (forall p i, f p = Some i -> ident_print i = p) ->
  map_opt f parts = Some l -> map ident_print l = parts.
Proof.
  intros Hf. revert l; induction parts as [|p parts IH]; cbn; intros l H.
  - inversion H. reflexivity.
  - destruct (f p) as [i|] eqn:E; [|discriminate]. destruct (map_opt f parts) as [l'|]; [|discriminate].
    inversion H; subst. cbn. rewrite (Hf _ _ E), (IH l' eq_refl). reflexivity.
Qed.

Lemma map_opt_nonnil {A B} (f : A -> option B) parts l : parts <> [] -> map_opt f parts = Some l -> l <> [].
Proof. destruct parts as [|p parts]; [congruence|]. intros _. cbn. destruct (f p); [|discriminate].
  destruct (map_opt f parts); [|discriminate]. intros H. inversion H. discriminate. Qed.

Theorem extract_lossless s v : semver_extract s = Some v -> semver_print v = strip_v s.
Proof.
  unfold semver_extract. set (t := strip_v s). clearbody t.
  destruct (split_first c_plus t) as [main build] eqn:E1.
  destruct (split_first c_dash main) as [core pre] eqn:E2.
  pose proof (join_split c_dot core) as Hj.
  destruct (split_on c_dot core) as [|a [|b [|c [|d rest]]]] eqn:Ec; try discriminate.
  destruct (parse_core_num a) as [ma|] eqn:Ea; [|discriminate].
  destruct (parse_core_num b) as [mi|] eqn:Eb; [|discriminate].
  destruct (parse_core_num c) as [pa|] eqn:Ecn; [|discriminate].
  assert (Hcore : release_print ma mi pa = core).
  { unfold release_print. rewrite (parse_core_num_print _ _ Ea), (parse_core_num_print _ _ Eb), (parse_core_num_print _ _ Ecn).
    rewrite <- Hj. reflexivity. }
  assert (Hpre : forall pv, match pre with
                  | None => Some None
                  | Some p => match map_opt parse_pre_ident (split_on c_dot p) with Some l => Some (Some l) | None => None end
                  end = Some pv ->
                  opt_part [c_dash] pv =
                  match pre with Some p => c_dash :: p | None => [] end).
  { intros pv H. destruct pre as [p|]; [|inversion H; reflexivity].
    destruct (map_opt parse_pre_ident (split_on c_dot p)) as [l|] eqn:El; [|discriminate]. inversion H; subst.
    pose proof (map_opt_nonnil _ _ _ (split_on_nonnil c_dot p) El) as Hn.
    destruct l as [|i l]; [congruence|]. unfold opt_part, idents_print.
    rewrite (map_opt_print _ _ _ parse_pre_ident_print El), join_split. reflexivity. }
  assert (Hbuild : forall bv, match build with
                  | None => Some None
                  | Some p => match map_opt parse_build_ident (split_on c_dot p) with Some l => Some (Some l) | None => None end
                  end = Some bv ->
                  opt_part [c_plus] bv =
                  match build with Some p => c_plus :: p | None => [] end).
  { intros bv H. destruct build as [p|]; [|inversion H; reflexivity].
    destruct (map_opt parse_build_ident (split_on c_dot p)) as [l|] eqn:El; [|discriminate]. inversion H; subst.
    pose proof (map_opt_nonnil _ _ _ (split_on_nonnil c_dot p) El) as Hn.
    destruct l as [|i l]; [congruence|]. unfold opt_part, idents_print.
    rewrite (map_opt_print _ _ _ parse_build_ident_print El), join_split. reflexivity. }
  destruct (match pre with None => Some None | Some p => _ end) as [pv|] eqn:Epv; [|discriminate].
  destruct (match build with None => Some None | Some p => _ end) as [bv|] eqn:Ebv; [|discriminate].
  intros H. inversion H; subst v. unfold semver_print, semver_print_sep. cbn [sv_major sv_minor sv_patch sv_pre sv_build].
  rewrite Hcore, (Hpre pv eq_refl), (Hbuild bv eq_refl).
  assert (Hmain : main = core ++ match pre with Some p => c_dash :: p | None => [] end).
  { destruct pre as [p|]; [apply (split_first_some _ _ _ _ E2)|rewrite app_nil_r; apply (split_first_none _ _ _ E2)]. }
  assert (Ht : t = main ++ match build with Some p => c_plus :: p | None => [] end).
  { destruct build as [p|]; [apply (split_first_some _ _ _ _ E1)|rewrite app_nil_r; apply (split_first_none _ _ _ E1)]. }
  rewrite Ht, Hmain, <- app_assoc. reflexivity.
Qed.

Theorem parse_lossless s v : semver_parse s = Some v -> semver_print v = strip_v s.
Proof. unfold semver_parse. destruct (rx_accepts _ _); [apply extract_lossless|discriminate]. Qed.
