(* No panic state is reachable in the render / version / flow pipeline models, whatever the arguments, stdin object and clock. *)
From ZV Require Import Str Zerv Render Convert Bump Cli Flow NoPanicProofs ConvertProofs.

Lemma parse_version_no_panic f s : parse_version f s <> OPanic.
Proof.
  unfold parse_version. destruct f.
  - destruct (semver_parse s) as [v|]; [|discriminate]. destruct (zerv_of_semver v) eqn:E; [discriminate|]. exfalso. exact (zerv_of_semver_total v E).
  - destruct (pep_parse s); discriminate.
  - destruct (semver_parse s) as [v|].
    + destruct (zerv_of_semver v) eqn:E; [discriminate|]. exfalso. exact (zerv_of_semver_total v E).
    + destruct (pep_parse s); discriminate.
Qed.

Lemma format_zerv_no_panic f z : format_zerv f z <> OPanic.
Proof. unfold format_zerv. destruct f; try discriminate. destruct (pep_of_zerv z) eqn:E; [discriminate|]. exfalso. exact (pep_of_zerv_total z E). Qed.

Theorem render_no_panic inf outf pre s : render_cmd inf outf pre s <> OPanic.
Proof.
  unfold render_cmd. destruct (parse_version inf s) as [z| |] eqn:E; try discriminate.
  - destruct (format_zerv outf z) eqn:F; try discriminate. exfalso. exact (format_zerv_no_panic outf z F).
  - exfalso. exact (parse_version_no_panic inf s E).
Qed.

Lemma context_overrides_no_panic a vs : apply_context_overrides a vs <> OPanic.
Proof.
  unfold apply_context_overrides. destruct (o_tag_version a) as [t|].
  - destruct (parse_version (g_input_format a) t) eqn:E.
    + destruct (o_custom a) as [[j|]|]; discriminate.
    + discriminate.
    + exfalso. exact (parse_version_no_panic _ _ E).
  - destruct (o_custom a) as [[j|]|]; discriminate.
Qed.

Lemma to_zerv_with_no_panic a r vs ex now : to_zerv_with a r vs ex now <> OPanic.
Proof.
  unfold to_zerv_with. destruct (apply_context_overrides a vs) eqn:E.
  - destruct (resolve_schema a ex a0); [|discriminate]. destruct (schema_validate s); [|discriminate].
    destruct (r _); [|discriminate]. destruct (apply_component_processing _ _); discriminate.
  - discriminate.
  - exfalso. exact (context_overrides_no_panic a vs E).
Qed.

Lemma run_pass_no_panic a r stdin now : run_pass a r stdin now <> OPanic.
Proof.
  unfold run_pass. destruct (negb (validate_args a)); [discriminate|].
  destruct (match g_source a with Some s => s | None => _ end); try discriminate.
  - apply to_zerv_with_no_panic.
  - destruct stdin as [[z|]|]; try discriminate. apply to_zerv_with_no_panic.
Qed.

Lemma version_zerv_no_panic a stdin now : version_zerv a stdin now <> OPanic.
Proof.
  assert (E : version_zerv a stdin now = run_pass a (fun _ => resolve_args a) stdin now) by reflexivity.
  rewrite E. apply run_pass_no_panic.
Qed.

Theorem version_no_panic a stdin now : version_output a stdin now <> OPanic.
Proof.
  unfold version_output. destruct (version_zerv a stdin now) as [z| |] eqn:E; try discriminate.
  - destruct (g_output_format a); try discriminate. destruct (pep_of_zerv z) eqn:F; [discriminate|]. exfalso. exact (pep_of_zerv_total z F).
  - exfalso. exact (version_zerv_no_panic a stdin now E).
Qed.

Lemma flow_zerv_no_panic f stdin now : flow_zerv f stdin now <> OPanic.
Proof.
  unfold flow_zerv. destruct (run_pass _ _ stdin now) as [cur| |] eqn:E; try discriminate.
  - destruct (negb (flow_validate f)); [discriminate|]. destruct (resolve_for_branch _ _) as [[rl rn] rm]. apply run_pass_no_panic.
  - exfalso. exact (run_pass_no_panic _ _ _ _ E).
Qed.

Theorem flow_no_panic f stdin now : flow_output f stdin now <> OPanic.
Proof.
  unfold flow_output. destruct (flow_zerv f stdin now) as [z| |] eqn:E; try discriminate.
  - destruct (g_output_format (f_base f)); try discriminate. destruct (pep_of_zerv z) eqn:F; [discriminate|]. exfalso. exact (pep_of_zerv_total z F).
  - exfalso. exact (flow_zerv_no_panic f stdin now E).
Qed.
