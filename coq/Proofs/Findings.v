(* The known findings that the model itself exhibits, each as a checked witness (vm_compute): what the listed class does on one concrete
   input.  The check of the property prints KNOWN-FINDING for the class and still reports any violation outside it. *)
From ZV Require Import Str Dec Zerv Render SemVer Pep440 Convert Bump Cli Flow PipeIdentity.
Open Scope N_scope.

Definition w_flow (schema : str) (dist : N) (hash_len : N) (branch : str) (fmt : outfmt) : fargs :=
  {| f_base := {| g_source := Some SrcNone; g_input_format := FAuto; g_output_format := fmt; g_prefix := None; g_schema := Some schema; g_schema_ron := None;
                  o_tag_version := Some [49;46;50;46;51]%N; o_distance := Some dist; o_dirty := false; o_no_dirty := false; o_clean := false;
                  o_branch := Some branch; o_hash := None; o_ts := None;
                  o_major := None; o_minor := None; o_patch := None; o_epoch := None; o_post := None; o_dev := None; o_pre_label := None; o_pre_num := None;
                  o_custom := None; o_core := []; o_extra := []; o_build := [];
                  b_major := None; b_minor := None; b_patch := None; b_post := None; b_dev := None; b_pre_num := None; b_epoch := None;
                  b_pre_label := None; b_core := []; b_extra := []; b_build := []; b_context := false; b_no_context := false |};
     f_label := None; f_num := None; f_mode := None; f_rules := None; f_hash_len := hash_len |}.

(* C03 base-presets-print-the-next-release-itself / presets-without-post-do-not-grow-with-commits *)
Example finding_c03_base_preset :
  flow_output (w_flow [115;116;97;110;100;97;114;100;45;98;97;115;101]%N 3 5 [109;97;105;110]%N OutSemver) None 1700000000 = OOk [49;46;50;46;52]%N /\
  flow_output (w_flow [115;116;97;110;100;97;114;100;45;98;97;115;101;45;112;114;101;114;101;108;101;97;115;101]%N 1 5 [109;97;105;110]%N OutSemver) None 1700000000
  = flow_output (w_flow [115;116;97;110;100;97;114;100;45;98;97;115;101;45;112;114;101;114;101;108;101;97;115;101]%N 3 5 [109;97;105;110]%N OutSemver) None 1700000000.
Proof. vm_compute. split; reflexivity. Qed.

(* C04 hash-branch-len=10-exceeds-u32: length 9 works, length 10 is a (template) error for this branch *)
Example finding_c04_hash_len_10 :
  (exists t, flow_output (w_flow [115;116;97;110;100;97;114;100]%N 1 9 [102;101;97;116;117;114;101;47;102;111;111]%N OutSemver) None 1700000000 = OOk t) /\
  flow_output (w_flow [115;116;97;110;100;97;114;100]%N 1 10 [102;101;97;116;117;114;101;47;102;111;111]%N OutSemver) None 1700000000 = OErr.
Proof. vm_compute. split; [eexists; reflexivity|reflexivity]. Qed.

(* C07 number>=2^32-through-From<Zerv>: the pre-release number is silently replaced by 0; a core number is displaced into the local part *)
Example finding_c07_oversize_to_pep440 :
  render_cmd FSemver FPep440 [] [49;46;50;46;51;45;97;108;112;104;97;46;53;48;48;48;48;48;48;48;48;48]%N = OOk [49;46;50;46;51;97;48]%N /\
  render_cmd FSemver FPep440 [] [53;48;48;48;48;48;48;48;48;48;46;49;46;50]%N = OOk [49;46;50;43;53;48;48;48;48;48;48;48;48;48]%N.
Proof. vm_compute. split; reflexivity. Qed.

(* C10 numeric-identifier>=2^64: kept as text, so two of them compare as text (2^64 > 10^20 although it is the smaller number) *)
Example finding_c10_oversize_identifiers :
  match semver_parse [49;46;48;46;48;45;49;56;52;52;54;55;52;52;48;55;51;55;48;57;53;53;49;54;49;54]%N, semver_parse [49;46;48;46;48;45;49;48;48;48;48;48;48;48;48;48;48;48;48;48;48;48;48;48;48;48;48]%N with
  | Some a, Some b => semver_cmp a b = Gt
  | _, _ => False
  end.
Proof. vm_compute. reflexivity. Qed.

(* C11 local-numeric-part>=2^32: kept as text, compared as text *)
Example finding_c11_oversize_local :
  match pep_parse [49;46;48;43;52;50;57;52;57;54;55;50;57;54]%N, pep_parse [49;46;48;43;49;48;48;48;48;48;48;48;48;48;48]%N with
  | Some a, Some b => pep_cmp a b = Gt
  | _, _ => False
  end.
Proof. vm_compute. reflexivity. Qed.
