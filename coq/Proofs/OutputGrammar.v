(* C01 at the level of the commands: whatever `zerv version` / `zerv flow` print for --output-format semver / pep440 (no template) is
   the prefix followed by a member of the SemVer BNF / PEP 440 Appendix B language, for all arguments, stdin objects and clock values. *)
From ZV Require Import Str Zerv Render SemVer Pep440 Convert Bump Cli Flow Rx RegexSrc GrammarProofs.
From RelationAlgebra Require regex.

Definition prefix_of (a : vargs) : str := match g_prefix a with Some p => p | None => [] end.

Theorem version_semver_in_grammar a stdin now t : g_output_format a = OutSemver -> version_output a stdin now = OOk t ->
  exists v, t = prefix_of a ++ v /\ regex.lang semver_spec (map semver_atom_of v).
Proof.
  unfold version_output. intros F. rewrite F. destruct (version_zerv a stdin now) as [z| |]; try discriminate.
  intros H. inversion H. eexists. split; [reflexivity|apply semver_output_in_bnf].
Qed.

Theorem version_pep440_in_grammar a stdin now t : g_output_format a = OutPep440 -> version_output a stdin now = OOk t ->
  exists v, t = prefix_of a ++ v /\ regex.lang pep440_spec (map pep440_atom_of v).
Proof.
  unfold version_output. intros F. rewrite F. destruct (version_zerv a stdin now) as [z| |]; try discriminate.
  destruct (pep_of_zerv z) as [p|] eqn:E; [|discriminate]. intros H. inversion H. eexists. split; [reflexivity|apply (pep440_output_in_appendix_b z p E)].
Qed.

Theorem flow_semver_in_grammar f stdin now t : g_output_format (f_base f) = OutSemver -> flow_output f stdin now = OOk t ->
  exists v, t = prefix_of (f_base f) ++ v /\ regex.lang semver_spec (map semver_atom_of v).
Proof.
  unfold flow_output. intros F. rewrite F. destruct (flow_zerv f stdin now) as [z| |]; try discriminate.
  intros H. inversion H. eexists. split; [reflexivity|apply semver_output_in_bnf].
Qed.

Theorem flow_pep440_in_grammar f stdin now t : g_output_format (f_base f) = OutPep440 -> flow_output f stdin now = OOk t ->
  exists v, t = prefix_of (f_base f) ++ v /\ regex.lang pep440_spec (map pep440_atom_of v).
Proof.
  unfold flow_output. intros F. rewrite F. destruct (flow_zerv f stdin now) as [z| |]; try discriminate.
  destruct (pep_of_zerv z) as [p|] eqn:E; [|discriminate]. intros H. inversion H. eexists. split; [reflexivity|apply (pep440_output_in_appendix_b z p E)].
Qed.

(* `zerv render` *)
Theorem render_semver_in_grammar inf pre s t : render_cmd inf FSemver pre s = OOk t ->
  exists v, t = pre ++ v /\ regex.lang semver_spec (map semver_atom_of v).
Proof.
  unfold render_cmd. destruct (parse_version inf s) as [z| |]; try discriminate. cbn [format_zerv].
  intros H. inversion H. eexists. split; [reflexivity|apply semver_output_in_bnf].
Qed.

Theorem render_pep440_in_grammar inf pre s t : render_cmd inf FPep440 pre s = OOk t ->
  exists v, t = pre ++ v /\ regex.lang pep440_spec (map pep440_atom_of v).
Proof.
  unfold render_cmd. destruct (parse_version inf s) as [z| |]; try discriminate. cbn [format_zerv].
  destruct (pep_of_zerv z) as [p|] eqn:E; [|discriminate]. intros H. inversion H. eexists. split; [reflexivity|apply (pep440_output_in_appendix_b z p E)].
Qed.
