(* C04: branch-rule pattern semantics and the hash contract *)
From Coq Require Import Lia.
From ZV Require Import Str Dec Hash Flow StrFacts.
Open Scope N_scope.

Lemma is_prefix_app p s : is_prefix p s = true <-> exists rest, s = p ++ rest.
Proof.
  revert s; induction p as [|x p IH]; intros s; cbn.
  - split; [intros _; exists s; reflexivity|reflexivity].
  - destruct s as [|y s]; [split; [discriminate|intros [r H]; discriminate]|].
    rewrite andb_true_iff, N.eqb_eq, IH. split.
    + intros [-> [r ->]]. exists r. reflexivity.
    + intros [r H]. inversion H; subst. split; [reflexivity|exists r; reflexivity].
Qed.

Lemma str_eqb_eq a b : str_eqb a b = true <-> a = b.
Proof.
  revert b; induction a as [|x a IH]; destruct b as [|y b]; cbn.
  - tauto.
  - split; discriminate.
  - split; discriminate.
  - rewrite andb_true_iff, N.eqb_eq, IH. split; [intros [-> ->]; reflexivity|intros H; inversion H; tauto].
Qed.

(* a pattern written  prefix ++ "/*"  with a non-empty... any prefix *)
Lemma ends_slash_star_app (p : str) : ends_slash_star (p ++ [47; 42]) = true.
Proof. unfold ends_slash_star. rewrite rev_app_distr. reflexivity. Qed.

Lemma take_n_app_exact (p q : str) : take_n (length p) (p ++ q) = p.
Proof. induction p as [|x p IH]; cbn; [destruct q; reflexivity|]. f_equal. exact IH. Qed.

Lemma take_prefix_slash (p : str) : take_n (length (p ++ [47; 42]%N) - 1)%nat (p ++ [47; 42]) = p ++ [47].
Proof.
  replace (p ++ [47; 42]) with ((p ++ [47]) ++ [42]) by (rewrite <- app_assoc; reflexivity).
  replace (length ((p ++ [47]%N) ++ [42]%N) - 1)%nat with (length (p ++ [47]%N)) by (rewrite !app_length; cbn; lia).
  apply take_n_app_exact.
Qed.

(* `prefix/*` matches exactly the names that have `prefix/` as a PROPER prefix *)
Theorem wildcard_rule_matches (p : str) lab num mode branch :
  str_eqb (p ++ [47; 42]) s_star = false ->
  rule_matches {| r_pattern := p ++ [47; 42]; r_label := lab; r_num := num; r_mode := mode |} branch = true
  <-> exists rest, rest <> [] /\ branch = p ++ [47] ++ rest.
Proof.
  intros Hs. unfold rule_matches. cbn [r_pattern]. rewrite Hs, ends_slash_star_app, take_prefix_slash.
  rewrite andb_true_iff, is_prefix_app, Nat.ltb_lt. split.
  - intros [[rest ->] Hl]. exists rest. rewrite <- app_assoc. split; [|reflexivity].
    intros ->. rewrite app_nil_r in Hl. lia.
  - intros [rest [Hne ->]]. split; [exists rest; rewrite <- app_assoc; reflexivity|].
    rewrite !app_length. destruct rest; [congruence|]. cbn. lia.
Qed.

Theorem star_rule_matches lab num mode branch :
  rule_matches {| r_pattern := s_star; r_label := lab; r_num := num; r_mode := mode |} branch = true <-> branch <> [].
Proof. unfold rule_matches. cbn. destruct branch; cbn; split; congruence. Qed.

Theorem exact_rule_matches pat lab num mode branch :
  str_eqb pat s_star = false -> ends_slash_star pat = false ->
  rule_matches {| r_pattern := pat; r_label := lab; r_num := num; r_mode := mode |} branch = true <-> branch = pat.
Proof. intros H1 H2. unfold rule_matches. cbn [r_pattern]. rewrite H1, H2, str_eqb_eq. split; congruence. Qed.

(* the first matching rule decides *)
Theorem first_match_wins rules b r : find (fun r => rule_matches r b) rules = Some r ->
  rule_matches r b = true /\ exists before after, rules = before ++ r :: after /\ forallb (fun q => negb (rule_matches q b)) before = true.
Proof.
  induction rules as [|q rules IH]; cbn; [discriminate|].
  destruct (rule_matches q b) eqn:E.
  - intros H. inversion H; subst. split; [exact E|]. exists [], rules. split; reflexivity.
  - intros H. destruct (IH H) as [M [bf [af [-> F]]]]. split; [exact M|]. exists (q :: bf), af. split; [reflexivity|]. cbn. rewrite E, F. reflexivity.
Qed.

(* hash_int: a function of (value, length) only, at most `length` characters *)
Theorem hash_int_length s len lead : (length (hash_int s len lead) <= len)%nat.
Proof. unfold hash_int. apply take_n_length. Qed.

Theorem hash_hex_length s len : (length (hash_hex s len) <= len)%nat.
Proof. unfold hash_hex. apply take_n_length. Qed.
