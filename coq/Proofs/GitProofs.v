(* C02: on any repository whose commit list is a topological order, the tag zerv selects sits on a NEAREST validly tagged
   ancestor-or-self of HEAD (no other validly tagged commit lies between it and HEAD) and is a HIGHEST version among the valid
   tags of that commit.  Tags on commits unreachable from HEAD never count (they are on no listed commit). *)
From Coq Require Import Lia.
From ZV Require Import Str Zerv SemVer Pep440 Convert Git OrderFacts SemVerProofs Pep440Order.
Open Scope N_scope.

(* reachability through parent links inside the listed commits *)
Inductive reach (r : gitrepo) : N -> N -> Prop :=
| reach_refl a : reach r a a
| reach_step a c p b : find_commit r a = Some c -> In p (c_parents c) -> reach r p b -> reach r a b.

Definition valid_at (r : gitrepo) (f : fmt) (c : N) : Prop := max_tag (batch_parse f (tags_at r c)) <> None.

(* ---- the first valid commit of the list ---- *)
Lemma latest_tag_in_spec r f cs t c : latest_tag_in r f cs = Some (t, c) ->
  exists pre cm post, cs = pre ++ cm :: post /\ c_id cm = c /\ max_tag (batch_parse f (tags_at r c)) = Some t /\
                      forall x, In x pre -> ~ valid_at r f (c_id x).
Proof.
  induction cs as [|x cs IH]; cbn [latest_tag_in]; [discriminate|].
  destruct (max_tag (batch_parse f (tags_at r (c_id x)))) as [t0|] eqn:E.
  - intros H. inversion H; subst. exists [], x, cs. repeat split; [exact E|intros y []].
  - intros H. destruct (IH H) as [pre [cm [post [-> [Hc [Hm Hpre]]]]]].
    exists (x :: pre), cm, post. repeat split; [exact Hc|exact Hm|].
    intros y [<-|Hy]; [unfold valid_at; rewrite E; intros K; apply K; reflexivity|apply Hpre, Hy].
Qed.

(* ---- topological order: what is reachable from a listed commit, other than itself, is listed strictly later ---- *)
Lemma mem_In x l : mem x l = true <-> In x l.
Proof.
  unfold mem. rewrite existsb_exists. split.
  - intros [y [Hy E]]. apply N.eqb_eq in E. subst. exact Hy.
  - intros H. exists x. split; [exact H|apply N.eqb_refl].
Qed.

Lemma topo_tail c cs : topo_ok (c :: cs) = true -> topo_ok cs = true.
Proof. cbn. intros H. apply andb_true_iff in H. tauto. Qed.

Lemma topo_app pre post : topo_ok (pre ++ post) = true -> topo_ok post = true.
Proof. induction pre as [|x pre IH]; [tauto|]. intros H. apply IH. eapply topo_tail, H. Qed.

Lemma find_in_list cs a c : find (fun x => c_id x =? a) cs = Some c -> In c cs /\ c_id c = a.
Proof. intros H. apply find_some in H. destruct H as [H1 H2]. apply N.eqb_eq in H2. tauto. Qed.

(* position lemma: in a topo-ordered list, a commit found by id at the head position is that head *)
Lemma topo_find_head cm post : topo_ok (cm :: post) = true -> find (fun x => c_id x =? c_id cm) (cm :: post) = Some cm.
Proof. intros _. cbn. rewrite N.eqb_refl. reflexivity. Qed.

Lemma not_mem_find cs a : mem a (map c_id cs) = false -> find (fun x => c_id x =? a) cs = None.
Proof.
  induction cs as [|x cs IH]; [reflexivity|]. cbn. intros H. apply orb_false_iff in H. destruct H as [H1 H2].
  rewrite N.eqb_sym, H1. apply IH, H2.
Qed.

Lemma find_topo0 post a c p : topo_ok post = true -> find (fun x => c_id x =? a) post = Some c -> In p (c_parents c) -> In p (map c_id post).
Proof.
  induction post as [|y post IH]; [discriminate|]. intros Ht Hf Hp. cbn [find] in Hf. cbn [map]. right.
  destruct (c_id y =? a) eqn:E.
  - inversion Hf; subst c. cbn in Ht. apply andb_true_iff in Ht. destruct Ht as [Ht _]. apply andb_true_iff in Ht. destruct Ht as [Ht _].
    rewrite forallb_forall in Ht. apply mem_In, Ht, Hp.
  - apply IH; [eapply topo_tail, Ht|exact Hf|exact Hp].
Qed.

(* lookups in the whole list of an id listed in the tail find a commit whose parents are in the tail *)
Lemma find_topo pre post a c p : topo_ok (pre ++ post) = true -> In a (map c_id post) ->
  find (fun x => c_id x =? a) (pre ++ post) = Some c -> In p (c_parents c) -> In p (map c_id post).
Proof.
  induction pre as [|x pre IH]; cbn [app]; intros Ht Ha Hf Hp.
  - pose proof (find_topo0 post a c p Ht Hf Hp) as K. exact K.
  - cbn [find] in Hf. destruct (c_id x =? a) eqn:E.
    + exfalso. apply N.eqb_eq in E. cbn in Ht. apply andb_true_iff in Ht. destruct Ht as [Ht _]. apply andb_true_iff in Ht. destruct Ht as [_ Hu].
      apply negb_true_iff in Hu. assert (K : mem (c_id x) (map c_id (pre ++ post)) = true).
      { apply mem_In. rewrite map_app. apply in_or_app. right. rewrite E. exact Ha. }
      congruence.
    + apply IH; [eapply topo_tail, Ht|exact Ha|exact Hf|exact Hp].
Qed.

Lemma reach_stays r pre post : g_commits r = pre ++ post -> topo_ok (pre ++ post) = true ->
  forall a b, reach r a b -> In a (map c_id post) -> In b (map c_id post).
Proof.
  intros Hg Ht a b R. induction R as [a|a c p b Hf Hp R IH]; [tauto|]. intros Ha. apply IH.
  unfold find_commit in Hf. rewrite Hg in Hf. exact (find_topo pre post a c p Ht Ha Hf Hp).
Qed.

Lemma unique_ids pre cm post : topo_ok (pre ++ cm :: post) = true -> ~ In (c_id cm) (map c_id post) /\ ~ In (c_id cm) (map c_id pre).
Proof.
  intros Ht. split.
  - apply topo_app in Ht. cbn in Ht. apply andb_true_iff in Ht. destruct Ht as [Ht _]. apply andb_true_iff in Ht. destruct Ht as [_ Hu].
    apply negb_true_iff in Hu. intros K. apply mem_In in K. congruence.
  - induction pre as [|x pre IH]; [tauto|]. intros [K|K].
    + cbn in Ht. apply andb_true_iff in Ht. destruct Ht as [Ht _]. apply andb_true_iff in Ht. destruct Ht as [_ Hu]. apply negb_true_iff in Hu.
      assert (M : mem (c_id x) (map c_id (pre ++ cm :: post)) = true).
      { apply mem_In. rewrite map_app. apply in_or_app. right. left. symmetry. exact K. }
      congruence.
    + apply IH; [eapply topo_tail, Ht|exact K].
Qed.

(* ---- the theorem ---- *)
Theorem nearest_valid_tag r f t c : topo_ok (g_commits r) = true -> latest_tag r f = Some (t, c) ->
  In c (map c_id (g_commits r)) /\
  max_tag (batch_parse f (tags_at r c)) = Some t /\
  forall c', In c' (map c_id (g_commits r)) -> c' <> c -> valid_at r f c' -> ~ reach r c' c.
Proof.
  intros Ht H. destruct (latest_tag_in_spec _ _ _ _ _ H) as [pre [cm [post [Hg [Hc [Hm Hpre]]]]]].
  split; [rewrite Hg, map_app; apply in_or_app; right; left; exact Hc|]. split; [exact Hm|].
  intros c' Hin Hne Hv R.
  rewrite Hg, map_app in Hin. apply in_app_or in Hin. destruct Hin as [Hin|Hin].
  - apply in_map_iff in Hin. destruct Hin as [x [<- Hx]]. exact (Hpre x Hx Hv).
  - cbn in Hin. destruct Hin as [Hin|Hin]; [congruence|].
    (* c' is listed after cm; everything reachable from it stays after cm; but c = id of cm *)
    rewrite Hg in Ht.
    assert (E : pre ++ cm :: post = (pre ++ [cm]) ++ post) by (rewrite <- app_assoc; reflexivity).
    pose proof (reach_stays r (pre ++ [cm]) post (eq_trans Hg E)) as RS. rewrite <- E in RS. specialize (RS Ht c' c R Hin).
    destruct (unique_ids pre cm post Ht) as [U _]. apply U. rewrite Hc. exact RS.
Qed.

(* the chosen tag is one of the valid tags of the commit and no valid tag of it has a higher version *)
Lemma max_of_spec {V} (cmp : V -> V -> comparison) l t :
  (forall x y z, cmp x y <> Gt -> cmp y z <> Gt -> cmp x z <> Gt) -> (forall x, cmp x x <> Gt) -> (forall x y, cmp x y = Gt -> cmp y x <> Gt) ->
  max_of cmp l = Some t -> exists v, In (t, v) l /\ forall n' v', In (n', v') l -> cmp v' v <> Gt.
Proof.
  intros T R O. destruct l as [|x l]; [discriminate|]. cbn [max_of]. intros H. inversion H; subst t. clear H.
  set (c2 := fun a b : str * V => cmp (snd a) (snd b)).
  destruct (max_by_last_spec c2 (fun a b c => T (snd a) (snd b) (snd c)) (fun a => R (snd a)) (fun a b => O (snd a) (snd b)) l x) as [H1 [H2 H3]].
  set (m := max_by_last c2 x l) in *. exists (snd m). split; [destruct m; exact H1|].
  intros n' v' [Hx|Hx]; [subst x; exact H2|exact (H3 _ Hx)].
Qed.

Theorem chosen_tag_is_highest r f t c : latest_tag r f = Some (t, c) ->
  match batch_parse f (tags_at r c) with
  | BSem l => exists v, In (t, v) l /\ forall n' v', In (n', v') l -> semver_cmp v' v <> Gt
  | BPep l => exists v, In (t, v) l /\ forall n' v', In (n', v') l -> pep_cmp v' v <> Gt
  end.
Proof.
  intros H. destruct (latest_tag_in_spec _ _ _ _ _ H) as [pre [cm [post [_ [_ [Hm _]]]]]].
  destruct (batch_parse f (tags_at r c)) as [l|l]; cbn [max_tag] in Hm.
  - apply (max_of_spec semver_cmp l t); [| | |exact Hm].
    + intros x y z. rewrite !semver_cmp_key. apply (good_trans_le _ key_cmp_good).
    + intros x. rewrite semver_cmp_key, (gc_refl _ key_cmp_good). discriminate.
    + intros x y K. rewrite (semver_cmp_opp x y), K. discriminate.
  - apply (max_of_spec pep_cmp l t); [| | |exact Hm].
    + apply pep_cmp_le_trans.
    + intros x. assert (E : pep_cmp x x = Eq) by (apply pep_cmp_eq; reflexivity). rewrite E. discriminate.
    + intros x y K. rewrite (pep_cmp_opp x y), K. discriminate.
Qed.

(* the valid tags considered are exactly the tags on that commit that parse in the format *)
Lemma keep_some_In {A B} (f : A -> option B) l x y : In (x, y) (keep_some f l) <-> In x l /\ f x = Some y.
Proof.
  induction l as [|a l IH]; cbn; [tauto|]. destruct (f a) as [b|] eqn:E; cbn; rewrite IH; split.
  - intros [K|K]; [inversion K; subst; tauto|tauto].
  - intros [[->|K] F]; [left; congruence|right; tauto].
  - intros [K F]. tauto.
  - intros [[->|K] F]; [congruence|tauto].
Qed.

Lemma tags_at_In r c n : In n (tags_at r c) <-> In (n, c) (g_tags r).
Proof.
  unfold tags_at. rewrite in_map_iff. split.
  - intros [[n' c'] [E H]]. apply filter_In in H. destruct H as [H1 H2]. cbn in *. apply N.eqb_eq in H2. subst. exact H1.
  - intros H. exists (n, c). split; [reflexivity|]. apply filter_In. split; [exact H|apply N.eqb_refl].
Qed.

(* no tags at all on the listed commits: reported as "no tag" *)
Theorem no_valid_tag_no_version r f : (forall c, In c (g_commits r) -> ~ valid_at r f (c_id c)) -> git_vars r f = None.
Proof.
  intros H. unfold git_vars. destruct (g_commits r) as [|h cs] eqn:E; [reflexivity|].
  assert (L : latest_tag r f = None).
  { unfold latest_tag. rewrite E. revert H. generalize (h :: cs). intros l Hl. induction l as [|x l IH]; [reflexivity|]. cbn.
    destruct (max_tag (batch_parse f (tags_at r (c_id x)))) eqn:M.
    - exfalso. apply (Hl x (or_introl eq_refl)). unfold valid_at. rewrite M. discriminate.
    - apply IH. intros c Hc. apply Hl. right. exact Hc. }
  rewrite L. reflexivity.
Qed.

(* ---- the executable ancestor set is exactly reachability (on a topologically ordered list) ---- *)
Lemma find_unique pre x suf : topo_ok (pre ++ x :: suf) = true -> find (fun y => c_id y =? c_id x) (pre ++ x :: suf) = Some x.
Proof.
  intros Ht. induction pre as [|y pre IH]; cbn [app find].
  - rewrite N.eqb_refl. reflexivity.
  - destruct (c_id y =? c_id x) eqn:E.
    + exfalso. apply N.eqb_eq in E. cbn in Ht. apply andb_true_iff in Ht. destruct Ht as [Ht _]. apply andb_true_iff in Ht. destruct Ht as [_ Hu].
      apply negb_true_iff in Hu. assert (K : mem (c_id y) (map c_id (pre ++ x :: suf)) = true).
      { apply mem_In. rewrite map_app. apply in_or_app. right. left. symmetry. exact E. }
      congruence.
    + apply IH. eapply topo_tail, Ht.
Qed.

Lemma find_listed r a cm : topo_ok (g_commits r) = true -> find_commit r a = Some cm -> In cm (g_commits r) /\ c_id cm = a.
Proof. intros _ H. apply find_in_list, H. Qed.

Section Mark.
Variable r : gitrepo.
Variable c : N.

Definition inv (pre : list commit) (seen : list N) : Prop :=
  (forall y, In y seen -> reach r c y) /\
  (forall z, In z pre -> In (c_id z) seen -> forall p, In p (c_parents z) -> In p seen) /\
  In c seen.

Lemma mark_inv suf : forall pre seen, g_commits r = pre ++ suf -> topo_ok (pre ++ suf) = true -> inv pre seen -> inv (pre ++ suf) (mark suf seen).
Proof.
  induction suf as [|x suf IH]; intros pre seen Hg Ht [I1 [I2 I3]]; cbn [mark].
  - rewrite app_nil_r. repeat split; assumption.
  - assert (E : pre ++ x :: suf = (pre ++ [x]) ++ suf) by (rewrite <- app_assoc; reflexivity).
    rewrite E. destruct (mem (c_id x) seen) eqn:M.
    + apply IH; [rewrite Hg; exact E|rewrite <- E; exact Ht|]. apply mem_In in M. repeat split.
      * intros y Hy. apply in_app_or in Hy. destruct Hy as [Hy|Hy]; [apply I1, Hy|].
        (* y is a parent of x, x is reachable *)
        assert (R : reach r c (c_id x)) by (apply I1, M).
        assert (F : find_commit r (c_id x) = Some x) by (unfold find_commit; rewrite Hg; apply find_unique, Ht).
        clear - R F Hy. induction R as [a|a c0 p b Hf Hp R IH]; [eapply reach_step; [exact F|exact Hy|apply reach_refl]|].
        eapply reach_step; [exact Hf|exact Hp|apply IH; assumption].
      * intros z Hz Hs p Hp. apply in_app_or in Hz. destruct Hz as [Hz|[<-|[]]].
        -- apply in_or_app. apply in_app_or in Hs. destruct Hs as [Hs|Hs]; [left; eapply I2; eassumption|].
           (* id z among the parents of x: impossible, parents are listed after x and ids are unique *)
           exfalso. pose proof (topo_app pre (x :: suf) Ht) as Tx. cbn in Tx. apply andb_true_iff in Tx. destruct Tx as [Tx _]. apply andb_true_iff in Tx. destruct Tx as [Tp _].
           rewrite forallb_forall in Tp. specialize (Tp _ Hs). apply mem_In in Tp.
           (* c_id z is in ids(suf) and z is in pre *)
           clear - Ht Hz Tp. induction pre as [|w pre IHp]; [destruct Hz|]. destruct Hz as [->|Hz].
           ++ cbn in Ht. apply andb_true_iff in Ht. destruct Ht as [Ht _]. apply andb_true_iff in Ht. destruct Ht as [_ Hu]. apply negb_true_iff in Hu.
              assert (K : mem (c_id z) (map c_id (pre ++ x :: suf)) = true) by (apply mem_In; rewrite map_app; apply in_or_app; right; right; exact Tp). congruence.
           ++ apply IHp; [eapply topo_tail, Ht|exact Hz].
        -- apply in_or_app. right. exact Hp.
      * apply in_or_app. left. exact I3.
    + apply IH; [rewrite Hg; exact E|rewrite <- E; exact Ht|]. repeat split; [exact I1| |exact I3].
      intros z Hz Hs p Hp. apply in_app_or in Hz. destruct Hz as [Hz|[<-|[]]]; [eapply I2; eassumption|].
      apply mem_In in Hs. congruence.
Qed.
End Mark.

Theorem ancestors_is_reach r c : topo_ok (g_commits r) = true -> forall x, In x (ancestors r c) <-> reach r c x.
Proof.
  intros Ht x. unfold ancestors.
  assert (I0 : inv r c [] [c]) by (repeat split; [intros y [<-|[]]; apply reach_refl|intros z []|left; reflexivity]).
  pose proof (mark_inv r c (g_commits r) [] [c] eq_refl Ht I0) as [I1 [I2 I3]]. cbn [app] in I1, I2, I3.
  set (F := mark (g_commits r) [c]) in *. split; [apply I1|]. intros R.
  assert (G : forall a b, reach r a b -> In a F -> In b F).
  { intros a b Rab. induction Rab as [a|a cm p b Hf Hp Rab IH]; [tauto|]. intros Ha. apply IH.
    destruct (find_listed r a cm Ht Hf) as [Hin Hid]. subst a. eapply I2; eassumption. }
  apply (G c x R I3).
Qed.

(* distance = number of listed commits (reachable from HEAD) that are not reachable from the tagged commit *)
Theorem distance_spec r c : topo_ok (g_commits r) = true ->
  distance r c = N.of_nat (length (filter (fun x => negb (mem (c_id x) (ancestors r c))) (g_commits r))) /\
  forall x, In x (g_commits r) -> (mem (c_id x) (ancestors r c) = true <-> reach r c (c_id x)).
Proof.
  intros Ht. split; [reflexivity|]. intros x _. rewrite mem_In. apply ancestors_is_reach, Ht.
Qed.
