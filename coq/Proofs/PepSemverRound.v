(* C07: any PEP 440 version with at most three release numbers converts to SemVer and back to an EQUAL PEP 440 version. *)
From Coq Require Import Lia.
From ZV Require Import Str Dec Sanitize SanitizeSpec StrFacts DecFacts SanitizeProofs Zerv Render SemVer Pep440 Pep440Spec Convert NoPanicProofs IdentProofs PepWfProofs Pep440Nf
                       PepRoundTrip SemVerRoundTrip Pep440Order ParseBack.
Open Scope N_scope.

Definition ident_of_lseg (g : lseg) : ident := match g with LStr s => IStr s | LUInt n => IUInt n end.

(* the fields of a PEP 440 value in normal form, as the parameters of the canonical shape *)
Definition f_epoch (p : pep) : option N := if 0 <? p_epoch p then Some (p_epoch p) else None.
Definition f_pre (p : pep) : option (label * N) := match p_pre_label p, p_pre_num p with Some l, Some n => Some (l, n) | _, _ => None end.
Definition f_build (p : pep) : option (list ident) := option_map (map ident_of_lseg) (p_local p).
Definition r0 (p : pep) := nth 0 (p_release p) 0.
Definition r1 (p : pep) := nth 1 (p_release p) 0.
Definition r2 (p : pep) := nth 2 (p_release p) 0.

(* all-digit local string segments (values of 2^32 or more kept as text) are excluded: they become numbers in SemVer *)
Definition local_plain (p : pep) : Prop :=
  match p_local p with Some l => Forall (fun g => match g with LStr s => parse_u64 s = None | LUInt _ => True end) l | None => True end.

Lemma u32_u64 n : u32 n -> u64 n.
Proof. unfold u32, u64. lia. Qed.

Lemma ident_nf_of_lseg g : lseg_nf g -> (match g with LStr s => parse_u64 s = None | LUInt _ => True end) -> ident_nf (ident_of_lseg g) /\ ident_pep_nf (ident_of_lseg g).
Proof.
  destruct g as [s|n]; cbn [ident_of_lseg ident_nf lseg_nf]; unfold ident_pep_nf; cbn [lseg_of_ident lseg_nf].
  - intros [G [U [Z P]]] Q. split; [|split; [exact G|split; [exact U|split; [exact Z|exact P]]]]. split; [|exact Q]. destruct G as [Gn Ga]. split; [exact Gn|split; [exact Ga|exact Z]].
  - intros H _. split; [apply u32_u64, H|exact H].
Qed.

Lemma lseg_ident_id l : map lseg_of_ident (map ident_of_lseg l) = l.
Proof. rewrite map_map. rewrite <- (map_id l) at 2. apply map_ext. intros [s|n]; reflexivity. Qed.

Section Round.
Variable p : pep.
Hypothesis Hnf : pep_nf p.
Hypothesis Hlen : (length (p_release p) <= 3)%nat.
Hypothesis Hloc : local_plain p.

Lemma fields_facts :
  u32 (r0 p) /\ u32 (r1 p) /\ u32 (r2 p) /\ opt_u32_ok (f_epoch p) /\ f_epoch p <> Some 0 /\
  (match f_pre p with Some (_, n) => u32 n | None => True end) /\ opt_u32_ok (p_post_num p) /\ opt_u32_ok (p_dev_num p) /\
  (match f_build p with Some l => l <> [] /\ Forall ident_nf l /\ Forall ident_pep_nf l | None => True end).
Proof.
  destruct Hnf as [He [Hrn Hru] Hpre Hpost Hdev Hl].
  assert (R : forall i, u32 (nth i (p_release p) 0)).
  { intros i. destruct (nth_in_or_default i (p_release p) 0) as [Hin|E]; [rewrite Forall_forall in Hru; apply Hru, Hin|rewrite E; unfold u32; lia]. }
  repeat split; try apply R.
  - unfold f_epoch. destruct (0 <? p_epoch p); [exact He|exact I].
  - unfold f_epoch. destruct (0 <? p_epoch p) eqn:E; [|discriminate]. apply N.ltb_lt in E. intros K. inversion K. lia.
  - unfold f_pre. destruct (p_pre_label p) as [lb|]; [|exact I]. destruct Hpre as [n [-> Hn]]. exact Hn.
  - destruct (p_post_label p); [destruct Hpost as [n [-> Hn]]; exact Hn|rewrite Hpost; exact I].
  - destruct (p_dev_label p); [destruct Hdev as [n [-> Hn]]; exact Hn|rewrite Hdev; exact I].
  - unfold f_build, local_plain in *. destruct (p_local p) as [l|]; [|exact I]. destruct Hl as [Hne Hw]. cbn [option_map].
    split; [destruct l; [congruence|discriminate]|].
    assert (A : Forall (fun g => ident_nf (ident_of_lseg g) /\ ident_pep_nf (ident_of_lseg g)) l).
    { rewrite Forall_forall in *. intros g Hg. apply ident_nf_of_lseg; [apply Hw, Hg|apply Hloc, Hg]. }
    split; apply Forall_map; eapply Forall_impl; try exact A; intros g [H1 H2]; assumption.
Qed.

(* p is the canonical PEP 440 value of its fields, up to the release list *)
Lemma p_shape : p = mkp (p_epoch p) (p_release p) (match f_pre p with Some (l, _) => Some l | None => None end) (match f_pre p with Some (_, n) => Some n | None => None end)
                        (match p_post_num p with Some _ => true | None => false end) (p_post_num p)
                        (match p_dev_num p with Some _ => true | None => false end) (p_dev_num p)
                        (match f_build p with Some l => Some (map lseg_of_ident l) | None => None end).
Proof.
  destruct Hnf as [He [Hrn Hru] Hpre Hpost Hdev Hl]. destruct p as [e rel pl pn ql qn dl dn loc]. unfold mkp, f_pre, f_build.
  cbn [p_epoch p_release p_pre_label p_pre_num p_post_label p_post_num p_dev_label p_dev_num p_local] in *.
  assert (E1 : pl = match match pl, pn with Some l, Some n => Some (l, n) | _, _ => None end with Some (l, _) => Some l | None => None end)
    by (destruct pl; [destruct Hpre as [n [-> _]]|]; reflexivity).
  assert (E2 : pn = match match pl, pn with Some l, Some n => Some (l, n) | _, _ => None end with Some (_, n) => Some n | None => None end)
    by (destruct pl; [destruct Hpre as [n [-> _]]; reflexivity|exact Hpre]).
  assert (E3 : ql = match qn with Some _ => true | None => false end) by (destruct ql; [destruct Hpost as [n [-> _]]; reflexivity|rewrite Hpost; reflexivity]).
  assert (E4 : dl = match dn with Some _ => true | None => false end) by (destruct dl; [destruct Hdev as [n [-> _]]; reflexivity|rewrite Hdev; reflexivity]).
  assert (E5 : loc = match option_map (map ident_of_lseg) loc with Some l => Some (map lseg_of_ident l) | None => None end)
    by (destruct loc as [l|]; [cbn [option_map]; rewrite lseg_ident_id|]; reflexivity).
  rewrite <- E1, <- E2, <- E3, <- E4, <- E5. reflexivity.
Qed.
End Round.

(* PEP 440 -> Zerv -> SemVer for one, two or three release numbers: missing numbers read as 0 *)
Theorem pep_to_semver_gen rel a b c e pl po pd bl :
  (rel = [a] /\ b = 0 /\ c = 0) \/ (rel = [a; b] /\ c = 0) \/ rel = [a; b; c] ->
  u64 a -> u64 b -> u64 c -> opt_u64 e -> e <> Some 0 -> (match pl with Some (_, n) => u64 n | None => True end) -> opt_u64 po -> opt_u64 pd ->
  (match bl with Some l => l <> [] /\ Forall ident_nf l | None => True end) ->
  semver_of_zerv (zerv_of_pep (mkp (match e with Some n => n | None => 0 end) rel
      (match pl with Some (l, _) => Some l | None => None end) (match pl with Some (_, n) => Some n | None => None end)
      (match po with Some _ => true | None => false end) po (match pd with Some _ => true | None => false end) pd
      (match bl with Some l => Some (map lseg_of_ident l) | None => None end))) = canon_semver a b c e pl po pd bl.
Proof.
  intros Hrel Ha Hb Hc He He0 Hpl Hpo Hpd Hbl. unfold semver_of_zerv, zerv_of_pep, canon_semver, mkp.
  cbn [z_schema z_vars s_core s_extra s_build p_epoch p_release p_pre_label p_pre_num p_post_label p_post_num p_dev_label p_dev_num p_local].
  set (E := match e with Some n => n | None => 0 end).
  assert (Ee : (if 0 <? E then Some E else None) = e).
  { unfold E. destruct e as [n|]; [|reflexivity]. destruct (0 <? n) eqn:Z; [reflexivity|]. apply N.ltb_ge in Z. assert (n = 0) by lia. subst. congruence. }
  rewrite Ee.
  assert (Sk : skipn 3 rel = []) by (destruct Hrel as [[-> _]|[[-> _]| ->]]; reflexivity). rewrite Sk. cbn [map app].
  set (vs := {| v_major := nth_error rel 0; v_minor := nth_error rel 1; v_patch := nth_error rel 2; v_epoch := e;
                v_pre := match match pl with Some (l, _) => Some l | None => None end with
                         | Some l => Some {| pr_label := l; pr_num := match pl with Some (_, n) => Some n | None => None end |} | None => None end;
                v_post := po; v_dev := pd;
                v_distance := None; v_dirty := None; v_bumped_branch := None; v_bumped_hash := None; v_bumped_ts := None;
                v_last_branch := None; v_last_hash := None; v_last_ts := None; v_last_tag := None; v_custom := JNull |}).
  assert (Core : sv_process_core standard_core vs O {| a_major := 0; a_minor := 0; a_patch := 0; a_pre := None; a_build := None |}
                 = {| a_major := a; a_minor := b; a_patch := c; a_pre := None; a_build := None |}).
  { unfold standard_core, vs. destruct Hrel as [[-> [-> ->]]|[[-> ->]| ->]];
      cbn [sv_process_core comp_value var_value v_major v_minor v_patch omap nth_error];
      rewrite ?uint_sanitize_print, ?print_dec_nonempty, ?(parse_u64_print a Ha), ?(parse_u64_print b Hb), ?(parse_u64_print c Hc); reflexivity. }
  rewrite !app_nil_r, Core. cbn [a_major a_minor a_patch a_pre a_build].
  rewrite !push_fold, !push_none. f_equal.
  - f_equal. unfold prerelease_post_dev_extra, canon_pre. cbn [flat_map sv_extra_ids is_secondary]. rewrite app_nil_r. f_equal; [|f_equal; [|f_equal]].
    + destruct e as [n|]; [apply (secondary_epoch vs n eq_refl He)|apply (secondary_none Epoch vs eq_refl eq_refl)].
    + destruct pl as [[l n]|]; [apply (secondary_pre vs l n eq_refl Hpl)|apply (secondary_none PreRelease vs eq_refl eq_refl)].
    + destruct po as [n|]; [apply (secondary_post vs n eq_refl Hpo)|apply (secondary_none Post vs eq_refl eq_refl)].
    + destruct pd as [n|]; [apply (secondary_dev vs n eq_refl Hpd)|apply (secondary_none Dev vs eq_refl eq_refl)].
  - destruct bl as [l|]; [|reflexivity]. destruct Hbl as [Hne Hl]. cbn [option_map].
    assert (Em : map comp_of_lseg (map lseg_of_ident l) = map comp_of_ident l) by (rewrite map_map; apply map_ext; intros i; symmetry; apply comp_of_ident_lseg).
    rewrite Em, (build_flat l vs Hl). destruct l; [congruence|reflexivity].
Qed.

Lemma release_cases (rel : list N) : rel <> [] -> (length rel <= 3)%nat ->
  (rel = [nth 0 rel 0] /\ nth 1 rel 0 = 0 /\ nth 2 rel 0 = 0) \/ (rel = [nth 0 rel 0; nth 1 rel 0] /\ nth 2 rel 0 = 0) \/ rel = [nth 0 rel 0; nth 1 rel 0; nth 2 rel 0].
Proof.
  destruct rel as [|a [|b [|c [|d r]]]]; cbn; intros H L; try congruence; try lia; [left|right; left|right; right]; repeat split.
Qed.

Lemma strip_snoc0 l : strip_zeros (l ++ [0]) = strip_zeros l.
Proof. induction l as [|x l IH]; [reflexivity|]. cbn [app]. rewrite !Pep440Order.strip_cons, IH. reflexivity. Qed.

Lemma strip_pad3 (rel : list N) : rel <> [] -> (length rel <= 3)%nat -> strip_zeros [nth 0 rel 0; nth 1 rel 0; nth 2 rel 0] = strip_zeros rel.
Proof.
  destruct rel as [|a [|b [|c [|d r]]]]; cbn [nth length]; intros H L; try congruence; try lia.
  - change [a; 0; 0] with (([a] ++ [0]) ++ [0]). rewrite !strip_snoc0. reflexivity.
  - change [a; b; 0] with ([a; b] ++ [0]). rewrite strip_snoc0. reflexivity.
Qed.

(* THE ROUND TRIP: PEP 440 -> Zerv -> SemVer text -> SemVer -> Zerv -> PEP 440 yields an equal version *)
Theorem pep_semver_pep_equal p : pep_nf p -> (length (p_release p) <= 3)%nat -> local_plain p ->
  let sv := semver_of_zerv (zerv_of_pep p) in
  sv = canon_semver (r0 p) (r1 p) (r2 p) (f_epoch p) (f_pre p) (p_post_num p) (p_dev_num p) (f_build p) /\
  semver_parse (semver_print sv) = Some sv /\
  exists z p', zerv_of_semver sv = Some z /\ semver_of_zerv z = sv /\ pep_of_zerv z = Some p' /\ pep_cmp p p' = Eq.
Proof.
  intros Hnf Hlen Hloc. destruct (fields_facts p Hnf Hlen Hloc) as [U0 [U1 [U2 [Ue [Ue0 [Upl [Upo [Upd Ubl]]]]]]]].
  assert (Epoch : match f_epoch p with Some n => n | None => 0 end = p_epoch p).
  { unfold f_epoch. destruct (0 <? p_epoch p) eqn:E; [reflexivity|]. apply N.ltb_ge in E. lia. }
  assert (S1 : semver_of_zerv (zerv_of_pep p) = canon_semver (r0 p) (r1 p) (r2 p) (f_epoch p) (f_pre p) (p_post_num p) (p_dev_num p) (f_build p)).
  { rewrite (p_shape p Hnf Hlen Hloc) at 1. rewrite <- Epoch. apply pep_to_semver_gen.
    - apply release_cases; [exact (proj1 (nf_release p Hnf))|exact Hlen].
    - apply u32_u64, U0. - apply u32_u64, U1. - apply u32_u64, U2.
    - destruct (f_epoch p); [apply u32_u64, Ue|exact I].
    - exact Ue0.
    - destruct (f_pre p) as [[l n]|]; [apply u32_u64, Upl|exact I].
    - destruct (p_post_num p); [apply u32_u64, Upo|exact I].
    - destruct (p_dev_num p); [apply u32_u64, Upd|exact I].
    - destruct (f_build p) as [l|]; [|exact I]. destruct Ubl as [A [B _]]. split; assumption.
    }
  cbv zeta. split; [exact S1|]. split; [apply parse_back|]. rewrite S1.
  exists (canon_zerv (r0 p) (r1 p) (r2 p) (f_epoch p) (f_pre p) (p_post_num p) (p_dev_num p) (f_build p)),
         (canon_pep (r0 p) (r1 p) (r2 p) (f_epoch p) (f_pre p) (p_post_num p) (p_dev_num p) (f_build p)).
  split; [apply canon_to_zerv|]. split.
  { apply canon_render.
    - apply u32_u64, U0. - apply u32_u64, U1. - apply u32_u64, U2.
    - destruct (f_epoch p); [apply u32_u64, Ue|exact I].
    - destruct (f_pre p) as [[l n]|]; [apply u32_u64, Upl|exact I].
    - destruct (p_post_num p); [apply u32_u64, Upo|exact I].
    - destruct (p_dev_num p); [apply u32_u64, Upd|exact I].
    - destruct (f_build p) as [l|]; [|exact I]. destruct Ubl as [A [B _]]. split; assumption. }
  assert (P1 : pep_of_zerv (canon_zerv (r0 p) (r1 p) (r2 p) (f_epoch p) (f_pre p) (p_post_num p) (p_dev_num p) (f_build p))
               = Some (canon_pep (r0 p) (r1 p) (r2 p) (f_epoch p) (f_pre p) (p_post_num p) (p_dev_num p) (f_build p))).
  { apply canon_to_pep; try assumption. destruct (f_build p) as [l|]; [|exact I]. destruct Ubl as [A [_ C]]. split; assumption. }
  split; [exact P1|].
  apply Pep440Order.pep_cmp_eq. rewrite (p_shape p Hnf Hlen Hloc) at 1. unfold pep_key, canon_pep, mkp, r0, r1, r2.
    cbn [p_epoch p_release p_pre_label p_pre_num p_post_label p_post_num p_dev_label p_dev_num p_local].
    rewrite Epoch, (strip_pad3 (p_release p) (proj1 (nf_release p Hnf)) Hlen). reflexivity.
Qed.

Print Assumptions pep_semver_pep_equal.
