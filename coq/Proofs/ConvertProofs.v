(* C07 / C13: SemVer -> Zerv never fails (the expect() in From<SemVer> for Zerv is unreachable) *)
From Coq Require Import Lia.
From ZV Require Import Str Zerv Render Convert.

Definition in_list (v : var) (l : list component) : bool :=
  existsb (fun c => match c with CVar w => var_eqb v w | _ => false end) l.

Lemma extra_ok_app_lit l c : (match c with CVar _ => False | _ => True end) ->
  forall seen, extra_ok (l ++ [c]) seen = extra_ok l seen.
Proof.
  intros Hc. induction l as [|x l IH]; intros seen; cbn [app extra_ok].
  - destruct c; [reflexivity|reflexivity|destruct Hc].
  - destruct x as [s|n|w]; try apply IH.
    destruct (is_secondary w); [destruct (existsb (var_eqb w) seen); [reflexivity|apply IH]|].
    destruct (is_primary w); [reflexivity|apply IH].
Qed.

Lemma var_eqb_sym a b : var_eqb a b = var_eqb b a.
Proof.
  destruct a, b; cbn; try reflexivity.
  - revert name0; induction name as [|x n IH]; destruct name0 as [|y m]; cbn; try reflexivity. rewrite N.eqb_sym, IH. reflexivity.
  - revert pattern0; induction pattern as [|x n IH]; destruct pattern0 as [|y m]; cbn; try reflexivity. rewrite N.eqb_sym, IH. reflexivity.
Qed.

Lemma extra_ok_app_var l v : is_secondary v = true ->
  forall seen, extra_ok (l ++ [CVar v]) seen = extra_ok l seen && negb (existsb (var_eqb v) seen) && negb (in_list v l).
Proof.
  intros Hv. induction l as [|x l IH]; intros seen; cbn [app extra_ok in_list existsb].
  - rewrite Hv. destruct (existsb (var_eqb v) seen); reflexivity.
  - destruct x as [s|n|w]; cbn [orb]; try apply IH.
    destruct (is_secondary w) eqn:Ew.
    + destruct (existsb (var_eqb w) seen) eqn:Es; [reflexivity|].
      rewrite IH. cbn [existsb]. rewrite (var_eqb_sym v w).
      destruct (var_eqb w v); cbn; [rewrite !andb_false_r; reflexivity|]. reflexivity.
    + destruct (is_primary w); [reflexivity|].
      rewrite IH. assert (E : var_eqb v w = false).
      { destruct (var_eqb v w) eqn:E; [|reflexivity]. exfalso.
        destruct v, w; cbn in *; try discriminate. }
      rewrite E. reflexivity.
Qed.

Definition Good (st : pstate) : Prop :=
  ps_failed st = false /\ forallb component_ok (ps_extra st) = true /\ extra_ok (ps_extra st) [] = true.
Definition PInv (st : pstate) : Prop :=
  forall v, ps_pending st = Some v -> is_secondary v = true /\ in_extra st v = false.

Lemma good_lit st c : (match c with CVar _ => False | _ => True end) -> Good st -> Good (upd_extra st c).
Proof.
  intros Hc [H1 [H2 H3]]. unfold Good, upd_extra. cbn [ps_failed ps_extra].
  assert (A : forallb component_ok (ps_extra st ++ [c]) = true).
  { rewrite forallb_app, H2. destruct c; [reflexivity|reflexivity|destruct Hc]. }
  assert (B : extra_ok (ps_extra st ++ [c]) [] = true) by (rewrite extra_ok_app_lit; assumption).
  rewrite A, B, H1. repeat split.
Qed.

Lemma good_var st v : is_secondary v = true -> in_extra st v = false -> Good st -> Good (upd_extra st (CVar v)).
Proof.
  intros Hv Hin [H1 [H2 H3]]. unfold Good, upd_extra. cbn [ps_failed ps_extra].
  assert (A : forallb component_ok (ps_extra st ++ [CVar v]) = true).
  { rewrite forallb_app, H2. cbn. destruct v; try discriminate; reflexivity. }
  assert (B : extra_ok (ps_extra st ++ [CVar v]) [] = true).
  { rewrite extra_ok_app_var by exact Hv. rewrite H3. unfold in_extra in Hin. unfold in_list. rewrite Hin. reflexivity. }
  rewrite A, B, H1. repeat split.
Qed.

Lemma in_extra_lit st c v : (match c with CVar _ => False | _ => True end) -> in_extra (upd_extra st c) v = in_extra st v.
Proof. intros Hc. unfold in_extra, upd_extra. cbn [ps_extra]. rewrite existsb_app. cbn. destruct c; [rewrite !orb_false_r; reflexivity..|destruct Hc]. Qed.

Lemma in_extra_var st w v : in_extra (upd_extra st (CVar w)) v = in_extra st v || var_eqb v w.
Proof. unfold in_extra, upd_extra. cbn [ps_extra]. rewrite existsb_app. cbn. rewrite orb_false_r. reflexivity. Qed.

(* finalize_var touches values, then pushes Var v *)
Lemma finalize_good st v val : is_secondary v = true -> in_extra st v = false -> Good st ->
  Good (finalize_var st v val) /\ ps_pending (finalize_var st v val) = ps_pending st /\
  (forall w, in_extra (finalize_var st v val) w = in_extra st w || var_eqb w v).
Proof.
  intros Hv Hin HG. unfold finalize_var.
  destruct v; try discriminate;
  (split; [apply good_var; [reflexivity|exact Hin|exact HG]|split; [reflexivity|intros w; rewrite in_extra_var; reflexivity]]).
Qed.

Lemma pending_upd st c : ps_pending (upd_extra st c) = ps_pending st.
Proof. reflexivity. Qed.

Lemma secondary_of_label_sec s v : secondary_of_label s = Some v -> is_secondary v = true.
Proof.
  unfold secondary_of_label. destruct (str_eqb s s_epoch); [intros H; inversion H; reflexivity|].
  destruct (str_eqb s s_post); [intros H; inversion H; reflexivity|].
  destruct (str_eqb s s_dev); [intros H; inversion H; reflexivity|].
  destruct (label_try s); intros H; inversion H. reflexivity.
Qed.

Lemma finalize_pending_good st : Good st -> PInv st ->
  Good (finalize_pending st) /\ ps_pending (finalize_pending st) = None /\
  (forall w, in_extra (finalize_pending st) w = in_extra st w || var_is (ps_pending st) w).
Proof.
  intros HG HP. unfold finalize_pending. destruct (ps_pending st) as [p|] eqn:Ep.
  - destruct (HP p Ep) as [Hs Hi].
    destruct (finalize_good (set_pending st None) p None Hs Hi HG) as [G [Pd Ix]].
    split; [exact G|split; [exact Pd|]]. intros w. rewrite Ix. cbn [var_is]. rewrite (var_eqb_sym w p). reflexivity.
  - split; [exact HG|split; [exact Ep|]]. intros w. cbn. rewrite orb_false_r. reflexivity.
Qed.

Lemma var_is_true o v : var_is o v = true -> exists w, o = Some w /\ var_eqb w v = true.
Proof. destruct o as [w|]; cbn; [intros H; exists w; split; [reflexivity|exact H]|discriminate]. Qed.

Lemma var_eqb_sec a b : var_eqb a b = true -> is_secondary a = true -> a = b.
Proof. destruct a, b; cbn; try discriminate; reflexivity. Qed.

Lemma step_str_inv st s : Good st -> PInv st -> Good (step_str st s) /\ PInv (step_str st s).
Proof.
  intros HG HP. unfold step_str.
  destruct (var_is (ps_pending st) PreRelease) eqn:Epre.
  { (* pending pre-release label followed by a string *)
    destruct (var_is_true _ _ Epre) as [w [Ew Eq]]. destruct (HP w Ew) as [Hs Hi].
    apply var_eqb_sec in Eq; [|exact Hs]. subst w.
    destruct (finalize_good st PreRelease None eq_refl Hi HG) as [G [Pd Ix]].
    split.
    - apply good_lit; [exact I|]. exact G.
    - intros v Hv. cbn in Hv. discriminate. }
  destruct (secondary_of_label s) as [v|] eqn:El.
  - pose proof (secondary_of_label_sec s v El) as Hsec.
    destruct (var_is (ps_pending st) v) eqn:Epv.
    + destruct (var_is_true _ _ Epv) as [w [Ew Eq]]. destruct (HP w Ew) as [Hs Hi].
      apply var_eqb_sec in Eq; [|exact Hs]. subst w.
      destruct (finalize_good (set_pending st None) v None Hsec Hi HG) as [G [Pd Ix]].
      split; [apply good_lit; [exact I|exact G]|intros u Hu; rewrite ?pending_upd in Hu; first [rewrite Pd in Hu; cbn in Hu; discriminate | cbn in Hu; discriminate]].
    + destruct (is_var_set st v) eqn:Eset.
      * destruct (finalize_pending_good st HG HP) as [G [Pd Ix]].
        split; [apply good_lit; [exact I|exact G]|intros u Hu; rewrite ?pending_upd in Hu; first [rewrite Pd in Hu; cbn in Hu; discriminate | cbn in Hu; discriminate]].
      * (* a new variable becomes pending *)
        destruct (finalize_pending_good st HG HP) as [G [Pd Ix]].
        assert (Hnot : in_extra (finalize_pending st) v = false).
        { rewrite Ix, Epv, orb_false_r. unfold is_var_set in Eset. apply orb_false_iff in Eset. tauto. }
        destruct v; try discriminate.
        -- split; [exact G|]. intros u Hu. cbn in Hu. inversion Hu; subst. split; [reflexivity|exact Hnot].
        -- destruct (label_try s) as [l|].
           ++ split; [exact G|]. intros u Hu. cbn in Hu. inversion Hu; subst. split; [reflexivity|exact Hnot].
           ++ split; [apply good_lit; [exact I|exact G]|intros u Hu; rewrite ?pending_upd in Hu; first [rewrite Pd in Hu; cbn in Hu; discriminate | cbn in Hu; discriminate]].
        -- split; [exact G|]. intros u Hu. cbn in Hu. inversion Hu; subst. split; [reflexivity|exact Hnot].
        -- split; [exact G|]. intros u Hu. cbn in Hu. inversion Hu; subst. split; [reflexivity|exact Hnot].
  - destruct (finalize_pending_good st HG HP) as [G [Pd Ix]].
    split; [apply good_lit; [exact I|exact G]|intros u Hu; rewrite ?pending_upd in Hu; first [rewrite Pd in Hu; cbn in Hu; discriminate | cbn in Hu; discriminate]].
Qed.

Lemma step_uint_inv st n : Good st -> PInv st -> Good (step_uint st n) /\ PInv (step_uint st n).
Proof.
  intros HG HP. unfold step_uint. destruct (ps_pending st) as [p|] eqn:Ep.
  - destruct (HP p Ep) as [Hs Hi].
    destruct (finalize_good (set_pending st None) p (Some n) Hs Hi HG) as [G [Pd Ix]].
    split; [exact G|intros u Hu; rewrite Pd in Hu; discriminate].
  - split; [apply good_lit; [exact I|exact HG]|]. intros u Hu. cbn in Hu. rewrite Ep in Hu. discriminate.
Qed.

Theorem zerv_of_semver_total v : zerv_of_semver v <> None.
Proof.
  unfold zerv_of_semver.
  set (st0 := {| ps_epoch := None; ps_post := None; ps_dev := None; ps_pre := None; ps_extra := []; ps_pending := None; ps_failed := false |}).
  assert (H0 : Good st0 /\ PInv st0) by (split; [repeat split|intros u Hu; discriminate]).
  assert (H1 : forall ids st, Good st /\ PInv st -> Good (fold_left step_ident ids st) /\ PInv (fold_left step_ident ids st)).
  { induction ids as [|i ids IH]; intros st [G Pv]; [split; assumption|]. cbn [fold_left]. apply IH.
    destruct i; [apply step_str_inv|apply step_uint_inv]; assumption. }
  set (st1 := match sv_pre v with Some ids => fold_left step_ident ids st0 | None => st0 end).
  assert (H2 : Good st1 /\ PInv st1) by (unfold st1; destruct (sv_pre v); [apply H1|]; exact H0).
  destruct H2 as [G Pv].
  destruct (ps_pending st1) as [p|] eqn:Ep.
  - destruct (Pv p Ep) as [Hs Hi].
    destruct (good_var (set_pending st1 None) p Hs Hi G) as [F _]. rewrite F. discriminate.
  - destruct G as [F _]. rewrite F. discriminate.
Qed.
