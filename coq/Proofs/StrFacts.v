(* Generic facts about the string vocabulary of Base/Str.v *)
From Coq Require Import Lia.
From ZV Require Import Str.

Lemma drop_while_app_single p (a : str) x :
  drop_while p (a ++ [x]) =
  match drop_while p a with [] => if p x then [] else [x] | z => z ++ [x] end.
Proof.
  induction a as [|y a IH]; cbn [app drop_while].
  - destruct (p x); reflexivity.
  - destruct (p y); [exact IH | reflexivity].
Qed.

Lemma dwe_cons p x (y : str) :
  drop_while_end p (x :: y) =
  match drop_while_end p y with [] => if p x then [] else [x] | z => x :: z end.
Proof.
  unfold drop_while_end. cbn [rev]. rewrite drop_while_app_single.
  destruct (drop_while p (rev y)) as [|a l] eqn:E.
  - cbn. destruct (p x); reflexivity.
  - rewrite rev_app_distr. cbn [rev app].
    destruct (rev l ++ [a]) eqn:E2.
    + apply (f_equal (@length _)) in E2. rewrite app_length in E2. cbn in E2. lia.
    + reflexivity.
Qed.

Lemma dwe_nil p : drop_while_end p [] = [].
Proof. reflexivity. Qed.

Lemma trim_start_single_fuel c : forall n s, (length s <= n)%nat ->
  trim_start_str_fuel n [c] s = drop_while (N.eqb c) s.
Proof.
  induction n as [|n IH]; intros s Hl.
  - destruct s; [reflexivity | cbn in Hl; lia].
  - destruct s as [|y s]; [reflexivity|].
    cbn [trim_start_str_fuel is_prefix drop_while length drop_n].
    rewrite andb_true_r. destruct (N.eqb c y); [|reflexivity].
    apply IH. cbn in Hl. lia.
Qed.

Lemma trim_start_single c s : trim_start_str [c] s = drop_while (N.eqb c) s.
Proof. unfold trim_start_str. apply trim_start_single_fuel. lia. Qed.

Lemma trim_end_single c s : trim_end_str [c] s = drop_while_end (N.eqb c) s.
Proof. unfold trim_end_str, drop_while_end. cbn [rev app]. rewrite trim_start_single. reflexivity. Qed.

Lemma split_on_nonnil c s : split_on c s <> [].
Proof. destruct s as [|x s]; cbn; [discriminate|]. destruct (N.eqb x c); [discriminate|].
  destruct (split_on c s); discriminate. Qed.

Lemma split_single_fuel c : forall n s, (length s < n)%nat ->
  split_str_fuel n [c] s = split_on c s.
Proof.
  induction n as [|n IH]; intros s Hl; [lia|].
  destruct s as [|x s]; [reflexivity|].
  cbn [split_str_fuel is_prefix split_on length drop_n]. rewrite andb_true_r.
  rewrite (N.eqb_sym c x). cbn in Hl.
  destruct (N.eqb x c); rewrite IH by lia; reflexivity.
Qed.

Lemma split_single c s : split_str [c] s = split_on c s.
Proof. unfold split_str. apply split_single_fuel. lia. Qed.

(* join after split is the identity *)
Lemma intercalate_cons_cons (sep : str) a b l :
  intercalate sep (a :: b :: l) = a ++ sep ++ intercalate sep (b :: l).
Proof. reflexivity. Qed.

Lemma intercalate_cons (sep : str) a l : l <> [] ->
  intercalate sep (a :: l) = a ++ sep ++ intercalate sep l.
Proof. destruct l; [congruence|reflexivity]. Qed.

Lemma join_split c s : intercalate [c] (split_on c s) = s.
Proof.
  induction s as [|x s IH]; [reflexivity|].
  cbn [split_on]. pose proof (split_on_nonnil c s) as Hn.
  destruct (N.eqb x c) eqn:E.
  - apply N.eqb_eq in E. subst x. rewrite intercalate_cons by assumption. rewrite IH. reflexivity.
  - destruct (split_on c s) as [|p ps]; [congruence|].
    destruct ps as [|q ps].
    + cbn in *. congruence.
    + rewrite intercalate_cons_cons in *. rewrite <- IH. reflexivity.
Qed.

Definition cfree (c : cp) (p : str) : Prop := Forall (fun x => N.eqb x c = false) p.

Lemma split_on_cfree c p : cfree c p -> split_on c p = [p].
Proof.
  induction 1 as [|x p Hx Hp IH]; [reflexivity|].
  cbn. rewrite Hx, IH. reflexivity.
Qed.

Lemma split_on_app_sep c p rest : cfree c p ->
  split_on c (p ++ c :: rest) = p :: split_on c rest.
Proof.
  induction 1 as [|x p Hx Hp IH]; cbn.
  - rewrite N.eqb_refl. reflexivity.
  - rewrite Hx, IH. reflexivity.
Qed.

Lemma split_join c ps : ps <> [] -> Forall (cfree c) ps ->
  split_on c (intercalate [c] ps) = ps.
Proof.
  induction ps as [|p ps IH]; [congruence|]. intros _ Hf.
  inversion Hf as [|? ? Hp Hps]; subst.
  destruct ps as [|q ps].
  - cbn. apply split_on_cfree; assumption.
  - rewrite intercalate_cons_cons. cbn [app].
    rewrite split_on_app_sep by assumption. f_equal. apply IH; [discriminate|assumption].
Qed.

Lemma take_n_length n (s : str) : (length (take_n n s) <= n)%nat.
Proof. revert s; induction n; intros [|x s]; cbn; try lia. specialize (IHn s). lia. Qed.

Lemma take_n_all n (s : str) : (length s <= n)%nat -> take_n n s = s.
Proof. revert s; induction n; intros [|x s] H; cbn in *; try reflexivity; try lia. f_equal. apply IHn. lia. Qed.

Lemma take_n_prefix n (s : str) : exists t, s = take_n n s ++ t.
Proof. revert s; induction n; intros s; [exists s; reflexivity|].
  destruct s as [|x s]; [exists []; reflexivity|]. destruct (IHn s) as [t Ht]. exists t. cbn. congruence. Qed.

Lemma drop_while_suffix p (s : str) : exists a, s = a ++ drop_while p s.
Proof. induction s as [|x s [a Ha]]; [exists []; reflexivity|]. cbn. destruct (p x).
  - exists (x :: a). cbn. congruence.
  - exists []. reflexivity. Qed.

Lemma dwe_prefix p (s : str) : exists b, s = drop_while_end p s ++ b.
Proof.
  unfold drop_while_end. destruct (drop_while_suffix p (rev s)) as [a Ha].
  exists (rev a). rewrite <- rev_app_distr, <- Ha, rev_involutive. reflexivity.
Qed.

Lemma drop_while_hd p (s : str) : match drop_while p s with x :: _ => p x = false | [] => True end.
Proof. induction s as [|x s IH]; cbn; [exact I|]. destruct (p x) eqn:E; [exact IH|exact E]. Qed.

Lemma drop_while_id p (s : str) : match s with x :: _ => p x = false | [] => True end -> drop_while p s = s.
Proof. destruct s as [|x s]; cbn; [reflexivity|]. intros ->. reflexivity. Qed.

Lemma dwe_last p (s : str) : forall x t, drop_while_end p s = t ++ [x] -> p x = false.
Proof.
  unfold drop_while_end. intros x t H. pose proof (drop_while_hd p (rev s)) as Hh.
  apply (f_equal (@rev _)) in H. rewrite rev_involutive, rev_app_distr in H. cbn in H.
  rewrite H in Hh. exact Hh.
Qed.

Lemma dwe_id p (s : str) : (forall x t, s = t ++ [x] -> p x = false) -> drop_while_end p s = s.
Proof.
  intros H. unfold drop_while_end. rewrite drop_while_id; [apply rev_involutive|].
  destruct (rev s) as [|x r] eqn:E; [exact I|].
  apply (H x (rev r)). apply (f_equal (@rev _)) in E. rewrite rev_involutive in E. exact E.
Qed.

Lemma forallb_Forall {A} (f : A -> bool) l : forallb f l = true <-> Forall (fun x => f x = true) l.
Proof. rewrite forallb_forall, Forall_forall. reflexivity. Qed.
