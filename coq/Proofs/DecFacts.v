From Coq Require Import Decimal DecimalN Lia.
From ZV Require Import Str Dec StrFacts.

Lemma digit_cons_inv c u v : digit_cons c u = Some v -> str_of_uint v = c :: str_of_uint u /\ is_ascii_digit c = true.
Proof.
  unfold digit_cons.
  repeat match goal with |- context [N.eqb c ?k] => destruct (N.eqb_spec c k); [subst; intros H; inversion H; subst; split; reflexivity|] end.
  discriminate.
Qed.

Lemma str_of_uint_of_str s : forall u, uint_of_str s = Some u -> str_of_uint u = s.
Proof.
  induction s as [|c s IH]; cbn; intros u H.
  - inversion H. reflexivity.
  - destruct (uint_of_str s) as [v|]; [|discriminate].
    apply digit_cons_inv in H. destruct H as [H _]. rewrite H, (IH v eq_refl). reflexivity.
Qed.

Lemma uint_of_str_digits s u : uint_of_str s = Some u -> all_b is_ascii_digit s = true.
Proof.
  revert u; induction s as [|c s IH]; cbn; intros u H; [reflexivity|].
  destruct (uint_of_str s) as [v|]; [|discriminate].
  apply digit_cons_inv in H. destruct H as [_ H]. rewrite H. cbn. apply (IH v eq_refl).
Qed.

Lemma uint_of_str_of_uint u : uint_of_str (str_of_uint u) = Some u.
Proof. induction u; cbn; try reflexivity; rewrite IHu; reflexivity. Qed.

Lemma digits_uint s : all_b is_ascii_digit s = true -> exists u, uint_of_str s = Some u.
Proof.
  induction s as [|c s IH]; cbn; [eexists; reflexivity|].
  intros H. apply andb_true_iff in H. destruct H as [Hc Hs].
  destruct (IH Hs) as [u ->]. unfold digit_cons, is_ascii_digit in *.
  apply andb_true_iff in Hc. destruct Hc as [H1 H2]. apply N.leb_le in H1. apply N.leb_le in H2.
  repeat match goal with |- context [N.eqb c ?k] => destruct (N.eqb_spec c k); [eexists; reflexivity|] end.
  lia.
Qed.

Lemma print_dec_nonnil n : print_dec n <> [].
Proof.
  unfold print_dec. destruct n as [|p]; cbn; [discriminate|].
  pose proof (DecimalPos.Unsigned.to_uint_nonnil p) as H.
  destruct (Pos.to_uint p); cbn; congruence.
Qed.

Theorem parse_print n : parse_dec (print_dec n) = Some n.
Proof.
  unfold parse_dec. pose proof (print_dec_nonnil n) as Hn.
  destruct (print_dec n) eqn:E; [congruence|]. rewrite <- E. unfold print_dec.
  rewrite uint_of_str_of_uint, DecimalN.Unsigned.of_to. reflexivity.
Qed.

Lemma canonical_unorm s u : canonical_dec s = true -> uint_of_str s = Some u -> unorm u = u.
Proof.
  intros Hc Hu. destruct s as [|c s]; [discriminate|].
  cbn in Hu. destruct (uint_of_str s) as [v|] eqn:Ev; [|discriminate].
  destruct s as [|c2 s].
  - cbn in Ev. inversion Ev; subst. unfold digit_cons in Hu.
    repeat match type of Hu with context [N.eqb c ?k] => destruct (N.eqb_spec c k); [inversion Hu; reflexivity|] end.
    discriminate.
  - cbn [canonical_dec] in Hc. apply andb_true_iff in Hc. destruct Hc as [_ H0].
    unfold digit_cons in Hu. destruct (N.eqb c 48); [discriminate|].
    repeat match type of Hu with context [N.eqb c ?k] => destruct (N.eqb_spec c k); [inversion Hu; reflexivity|] end.
    discriminate.
Qed.

Theorem print_parse_canonical s n : canonical_dec s = true -> parse_dec s = Some n -> print_dec n = s.
Proof.
  intros Hc Hp. unfold parse_dec in Hp. destruct s as [|c s]; [discriminate|].
  destruct (uint_of_str (c :: s)) as [u|] eqn:Eu; [|discriminate]. inversion Hp; subst n.
  unfold print_dec. rewrite DecimalN.Unsigned.to_of, (canonical_unorm _ _ Hc Eu).
  apply str_of_uint_of_str, Eu.
Qed.

Lemma str_of_uint_digits u : all_b is_ascii_digit (str_of_uint u) = true.
Proof. induction u; cbn; try reflexivity; exact IHu. Qed.

Lemma unorm_fix_canonical u : unorm u = u -> canonical_dec (str_of_uint u) = true.
Proof.
  intros H. destruct u as [|v|v|v|v|v|v|v|v|v|v];
  try (cbn [str_of_uint canonical_dec]; destruct (str_of_uint v) eqn:E; [reflexivity|];
       rewrite <- E; change (all_b is_ascii_digit (?c :: str_of_uint v)) with (is_ascii_digit c && all_b is_ascii_digit (str_of_uint v));
       rewrite str_of_uint_digits; reflexivity).
  - discriminate.
  - unfold unorm in H. destruct (nzhead (D0 v)) eqn:E; try (exfalso; apply (DecimalFacts.nzhead_nonzero (D0 v) v); congruence).
    inversion H; subst. reflexivity.
Qed.

Lemma print_dec_canonical n : canonical_dec (print_dec n) = true.
Proof.
  unfold print_dec. apply unorm_fix_canonical.
  rewrite <- (DecimalN.Unsigned.to_of (N.to_uint n)), DecimalN.Unsigned.of_to. reflexivity.
Qed.

Lemma canonical_digits s : canonical_dec s = true -> all_b is_ascii_digit s = true.
Proof.
  destruct s as [|c [|d s]]; cbn [canonical_dec]; [discriminate| |].
  - intros H. cbn. rewrite H. reflexivity.
  - intros H. apply andb_true_iff in H. tauto.
Qed.

Lemma print_dec_all_digits n : all_b is_ascii_digit (print_dec n) = true.
Proof. apply canonical_digits, print_dec_canonical. Qed.
