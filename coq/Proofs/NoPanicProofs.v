(* C13 / C09 / C01: PEP440::from(Zerv) never reaches the unwrap() in add_flattened_to_local -
   a consequence of the sanitiser contract (C16): what is flattened into the local segment is a list of
   non-empty ASCII-alphanumeric parts, and sanitising such a part cannot introduce a dot. *)
From Coq Require Import Lia.
From ZV Require Import Str Dec Sanitize SanitizeSpec StrFacts SanitizeProofs Zerv Render Pep440.
Open Scope N_scope.

Lemma dot_not_alnum : is_ascii_alnum c_dot = false.
Proof. reflexivity. Qed.

Lemma pep_local_is_custom : pep440_local_str = custom_str (Some [c_dot]) true false None.
Proof. reflexivity. Qed.

(* every resolved value is a sanitiser output *)
Lemma comp_value_sanitized c vs z x : comp_value c vs z = Some x -> exists y, x = sanitize z y.
Proof.
  destruct c as [s|n|v]; cbn [comp_value].
  - intros H. inversion H. eexists. reflexivity.
  - intros H. inversion H. eexists. reflexivity.
  - unfold var_value, omap.
    destruct v; try (destruct (v_pre vs) as [p|]; [destruct (pr_num p)|]);
    repeat match goal with
    | |- context [match ?o with Some _ => _ | None => _ end] => destruct o
    end; intros H; try discriminate; inversion H; eexists; reflexivity.
Qed.

Lemma alnum_no_dot g : alnum g -> existsb (N.eqb c_dot) g = false.
Proof.
  induction 1 as [|x g Hx Hg IH]; [reflexivity|]. cbn. rewrite IH, orb_false_r.
  apply (alnum_not_c c_dot dot_not_alnum x Hx).
Qed.

Lemma lower_alnum x : is_ascii_alnum x = true -> is_ascii_alnum (ascii_lower x) = true.
Proof.
  unfold ascii_lower. destruct (is_ascii_upper x) eqn:E; [|tauto]. intros _.
  unfold is_ascii_upper in E. apply andb_true_iff in E. destruct E as [E1 E2]. apply N.leb_le in E1. apply N.leb_le in E2.
  unfold is_ascii_alnum, is_ascii_alpha, is_ascii_lower.
  assert (H1 : (97 <=? x + 32) = true) by (apply N.leb_le; lia).
  assert (H2 : (x + 32 <=? 122) = true) by (apply N.leb_le; lia).
  rewrite H1, H2. cbn. rewrite orb_true_r. reflexivity.
Qed.

Lemma split_by_alnum_single g : alnum g -> split_by non_alnum g = [g].
Proof. apply split_by_piece. Qed.

(* sanitising a non-empty alphanumeric part yields an alphanumeric string: no dot *)
Lemma sanitize_part_no_dot g : g <> [] -> alnum g -> existsb (N.eqb c_dot) (sanitize pep440_local_str g) = false.
Proof.
  intros Hne Hg. unfold sanitize. cbn [sz_uint pep440_local_str].
  change (sanitize_to_string pep440_local_str g) with (sanitize_to_string (custom_str (Some [c_dot]) true false None) g).
  rewrite (shape_nomax c_dot dot_not_alnum). unfold lowered, f_of.
  assert (Hl : alnum (map ascii_lower g)).
  { unfold alnum in *. apply Forall_forall. intros x Hx. apply in_map_iff in Hx. destruct Hx as [y [<- Hy]].
    apply lower_alnum. rewrite Forall_forall in Hg. apply Hg, Hy. }
  unfold ascii_runs. rewrite (split_by_alnum_single _ Hl).
  destruct (map ascii_lower g) as [|y l] eqn:El.
  - destruct g; [congruence|discriminate].
  - cbn [filter is_nil negb map intercalate]. apply alnum_no_dot. apply strip_alnum. exact Hl.
Qed.

Lemma all_some_map {A B} (f : A -> option B) l : (forall x, In x l -> f x <> None) -> all_some (map f l) <> None.
Proof.
  induction l as [|x l IH]; intros H; cbn; [discriminate|].
  destruct (f x) eqn:E; [|exfalso; apply (H x); [left; reflexivity|exact E]].
  assert (IH' : all_some (map f l) <> None) by (apply IH; intros y Hy; apply H; right; exact Hy).
  destruct (all_some (map f l)); [discriminate|congruence].
Qed.

Lemma local_seg_good g : good g -> local_seg g <> None.
Proof.
  intros [Hne Hg]. unfold local_seg. destruct (parse_u32 g); [discriminate|].
  rewrite (sanitize_part_no_dot g Hne Hg). discriminate.
Qed.

Lemma flatten_local_total y : flatten_local (sanitize pep440_local_str y) <> None.
Proof.
  unfold flatten_local.
  pose proof (contract_holds c_dot dot_not_alnum true false None y) as C.
  change (sanitize_to_string (custom_str (Some [c_dot]) true false None) y) with (sanitize pep440_local_str y) in C.
  destruct C as [[segs [E [Hgood _]]] _]. rewrite E.
  apply all_some_map. intros g Hin. apply local_seg_good.
  apply filter_In in Hin. destruct Hin as [Hin Hne].
  destruct segs as [|s0 segs'].
  - cbn in Hin. destruct Hin as [<-|[]]. discriminate.
  - rewrite split_join in Hin; [|discriminate|apply (good_cfree c_dot dot_not_alnum), Hgood].
    rewrite Forall_forall in Hgood. destruct (Hgood g Hin) as [H1 H2]. split; assumption.
Qed.

Lemma local_value_total c vs : local_value c vs <> None.
Proof.
  unfold local_value. destruct (comp_value c vs pep440_local_str) as [x|] eqn:E; [|discriminate].
  destruct (nonempty x); [|discriminate].
  destruct (comp_value_sanitized _ _ _ _ E) as [y ->]. apply flatten_local_total.
Qed.

Lemma add_local_no_panic a l : q_panic a = false -> l <> None -> q_panic (pep_add_local a l) = false.
Proof. intros H Hl. unfold pep_add_local. destruct l; [exact H|congruence]. Qed.

Lemma core_step_no_panic vs a c : q_panic a = false -> q_panic (pep_core_step vs a c) = false.
Proof.
  intros H. unfold pep_core_step. destruct (u32_value c vs); [exact H|].
  apply add_local_no_panic; [exact H|apply local_value_total].
Qed.

Lemma extra_step_no_panic vs a c : q_panic a = false -> q_panic (pep_extra_step vs a c) = false.
Proof.
  intros H. unfold pep_extra_step.
  destruct c as [s|n|v]; try (apply add_local_no_panic; [exact H|apply local_value_total]).
  destruct v; try (apply add_local_no_panic; [exact H|apply local_value_total]).
  - destruct (u32_value (CVar Epoch) vs); exact H.
  - destruct (var_expanded PreRelease vs pep440_local_str) as [|e0 rest]; [exact H|]. destruct (nonempty e0); exact H.
  - destruct (u32_value (CVar Post) vs); exact H.
  - destruct (u32_value (CVar Dev) vs); exact H.
Qed.

Lemma build_step_no_panic vs a c : q_panic a = false -> q_panic (pep_build_step vs a c) = false.
Proof. intros H. apply add_local_no_panic; [exact H|apply local_value_total]. Qed.

Lemma fold_no_panic (step : pep_acc -> component -> pep_acc) :
  (forall a c, q_panic a = false -> q_panic (step a c) = false) ->
  forall cs a, q_panic a = false -> q_panic (fold_left step cs a) = false.
Proof. intros Hs. induction cs as [|c cs IH]; intros a H; [exact H|]. cbn. apply IH, Hs, H. Qed.

Theorem pep_of_zerv_total z : pep_of_zerv z <> None.
Proof.
  unfold pep_of_zerv.
  set (a1 := fold_left (pep_core_step (z_vars z)) (s_core (z_schema z)) {| q := pep_empty; q_panic := false |}).
  assert (H1 : q_panic a1 = false) by (apply fold_no_panic; [apply core_step_no_panic|reflexivity]).
  set (a1' := match p_release (q a1) with [] => _ | _ => a1 end).
  assert (H1' : q_panic a1' = false) by (unfold a1'; destruct (p_release (q a1)); exact H1).
  set (a2 := fold_left (pep_extra_step (z_vars z)) (s_extra (z_schema z)) a1').
  assert (H2 : q_panic a2 = false) by (apply fold_no_panic; [apply extra_step_no_panic|exact H1']).
  set (a3 := fold_left (pep_build_step (z_vars z)) (s_build (z_schema z)) a2).
  assert (H3 : q_panic a3 = false) by (apply fold_no_panic; [apply build_step_no_panic|exact H2]).
  rewrite H3. discriminate.
Qed.
