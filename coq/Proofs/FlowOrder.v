(* C03: composition.  An object whose version variables are (X, Y, W) with a pre-release set, rendered through a schema with the
   standard core that shows the pre-release variable, is a SemVer PRE-RELEASE of X.Y.W (core exactly X.Y.W, non-empty identifier
   list).  With the flow law (W = Z+1 when the base X.Y.Z is a final release) every such flow version lies strictly between
   X.Y.Z and X.Y.(Z+1) in SemVer precedence. *)
From Coq Require Import Lia.
From ZV Require Import Str Dec Sanitize SanitizeSpec StrFacts DecFacts SanitizeProofs Zerv Render SemVer SemVerSpec Pep440 Convert Bump NoPanicProofs IdentProofs
                       PepRoundTrip SemVerRoundTrip FlowLaw.
Open Scope N_scope.

Lemma standard_core_numbers vs x y w : v_major vs = Some x -> v_minor vs = Some y -> v_patch vs = Some w -> u64 x -> u64 y -> u64 w ->
  sv_process_core standard_core vs O {| a_major := 0; a_minor := 0; a_patch := 0; a_pre := None; a_build := None |}
  = {| a_major := x; a_minor := y; a_patch := w; a_pre := None; a_build := None |}.
Proof.
  intros E1 E2 E3 Hx Hy Hw. unfold standard_core. cbn [sv_process_core comp_value var_value omap]. rewrite E1, E2, E3. cbn [omap].
  rewrite !uint_sanitize_print, !print_dec_nonempty, (parse_u64_print x Hx), (parse_u64_print y Hy), (parse_u64_print w Hw). reflexivity.
Qed.

Lemma pre_ids_nonempty vs p : v_pre vs = Some p -> sv_extra_ids (CVar PreRelease) vs <> [].
Proof.
  intros E. cbn [sv_extra_ids is_secondary]. unfold sv_secondary, var_expanded. rewrite E. rewrite key_label. cbn [filter]. rewrite nonempty_label. cbn [map]. discriminate.
Qed.

Lemma flat_map_nonempty {A B} (f : A -> list B) l x : In x l -> f x <> [] -> flat_map f l <> [].
Proof.
  induction l as [|y l IH]; [intros []|]. intros [->|H] Hf; cbn [flat_map].
  - destruct (f x); [congruence|discriminate].
  - intros E. apply app_eq_nil in E. destruct E as [_ E]. exact (IH H Hf E).
Qed.

Theorem prerelease_rendering z x y w p :
  s_core (z_schema z) = standard_core -> In (CVar PreRelease) (s_extra (z_schema z)) ->
  v_major (z_vars z) = Some x -> v_minor (z_vars z) = Some y -> v_patch (z_vars z) = Some w -> v_pre (z_vars z) = Some p ->
  u64 x -> u64 y -> u64 w ->
  exists pre, pre <> [] /\ sv_major (semver_of_zerv z) = x /\ sv_minor (semver_of_zerv z) = y /\ sv_patch (semver_of_zerv z) = w /\
              sv_pre (semver_of_zerv z) = Some pre.
Proof.
  intros Hc Hin E1 E2 E3 Ep Hx Hy Hw. unfold semver_of_zerv. rewrite Hc, (standard_core_numbers _ x y w E1 E2 E3 Hx Hy Hw).
  cbn [a_major a_minor a_patch a_pre a_build sv_major sv_minor sv_patch sv_pre]. rewrite push_fold, push_none.
  pose proof (flat_map_nonempty (fun c => sv_extra_ids c (z_vars z)) _ _ Hin (pre_ids_nonempty _ p Ep)) as Hne.
  destruct (flat_map _ _) as [|i l] eqn:F; [congruence|]. exists (i :: l). repeat split; discriminate.
Qed.

(* the SemVer sandwich for flow versions off a final tag X.Y.Z *)
Theorem flow_version_between z x y zz p :
  s_core (z_schema z) = standard_core -> In (CVar PreRelease) (s_extra (z_schema z)) ->
  v_major (z_vars z) = Some x -> v_minor (z_vars z) = Some y -> v_patch (z_vars z) = Some (zz + 1) -> v_pre (z_vars z) = Some p ->
  u64 x -> u64 y -> u64 (zz + 1) ->
  sv_lt {| sv_major := x; sv_minor := y; sv_patch := zz; sv_pre := None; sv_build := None |} (semver_of_zerv z) /\
  sv_lt (semver_of_zerv z) {| sv_major := x; sv_minor := y; sv_patch := zz + 1; sv_pre := None; sv_build := None |}.
Proof.
  intros Hc Hin E1 E2 E3 Ep Hx Hy Hw.
  destruct (prerelease_rendering z x y (zz + 1) p Hc Hin E1 E2 E3 Ep Hx Hy Hw) as [pre [Hne [M1 [M2 [M3 M4]]]]].
  split.
  - apply sv_patch_lt; cbn [sv_major sv_minor sv_patch]; [symmetry; exact M1|symmetry; exact M2|rewrite M3; lia].
  - eapply sv_pre_rel; cbn [sv_major sv_minor sv_patch sv_pre]; [exact M1|exact M2|exact M3|exact M4|reflexivity].
Qed.

(* and the law supplies exactly such variables when the base is a final release (no pre-release) *)
Lemma law_vars_off_final vs opost lab n pamt dev x y zz :
  v_major vs = Some x -> v_minor vs = Some y -> v_patch vs = Some zz -> v_pre vs = None ->
  let vs' := law_vars vs opost lab n pamt dev in
  v_major vs' = Some x /\ v_minor vs' = Some y /\ v_patch vs' = Some (zz + 1) /\ v_pre vs' = Some {| pr_label := lab; pr_num := Some n |}.
Proof. intros E1 E2 E3 E4. unfold law_vars. cbn. rewrite E1, E2, E3, E4. cbn. repeat split; reflexivity. Qed.

(* ======================= the PEP 440 side ======================= *)
From ZV Require Import Pep440Spec Pep440StdOrder OrderFacts Pep440Order Placement PepPlacement PepWfProofs.

Definition pep_final (e : N) (r : list N) : pep :=
  {| p_epoch := e; p_release := r; p_pre_label := None; p_pre_num := None; p_post_label := false; p_post_num := None;
     p_dev_label := false; p_dev_num := None; p_local := None |}.

(* any PEP 440 value with release X.Y.(Z+1) and a pre-release label - whatever its post, dev and local parts - lies strictly between the
   final releases X.Y.Z and X.Y.(Z+1) of the same epoch, in the public PEP 440 order *)
Theorem pep_prerelease_between p e x y z l :
  p_epoch p = e -> p_release p = [x; y; z + 1] -> p_pre_label p = Some l ->
  pep_std_cmp (pep_final e [x; y; z]) p = Lt /\ pep_std_cmp p (pep_final e [x; y; z + 1]) = Lt.
Proof.
  intros He Hr Hl. unfold pep_std_cmp, pep_std_key, pair_cmp, then_with', std_pre, pep_final.
  cbn [fst snd p_epoch p_release p_pre_label p_pre_num p_post_label p_dev_label p_local]. rewrite He, Hr, Hl, !N.compare_refl.
  assert (H1 : lex N.compare (strip_zeros [x; y; z]) (strip_zeros [x; y; z + 1]) = Lt).
  { cbn [strip_zeros]. destruct (N.eqb_spec (z + 1) 0); [lia|].
    destruct (N.eqb_spec z 0) as [->|Hz].
    - destruct (N.eqb_spec y 0) as [->|Hy].
      + destruct (N.eqb_spec x 0) as [->|Hx]; cbn; rewrite ?N.compare_refl; reflexivity.
      + cbn. rewrite !N.compare_refl. reflexivity.
    - cbn. rewrite !N.compare_refl. assert (E : N.compare z (z + 1) = Lt) by (apply N.compare_lt_iff; lia). rewrite E. reflexivity. }
  rewrite H1. split; [reflexivity|].
  rewrite (gc_refl _ (lex_good N.compare N_good)). reflexivity.
Qed.

(* the PEP 440 rendering of an object with variables (X, Y, W) + pre-release through a validated standard-core schema showing the
   pre-release variable has release [X; Y; W] and a pre-release label *)
Lemma standard_release vs x y w : v_major vs = Some x -> v_minor vs = Some y -> v_patch vs = Some w -> u32 x -> u32 y -> u32 w ->
  pep_release_of vs standard_core = [x; y; w].
Proof.
  intros E1 E2 E3 Hx Hy Hw. unfold pep_release_of, standard_core. cbn [flat_map].
  rewrite (u32_value_var Major v_major vs numvar_major), (u32_value_var Minor v_minor vs numvar_minor), (u32_value_var Patch v_patch vs numvar_patch);
  rewrite ?E1, ?E2, ?E3; cbn; try assumption. reflexivity.
Qed.

Lemma owns_in v l : In (CVar v) l -> has_var v l = true.
Proof.
  intros H. unfold has_var. apply existsb_exists. exists (CVar v). split; [exact H|]. cbn. apply SchemaProofs.var_eqb_true. reflexivity.
Qed.

Theorem pep_prerelease_rendering z x y w lab n :
  schema_validate (z_schema z) = true -> s_core (z_schema z) = standard_core -> In (CVar PreRelease) (s_extra (z_schema z)) ->
  v_major (z_vars z) = Some x -> v_minor (z_vars z) = Some y -> v_patch (z_vars z) = Some w ->
  v_pre (z_vars z) = Some {| pr_label := lab; pr_num := Some n |} -> u32 x -> u32 y -> u32 w -> u32 n ->
  exists p, pep_of_zerv z = Some p /\ p_release p = [x; y; w] /\ p_pre_label p = Some lab.
Proof.
  intros Hv Hc Hin E1 E2 E3 Ep Hx Hy Hw Hn.
  assert (Hex : extra_ok (s_extra (z_schema z)) [] = true) by (unfold schema_validate in Hv; rewrite !andb_true_iff in Hv; tauto).
  exists (pep_placement z). split; [apply pep_refines_placement, Hex|].
  unfold pep_placement. cbn [pep_normalize p_release p_pre_label]. rewrite Hc, (standard_release _ x y w E1 E2 E3 Hx Hy Hw), (owns_in PreRelease _ Hin).
  split; [reflexivity|]. unfold pre_of_vars. rewrite (pre_expanded (z_vars z) lab n Ep), label_sanitized_nonempty. cbn [fst]. apply label_sanitized.
Qed.

Theorem flow_version_between_pep z x y zz lab n e :
  schema_validate (z_schema z) = true -> s_core (z_schema z) = standard_core -> In (CVar PreRelease) (s_extra (z_schema z)) ->
  v_major (z_vars z) = Some x -> v_minor (z_vars z) = Some y -> v_patch (z_vars z) = Some (zz + 1) ->
  v_pre (z_vars z) = Some {| pr_label := lab; pr_num := Some n |} -> u32 x -> u32 y -> u32 (zz + 1) -> u32 n ->
  exists p, pep_of_zerv z = Some p /\ (p_epoch p = e ->
    pep_std_cmp (pep_final e [x; y; zz]) p = Lt /\ pep_std_cmp p (pep_final e [x; y; zz + 1]) = Lt).
Proof.
  intros Hv Hc Hin E1 E2 E3 Ep Hx Hy Hw Hn.
  destruct (pep_prerelease_rendering z x y (zz + 1) lab n Hv Hc Hin E1 E2 E3 Ep Hx Hy Hw Hn) as [p [P1 [P2 P3]]].
  exists p. split; [exact P1|]. intros He. apply (pep_prerelease_between p e x y zz lab He P2 P3).
Qed.

(* ======================= monotonicity in commit post-mode (SemVer) ======================= *)
(* the pre-release identifiers of an object rendered through the standard extra-core lists that print the post number *)
Lemma extra_ids_full vs e pl po pd :
  v_epoch vs = e -> v_pre vs = (match pl with Some (l, n) => Some {| pr_label := l; pr_num := Some n |} | None => None end) -> v_post vs = po -> v_dev vs = pd ->
  opt_u64 e -> (match pl with Some (_, n) => u64 n | None => True end) -> opt_u64 po -> opt_u64 pd ->
  flat_map (fun c => sv_extra_ids c vs) prerelease_post_dev_extra = canon_pre e pl po pd /\
  flat_map (fun c => sv_extra_ids c vs) prerelease_post_extra = canon_pre e pl po None.
Proof.
  intros Ee Ep Eo Ed He Hpl Hpo Hpd. unfold prerelease_post_dev_extra, prerelease_post_extra, canon_pre. cbn [flat_map sv_extra_ids is_secondary]. rewrite !app_nil_r.
  assert (A1 : sv_secondary Epoch vs = match e with Some n => [IStr s_epoch; IUInt n] | None => [] end).
  { destruct e as [n|]; [apply (secondary_epoch vs n Ee He)|apply (secondary_none Epoch vs eq_refl Ee)]. }
  assert (A2 : sv_secondary PreRelease vs = match pl with Some (l, n) => [IStr (label_str l); IUInt n] | None => [] end).
  { destruct pl as [[l n]|]; [apply (secondary_pre vs l n Ep Hpl)|apply (secondary_none PreRelease vs eq_refl Ep)]. }
  assert (A3 : sv_secondary Post vs = match po with Some n => [IStr s_post; IUInt n] | None => [] end).
  { destruct po as [n|]; [apply (secondary_post vs n Eo Hpo)|apply (secondary_none Post vs eq_refl Eo)]. }
  assert (A4 : sv_secondary Dev vs = match pd with Some n => [IStr s_dev; IUInt n] | None => [] end).
  { destruct pd as [n|]; [apply (secondary_dev vs n Ed Hpd)|apply (secondary_none Dev vs eq_refl Ed)]. }
  rewrite A1, A2, A3, A4. split; [reflexivity|]. rewrite ?app_nil_r. reflexivity.
Qed.

(* two objects that differ only in the post number (and possibly dev / context / build), same label and number, no epoch: the one with
   the larger post number renders strictly greater - through either standard extra-core list that prints post *)
Theorem post_monotone_rendering z1 z2 x y w lab n p1 p2 :
  z_schema z1 = z_schema z2 -> s_core (z_schema z1) = standard_core ->
  (s_extra (z_schema z1) = prerelease_post_dev_extra \/ s_extra (z_schema z1) = prerelease_post_extra) ->
  (forall z, z = z1 \/ z = z2 -> v_major (z_vars z) = Some x /\ v_minor (z_vars z) = Some y /\ v_patch (z_vars z) = Some w /\ v_epoch (z_vars z) = None /\
                                v_pre (z_vars z) = Some {| pr_label := lab; pr_num := Some n |} /\ opt_u64 (v_dev (z_vars z))) ->
  v_post (z_vars z1) = Some p1 -> v_post (z_vars z2) = Some p2 -> p1 < p2 ->
  u64 x -> u64 y -> u64 w -> u64 n -> u64 p1 -> u64 p2 ->
  sv_lt (semver_of_zerv z1) (semver_of_zerv z2).
Proof.
  intros Hs Hc Hex Hv Hp1 Hp2 Hlt Hx Hy Hw Hn H1 H2.
  destruct (Hv z1 (or_introl eq_refl)) as [A1 [A2 [A3 [A4 [A5 A6]]]]]. destruct (Hv z2 (or_intror eq_refl)) as [B1 [B2 [B3 [B4 [B5 B6]]]]].
  assert (R : forall z p, z_schema z = z_schema z1 -> v_major (z_vars z) = Some x -> v_minor (z_vars z) = Some y -> v_patch (z_vars z) = Some w -> v_epoch (z_vars z) = None ->
              v_pre (z_vars z) = Some {| pr_label := lab; pr_num := Some n |} -> opt_u64 (v_dev (z_vars z)) -> v_post (z_vars z) = Some p -> u64 p ->
              exists rest, sv_major (semver_of_zerv z) = x /\ sv_minor (semver_of_zerv z) = y /\ sv_patch (semver_of_zerv z) = w /\
                           sv_pre (semver_of_zerv z) = Some (IStr (label_str lab) :: IUInt n :: IStr s_post :: IUInt p :: rest)).
  { intros z p Hz E1 E2 E3 E4 E5 E6 E7 Hp. unfold semver_of_zerv. rewrite Hz, Hc, (standard_core_numbers _ x y w E1 E2 E3 Hx Hy Hw).
    cbn [a_major a_minor a_patch a_pre a_build sv_major sv_minor sv_patch sv_pre]. rewrite push_fold, push_none.
    destruct (extra_ids_full (z_vars z) None (Some (lab, n)) (Some p) (v_dev (z_vars z)) E4 E5 E7 eq_refl I Hn Hp E6) as [F1 F2].
    destruct Hex as [Hex|Hex]; rewrite Hex.
    - rewrite F1. unfold canon_pre. cbn [app]. eexists. repeat split; reflexivity.
    - rewrite F2. unfold canon_pre. cbn [app]. eexists. repeat split; reflexivity. }
  destruct (R z1 p1 eq_refl A1 A2 A3 A4 A5 A6 Hp1 H1) as [r1 [M1 [M2 [M3 M4]]]].
  destruct (R z2 p2 (eq_sym Hs) B1 B2 B3 B4 B5 B6 Hp2 H2) as [r2 [N1 [N2 [N3 N4]]]].
  eapply sv_pre_ids; [congruence|congruence|congruence|exact M4|exact N4|].
  apply ids_tl, ids_tl, ids_tl, ids_hd, id_num. exact Hlt.
Qed.
