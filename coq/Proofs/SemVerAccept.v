(* C08: the SemVer parser accepts EXACTLY the BNF language restricted to core numbers below 2^64:
   membership in the BNF language (regex regenerated from the source, equal to the BNF by ka) implies that the field extraction succeeds. *)
From Coq Require Import Lia.
From ZV Require Import Str Dec StrFacts DecFacts SemVer SemVerProofs Rx RegexSrc RxLang RegexEquiv GrammarKa GrammarProofs ParseBack.
From RelationAlgebra Require regex.
Open Scope N_scope.

Notation A := semver_atom_of.
Notation L := regex.lang.

(* ---- language of strings ---- *)
Definition LS (e : regex.regex) (s : str) : Prop := L e (map A s).

Lemma LS_dot_inv e f s : LS (regex.r_dot e f) s -> exists s1 s2, s = s1 ++ s2 /\ LS e s1 /\ LS f s2.
Proof.
  unfold LS. intros H. apply lang_dot_inv in H. destruct H as [u [v [E [Hu Hv]]]]. apply map_eq_app in E. destruct E as [s1 [s2 [E [E1 E2]]]].
  exists s1, s2. subst u v. repeat split; assumption.
Qed.

Lemma LS_pls_inv e f s : LS (regex.r_pls e f) s -> LS e s \/ LS f s.
Proof. apply lang_pls_inv. Qed.

Lemma LS_one_inv s : LS regex.r_one s -> s = [].
Proof. unfold LS. intros H. apply lang_one_inv in H. destruct s; [reflexivity|discriminate]. Qed.

Lemma concat_map_inv (s : str) : forall ws, map A s = concat ws -> exists ss, s = concat ss /\ map (map A) ss = ws.
Proof.
  intros ws. revert s. induction ws as [|w ws IH]; intros s E.
  - exists []. destruct s; [split; reflexivity|discriminate].
  - cbn [concat] in E. apply map_eq_app in E. destruct E as [s1 [s2 [E [E1 E2]]]]. destruct (IH s2 E2) as [ss [E3 E4]].
    exists (s1 :: ss). cbn. subst. split; reflexivity.
Qed.

Lemma LS_str_inv e s : LS (regex.r_str e) s -> exists ss, s = concat ss /\ Forall (LS e) ss.
Proof.
  unfold LS. intros H. apply lang_str_inv in H. destruct H as [ws [E F]]. destruct (concat_map_inv s ws E) as [ss [E1 E2]]. exists ss. split; [exact E1|].
  subst ws. clear -F. induction ss as [|x ss IH]; [constructor|]. inversion F; subst. constructor; [assumption|apply IH; assumption].
Qed.

(* ---- single characters: class membership inverted by a sweep over ASCII plus one representative of the rest ---- *)
Lemma atom_high c : 128 <= c -> A c = A 128.
Proof.
  intros H. unfold semver_atom_of.
  repeat match goal with |- context [N.ltb c ?k] => let E := fresh in destruct (N.ltb_spec c k) as [E|E]; [exfalso; lia|] end.
  reflexivity.
Qed.

Definition cls_sweep_inv (p : cp -> bool) (e : regex.regex) : bool :=
  cls_b e && negb (p 128) && forallb (fun c => implb (rx_accepts e [A c]) (p c)) (nrange_from 129 0).

Lemma cls_inv p e : cls_sweep_inv p e = true -> forall s, LS e s -> exists c, s = [c] /\ p c = true.
Proof.
  intros Hs s H. unfold cls_sweep_inv in Hs. apply andb_true_iff in Hs. destruct Hs as [Hs Hf]. apply andb_true_iff in Hs. destruct Hs as [Hc Hp].
  destruct (cls_single e Hc _ H) as [a Ea]. destruct s as [|c [|d t]]; try discriminate. exists c. split; [reflexivity|].
  rewrite forallb_forall in Hf. unfold LS in H. cbn [map] in H. apply rx_accepts_lang in H.
  destruct (N.lt_ge_cases c 128) as [Hlt|Hge].
  - specialize (Hf c (in_nrange_from 129 0 c ltac:(lia))). rewrite H in Hf. exact Hf.
  - rewrite (atom_high c Hge) in H. specialize (Hf 128 (in_nrange_from 129 0 128 ltac:(lia))). rewrite H in Hf. cbn [implb] in Hf.
    rewrite Hf in Hp. discriminate.
Qed.

Definition is_nondigit (c : cp) : bool := is_ascii_alpha c || (c =? 45).

Lemma zero_inv s : LS semver_cls_zero s -> s = [c_0].
Proof. intros H. destruct (cls_inv (fun c => c =? 48) semver_cls_zero ltac:(vm_compute; reflexivity) s H) as [c [-> E]]. apply N.eqb_eq in E. subst. reflexivity. Qed.
Lemma posdigit_inv s : LS semver_cls_posdigit s -> exists c, s = [c] /\ is_posdigit c = true.
Proof. apply cls_inv. vm_compute. reflexivity. Qed.
Lemma digit_inv s : LS semver_cls_digit s -> exists c, s = [c] /\ is_ascii_digit c = true.
Proof. apply cls_inv. vm_compute. reflexivity. Qed.
Lemma idc_inv s : LS idc_r s -> exists c, s = [c] /\ is_ident_char c = true.
Proof. apply cls_inv. vm_compute. reflexivity. Qed.
Lemma nd_inv s : LS nd_r s -> exists c, s = [c] /\ is_nondigit c = true.
Proof. apply cls_inv. vm_compute. reflexivity. Qed.
Lemma dot_inv s : LS semver_cls_dot s -> s = [c_dot].
Proof. intros H. destruct (cls_inv (fun c => c =? 46) semver_cls_dot ltac:(vm_compute; reflexivity) s H) as [c [-> E]]. apply N.eqb_eq in E. subst. reflexivity. Qed.
Lemma dash_inv s : LS semver_cls_dash s -> s = [c_dash].
Proof. intros H. destruct (cls_inv (fun c => c =? 45) semver_cls_dash ltac:(vm_compute; reflexivity) s H) as [c [-> E]]. apply N.eqb_eq in E. subst. reflexivity. Qed.
Lemma plus_inv s : LS semver_cls_plus s -> s = [c_plus].
Proof. intros H. destruct (cls_inv (fun c => c =? 43) semver_cls_plus ltac:(vm_compute; reflexivity) s H) as [c [-> E]]. apply N.eqb_eq in E. subst. reflexivity. Qed.
Lemma vee_inv s : LS semver_cls_vee s -> s = [118].
Proof. intros H. destruct (cls_inv (fun c => c =? 118) semver_cls_vee ltac:(vm_compute; reflexivity) s H) as [c [-> E]]. apply N.eqb_eq in E. subst. reflexivity. Qed.

(* a starred class: every character satisfies the predicate *)
Lemma star_cls_inv p e : (forall s, LS e s -> exists c, s = [c] /\ p c = true) -> forall s, LS (regex.r_str e) s -> all_b p s = true.
Proof.
  intros H s Hs. apply LS_str_inv in Hs. destruct Hs as [ss [-> F]]. unfold all_b. induction F as [|x ss Hx _ IH]; [reflexivity|].
  destruct (H x Hx) as [c [-> Hc]]. cbn [concat app forallb]. rewrite Hc, IH. reflexivity.
Qed.

(* ---- numbers and identifiers ---- *)
Lemma posdigit_digit c : is_posdigit c = true -> is_ascii_digit c = true /\ (c =? 48) = false.
Proof.
  unfold is_posdigit, is_ascii_digit. intros H. apply andb_true_iff in H. destruct H as [H1 H2]. apply N.leb_le in H1. apply N.leb_le in H2.
  split; [apply andb_true_iff; split; apply N.leb_le; lia|apply N.eqb_neq; lia].
Qed.

Lemma num_inv a : LS sv_num_r a -> canonical_dec a = true.
Proof.
  unfold sv_num_r. intros H. apply LS_pls_inv in H. destruct H as [H|H].
  - apply zero_inv in H. subst. reflexivity.
  - apply LS_dot_inv in H. destruct H as [s1 [s2 [-> [H1 H2]]]]. apply posdigit_inv in H1. destruct H1 as [c [-> Hc]].
    destruct (posdigit_digit c Hc) as [Hd Hz]. pose proof (star_cls_inv is_ascii_digit _ digit_inv s2 H2) as Hs.
    cbn [app canonical_dec]. destruct s2 as [|d t]; [exact Hd|]. unfold all_b in *. cbn [forallb] in *. rewrite Hd, Hs, Hz. reflexivity.
Qed.

Lemma digit_ident c : is_ascii_digit c = true -> is_ident_char c = true.
Proof. intros H. unfold is_ident_char, is_ascii_alnum. rewrite H, orb_true_r. reflexivity. Qed.

Lemma all_b_impl (p q : cp -> bool) s : (forall c, p c = true -> q c = true) -> all_b p s = true -> all_b q s = true.
Proof.
  intros H. unfold all_b. induction s as [|c s IH]; [reflexivity|]. cbn [forallb]. intros E. apply andb_true_iff in E. destruct E as [E1 E2].
  rewrite (H c E1), (IH E2). reflexivity.
Qed.

Lemma all_b_app (p : cp -> bool) s t : all_b p (s ++ t) = all_b p s && all_b p t.
Proof. unfold all_b. apply forallb_app. Qed.

Lemma canonical_numeric_like a : canonical_dec a = true -> numeric_like a = true.
Proof.
  intros C. unfold numeric_like. rewrite (canonical_digits a C). cbn [andb]. destruct a as [|x [|y t]]; [reflexivity|reflexivity|].
  cbn [canonical_dec] in C. apply andb_true_iff in C. tauto.
Qed.

Lemma nondigit_facts c : is_nondigit c = true -> is_ident_char c = true /\ is_ascii_digit c = false.
Proof.
  unfold is_nondigit, is_ident_char, is_ascii_alnum, is_ascii_alpha, is_ascii_upper, is_ascii_lower, is_ascii_digit. intros H.
  apply orb_true_iff in H. destruct H as [H|H].
  - rewrite H. split; [reflexivity|]. apply orb_true_iff in H. destruct H as [H|H]; apply andb_true_iff in H; destruct H as [H1 H2]; apply N.leb_le in H1; apply N.leb_le in H2;
      apply andb_false_iff; right; apply N.leb_gt; lia.
  - apply N.eqb_eq in H. subst. split; reflexivity.
Qed.

(* what the parser needs of a pre-release identifier / of a build identifier *)
Definition pre_part_ok (p : str) : Prop := p <> [] /\ all_b is_ident_char p = true /\ (all_b is_ascii_digit p = true -> numeric_like p = true).
Definition build_part_ok (p : str) : Prop := p <> [] /\ all_b is_ident_char p = true.

Lemma preid_inv p : LS preid_r p -> pre_part_ok p.
Proof.
  unfold preid_r. intros H. apply LS_pls_inv in H. destruct H as [H|H].
  - apply num_inv in H. split; [destruct p; [discriminate|discriminate]|]. split; [|intros _; apply canonical_numeric_like, H].
    apply (all_b_impl is_ascii_digit); [apply digit_ident|apply canonical_digits, H].
  - apply LS_dot_inv in H. destruct H as [x [r [-> [Hx H]]]]. apply LS_dot_inv in H. destruct H as [m [y [-> [Hm Hy]]]].
    apply nd_inv in Hm. destruct Hm as [c [-> Hc]]. destruct (nondigit_facts c Hc) as [Hi Hd].
    pose proof (star_cls_inv is_ident_char _ idc_inv x Hx) as Ax. pose proof (star_cls_inv is_ident_char _ idc_inv y Hy) as Ay.
    split; [destruct x; discriminate|]. split.
    + rewrite !all_b_app, Ax, Ay. unfold all_b. cbn [forallb]. rewrite Hi. reflexivity.
    + rewrite !all_b_app. unfold all_b at 2. cbn [forallb]. rewrite Hd. cbn [andb]. rewrite andb_false_r. discriminate.
Qed.

Lemma buildid_inv p : LS buildid_r p -> build_part_ok p.
Proof.
  unfold buildid_r. intros H. apply LS_dot_inv in H. destruct H as [x [y [-> [Hx Hy]]]]. apply idc_inv in Hx. destruct Hx as [c [-> Hc]].
  pose proof (star_cls_inv is_ident_char _ idc_inv y Hy) as Ay. split; [discriminate|]. cbn [app]. unfold all_b in *. cbn [forallb]. rewrite Hc, Ay. reflexivity.
Qed.

(* dotted lists *)
Definition dotted (ps : list str) : str := intercalate [c_dot] ps.

Lemma dotted_inv (e : regex.regex) (P : str -> Prop) : (forall p, LS e p -> P p) ->
  forall s, LS (regex.r_dot e (regex.r_str (regex.r_dot semver_cls_dot e))) s -> exists ps, ps <> [] /\ s = dotted ps /\ Forall P ps.
Proof.
  intros HP s H. apply LS_dot_inv in H. destruct H as [p0 [r [-> [H0 Hr]]]]. apply LS_str_inv in Hr. destruct Hr as [ss [-> F]].
  assert (G : exists qs, concat ss = flat_map (fun q => c_dot :: q) qs /\ Forall P qs).
  { clear -F HP. induction F as [|x ss Hx _ IH]; [exists []; split; [reflexivity|constructor]|]. destruct IH as [qs [E Fq]].
    apply LS_dot_inv in Hx. destruct Hx as [d [q [-> [Hd Hq]]]]. apply dot_inv in Hd. subst d. exists (q :: qs). cbn [concat flat_map app]. rewrite E.
    split; [reflexivity|constructor; [apply HP, Hq|exact Fq]]. }
  destruct G as [qs [E Fq]]. exists (p0 :: qs). split; [discriminate|]. split; [|constructor; [apply HP, H0|exact Fq]]. rewrite E. unfold dotted. clear.
  revert p0. induction qs as [|q qs IH]; intros p0; [cbn; rewrite app_nil_r; reflexivity|]. rewrite intercalate_cons_cons. cbn [flat_map app]. rewrite <- IH. reflexivity.
Qed.

(* ---- extraction succeeds on the structure ---- *)
Lemma all_b_cfree (p : cp -> bool) c s : p c = false -> all_b p s = true -> cfree c s.
Proof.
  intros Hc. unfold all_b, cfree. induction s as [|x s IH]; [constructor|]. cbn [forallb]. intros H. apply andb_true_iff in H. destruct H as [H1 H2].
  constructor; [apply N.eqb_neq; intros ->; congruence|apply IH, H2].
Qed.

Lemma pre_ident_ok p : pre_part_ok p -> exists i, parse_pre_ident p = Some i.
Proof.
  intros [Hne [Hi Hn]]. unfold parse_pre_ident. destruct p as [|x t] eqn:Ep; [congruence|]. rewrite <- Ep in *. rewrite Hi. cbn [negb].
  destruct (all_b is_ascii_digit p) eqn:D.
  - rewrite (Hn eq_refl). destruct (parse_u64 p); eexists; reflexivity.
  - eexists; reflexivity.
Qed.

Lemma build_ident_ok p : build_part_ok p -> exists i, parse_build_ident p = Some i.
Proof.
  intros [Hne Hi]. unfold parse_build_ident. destruct p as [|x t] eqn:Ep; [congruence|]. rewrite <- Ep in *. rewrite Hi. cbn [negb].
  destruct (numeric_like p); [destruct (parse_u64 p)|]; eexists; reflexivity.
Qed.

Lemma map_opt_ok (f : str -> option ident) ps : Forall (fun p => exists i, f p = Some i) ps -> exists l, map_opt f ps = Some l.
Proof.
  induction 1 as [|p ps [i Hi] _ [l Hl]]; [exists []; reflexivity|]. exists (i :: l). cbn [map_opt]. rewrite Hi, Hl. reflexivity.
Qed.

Lemma dotted_free c ps : c <> c_dot -> Forall (cfree c) ps -> cfree c (dotted ps).
Proof.
  intros Hd F. unfold dotted. induction F as [|p ps Hp _ IH]; [constructor|]. destruct ps as [|q ps]; [exact Hp|].
  rewrite intercalate_cons_cons. apply free_app; [exact Hp|]. apply free_app; [|exact IH]. constructor; [apply N.eqb_neq; intros E; apply Hd; symmetry; exact E|constructor].
Qed.

Definition opt_text (sep : cp) (o : option (list str)) : str := match o with Some ps => sep :: dotted ps | None => [] end.

Lemma extract_shape V a b c pre build :
  (V = [] \/ V = [118]) -> canonical_dec a = true -> canonical_dec b = true -> canonical_dec c = true ->
  (match pre with Some ps => ps <> [] /\ Forall pre_part_ok ps | None => True end) ->
  (match build with Some ps => ps <> [] /\ Forall build_part_ok ps | None => True end) ->
  parse_u64 a <> None -> parse_u64 b <> None -> parse_u64 c <> None ->
  exists v, semver_extract (V ++ (a ++ [c_dot] ++ b ++ [c_dot] ++ c) ++ opt_text c_dash pre ++ opt_text c_plus build) = Some v.
Proof.
  intros HV Ca Cb Cc Hp Hb Pa Pb Pc. unfold semver_extract.
  set (core := a ++ [c_dot] ++ b ++ [c_dot] ++ c).
  assert (Da := canonical_digits a Ca). assert (Db := canonical_digits b Cb). assert (Dc := canonical_digits c Cc).
  assert (Sv : strip_v (V ++ core ++ opt_text c_dash pre ++ opt_text c_plus build) = core ++ opt_text c_dash pre ++ opt_text c_plus build).
  { destruct HV as [->| ->]; [|reflexivity]. cbn [app]. unfold core. destruct a as [|x t]; [discriminate Ca|]. cbn [app strip_v].
    unfold all_b in Da. cbn [forallb] in Da. apply andb_true_iff in Da. destruct Da as [Dx _]. unfold is_ascii_digit in Dx. apply andb_true_iff in Dx. destruct Dx as [_ Dx].
    apply N.leb_le in Dx. destruct (N.eqb_spec x 118); [lia|reflexivity]. }
  rewrite Sv.
  assert (Free : forall x, is_ascii_digit x = false -> x <> c_dot -> cfree x core).
  { intros x Hx Hd. unfold core. repeat apply free_app; try (apply (all_b_cfree is_ascii_digit); assumption);
      (constructor; [apply N.eqb_neq; intros E; apply Hd; symmetry; exact E|constructor]). }
  assert (Cp : cfree c_plus core) by (apply Free; [reflexivity|discriminate]).
  assert (Cd : cfree c_dash core) by (apply Free; [reflexivity|discriminate]).
  assert (Core3 : split_on c_dot core = [a; b; c]).
  { unfold core. change (a ++ [c_dot] ++ b ++ [c_dot] ++ c) with (intercalate [c_dot] [a; b; c]). apply split_join; [discriminate|].
    repeat constructor; apply (all_b_cfree is_ascii_digit); try assumption; reflexivity. }
  set (main := core ++ opt_text c_dash pre).
  assert (Mp : cfree c_plus main).
  { unfold main. apply free_app; [exact Cp|]. destruct pre as [ps|]; [|constructor]. destruct Hp as [_ F]. cbn [opt_text].
    constructor; [reflexivity|]. apply dotted_free; [discriminate|]. eapply Forall_impl; [|exact F]. intros p [_ [Hi _]]. apply (all_b_cfree is_ident_char); [reflexivity|exact Hi]. }
  rewrite app_assoc. fold main.
  assert (Main : split_first c_dash main = (core, match pre with Some ps => Some (dotted ps) | None => None end)).
  { unfold main. destruct pre as [ps|]; cbn [opt_text]; [apply split_first_at, Cd|rewrite app_nil_r; apply split_first_free, Cd]. }
  assert (Nums : exists ma mi pa, parse_core_num a = Some ma /\ parse_core_num b = Some mi /\ parse_core_num c = Some pa).
  { unfold parse_core_num. rewrite Ca, Cb, Cc. destruct (parse_u64 a) as [x|]; [|congruence]. destruct (parse_u64 b) as [y|]; [|congruence].
    destruct (parse_u64 c) as [z|]; [|congruence]. exists x, y, z. repeat split; reflexivity. }
  destruct Nums as [ma [mi [pa [Na [Nb Nc]]]]].
  assert (Pre : match pre with Some ps => exists l, map_opt parse_pre_ident (split_on c_dot (dotted ps)) = Some l | None => True end).
  { destruct pre as [ps|]; [|exact I]. destruct Hp as [Hne F]. unfold dotted. rewrite split_join; [|exact Hne|].
    - apply map_opt_ok. eapply Forall_impl; [|exact F]. intros p. apply pre_ident_ok.
    - eapply Forall_impl; [|exact F]. intros p [_ [Hi _]]. apply (all_b_cfree is_ident_char); [reflexivity|exact Hi]. }
  assert (Bld : match build with Some ps => exists l, map_opt parse_build_ident (split_on c_dot (dotted ps)) = Some l | None => True end).
  { destruct build as [ps|]; [|exact I]. destruct Hb as [Hne F]. unfold dotted. rewrite split_join; [|exact Hne|].
    - apply map_opt_ok. eapply Forall_impl; [|exact F]. intros p. apply build_ident_ok.
    - eapply Forall_impl; [|exact F]. intros p [_ Hi]. apply (all_b_cfree is_ident_char); [reflexivity|exact Hi]. }
  destruct build as [bs|]; cbn [opt_text].
  - rewrite (split_first_at c_plus main _ Mp), Main, Core3, Na, Nb, Nc. destruct Bld as [lb ->].
    destruct pre as [ps|]; [destruct Pre as [lp ->]|]; eexists; reflexivity.
  - rewrite app_nil_r, (split_first_free c_plus main Mp), Main, Core3, Na, Nb, Nc.
    destruct pre as [ps|]; [destruct Pre as [lp ->]|]; eexists; reflexivity.
Qed.

(* ---- the decomposition of a BNF member ---- *)
Lemma opt_dotted_inv (sep e : regex.regex) (c : cp) (P : str -> Prop) :
  (forall s, LS sep s -> s = [c]) -> (forall p, LS e p -> P p) ->
  forall s, LS (regex.r_pls regex.r_one (regex.r_dot sep (regex.r_dot e (regex.r_str (regex.r_dot semver_cls_dot e))))) s ->
  exists o, s = opt_text c o /\ match o with Some ps => ps <> [] /\ Forall P ps | None => True end.
Proof.
  intros Hsep HP s H. apply LS_pls_inv in H. destruct H as [H|H].
  - apply LS_one_inv in H. subst. exists None. split; [reflexivity|exact I].
  - apply LS_dot_inv in H. destruct H as [x [r [-> [Hx Hr]]]]. apply Hsep in Hx. subst x. destruct (dotted_inv e P HP r Hr) as [ps [Hne [-> F]]].
    exists (Some ps). split; [reflexivity|split; assumption].
Qed.

Theorem member_shape s : L semver_spec (map A s) ->
  exists V a b c pre build, s = V ++ (a ++ [c_dot] ++ b ++ [c_dot] ++ c) ++ opt_text c_dash pre ++ opt_text c_plus build /\
    (V = [] \/ V = [118]) /\ canonical_dec a = true /\ canonical_dec b = true /\ canonical_dec c = true /\
    (match pre with Some ps => ps <> [] /\ Forall pre_part_ok ps | None => True end) /\
    (match build with Some ps => ps <> [] /\ Forall build_part_ok ps | None => True end).
Proof.
  intros H. apply (lang_incl _ _ sv_in_ka) in H. change (LS sv_in_r s) in H. unfold sv_in_r in H.
  apply LS_dot_inv in H. destruct H as [V [r [-> [HV H]]]].
  apply LS_dot_inv in H. destruct H as [a [r1 [-> [Ha H]]]]. apply LS_dot_inv in H. destruct H as [d1 [r2 [-> [Hd1 H]]]].
  apply LS_dot_inv in H. destruct H as [b [r3 [-> [Hb H]]]]. apply LS_dot_inv in H. destruct H as [d2 [r4 [-> [Hd2 H]]]].
  apply LS_dot_inv in H. destruct H as [c [r5 [-> [Hc H]]]]. apply LS_dot_inv in H. destruct H as [P [B [-> [HP HB]]]].
  apply dot_inv in Hd1. apply dot_inv in Hd2. subst d1 d2.
  destruct (opt_dotted_inv semver_cls_dash preid_r c_dash pre_part_ok dash_inv preid_inv P HP) as [pre [-> Hpre]].
  destruct (opt_dotted_inv semver_cls_plus buildid_r c_plus build_part_ok plus_inv buildid_inv B HB) as [build [-> Hbuild]].
  exists V, a, b, c, pre, build. split; [rewrite <- !app_assoc; reflexivity|]. split.
  - apply LS_pls_inv in HV. destruct HV as [HV|HV]; [left; apply LS_one_inv, HV|right; apply vee_inv, HV].
  - repeat split; try (apply num_inv; assumption); assumption.
Qed.

(* the three numbers in front of the first '-' / '+' *)
Definition core_of (s : str) : str := fst (split_first c_dash (fst (split_first c_plus (strip_v s)))).
Definition core_fits (s : str) : Prop := Forall (fun a => parse_u64 a <> None) (split_on c_dot (core_of s)).

Theorem member_extracts s : L semver_spec (map A s) -> core_fits s -> exists v, semver_extract s = Some v.
Proof.
  intros H Hf. destruct (member_shape s H) as [V [a [b [c [pre [build [E [HV [Ca [Cb [Cc [Hp Hb]]]]]]]]]]]].
  (* read the core of s off its shape, with the lemmas of extract_shape's proof: go through a successful run with arbitrary number bounds *)
  assert (K : core_of s = a ++ [c_dot] ++ b ++ [c_dot] ++ c /\ split_on c_dot (core_of s) = [a; b; c]).
  { subst s. unfold core_of.
    assert (Da := canonical_digits a Ca). assert (Db := canonical_digits b Cb). assert (Dc := canonical_digits c Cc).
    set (core := a ++ [c_dot] ++ b ++ [c_dot] ++ c).
    assert (Sv : strip_v (V ++ core ++ opt_text c_dash pre ++ opt_text c_plus build) = core ++ opt_text c_dash pre ++ opt_text c_plus build).
    { destruct HV as [->| ->]; [|reflexivity]. cbn [app]. unfold core. destruct a as [|x t]; [discriminate Ca|]. cbn [app strip_v].
      unfold all_b in Da. cbn [forallb] in Da. apply andb_true_iff in Da. destruct Da as [Dx _]. unfold is_ascii_digit in Dx. apply andb_true_iff in Dx. destruct Dx as [_ Dx].
      apply N.leb_le in Dx. destruct (N.eqb_spec x 118); [lia|reflexivity]. }
    rewrite Sv.
    assert (Free : forall x, is_ascii_digit x = false -> x <> c_dot -> cfree x core).
    { intros x Hx Hd. unfold core. repeat apply free_app; try (apply (all_b_cfree is_ascii_digit); assumption);
        (constructor; [apply N.eqb_neq; intros E; apply Hd; symmetry; exact E|constructor]). }
    assert (Cp : cfree c_plus core) by (apply Free; [reflexivity|discriminate]).
    assert (Cd : cfree c_dash core) by (apply Free; [reflexivity|discriminate]).
    assert (Mp : cfree c_plus (core ++ opt_text c_dash pre)).
    { apply free_app; [exact Cp|]. destruct pre as [ps|]; [|constructor]. destruct Hp as [_ F]. cbn [opt_text].
      constructor; [reflexivity|]. apply dotted_free; [discriminate|]. eapply Forall_impl; [|exact F]. intros p [_ [Hi _]]. apply (all_b_cfree is_ident_char); [reflexivity|exact Hi]. }
    rewrite app_assoc.
    assert (F1 : fst (split_first c_plus ((core ++ opt_text c_dash pre) ++ opt_text c_plus build)) = core ++ opt_text c_dash pre).
    { destruct build as [bs|]; cbn [opt_text]; [rewrite (split_first_at c_plus _ _ Mp)|rewrite app_nil_r, (split_first_free c_plus _ Mp)]; reflexivity. }
    rewrite F1.
    assert (F2 : fst (split_first c_dash (core ++ opt_text c_dash pre)) = core).
    { destruct pre as [ps|]; cbn [opt_text]; [rewrite (split_first_at c_dash _ _ Cd)|rewrite app_nil_r, (split_first_free c_dash _ Cd)]; reflexivity. }
    rewrite F2. split; [reflexivity|]. unfold core. change (a ++ [c_dot] ++ b ++ [c_dot] ++ c) with (intercalate [c_dot] [a; b; c]). apply split_join; [discriminate|].
    repeat constructor; apply (all_b_cfree is_ascii_digit); try assumption; reflexivity. }
  destruct K as [_ K]. unfold core_fits in Hf. rewrite K in Hf. inversion Hf as [|? ? Pa Hf1]; subst. inversion Hf1 as [|? ? Pb Hf2]; subst. inversion Hf2 as [|? ? Pc _]; subst.
  apply extract_shape; assumption.
Qed.

Lemma extracts_core_fits s v : semver_extract s = Some v -> core_fits s.
Proof.
  unfold semver_extract, core_fits, core_of. destruct (split_first c_plus (strip_v s)) as [main build]. cbn [fst]. destruct (split_first c_dash main) as [core pre]. cbn [fst].
  destruct (split_on c_dot core) as [|a [|b [|c [|d l]]]]; try discriminate.
  unfold parse_core_num. destruct (canonical_dec a); [|discriminate]. destruct (parse_u64 a) eqn:Pa; [|discriminate].
  destruct (canonical_dec b); [|discriminate]. destruct (parse_u64 b) eqn:Pb; [|discriminate].
  destruct (canonical_dec c); [|discriminate]. destruct (parse_u64 c) eqn:Pc; [|discriminate]. intros _. constructor; [rewrite Pa; discriminate|constructor; [rewrite Pb; discriminate|constructor; [rewrite Pc; discriminate|constructor]]].
Qed.

(* THE ACCEPTANCE THEOREM: zerv's SemVer parser accepts exactly the SemVer 2.0.0 BNF language (with the optional v), restricted to
   core numbers that fit u64 *)
Theorem semver_accepts_iff s : (exists v, semver_parse s = Some v) <-> L semver_spec (map A s) /\ core_fits s.
Proof.
  unfold semver_parse. split.
  - intros [v H]. destruct (rx_accepts semver_src (map A s)) eqn:R; [|discriminate]. split; [apply semver_regex_lang, rx_accepts_lang, R|apply (extracts_core_fits s v H)].
  - intros [H Hf]. assert (R : rx_accepts semver_src (map A s) = true) by (apply rx_accepts_lang, semver_regex_lang, H). rewrite R. apply member_extracts; assumption.
Qed.

Print Assumptions semver_accepts_iff.

(* ---- what is printed is accepted again: parsing is idempotent through the printer ---- *)
Lemma member_split s : L semver_spec (map A s) -> exists V r, s = V ++ r /\ (V = [] \/ V = [118]) /\ LS sv_rest_r r.
Proof.
  intros H. apply (lang_incl _ _ sv_in_ka) in H. change (LS sv_in_r s) in H. unfold sv_in_r in H.
  apply LS_dot_inv in H. destruct H as [V [r [-> [HV H]]]]. exists V, r. split; [reflexivity|]. split; [|exact H].
  apply LS_pls_inv in HV. destruct HV as [HV|HV]; [left; apply LS_one_inv, HV|right; apply vee_inv, HV].
Qed.

Lemma rest_starts_with_digit r : LS sv_rest_r r -> exists c t, r = c :: t /\ is_ascii_digit c = true.
Proof.
  unfold sv_rest_r. intros H. apply LS_dot_inv in H. destruct H as [a [r1 [-> [Ha _]]]]. apply num_inv in Ha. pose proof (canonical_digits a Ha) as D.
  destruct a as [|c t]; [discriminate Ha|]. exists c, (t ++ r1). split; [reflexivity|]. unfold all_b in D. cbn [forallb] in D. apply andb_true_iff in D. tauto.
Qed.

Lemma strip_v_digit c t : is_ascii_digit c = true -> strip_v (c :: t) = c :: t.
Proof.
  intros H. cbn [strip_v]. unfold is_ascii_digit in H. apply andb_true_iff in H. destruct H as [_ H]. apply N.leb_le in H. destruct (N.eqb_spec c 118); [lia|reflexivity].
Qed.

Theorem parse_without_v s v : semver_parse s = Some v -> semver_parse (strip_v s) = Some v.
Proof.
  unfold semver_parse. destruct (rx_accepts semver_src (map A s)) eqn:R; [|discriminate]. intros H.
  assert (M : L semver_spec (map A s)) by (apply semver_regex_lang, rx_accepts_lang, R).
  destruct (member_split s M) as [V [r [-> [HV Hr]]]]. destruct (rest_starts_with_digit r Hr) as [c [t [-> Hc]]].
  assert (S1 : strip_v (V ++ c :: t) = c :: t) by (destruct HV as [-> | ->]; [apply strip_v_digit, Hc|reflexivity]).
  rewrite S1.
  assert (R2 : rx_accepts semver_src (map A (c :: t)) = true) by (apply rx_accepts_lang, semver_regex_lang, (lang_incl _ _ sv_rest_ka), Hr).
  rewrite R2. revert H. unfold semver_extract. rewrite S1, (strip_v_digit c t Hc). trivial.
Qed.

Theorem semver_reparse s v : semver_parse s = Some v -> semver_parse (semver_print v) = Some v.
Proof. intros H. rewrite (parse_lossless s v H). apply parse_without_v, H. Qed.

Print Assumptions semver_reparse.
