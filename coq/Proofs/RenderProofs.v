(* C06: the rendering loops of from_zerv.rs refine the placement rule *)
From Coq Require Import Lia Arith.
From ZV Require Import Str Zerv Render Placement.

Lemma push_ids_app o l : push_ids o l = match o, l with
  | _, [] => o | Some x, _ => Some (x ++ l) | None, _ => Some l end.
Proof. destruct o, l; reflexivity. Qed.

(* accumulated option-list = some_if_nonempty of the concatenation *)
Definition olist {A} (o : option (list A)) : list A := match o with Some l => l | None => [] end.
Definition wf_o {A} (o : option (list A)) : Prop := o <> Some [].

Lemma push_ids_olist o l : wf_o o -> olist (push_ids o l) = olist o ++ l /\ wf_o (push_ids o l).
Proof.
  unfold wf_o. intros H. destruct o as [x|], l as [|i l]; cbn; try rewrite app_nil_r; split; try reflexivity; try assumption; try discriminate.
  destruct x; [congruence|discriminate].
Qed.

Lemma wf_some_if {A} (o : option (list A)) : wf_o o -> o = some_if_nonempty (olist o).
Proof. unfold wf_o. destruct o as [[|a l]|]; cbn; congruence. Qed.

Lemma fold_push (f : component -> list ident) cs : forall o, wf_o o ->
  let r := fold_left (fun o c => push_ids o (f c)) cs o in
  olist r = olist o ++ flat_map f cs /\ wf_o r.
Proof.
  induction cs as [|c cs IH]; intros o H; cbn [fold_left flat_map].
  - rewrite app_nil_r. split; [reflexivity|exact H].
  - destruct (push_ids_olist o (f c) H) as [E W]. destruct (IH _ W) as [E2 W2]. cbn zeta in *.
    split; [rewrite E2, E, app_assoc; reflexivity|exact W2].
Qed.

(* the core loop against the tagged list *)
Definition set_num (a : sv_acc) (k : nat) (n : N) : sv_acc :=
  match k with
  | O => {| a_major := n; a_minor := a_minor a; a_patch := a_patch a; a_pre := a_pre a; a_build := a_build a |}
  | S O => {| a_major := a_major a; a_minor := n; a_patch := a_patch a; a_pre := a_pre a; a_build := a_build a |}
  | _ => {| a_major := a_major a; a_minor := a_minor a; a_patch := n; a_pre := a_pre a; a_build := a_build a |}
  end.

Definition nums_of (a : sv_acc) : list N := [a_major a; a_minor a; a_patch a].

Lemma int_contrib_spec vs c :
  match comp_value c vs uint_sanitizer with
  | Some v => if nonempty v then match parse_u64 v with Some n => Some n | None => None end else None
  | None => None
  end = int_contrib vs c.
Proof. unfold int_contrib, u64_value. destruct (comp_value c vs uint_sanitizer) as [v|]; [|reflexivity].
  destruct (nonempty v); [destruct (parse_u64 v); reflexivity|reflexivity]. Qed.

(* one loop step, as a function of "is it taken as a core number" *)
Definition rest_acc (c : component) (vs : vars) (a : sv_acc) : sv_acc :=
  match comp_value c vs semver_str with
  | Some v => if nonempty v
              then {| a_major := a_major a; a_minor := a_minor a; a_patch := a_patch a;
                      a_pre := push_ids (a_pre a) (flatten_ids v); a_build := a_build a |}
              else a
  | None => a
  end.

Lemma core_step c cs vs k a :
  sv_process_core (c :: cs) vs k a =
  match int_contrib vs c with
  | Some n => if Nat.ltb k 3 then sv_process_core cs vs (S k) (set_num a k n) else sv_process_core cs vs k (rest_acc c vs a)
  | None => sv_process_core cs vs k (rest_acc c vs a)
  end.
Proof.
  cbn [sv_process_core]. rewrite <- int_contrib_spec.
  destruct (comp_value c vs uint_sanitizer) as [v|]; [|reflexivity].
  destruct (nonempty v); [|reflexivity]. destruct (parse_u64 v) as [n|]; [|reflexivity].
  destruct (Nat.ltb k 3); [|reflexivity]. destruct k as [|[|k]]; reflexivity.
Qed.

Lemma rest_acc_spec c vs a : wf_o (a_pre a) ->
  olist (a_pre (rest_acc c vs a)) = olist (a_pre a) ++ sv_build_ids c vs /\ wf_o (a_pre (rest_acc c vs a)) /\
  a_build (rest_acc c vs a) = a_build a /\ nums_of (rest_acc c vs a) = nums_of a.
Proof.
  intros W. unfold rest_acc, sv_build_ids. destruct (comp_value c vs semver_str) as [x|]; [|rewrite app_nil_r; repeat split; assumption].
  destruct (nonempty x); [|rewrite app_nil_r; repeat split; assumption].
  cbn [a_pre a_build nums_of a_major a_minor a_patch]. destruct (push_ids_olist (a_pre a) (flatten_ids x) W) as [E1 E2]. repeat split; assumption.
Qed.

Lemma set_num_nums a k n filled : length filled = k -> (k < 3)%nat -> nums_of a = filled ++ repeat 0 (3 - k) ->
  nums_of (set_num a k n) = (filled ++ [n]) ++ repeat 0 (3 - S k).
Proof.
  unfold nums_of. intros L K E.
  destruct filled as [|f0 [|f1 [|f2 filled]]]; cbn [length] in L; subst k.
  - cbn in *. inversion E. reflexivity.
  - cbn in *. inversion E. reflexivity.
  - cbn in *. inversion E. reflexivity.
  - exfalso. cbn in K. lia.
Qed.

Lemma core_loop vs cs : forall k a filled, wf_o (a_pre a) -> length filled = k -> (k <= 3)%nat ->
  nums_of a = filled ++ repeat 0 (3 - k) ->
  let r := sv_process_core cs vs k a in
  let t := tag_core vs cs k in
  olist (a_pre r) = olist (a_pre a) ++ core_rest_ids vs t /\ wf_o (a_pre r) /\ a_build r = a_build a /\
  nums_of r = filled ++ core_numbers t ++ repeat 0 (3 - k - length (core_numbers t)).
Proof.
  induction cs as [|c cs IH]; intros k a filled W L K E.
  - cbn. rewrite app_nil_r, Nat.sub_0_r. repeat split; try assumption; reflexivity.
  - rewrite core_step. cbn [tag_core].
    destruct (int_contrib vs c) as [n|] eqn:Ei.
    + destruct (Nat.ltb k 3) eqn:Ek.
      * apply Nat.ltb_lt in Ek.
        assert (Wn : wf_o (a_pre (set_num a k n))) by (destruct k as [|[|k]]; exact W).
        assert (Ln : length (filled ++ [n]) = S k) by (rewrite app_length; cbn; lia).
        destruct (IH (S k) (set_num a k n) (filled ++ [n]) Wn Ln ltac:(lia) (set_num_nums a k n filled L Ek E)) as [Q1 [Q2 [Q3 Q4]]].
        cbn zeta in *. cbn [core_rest_ids flat_map snd fst core_numbers app]. fold (core_rest_ids vs (tag_core vs cs (S k))). fold (core_numbers (tag_core vs cs (S k))).
        assert (Epre : a_pre (set_num a k n) = a_pre a) by (destruct k as [|[|k]]; reflexivity).
        assert (Ebuild : a_build (set_num a k n) = a_build a) by (destruct k as [|[|k]]; reflexivity).
        repeat split.
        -- rewrite Q1, Epre. reflexivity.
        -- exact Q2.
        -- rewrite Q3. exact Ebuild.
        -- rewrite Q4, <- app_assoc. cbn [app length]. do 4 f_equal. lia.
      * destruct (rest_acc_spec c vs a W) as [P1 [P2 [P3 P4]]].
        destruct (IH k (rest_acc c vs a) filled P2 L K ltac:(rewrite P4; exact E)) as [Q1 [Q2 [Q3 Q4]]].
        cbn zeta in *. cbn [core_rest_ids flat_map snd fst core_numbers]. fold (core_rest_ids vs (tag_core vs cs k)). fold (core_numbers (tag_core vs cs k)).
        repeat split.
        -- rewrite Q1, P1, <- app_assoc. reflexivity.
        -- exact Q2.
        -- rewrite Q3. exact P3.
        -- exact Q4.
    + destruct (rest_acc_spec c vs a W) as [P1 [P2 [P3 P4]]].
      destruct (IH k (rest_acc c vs a) filled P2 L K ltac:(rewrite P4; exact E)) as [Q1 [Q2 [Q3 Q4]]].
      cbn zeta in *. cbn [core_rest_ids flat_map snd fst core_numbers]. fold (core_rest_ids vs (tag_core vs cs k)). fold (core_numbers (tag_core vs cs k)).
      repeat split.
      * rewrite Q1, P1, <- app_assoc. reflexivity.
      * exact Q2.
      * rewrite Q3. exact P3.
      * exact Q4.
Qed.

Lemma nth_zeros m i : nth i (repeat (0:N) m) 0 = 0.
Proof. revert i; induction m as [|m IH]; intros i; destruct i; cbn; try reflexivity. apply IH. Qed.

Lemma nth_app_zeros (l : list N) m i : nth i (l ++ repeat 0 m) 0 = nth i l 0.
Proof.
  revert i; induction l as [|x l IH]; intros i; cbn [app].
  - rewrite nth_zeros. destruct i; reflexivity.
  - destruct i; [reflexivity|apply IH].
Qed.

Theorem semver_refines_placement z : semver_of_zerv z = semver_placement z.
Proof.
  unfold semver_of_zerv, semver_placement.
  set (vs := z_vars z). set (a0 := {| a_major := 0; a_minor := 0; a_patch := 0; a_pre := None; a_build := None |}).
  destruct (core_loop vs (s_core (z_schema z)) 0 a0 [] ltac:(discriminate) eq_refl ltac:(lia) eq_refl) as [Q1 [Q2 [Q3 Q4]]].
  cbn zeta in *. set (r := sv_process_core (s_core (z_schema z)) vs 0 a0) in *.
  set (t := tag_core vs (s_core (z_schema z)) 0) in *.
  destruct (fold_push (fun c => sv_extra_ids c vs) (s_extra (z_schema z)) (a_pre r) Q2) as [E1 W1].
  assert (Wb : wf_o (a_build r)) by (rewrite Q3; discriminate).
  destruct (fold_push (fun c => sv_build_ids c vs) (s_build (z_schema z)) (a_build r) Wb) as [E2 W2].
  cbn zeta in *.
  assert (Hn : forall i, nth i (nums_of r) 0 = nth i (core_numbers t) 0).
  { intros i. rewrite Q4. cbn [app]. apply nth_app_zeros. }
  f_equal.
  - exact (Hn 0%nat).
  - exact (Hn 1%nat).
  - exact (Hn 2%nat).
  - rewrite (wf_some_if _ W1), E1, Q1. reflexivity.
  - rewrite (wf_some_if _ W2), E2, Q3. reflexivity.
Qed.

(* --- unset variables contribute nothing --- *)
Lemma unset_int vs c : unset c vs -> int_contrib vs c = None.
Proof. intros [H _]. unfold int_contrib, u64_value. rewrite H. reflexivity. Qed.

Lemma unset_build_ids vs c : unset c vs -> sv_build_ids c vs = [].
Proof. intros [H _]. unfold sv_build_ids. rewrite H. reflexivity. Qed.

Lemma unset_extra_ids vs c : unset c vs -> sv_extra_ids c vs = [].
Proof.
  intros [H1 H2]. unfold sv_extra_ids. destruct c as [s|n|v]; try (rewrite H1; reflexivity).
  destruct (is_secondary v); [|rewrite H1; reflexivity].
  unfold sv_secondary. specialize (H2 semver_str). cbn [comp_expanded] in H2. rewrite H2. reflexivity.
Qed.

Lemma tag_core_unset vs c : unset c vs -> forall pre post k,
  core_numbers (tag_core vs (pre ++ c :: post) k) = core_numbers (tag_core vs (pre ++ post) k) /\
  core_rest_ids vs (tag_core vs (pre ++ c :: post) k) = core_rest_ids vs (tag_core vs (pre ++ post) k).
Proof.
  intros U. induction pre as [|p pre IH]; intros post k; cbn [app tag_core].
  - rewrite (unset_int vs c U). cbn [core_numbers core_rest_ids flat_map snd fst]. rewrite (unset_build_ids vs c U). split; reflexivity.
  - destruct (int_contrib vs p) as [n|]; [destruct (Nat.ltb k 3)|];
      cbn [core_numbers core_rest_ids flat_map snd fst];
      fold (core_numbers (tag_core vs (pre ++ c :: post) (S k))); fold (core_numbers (tag_core vs (pre ++ post) (S k)));
      fold (core_numbers (tag_core vs (pre ++ c :: post) k)); fold (core_numbers (tag_core vs (pre ++ post) k));
      fold (core_rest_ids vs (tag_core vs (pre ++ c :: post) (S k))); fold (core_rest_ids vs (tag_core vs (pre ++ post) (S k)));
      fold (core_rest_ids vs (tag_core vs (pre ++ c :: post) k)); fold (core_rest_ids vs (tag_core vs (pre ++ post) k)).
    + destruct (IH post (S k)) as [A B]. rewrite A, B. split; reflexivity.
    + destruct (IH post k) as [A B]. rewrite A, B. split; reflexivity.
    + destruct (IH post k) as [A B]. rewrite A, B. split; reflexivity.
Qed.

Definition with_schema (z : zerv) (s : schema) : zerv := {| z_schema := s; z_vars := z_vars z |}.

Theorem semver_unset_contributes_nothing z c pre post : unset c (z_vars z) ->
  let sc := z_schema z in
  (s_core sc = pre ++ c :: post -> semver_of_zerv z = semver_of_zerv (with_schema z {| s_core := pre ++ post; s_extra := s_extra sc; s_build := s_build sc; s_prec := s_prec sc |})) /\
  (s_extra sc = pre ++ c :: post -> semver_of_zerv z = semver_of_zerv (with_schema z {| s_core := s_core sc; s_extra := pre ++ post; s_build := s_build sc; s_prec := s_prec sc |})) /\
  (s_build sc = pre ++ c :: post -> semver_of_zerv z = semver_of_zerv (with_schema z {| s_core := s_core sc; s_extra := s_extra sc; s_build := pre ++ post; s_prec := s_prec sc |})).
Proof.
  intros U sc. rewrite !semver_refines_placement. unfold semver_placement, with_schema. cbn [z_schema z_vars s_core s_extra s_build].
  repeat split; intros E; fold sc; rewrite E.
  - destruct (tag_core_unset (z_vars z) c U pre post 0) as [A B]. rewrite A, B. reflexivity.
  - rewrite !flat_map_app. cbn [flat_map]. rewrite (unset_extra_ids _ _ U). reflexivity.
  - rewrite !flat_map_app. cbn [flat_map]. rewrite (unset_build_ids _ _ U). reflexivity.
Qed.

(* --- the smart presets choose their tier solely from dirty / distance / pre-release / post --- *)
Theorem tier_noninterference p v1 v2 :
  opt_true (v_dirty v1) = opt_true (v_dirty v2) -> opt_pos (v_distance v1) = opt_pos (v_distance v2) ->
  is_some (v_pre v1) = is_some (v_pre v2) -> is_some (v_post v1) = is_some (v_post v2) ->
  schema_with_zerv p v1 = schema_with_zerv p v2.
Proof. intros H1 H2 H3 H4. destruct p; unfold schema_with_zerv, smart_tier; rewrite ?H1, ?H2, ?H3, ?H4; reflexivity. Qed.
