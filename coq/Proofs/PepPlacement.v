(* C06: PEP440::from(Zerv) computes exactly the declarative placement rule of Spec/Placement.v, for every object whose extra-core passes
   the schema validation (each secondary variable at most once). *)
From Coq Require Import Lia.
From ZV Require Import Str Dec Zerv Render Pep440 Placement NoPanicProofs SchemaProofs.
Open Scope N_scope.

(* ---- at most one owner of each secondary variable in a validated extra-core ---- *)
Lemma extra_ok_once v l : is_secondary v = true -> forall seen, extra_ok l seen = true ->
  if existsb (var_eqb v) seen then filter (owns v) l = [] else (length (filter (owns v) l) <= 1)%nat.
Proof.
  intros Hs. induction l as [|c l IH]; intros seen H; cbn [filter].
  - destruct (existsb (var_eqb v) seen); [reflexivity|cbn; lia].
  - destruct c as [s|n|w]; cbn [extra_ok owns] in *; try (apply IH, H).
    destruct (is_secondary w) eqn:Sw.
    + destruct (existsb (var_eqb w) seen) eqn:Ew; [discriminate|]. specialize (IH (w :: seen) H). cbn [existsb] in IH.
      destruct (var_eqb v w) eqn:E.
      * cbn [orb] in IH. apply var_eqb_true in E. subst w. rewrite Ew. rewrite IH. cbn. lia.
      * cbn [orb] in IH. exact IH.
    + destruct (is_primary w); [discriminate|]. assert (E : var_eqb v w = false).
      { destruct (var_eqb v w) eqn:E; [|reflexivity]. apply var_eqb_true in E. subst w. congruence. }
      rewrite E. apply IH, H.
Qed.

Lemma once_of_valid v l : is_secondary v = true -> extra_ok l [] = true -> (length (filter (owns v) l) <= 1)%nat.
Proof. intros Hs H. exact (extra_ok_once v l Hs [] H). Qed.

(* ---- a field written by one kind of component only ---- *)
Section Field.
Variable vs : vars.
Variable F : Type.
Variable proj : pep -> F.
Variable own : component -> bool.
Variable write : F -> F.
Hypothesis Hother : forall a c, own c = false -> proj (q (pep_extra_step vs a c)) = proj (q a).
Hypothesis Hown : forall a c, own c = true -> proj (q (pep_extra_step vs a c)) = write (proj (q a)).

Lemma fold_field l : forall a, (length (filter own l) <= 1)%nat ->
  proj (q (fold_left (pep_extra_step vs) l a)) = if existsb own l then write (proj (q a)) else proj (q a).
Proof.
  induction l as [|c l IH]; intros a H; cbn [fold_left existsb filter] in *; [reflexivity|].
  destruct (own c) eqn:E.
  - cbn [length] in H. assert (Hl : filter own l = []) by (destruct (filter own l); [reflexivity|cbn in H; lia]).
    rewrite IH; [|rewrite Hl; cbn; lia]. cbn [orb].
    assert (Ex : existsb own l = false).
    { destruct (existsb own l) eqn:X; [|reflexivity]. apply existsb_exists in X. destruct X as [x [Hx Ox]].
      assert (In x (filter own l)) by (apply filter_In; tauto). rewrite Hl in H0. destruct H0. }
    rewrite Ex. apply Hown, E.
  - rewrite IH; [|exact H]. cbn [orb]. rewrite (Hother a c E). reflexivity.
Qed.
End Field.

From ZV Require Import PepWfProofs.

Lemma pep_ext (a b : pep) :
  p_epoch a = p_epoch b -> p_release a = p_release b -> p_pre_label a = p_pre_label b -> p_pre_num a = p_pre_num b ->
  p_post_label a = p_post_label b -> p_post_num a = p_post_num b -> p_dev_label a = p_dev_label b -> p_dev_num a = p_dev_num b ->
  p_local a = p_local b -> a = b.
Proof. destruct a, b; cbn; intros; subst; reflexivity. Qed.

Lemma owns_eq v c : owns v c = true -> c = CVar v.
Proof. destruct c as [s|n|w]; cbn; try discriminate. intros H. apply var_eqb_true in H. subst. reflexivity. Qed.

Lemma push_local_app o l1 l2 : push_local (push_local o l1) l2 = push_local o (l1 ++ l2).
Proof.
  unfold push_local. destruct l1 as [|x l1]; [reflexivity|]. destruct l2 as [|y l2]; [rewrite app_nil_r; reflexivity|].
  cbn [app]. destruct o as [z|]; [rewrite <- app_assoc|]; reflexivity.
Qed.
Lemma push_local_none l : push_local None l = some_if_nonempty l.
Proof. destruct l; reflexivity. Qed.

Section Steps.
Variable vs : vars.

(* the tuple of fields a step may not touch unless it owns them *)
Definition rest4 (p : pep) := (p_epoch p, (p_pre_label p, p_pre_num p), (p_post_label p, p_post_num p), (p_dev_label p, p_dev_num p)).

Lemma add_local_rest a l : rest4 (q (pep_add_local a l)) = rest4 (q a).
Proof. unfold pep_add_local. destruct l; reflexivity. Qed.
Lemma add_local_release a l : p_release (q (pep_add_local a l)) = p_release (q a).
Proof. unfold pep_add_local. destruct l; reflexivity. Qed.
Lemma add_local_local a l : p_local (q (pep_add_local a (Some l))) = push_local (p_local (q a)) l.
Proof. reflexivity. Qed.

(* ---- core ---- *)
Lemma core_step_rest a c : rest4 (q (pep_core_step vs a c)) = rest4 (q a).
Proof. unfold pep_core_step. destruct (u32_value c vs); [reflexivity|apply add_local_rest]. Qed.
Lemma core_step_release a c : p_release (q (pep_core_step vs a c)) = p_release (q a) ++ match u32_value c vs with Some n => [n] | None => [] end.
Proof. unfold pep_core_step. destruct (u32_value c vs); [reflexivity|]. rewrite add_local_release, app_nil_r. reflexivity. Qed.
Lemma core_step_local a c : p_local (q (pep_core_step vs a c)) = push_local (p_local (q a)) (match u32_value c vs with Some _ => [] | None => olist_l (local_value c vs) end).
Proof.
  unfold pep_core_step. destruct (u32_value c vs); [destruct (p_local (q a)); reflexivity|].
  pose proof (local_value_total c vs) as T. destruct (local_value c vs) as [l|]; [reflexivity|congruence].
Qed.

Lemma core_fold core : forall a,
  rest4 (q (fold_left (pep_core_step vs) core a)) = rest4 (q a) /\
  p_release (q (fold_left (pep_core_step vs) core a)) = p_release (q a) ++ flat_map (fun c => match u32_value c vs with Some n => [n] | None => [] end) core /\
  p_local (q (fold_left (pep_core_step vs) core a)) = push_local (p_local (q a)) (pep_core_local vs core).
Proof.
  induction core as [|c core IH]; intros a; cbn [fold_left flat_map pep_core_local].
  - rewrite app_nil_r. destruct (p_local (q a)); repeat split; reflexivity.
  - destruct (IH (pep_core_step vs a c)) as [H1 [H2 H3]]. rewrite H1, H2, H3, core_step_rest, core_step_release, core_step_local, push_local_app, <- app_assoc.
    repeat split; reflexivity.
Qed.

(* ---- extra-core: the local part ---- *)
Lemma extra_step_local a c : p_local (q (pep_extra_step vs a c)) = push_local (p_local (q a)) (if is_sec_comp c then [] else olist_l (local_value c vs)).
Proof.
  assert (L : forall c0, p_local (q (pep_add_local a (local_value c0 vs))) = push_local (p_local (q a)) (olist_l (local_value c0 vs))).
  { intros c0. pose proof (local_value_total c0 vs) as T. destruct (local_value c0 vs) as [l|]; [reflexivity|congruence]. }
  assert (Id : push_local (p_local (q a)) [] = p_local (q a)) by (destruct (p_local (q a)); reflexivity).
  unfold pep_extra_step. destruct c as [s|n|v]; cbn [is_sec_comp]; try apply L.
  destruct v; cbn [is_secondary]; try apply L; rewrite Id.
  - destruct (u32_value _ vs); reflexivity.
  - destruct (var_expanded PreRelease vs pep440_local_str) as [|e0 rest]; [reflexivity|]. destruct (nonempty e0); reflexivity.
  - destruct (u32_value _ vs); reflexivity.
  - destruct (u32_value _ vs); reflexivity.
Qed.

Lemma extra_fold_local ex : forall a, p_local (q (fold_left (pep_extra_step vs) ex a)) = push_local (p_local (q a)) (pep_extra_local vs ex).
Proof.
  induction ex as [|c ex IH]; intros a; cbn [fold_left flat_map pep_extra_local]; [destruct (p_local (q a)); reflexivity|].
  rewrite IH, extra_step_local, push_local_app. reflexivity.
Qed.

Lemma build_fold_local bd : forall a, p_local (q (fold_left (pep_build_step vs) bd a)) = push_local (p_local (q a)) (pep_build_local vs bd).
Proof.
  induction bd as [|c bd IH]; intros a; cbn [fold_left flat_map pep_build_local]; [destruct (p_local (q a)); reflexivity|].
  rewrite IH. unfold pep_build_step at 1. pose proof (local_value_total c vs) as T. destruct (local_value c vs) as [l|] eqn:E; [|congruence].
  rewrite add_local_local, push_local_app. reflexivity.
Qed.

Lemma build_fold_rest bd : forall a, rest4 (q (fold_left (pep_build_step vs) bd a)) = rest4 (q a).
Proof. induction bd as [|c bd IH]; intros a; cbn [fold_left]; [reflexivity|]. rewrite IH. apply add_local_rest. Qed.

(* ---- extra-core: the four owned fields ---- *)
Definition w_epoch (e : N) : N := match u32_value (CVar Epoch) vs with Some n => n | None => e end.
Definition w_post (x : bool * option N) : bool * option N := match u32_value (CVar Post) vs with Some n => (true, Some n) | None => x end.
Definition w_dev (x : bool * option N) : bool * option N := match u32_value (CVar Dev) vs with Some n => (true, Some n) | None => x end.
Definition w_pre (x : option label * option N) : option label * option N :=
  match var_expanded PreRelease vs pep440_local_str with
  | e0 :: rest =>
    if nonempty e0 then
      (match label_of_str e0 with Some l => Some l | None => fst x end,
       match rest with e1 :: _ => if nonempty e1 then match parse_u32 e1 with Some n => Some n | None => snd x end else snd x | [] => snd x end)
    else x
  | [] => x
  end.

Ltac other_step c Hc :=
  unfold pep_extra_step; destruct c as [s|n|v];
  [unfold pep_add_local; destruct (local_value _ vs); reflexivity
  |unfold pep_add_local; destruct (local_value _ vs); reflexivity
  |destruct v; cbn in Hc; try discriminate;
   try (unfold pep_add_local; destruct (local_value _ vs); reflexivity);
   try (destruct (u32_value _ vs); reflexivity);
   try (destruct (var_expanded PreRelease vs pep440_local_str) as [|e0 rest]; [reflexivity|]; destruct (nonempty e0); reflexivity)].

Lemma epoch_other a c : owns Epoch c = false -> p_epoch (q (pep_extra_step vs a c)) = p_epoch (q a).
Proof. intros Hc. other_step c Hc. Qed.
Lemma epoch_own a c : owns Epoch c = true -> p_epoch (q (pep_extra_step vs a c)) = w_epoch (p_epoch (q a)).
Proof. intros Hc. apply owns_eq in Hc. subst c. unfold pep_extra_step, w_epoch. destruct (u32_value _ vs); reflexivity. Qed.

Lemma post_other a c : owns Post c = false -> (p_post_label (q (pep_extra_step vs a c)), p_post_num (q (pep_extra_step vs a c))) = (p_post_label (q a), p_post_num (q a)).
Proof. intros Hc. other_step c Hc. Qed.
Lemma post_own a c : owns Post c = true -> (p_post_label (q (pep_extra_step vs a c)), p_post_num (q (pep_extra_step vs a c))) = w_post (p_post_label (q a), p_post_num (q a)).
Proof. intros Hc. apply owns_eq in Hc. subst c. unfold pep_extra_step, w_post. destruct (u32_value _ vs); reflexivity. Qed.

Lemma dev_other a c : owns Dev c = false -> (p_dev_label (q (pep_extra_step vs a c)), p_dev_num (q (pep_extra_step vs a c))) = (p_dev_label (q a), p_dev_num (q a)).
Proof. intros Hc. other_step c Hc. Qed.
Lemma dev_own a c : owns Dev c = true -> (p_dev_label (q (pep_extra_step vs a c)), p_dev_num (q (pep_extra_step vs a c))) = w_dev (p_dev_label (q a), p_dev_num (q a)).
Proof. intros Hc. apply owns_eq in Hc. subst c. unfold pep_extra_step, w_dev. destruct (u32_value _ vs); reflexivity. Qed.

Lemma pre_other a c : owns PreRelease c = false -> (p_pre_label (q (pep_extra_step vs a c)), p_pre_num (q (pep_extra_step vs a c))) = (p_pre_label (q a), p_pre_num (q a)).
Proof. intros Hc. other_step c Hc. Qed.
Lemma pre_own a c : owns PreRelease c = true -> (p_pre_label (q (pep_extra_step vs a c)), p_pre_num (q (pep_extra_step vs a c))) = w_pre (p_pre_label (q a), p_pre_num (q a)).
Proof.
  intros Hc. apply owns_eq in Hc. subst c. unfold pep_extra_step, w_pre. cbn [fst snd].
  destruct (var_expanded PreRelease vs pep440_local_str) as [|e0 rest]; [reflexivity|]. destruct (nonempty e0); [|reflexivity]. reflexivity.
Qed.
End Steps.

Lemma rest4_inv p p' : rest4 p = rest4 p' ->
  p_epoch p = p_epoch p' /\ p_pre_label p = p_pre_label p' /\ p_pre_num p = p_pre_num p' /\ p_post_label p = p_post_label p' /\
  p_post_num p = p_post_num p' /\ p_dev_label p = p_dev_label p' /\ p_dev_num p = p_dev_num p'.
Proof. unfold rest4. intros H. injection H. intros. repeat split; assumption. Qed.

Lemma label_of_str_id o : match o with Some l => Some l | None => @None label end = o.
Proof. destruct o; reflexivity. Qed.

Theorem pep_refines_placement z : extra_ok (s_extra (z_schema z)) [] = true -> pep_of_zerv z = Some (pep_placement z).
Proof.
  intros Hv. pose proof (pep_of_zerv_total z) as T. unfold pep_of_zerv in *.
  set (vs := z_vars z) in *. set (core := s_core (z_schema z)) in *. set (ex := s_extra (z_schema z)) in *. set (bd := s_build (z_schema z)) in *.
  set (a0 := {| q := pep_empty; q_panic := false |}) in *.
  set (a1 := fold_left (pep_core_step vs) core a0) in *.
  destruct (core_fold vs core a0) as [C1 [C2 C3]]. fold a1 in C1, C2, C3. cbn [a0 q pep_empty p_release p_local app] in C2, C3.
  set (a1' := match p_release (q a1) with [] => _ | _ => a1 end) in *.
  assert (R1 : p_release (q a1') = pep_release_of vs core) by (unfold a1', pep_release_of; rewrite C2; destruct (flat_map _ core); [reflexivity|exact C2]).
  assert (K1 : rest4 (q a1') = rest4 pep_empty) by (unfold a1'; destruct (p_release (q a1)); [|exact C1]; cbn; unfold rest4 in C1; cbn in C1; inversion C1; unfold rest4; cbn; congruence).
  assert (L1 : p_local (q a1') = some_if_nonempty (pep_core_local vs core)) by (unfold a1'; destruct (p_release (q a1)); cbn [q p_local]; rewrite C3; apply push_local_none).
  set (a2 := fold_left (pep_extra_step vs) ex a1') in *.
  set (a3 := fold_left (pep_build_step vs) bd a2) in *.
  destruct (q_panic a3); [congruence|]. f_equal. unfold pep_placement. fold vs core ex bd. f_equal.
  pose proof (build_fold_rest vs bd a2) as B4. fold a3 in B4.
  pose proof (fold_release (pep_build_step vs) (build_step_release vs) bd a2) as B5. fold a3 in B5.
  pose proof (fold_release (pep_extra_step vs) (extra_step_release vs) ex a1') as B6. fold a2 in B6.
  pose proof (build_fold_local vs bd a2) as B7. fold a3 in B7.
  pose proof (extra_fold_local vs ex a1') as B8. fold a2 in B8.
  (* the four owned fields after the extra-core fold *)
  pose proof (fold_field vs N p_epoch (owns Epoch) (w_epoch vs) (epoch_other vs) (epoch_own vs) ex a1' (once_of_valid Epoch ex eq_refl Hv)) as F1.
  pose proof (fold_field vs _ (fun p => (p_pre_label p, p_pre_num p)) (owns PreRelease) (w_pre vs) (pre_other vs) (pre_own vs) ex a1' (once_of_valid PreRelease ex eq_refl Hv)) as F2.
  pose proof (fold_field vs _ (fun p => (p_post_label p, p_post_num p)) (owns Post) (w_post vs) (post_other vs) (post_own vs) ex a1' (once_of_valid Post ex eq_refl Hv)) as F3.
  pose proof (fold_field vs _ (fun p => (p_dev_label p, p_dev_num p)) (owns Dev) (w_dev vs) (dev_other vs) (dev_own vs) ex a1' (once_of_valid Dev ex eq_refl Hv)) as F4.
  fold a2 in F1, F2, F3, F4. cbv beta in F1, F2, F3, F4.
  destruct (rest4_inv _ _ K1) as [Ke [Kpl [Kpn [Ksl [Ksn [Kdl Kdn]]]]]]. cbn [pep_empty p_epoch p_pre_label p_pre_num p_post_label p_post_num p_dev_label p_dev_num] in Ke, Kpl, Kpn, Ksl, Ksn, Kdl, Kdn.
  destruct (rest4_inv _ _ B4) as [Be [Bpl [Bpn [Bsl [Bsn [Bdl Bdn]]]]]].
  rewrite Ke in F1. rewrite Kpl, Kpn in F2. rewrite Ksl, Ksn in F3. rewrite Kdl, Kdn in F4.
  apply pep_ext; cbn [p_epoch p_release p_pre_label p_pre_num p_post_label p_post_num p_dev_label p_dev_num p_local].
  - rewrite Be, F1. unfold has_var, w_epoch. destruct (existsb (owns Epoch) ex); reflexivity.
  - rewrite B5, B6. exact R1.
  - rewrite Bpl. apply (f_equal fst) in F2. cbn [fst] in F2. rewrite F2. unfold has_var. destruct (existsb (owns PreRelease) ex); [|reflexivity].
    unfold w_pre, pre_of_vars. destruct (var_expanded PreRelease vs pep440_local_str) as [|e0 rest]; [reflexivity|]. destruct (nonempty e0); cbn [fst]; [apply label_of_str_id|reflexivity].
  - rewrite Bpn. apply (f_equal snd) in F2. cbn [snd] in F2. rewrite F2. unfold has_var. destruct (existsb (owns PreRelease) ex); [|reflexivity].
    unfold w_pre, pre_of_vars. destruct (var_expanded PreRelease vs pep440_local_str) as [|e0 rest]; [reflexivity|]. destruct (nonempty e0); cbn [snd]; [|reflexivity].
    destruct rest as [|e1 r]; [reflexivity|]. destruct (nonempty e1); [|reflexivity]. destruct (parse_u32 e1); reflexivity.
  - rewrite Bsl. apply (f_equal fst) in F3. cbn [fst] in F3. rewrite F3. unfold has_var, w_post. destruct (existsb (owns Post) ex); [|reflexivity]. destruct (u32_value (CVar Post) vs); reflexivity.
  - rewrite Bsn. apply (f_equal snd) in F3. cbn [snd] in F3. rewrite F3. unfold has_var, w_post. destruct (existsb (owns Post) ex); [|reflexivity]. destruct (u32_value (CVar Post) vs); reflexivity.
  - rewrite Bdl. apply (f_equal fst) in F4. cbn [fst] in F4. rewrite F4. unfold has_var, w_dev. destruct (existsb (owns Dev) ex); [|reflexivity]. destruct (u32_value (CVar Dev) vs); reflexivity.
  - rewrite Bdn. apply (f_equal snd) in F4. cbn [snd] in F4. rewrite F4. unfold has_var, w_dev. destruct (existsb (owns Dev) ex); [|reflexivity]. destruct (u32_value (CVar Dev) vs); reflexivity.
  - rewrite B7, B8, L1, <- (push_local_none (pep_core_local vs core)), !push_local_app, push_local_none. reflexivity.
Qed.
