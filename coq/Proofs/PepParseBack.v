(* C09 / C01: zerv's own PEP 440 parser accepts every normal-form string and returns exactly the value that was printed:
   pep_parse (pep_print p) = Some p for every p in normal form with numbers below 2^32 - in particular normalising is idempotent. *)
From Coq Require Import Lia.
From ZV Require Import Str Dec Sanitize SanitizeSpec StrFacts DecFacts SanitizeProofs Zerv Render Pep440 Convert NoPanicProofs IdentProofs PepWfProofs Pep440Nf PepRoundTrip
                       Rx RegexSrc RegexEquiv GrammarProofs.
From RelationAlgebra Require regex.
Open Scope N_scope.

(* the next character is not a digit *)
Definition no_digit_ahead (s : str) : Prop := match s with [] => True | c :: _ => is_ascii_digit c = false end.

Lemma span_digits_app d rest : Forall (fun c => is_ascii_digit c = true) d -> no_digit_ahead rest -> span is_ascii_digit (d ++ rest) = (d, rest).
Proof.
  induction 1 as [|c d Hc Hd IH]; intros Hr; cbn [app span].
  - destruct rest as [|x r]; [reflexivity|]. cbn in Hr. cbn. rewrite Hr. reflexivity.
  - rewrite Hc, (IH Hr). reflexivity.
Qed.

Lemma span_print n rest : no_digit_ahead rest -> span is_ascii_digit (print_dec n ++ rest) = (print_dec n, rest).
Proof. intros H. apply span_digits_app; [apply all_b_Forall, print_dec_all_digits|exact H]. Qed.

Lemma opt_digits_print n rest : no_digit_ahead rest ->
  opt_digits (print_dec n ++ rest) = [(Some (print_dec n), rest); (None, print_dec n ++ rest)].
Proof.
  intros H. unfold opt_digits. rewrite (span_print n rest H). pose proof (print_dec_nonnil n). destruct (print_dec n); [congruence|reflexivity].
Qed.

Lemma first_digit n : exists c t, print_dec n = c :: t /\ is_ascii_digit c = true.
Proof.
  pose proof (print_dec_all_digits n) as D. pose proof (print_dec_nonnil n) as Hn. destruct (print_dec n) as [|c t]; [congruence|].
  exists c, t. split; [reflexivity|]. cbn in D. apply andb_true_iff in D. tauto.
Qed.

Lemma digit_not_sep c : is_ascii_digit c = true -> sep_char c = false.
Proof.
  unfold is_ascii_digit, sep_char. intros H. apply andb_true_iff in H. destruct H as [H1 H2]. apply N.leb_le in H1. apply N.leb_le in H2.
  repeat (apply orb_false_iff; split); apply N.eqb_neq; lia.
Qed.

Lemma opt_sep_print n rest : opt_sep (print_dec n ++ rest) = [print_dec n ++ rest].
Proof. destruct (first_digit n) as [c [t [E D]]]. rewrite E. cbn. rewrite (digit_not_sep c D). reflexivity. Qed.

(* what may follow a number inside the printed string: nothing, '+', or '.' *)
Definition tail_start (s : str) : Prop := match s with [] => True | c :: _ => c = c_plus \/ c = c_dot end.

Lemma tail_no_digit s : tail_start s -> no_digit_ahead s.
Proof. destruct s as [|c t]; [trivial|]. intros [->| ->]; reflexivity. Qed.

(* ---- dev ---- *)
Definition dev_text (o : option N) : str := match o with Some n => [c_dot; 100; 101; 118] ++ print_dec n | None => [] end.
Definition loc_start (s : str) : Prop := match s with [] => True | c :: _ => c = c_plus end.

Lemma opt_sep_dot t : opt_sep (c_dot :: t) = [t; c_dot :: t].
Proof. reflexivity. Qed.
Lemma opt_sep_plus t : opt_sep (c_plus :: t) = [c_plus :: t].
Proof. reflexivity. Qed.
Lemma opt_sep_nil : opt_sep [] = [[]].
Proof. reflexivity. Qed.

Lemma first_some_cons {A B} (f : A -> option B) x l : first_some f (x :: l) = match f x with Some y => Some y | None => first_some f l end.
Proof. reflexivity. Qed.
Lemma first_some_nil {A B} (f : A -> option B) : first_some f [] = None.
Proof. reflexivity. Qed.

Lemma ci_dev t : ci_prefix L_dev (100 :: 101 :: 118 :: t) = Some t.
Proof. reflexivity. Qed.
Lemma ci_post t : ci_prefix L_post (112 :: 111 :: 115 :: 116 :: t) = Some t.
Proof. reflexivity. Qed.

(* a literal whose first letter differs from the (lower-cased) first character does not match; nor does it match the empty string *)
Lemma ci_mismatch x lit c t : N.eqb x (ascii_lower c) = false -> ci_prefix (x :: lit) (c :: t) = None.
Proof. intros H. cbn. rewrite H. reflexivity. Qed.
Lemma ci_empty x lit : ci_prefix (x :: lit) [] = None.
Proof. reflexivity. Qed.

Lemma loc_tail rest : loc_start rest -> tail_start rest.
Proof. destruct rest as [|c t]; [trivial|]. intros H. left. exact H. Qed.

Lemma scan_dev_some {B} (k : option (option str) -> str -> option B) n rest r : loc_start rest ->
  k (Some (Some (print_dec n))) rest = Some r -> scan_dev k (dev_text (Some n) ++ rest) = Some r.
Proof.
  intros Hl Hk. unfold scan_dev, dev_text. cbn [app]. rewrite opt_sep_dot, first_some_cons, ci_dev, opt_sep_print, first_some_cons.
  rewrite (opt_digits_print n rest (tail_no_digit rest (loc_tail rest Hl))), first_some_cons, Hk. reflexivity.
Qed.

Lemma scan_dev_none {B} (k : option (option str) -> str -> option B) rest : loc_start rest -> scan_dev k rest = k None rest.
Proof.
  intros Hl. unfold scan_dev. destruct rest as [|c t].
  - rewrite opt_sep_nil, first_some_cons. cbn [ci_prefix L_dev lit]. rewrite first_some_nil. reflexivity.
  - cbn in Hl. subst c. rewrite opt_sep_plus, first_some_cons. unfold L_dev, lit. rewrite (ci_mismatch 100 [101; 118] c_plus t eq_refl), first_some_nil. reflexivity.
Qed.

(* ---- post ---- *)
Definition post_text (o : option N) : str := match o with Some n => [c_dot; 112; 111; 115; 116] ++ print_dec n | None => [] end.

(* what may follow the post part: ".dev...", "+...", or nothing *)
Definition after_post (s : str) : Prop := (exists n rest, s = dev_text (Some n) ++ rest /\ loc_start rest) \/ loc_start s.

Lemma after_post_tail s : after_post s -> tail_start s.
Proof. intros [[n [rest [-> _]]]|H]; [right; reflexivity|apply loc_tail, H]. Qed.

Lemma post_labels_none_on_dev t : first_some (fun l => match ci_prefix l (100 :: t) with Some s2 => @None nat | None => None end) post_labels = None.
Proof. reflexivity. Qed.

Lemma scan_post_some {B} (k : option (option str) -> str -> option B) n rest r : after_post rest ->
  k (Some (Some (print_dec n))) rest = Some r -> scan_post k (post_text (Some n) ++ rest) = Some r.
Proof.
  intros Ha Hk. unfold scan_post, post_text. cbn [app]. change (c_dot =? 45) with false. cbv iota.
  rewrite opt_sep_dot, first_some_cons. unfold post_labels at 1. rewrite first_some_cons, ci_post, opt_sep_print, first_some_cons.
  rewrite (opt_digits_print n rest (tail_no_digit rest (after_post_tail rest Ha))), first_some_cons, Hk. reflexivity.
Qed.

Lemma scan_post_none {B} (k : option (option str) -> str -> option B) rest : after_post rest -> scan_post k rest = k None rest.
Proof.
  intros [[n [r0 [-> Hl]]]|Hl]; unfold scan_post.
  - unfold dev_text. cbn [app]. change (c_dot =? 45) with false. cbv iota. rewrite opt_sep_dot, !first_some_cons. unfold post_labels, L_post, L_rev, L_r, lit.
    rewrite !first_some_cons, !first_some_nil.
    rewrite (ci_mismatch 112 [111; 115; 116] 100 _ eq_refl), (ci_mismatch 114 [101; 118] 100 _ eq_refl), (ci_mismatch 114 [] 100 _ eq_refl).
    rewrite (ci_mismatch 112 [111; 115; 116] c_dot _ eq_refl), (ci_mismatch 114 [101; 118] c_dot _ eq_refl), (ci_mismatch 114 [] c_dot _ eq_refl). reflexivity.
  - destruct rest as [|c t].
    + rewrite opt_sep_nil, first_some_cons, first_some_nil. reflexivity.
    + cbn in Hl. subst c. change (c_plus =? 45) with false. cbv iota. rewrite opt_sep_plus, first_some_cons, first_some_nil. unfold post_labels, L_post, L_rev, L_r, lit.
      rewrite !first_some_cons, first_some_nil.
      rewrite (ci_mismatch 112 [111; 115; 116] c_plus _ eq_refl), (ci_mismatch 114 [101; 118] c_plus _ eq_refl), (ci_mismatch 114 [] c_plus _ eq_refl). reflexivity.
Qed.

(* ---- pre ---- *)
Definition pre_text (pl : option (label * N)) : str := match pl with Some (l, n) => label_print l ++ print_dec n | None => [] end.
Definition after_pre (s : str) : Prop := (exists n rest, s = post_text (Some n) ++ rest /\ after_post rest) \/ after_post s.

Lemma after_pre_tail s : after_pre s -> tail_start s.
Proof. intros [[n [rest [-> _]]]|H]; [right; reflexivity|apply after_post_tail, H]. Qed.

Lemma letter_vs_digit x c : 97 <= x -> is_ascii_digit c = true -> N.eqb x (ascii_lower c) = false.
Proof.
  intros Hx Hc. unfold is_ascii_digit in Hc. apply andb_true_iff in Hc. destruct Hc as [H1 H2]. apply N.leb_le in H1. apply N.leb_le in H2.
  unfold ascii_lower, is_ascii_upper. assert (E : (65 <=? c) = false) by (apply N.leb_gt; lia). rewrite E. cbn [andb]. apply N.eqb_neq. lia.
Qed.

(* a label literal of at least two letters does not match "<its first letter><digits>" *)
Lemma ci_second_mismatch x y lit n rest : 97 <= y -> ci_prefix (x :: y :: lit) (x :: print_dec n ++ rest) = None.
Proof.
  intros Hy. destruct (first_digit n) as [c [t [E D]]]. rewrite E. cbn [app ci_prefix].
  destruct (N.eqb x (ascii_lower x)); [|reflexivity]. rewrite (letter_vs_digit y c Hy D). reflexivity.
Qed.

Lemma ci_self_lower x t : is_ascii_upper x = false -> ci_prefix [x] (x :: t) = Some t.
Proof. intros H. cbn. unfold ascii_lower. rewrite H, N.eqb_refl. reflexivity. Qed.

Lemma scan_pre_some {B} (k : option (label * option str) -> str -> option B) l n rest r : after_pre rest ->
  k (Some (l, Some (print_dec n))) rest = Some r -> scan_pre k (pre_text (Some (l, n)) ++ rest) = Some r.
Proof.
  intros Ha Hk. unfold scan_pre, pre_text.
  pose proof (opt_digits_print n rest (tail_no_digit rest (after_pre_tail rest Ha))) as OD.
  destruct l; unfold label_print; cbn [app].
  - (* a<digits> *)
    change (opt_sep (97 :: print_dec n ++ rest)) with [97 :: print_dec n ++ rest]. rewrite first_some_cons. unfold pre_labels. rewrite first_some_cons.
    unfold L_alpha, lit. rewrite (ci_second_mismatch 97 108 [112; 104; 97] n rest ltac:(lia)). rewrite first_some_cons.
    unfold L_a, lit. rewrite (ci_self_lower 97 _ eq_refl). cbv beta iota. rewrite opt_sep_print, first_some_cons, OD, first_some_cons, Hk. reflexivity.
  - (* b<digits> *)
    change (opt_sep (98 :: print_dec n ++ rest)) with [98 :: print_dec n ++ rest]. rewrite first_some_cons. unfold pre_labels. rewrite !first_some_cons.
    unfold L_alpha, L_a, L_beta, L_b, lit.
    rewrite (ci_mismatch 97 [108; 112; 104; 97] 98 _ eq_refl), (ci_mismatch 97 [] 98 _ eq_refl), (ci_second_mismatch 98 101 [116; 97] n rest ltac:(lia)).
    rewrite (ci_self_lower 98 _ eq_refl). cbv beta iota. rewrite opt_sep_print, first_some_cons, OD, first_some_cons, Hk. reflexivity.
  - (* rc<digits> *)
    change (opt_sep (114 :: 99 :: print_dec n ++ rest)) with [114 :: 99 :: print_dec n ++ rest]. rewrite first_some_cons. unfold pre_labels. rewrite !first_some_cons.
    unfold L_alpha, L_a, L_beta, L_b, L_preview, L_pre, L_c, L_rc, lit.
    rewrite (ci_mismatch 97 [108; 112; 104; 97] 114 _ eq_refl), (ci_mismatch 97 [] 114 _ eq_refl), (ci_mismatch 98 [101; 116; 97] 114 _ eq_refl), (ci_mismatch 98 [] 114 _ eq_refl).
    rewrite (ci_mismatch 112 [114; 101; 118; 105; 101; 119] 114 _ eq_refl), (ci_mismatch 112 [114; 101] 114 _ eq_refl), (ci_mismatch 99 [] 114 _ eq_refl).
    change (ci_prefix [114; 99] (114 :: 99 :: print_dec n ++ rest)) with (Some (print_dec n ++ rest)).
    cbv beta iota. rewrite opt_sep_print, first_some_cons, OD, first_some_cons, Hk. reflexivity.
Qed.

Lemma pre_none_on (x y : cp) t {B} (k : option (label * option str) -> str -> option B) :
  (x = 112 /\ y = 111) \/ x = 100 ->
  first_some (fun '(l, lab) => match ci_prefix l (x :: y :: t) with
                               | Some s2 => first_some (fun s3 => first_some (fun '(n, s4) => k (Some (lab, n)) s4) (opt_digits s3)) (opt_sep s2)
                               | None => None end) pre_labels = None.
Proof. intros [[-> ->]| ->]; reflexivity. Qed.

Lemma pre_none_on1 (x : cp) t {B} (k : option (label * option str) -> str -> option B) :
  x = c_dot \/ x = c_plus ->
  first_some (fun '(l, lab) => match ci_prefix l (x :: t) with
                               | Some s2 => first_some (fun s3 => first_some (fun '(n, s4) => k (Some (lab, n)) s4) (opt_digits s3)) (opt_sep s2)
                               | None => None end) pre_labels = None.
Proof. intros [-> | ->]; reflexivity. Qed.

Lemma scan_pre_none {B} (k : option (label * option str) -> str -> option B) rest : after_pre rest -> scan_pre k rest = k None rest.
Proof.
  intros Ha. unfold scan_pre.
  assert (Cases : rest = [] \/ (exists t, rest = c_plus :: t) \/ (exists t, rest = c_dot :: 112 :: 111 :: t) \/ (exists y t, rest = c_dot :: 100 :: y :: t)).
  { destruct Ha as [[n [r0 [-> _]]]|[[n [r0 [-> _]]]|Hl]].
    - right. right. left. unfold post_text. cbn [app]. eexists. reflexivity.
    - right. right. right. unfold dev_text. cbn [app]. eexists. eexists. reflexivity.
    - destruct rest as [|c t]; [left; reflexivity|]. cbn in Hl. subst c. right. left. eexists. reflexivity. }
  destruct Cases as [-> |[[t ->]|[[t ->]|[y [t ->]]]]].
  - rewrite opt_sep_nil, first_some_cons, first_some_nil. reflexivity.
  - rewrite opt_sep_plus, first_some_cons, first_some_nil. cbv beta. reflexivity.
  - rewrite opt_sep_dot, !first_some_cons, first_some_nil. cbv beta. reflexivity.
  - rewrite opt_sep_dot, !first_some_cons, first_some_nil. cbv beta. reflexivity.
Qed.

(* ---- release ---- *)
(* where the release ends: nothing, a non-digit other than '.', or ".<non-digit>" *)
Definition rel_stop (s : str) : Prop :=
  match s with
  | [] => True
  | c :: t => if c =? c_dot then no_digit_ahead t /\ t <> [] else is_ascii_digit c = false
  end.

Definition rel_tail (l : list N) : str := flat_map (fun n => c_dot :: print_dec n) l.

Lemma rel_stop_no_digit rest : rel_stop rest -> no_digit_ahead rest.
Proof. destruct rest as [|c t]; [trivial|]. cbn. destruct (N.eqb_spec c c_dot) as [->|]; [intros _; reflexivity|tauto]. Qed.

Lemma release_more_spec l : forall fuel acc rest opts, (length l <= fuel)%nat -> rel_stop rest ->
  exists opts', release_more fuel acc (rel_tail l ++ rest) opts = (rev acc ++ map print_dec l, rest) :: opts'.
Proof.
  induction l as [|n l IH]; intros fuel acc rest opts Hf Hr; cbn [rel_tail flat_map map app].
  - rewrite app_nil_r. exists opts. destruct fuel as [|f]; [reflexivity|]. cbn [release_more].
    destruct rest as [|c t]; [reflexivity|]. cbn in Hr. destruct (c =? 46) eqn:E; [|reflexivity].
    change 46 with c_dot in E. rewrite E in Hr. destruct Hr as [Hd Hne]. destruct t as [|x t']; [congruence|]. cbn in Hd. cbn [span]. rewrite Hd. reflexivity.
  - fold (rel_tail l). destruct fuel as [|f]; [cbn in Hf; lia|]. cbn [release_more]. change (c_dot =? 46) with true. cbv iota.
    rewrite <- app_assoc.
    assert (Nd : no_digit_ahead (rel_tail l ++ rest)) by (destruct l as [|m l']; [cbn; apply rel_stop_no_digit, Hr|reflexivity]).
    rewrite (span_print n _ Nd). pose proof (print_dec_nonnil n) as Hn. destruct (print_dec n) as [|x t] eqn:E; [congruence|]. rewrite <- E.
    destruct (IH f (print_dec n :: acc) rest ((rev acc, c_dot :: print_dec n ++ rel_tail l ++ rest) :: opts) ltac:(cbn in Hf; lia) Hr) as [o' Ho].
    exists o'. fold (rel_tail l). etransitivity; [exact Ho|]. cbn [rev]. rewrite <- app_assoc. reflexivity.
Qed.

Lemma release_options_spec n l rest : rel_stop rest ->
  exists opts', release_options (release_nums_print (n :: l) ++ rest) = (map print_dec (n :: l), rest) :: opts'.
Proof.
  intros Hr. rewrite release_nums_cons, <- app_assoc. unfold release_options. fold (rel_tail l).
  assert (Nd : no_digit_ahead (rel_tail l ++ rest)) by (destruct l as [|m l']; [cbn; apply rel_stop_no_digit, Hr|reflexivity]).
  rewrite (span_print n _ Nd). pose proof (print_dec_nonnil n) as Hn. destruct (print_dec n) as [|x t] eqn:E; [congruence|]. rewrite <- E.
  destruct (release_more_spec l (length (rel_tail l ++ rest)) [print_dec n] rest [] ) as [o' Ho]; [|exact Hr|].
  - unfold rel_tail. rewrite app_length. clear. induction l as [|m l IH]; [cbn; lia|]. cbn [flat_map length]. rewrite app_length. cbn [length] in *. lia.
  - exists o'. rewrite Ho. reflexivity.
Qed.

(* ---- tail: the local part ---- *)
Lemma local_aux_seg seg rest b : alnum seg -> seg <> [] -> local_ok_aux (seg ++ rest) b = local_ok_aux rest false.
Proof.
  intros Ha Hne. revert b. induction Ha as [|c seg Hc Hs IH]; [congruence|]. intros b. cbn [app local_ok_aux]. unfold local_char. rewrite Hc.
  destruct seg as [|d seg']; [reflexivity|]. apply IH. discriminate.
Qed.

Lemma local_ok_print l : l <> [] -> Forall lseg_nf l -> local_ok (local_print l) = true.
Proof.
  intros Hne W. unfold local_ok. assert (G : forall g, lseg_nf g -> alnum (lseg_print g) /\ lseg_print g <> []).
  { intros g Hg. destruct g as [s|n]; cbn in *; [destruct Hg as [[H1 H2] _]; split; assumption|split; [apply print_dec_good|apply print_dec_nonnil]]. }
  destruct l as [|g l]; [congruence|]. clear Hne. revert g W. induction l as [|h l IH]; intros g W.
  - inversion W as [|? ? Hg _]; subst. destruct (G g Hg) as [Ga Gn]. rewrite local_print_cons. cbn [flat_map].
    rewrite (local_aux_seg _ [] true Ga Gn). reflexivity.
  - inversion W as [|? ? Hg Hl]; subst. destruct (G g Hg) as [Ga Gn]. rewrite local_print_cons.
    rewrite (local_aux_seg _ _ true Ga Gn). cbn [flat_map app local_ok_aux]. change (local_char c_dot) with false. change (sep_char c_dot) with true. cbv iota.
    specialize (IH h Hl). rewrite local_print_cons in IH. exact IH.
Qed.

Definition loc_text (o : option (list lseg)) : str := match o with Some l => c_plus :: local_print l | None => [] end.

Lemma scan_tail_print o : (match o with Some l => l <> [] /\ Forall lseg_nf l | None => True end) ->
  scan_tail (loc_text o) = Some (match o with Some l => Some (local_print l) | None => None end).
Proof.
  destruct o as [l|]; cbn [loc_text scan_tail]; [|reflexivity]. intros [Hne W]. change (c_plus =? 43) with true. cbv iota. rewrite (local_ok_print l Hne W). reflexivity.
Qed.

(* ---- the captures of a printed normal form ---- *)
Definition sec_text (A : option (label * N)) (B C : option N) (D : option (list lseg)) : str :=
  pre_text A ++ post_text B ++ dev_text C ++ loc_text D.

Definition caps_of (ep : option str) (rel : list N) (A : option (label * N)) (B C : option N) (D : option (list lseg)) : caps :=
  {| k_epoch := ep; k_release := map print_dec rel;
     k_pre := match A with Some (l, n) => Some (l, Some (print_dec n)) | None => None end;
     k_post := match B with Some n => Some (Some (print_dec n)) | None => None end;
     k_dev := match C with Some n => Some (Some (print_dec n)) | None => None end;
     k_local := match D with Some l => Some (local_print l) | None => None end |}.

Definition loc_ok (D : option (list lseg)) : Prop := match D with Some l => l <> [] /\ Forall lseg_nf l | None => True end.

Lemma loc_text_start D : loc_start (loc_text D).
Proof. destruct D; cbn; trivial. Qed.

Lemma after_post_intro C D : after_post (dev_text C ++ loc_text D).
Proof. destruct C as [n|]; [left; exists n, (loc_text D); split; [reflexivity|apply loc_text_start]|right; apply loc_text_start]. Qed.

Lemma after_pre_intro B C D : after_pre (post_text B ++ dev_text C ++ loc_text D).
Proof. destruct B as [n|]; [left; exists n, (dev_text C ++ loc_text D); split; [reflexivity|apply after_post_intro]|right; apply after_post_intro]. Qed.

Lemma sec_rel_stop A B C D : rel_stop (sec_text A B C D).
Proof.
  unfold sec_text. destruct A as [[[| |] n]|]; [cbn; reflexivity..|]. cbn [pre_text app].
  destruct B as [n|]; [cbn; split; [reflexivity|discriminate]|]. cbn [post_text app].
  destruct C as [n|]; [cbn; split; [reflexivity|discriminate]|]. cbn [dev_text app].
  destruct D as [l|]; cbn; trivial.
Qed.

Lemma sec_not_bang A B C D : match sec_text A B C D with [] => True | c :: _ => (c =? 33) = false end.
Proof.
  unfold sec_text. destruct A as [[[| |] n]|]; [cbn; reflexivity..|]. cbn [pre_text app].
  destruct B as [n|]; [cbn; reflexivity|]. cbn [post_text app].
  destruct C as [n|]; [cbn; reflexivity|]. cbn [dev_text app].
  destruct D as [l|]; cbn; trivial.
Qed.

Lemma scan_from_release_print ep n l A B C D : loc_ok D ->
  scan_from_release ep (release_nums_print (n :: l) ++ sec_text A B C D) = Some (caps_of ep (n :: l) A B C D).
Proof.
  intros HD. unfold scan_from_release. destruct (release_options_spec n l _ (sec_rel_stop A B C D)) as [o' ->].
  rewrite first_some_cons. unfold sec_text.
  assert (T : scan_tail (loc_text D) = Some (match D with Some l => Some (local_print l) | None => None end)) by (apply scan_tail_print; exact HD).
  match goal with |- match ?X with _ => _ end = _ => assert (E : X = Some (caps_of ep (n :: l) A B C D)); [|rewrite E; reflexivity] end.
  destruct A as [[lab a]|].
  - apply scan_pre_some; [apply after_pre_intro|]. destruct B as [b|].
    + apply scan_post_some; [apply after_post_intro|]. destruct C as [c|].
      * apply scan_dev_some; [apply loc_text_start|]. rewrite T. reflexivity.
      * cbn [dev_text app]. rewrite scan_dev_none by apply loc_text_start. rewrite T. reflexivity.
    + cbn [post_text app]. rewrite scan_post_none by apply after_post_intro. destruct C as [c|].
      * apply scan_dev_some; [apply loc_text_start|]. rewrite T. reflexivity.
      * cbn [dev_text app]. rewrite scan_dev_none by apply loc_text_start. rewrite T. reflexivity.
  - cbn [pre_text app]. rewrite scan_pre_none by apply after_pre_intro. destruct B as [b|].
    + apply scan_post_some; [apply after_post_intro|]. destruct C as [c|].
      * apply scan_dev_some; [apply loc_text_start|]. rewrite T. reflexivity.
      * cbn [dev_text app]. rewrite scan_dev_none by apply loc_text_start. rewrite T. reflexivity.
    + cbn [post_text app]. rewrite scan_post_none by apply after_post_intro. destruct C as [c|].
      * apply scan_dev_some; [apply loc_text_start|]. rewrite T. reflexivity.
      * cbn [dev_text app]. rewrite scan_dev_none by apply loc_text_start. rewrite T. reflexivity.
Qed.

Lemma strip_v_digit c t : is_ascii_digit c = true -> strip_v_ci (c :: t) = c :: t.
Proof.
  intros H. unfold strip_v_ci. unfold is_ascii_digit in H. apply andb_true_iff in H. destruct H as [H1 H2]. apply N.leb_le in H1. apply N.leb_le in H2.
  assert (E1 : (c =? 118) = false) by (apply N.eqb_neq; lia). assert (E2 : (c =? 86) = false) by (apply N.eqb_neq; lia). rewrite E1, E2. reflexivity.
Qed.

Lemma pep_caps_print e n l A B C D : loc_ok D ->
  pep_caps ((if 0 <? e then print_dec e ++ [c_bang] else []) ++ release_nums_print (n :: l) ++ sec_text A B C D)
  = Some (caps_of (if 0 <? e then Some (print_dec e) else None) (n :: l) A B C D).
Proof.
  intros HD. unfold pep_caps. destruct (0 <? e) eqn:Ee.
  - destruct (first_digit e) as [c [t [Ec Hc]]]. rewrite <- app_assoc. cbn [app].
    assert (S0 : strip_v_ci (print_dec e ++ c_bang :: release_nums_print (n :: l) ++ sec_text A B C D) = print_dec e ++ c_bang :: release_nums_print (n :: l) ++ sec_text A B C D).
    { rewrite Ec. cbn [app]. apply strip_v_digit, Hc. }
    rewrite S0. rewrite (span_print e (c_bang :: _) eq_refl). rewrite Ec at 1. change (c_bang =? 33) with true. cbv iota.
    rewrite scan_from_release_print by exact HD. reflexivity.
  - cbn [app]. rewrite release_nums_cons, <- app_assoc. destruct (first_digit n) as [c [t [Ec Hc]]].
    assert (S0 : forall r, strip_v_ci (print_dec n ++ r) = print_dec n ++ r) by (intros r; rewrite Ec; cbn [app]; apply strip_v_digit, Hc).
    rewrite S0. fold (rel_tail l).
    assert (Nd : no_digit_ahead (rel_tail l ++ sec_text A B C D)) by (destruct l as [|m l']; [cbn; apply rel_stop_no_digit, sec_rel_stop|reflexivity]).
    rewrite (span_print n _ Nd).
    assert (W : match print_dec n, rel_tail l ++ sec_text A B C D with
                | _ :: _, c0 :: t0 => if c0 =? 33 then scan_from_release (Some (print_dec n)) t0 else None
                | _, _ => None end = None).
    { rewrite Ec. destruct l as [|m l']; [|reflexivity]. cbn [rel_tail flat_map app]. pose proof (sec_not_bang A B C D) as Hb.
      destruct (sec_text A B C D) as [|c0 t0]; [reflexivity|]. rewrite Hb. reflexivity. }
    rewrite W. unfold rel_tail. rewrite app_assoc, <- release_nums_cons. apply scan_from_release_print, HD.
Qed.

(* ---- conversion of the captures ---- *)
Lemma map_num32_print rel : Forall u32 rel -> map_opt_n num32 (map print_dec rel) = Some rel.
Proof.
  induction 1 as [|x rel Hx _ IH]; [reflexivity|]. cbn [map map_opt_n]. unfold num32 at 1. rewrite (parse_u32_print x Hx), IH. reflexivity.
Qed.

Lemma norm_alnum_id s : alnum s -> map (fun c => if (c =? 45) || (c =? 95) then c_dot else c) s = s.
Proof.
  induction 1 as [|c s Hc _ IH]; [reflexivity|]. cbn [map]. rewrite IH. f_equal.
  destruct (N.eqb_spec c 45) as [->|]; [discriminate Hc|]. destruct (N.eqb_spec c 95) as [->|]; [discriminate Hc|]. reflexivity.
Qed.

Lemma lseg_print_alnum g : lseg_nf g -> good (lseg_print g).
Proof. destruct g as [s|n]; cbn; [tauto|intros _; apply print_dec_good]. Qed.

Lemma local_part_print g : lseg_nf g -> exists g', local_part (lseg_print g) = Some g' /\ normalize_lseg g' = g.
Proof.
  destruct g as [s|n]; cbn [lseg_nf lseg_print].
  - intros [G [U [Z P]]]. exists (LStr s). unfold local_part.
    assert (Nm : normalize_lseg (LStr s) = LStr s).
    { cbn [normalize_lseg]. assert (L : map ascii_lower s = s).
      { clear -U. induction U as [|x s Hx _ IH]; [reflexivity|]. cbn [map]. rewrite IH. unfold ascii_lower. rewrite Hx. reflexivity. }
      rewrite L, P. reflexivity. }
    destruct G as [Gn Ga]. destruct s as [|x s'] eqn:Es; [congruence|]. rewrite <- Es in *. cbv iota. cbn [andb].
    destruct (all_b is_ascii_digit s) eqn:Ad.
    + rewrite P. split; [|exact Nm]. f_equal. f_equal. unfold has_leading_zero in Z. rewrite Ad in Z. cbn [andb] in Z.
      rewrite Es in *. destruct s' as [|y s''].
      * (* one digit: it is not 0 since "0" parses *) cbn [drop_while]. destruct (N.eqb_spec c_0 x) as [<-|]; [|reflexivity]. vm_compute in P. discriminate.
      * cbn [drop_while]. rewrite N.eqb_sym, Z. reflexivity.
    + split; [|exact Nm].
      change (sanitize pep440_local_str s) with (sanitize_to_string (custom_str (Some [c_dot]) true false None) s).
      rewrite (contract_fixed c_dot dot_not_alnum true false None s (nf_str_contract s (conj Gn Ga) U Z)).
      rewrite (alnum_no_dot s Ga). reflexivity.
  - intros H. exists (LUInt n). split; [|reflexivity]. unfold local_part. pose proof (print_dec_nonnil n) as Hn.
    destruct (print_dec n) as [|x t] eqn:E; [congruence|]. rewrite <- E. cbv iota. rewrite print_dec_all_digits. cbn [andb].
    rewrite (parse_u32_print n H). reflexivity.
Qed.

Lemma parse_local_print l : l <> [] -> Forall lseg_nf l ->
  exists l', parse_local_segments (local_print l) = Some l' /\ map normalize_lseg l' = l.
Proof.
  intros Hne W. unfold parse_local_segments.
  assert (An : Forall alnum (map lseg_print l)) by (apply Forall_map; eapply Forall_impl; [|exact W]; intros g Hg; apply lseg_print_alnum, Hg).
  assert (Nm : map (fun c => if (c =? 45) || (c =? 95) then c_dot else c) (local_print l) = local_print l).
  { unfold local_print. clear -An. induction An as [|g ps Hg _ IH]; [reflexivity|]. destruct ps as [|h ps'].
    - cbn [intercalate]. apply norm_alnum_id, Hg.
    - rewrite intercalate_cons_cons, !map_app. f_equal; [apply norm_alnum_id, Hg|]. f_equal. exact IH. }
  rewrite Nm. unfold local_print. rewrite split_join.
  - clear Hne Nm An. induction W as [|g l Hg _ IH]; [exists []; split; reflexivity|]. cbn [map]. destruct IH as [l' [E1 E2]].
    destruct (local_part_print g Hg) as [g' [P1 P2]]. exists (g' :: l'). cbn [map]. rewrite P1, E1, P2, E2. split; reflexivity.
  - destruct l; [congruence|discriminate].
  - eapply Forall_impl; [|exact An]. intros g Hg. apply (alnum_cfree c_dot dot_not_alnum), Hg.
Qed.

Definition pre_of (p : pep) : option (label * N) :=
  match p_pre_label p, p_pre_num p with Some l, Some n => Some (l, n) | _, _ => None end.
Definition post_of (p : pep) : option N := if p_post_label p then p_post_num p else None.
Definition dev_of (p : pep) : option N := if p_dev_label p then p_dev_num p else None.

Lemma pep_print_shape p : pep_nf p -> exists n l, p_release p = n :: l /\
  pep_print p = (if 0 <? p_epoch p then print_dec (p_epoch p) ++ [c_bang] else []) ++ release_nums_print (n :: l)
                ++ sec_text (pre_of p) (post_of p) (dev_of p) (p_local p).
Proof.
  intros [He [Hrn Hru] Hpre Hpost Hdev Hloc]. destruct p as [e rel pl pn ql qn dl dn loc]. cbn [p_epoch p_release p_pre_label p_pre_num p_post_label p_post_num p_dev_label p_dev_num p_local] in *.
  destruct rel as [|n l]; [congruence|]. exists n, l. split; [reflexivity|].
  unfold pep_print, epoch_release_print, pre_section_print, sec_text, pre_of, post_of, dev_of.
  cbn [p_epoch p_release p_pre_label p_pre_num p_post_label p_post_num p_dev_label p_dev_num p_local].
  rewrite <- !app_assoc.
  assert (E1 : match pl with Some l0 => label_print l0 ++ num_opt_print pn | None => [] end = pre_text match pl, pn with Some l0, Some n0 => Some (l0, n0) | _, _ => None end).
  { destruct pl as [lb|]; [destruct Hpre as [x [-> _]]; reflexivity|reflexivity]. }
  assert (E2 : (if ql then [c_dot; 112; 111; 115; 116] ++ num_opt_print qn else []) = post_text (if ql then qn else None)).
  { destruct ql; [destruct Hpost as [x [-> _]]; reflexivity|reflexivity]. }
  assert (E3 : (if dl then [c_dot; 100; 101; 118] ++ num_opt_print dn else []) = dev_text (if dl then dn else None)).
  { destruct dl; [destruct Hdev as [x [-> _]]; reflexivity|reflexivity]. }
  rewrite E1, E2, E3. destruct loc; reflexivity.
Qed.

Theorem pep_extract_print p : pep_nf p -> pep_extract (pep_print p) = Some p.
Proof.
  intros H. destruct (pep_print_shape p H) as [n [l [Er Ep]]]. rewrite Ep.
  destruct H as [He [Hrn Hru] Hpre Hpost Hdev Hloc]. unfold pep_extract.
  rewrite pep_caps_print by exact Hloc. unfold pep_of_caps, caps_of. cbn [k_epoch k_release k_pre k_post k_dev k_local].
  rewrite <- Er, (map_num32_print _ Hru).
  assert (Ee : match (if 0 <? p_epoch p then Some (print_dec (p_epoch p)) else None) with Some d => num32 d | None => Some 0 end = Some (p_epoch p)).
  { destruct (0 <? p_epoch p) eqn:E; [apply parse_u32_print, He|]. apply N.ltb_ge in E. f_equal. lia. }
  rewrite Ee. clear Ee Ep.
  assert (El : match match p_local p with Some l0 => Some (local_print l0) | None => None end with
               | Some l0 => match parse_local_segments l0 with Some x => Some (Some x) | None => None end | None => Some None end
               = match p_local p with Some l0 => (match parse_local_segments (local_print l0) with Some x => Some (Some x) | None => None end) | None => Some None end)
    by (destruct (p_local p); reflexivity).
  rewrite El. clear El.
  destruct p as [e rel pl pn ql qn dl dn loc]. unfold pre_of, post_of, dev_of.
  cbn [p_epoch p_release p_pre_label p_pre_num p_post_label p_post_num p_dev_label p_dev_num p_local] in *.
  assert (Lc : exists loc', match loc with Some l0 => (match parse_local_segments (local_print l0) with Some x => Some (Some x) | None => None end) | None => Some None end = Some loc'
               /\ option_map (map normalize_lseg) loc' = loc).
  { destruct loc as [l0|]; [|exists None; split; reflexivity]. destruct Hloc as [Hn Hw]. destruct (parse_local_print l0 Hn Hw) as [l' [P1 P2]].
    exists (Some l'). rewrite P1. cbn [option_map]. rewrite P2. split; reflexivity. }
  destruct Lc as [loc' [-> Lc2]]. rewrite Lc2. clear Lc2 Hloc.
  destruct pl as [lb|]; [destruct Hpre as [a [-> Ha]]|subst pn];
  (destruct ql; [destruct Hpost as [b [-> Hb]]|subst qn]);
  (destruct dl; [destruct Hdev as [c [-> Hc]]|subst dn]);
  unfold opt_num32, num32; rewrite ?parse_u32_print by assumption; reflexivity.
Qed.

(* zerv's own parser on what zerv prints: accepted by the source regex, and the value that was printed comes back *)
Theorem pep_parse_print p : pep_nf p -> pep_parse (pep_print p) = Some p.
Proof.
  intros H. unfold pep_parse.
  assert (Acc : rx_accepts pep440_src (map pep440_atom_of (pep_print p)) = true).
  { apply rx_accepts_lang, pep440_regex_lang. apply (pep440_output_in_appendix_b (zerv_of_pep p)). apply pep_roundtrip, H. }
  rewrite Acc. apply pep_extract_print, H.
Qed.

(* every PEP 440 rendering of a Zerv object whose numbers fit u32 is read back by zerv itself as the same value *)
Corollary pep_parse_back z p : pep_of_zerv z = Some p -> pep_nf p -> pep_parse (pep_print p) = Some p.
Proof. intros _. apply pep_parse_print. Qed.

Example pep_parse_print_nonvacuous :
  let p := {| p_epoch := 2; p_release := [1; 20; 0]; p_pre_label := Some Rc; p_pre_num := Some 3; p_post_label := true; p_post_num := Some 4;
              p_dev_label := true; p_dev_num := Some 5; p_local := Some [LStr [117; 98]; LUInt 7] |} in
  pep_nf_b p = true /\ pep_parse (pep_print p) = Some p.
Proof. vm_compute. split; reflexivity. Qed.

Print Assumptions pep_parse_print.
