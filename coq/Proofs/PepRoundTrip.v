(* C07: PEP 440 -> Zerv -> PEP 440 is the identity on every PEP 440 value in normal form with numbers below 2^32 (what the parser
   produces): nothing is dropped, reordered or replaced. *)
From Coq Require Import Lia.
From ZV Require Import Str Dec Sanitize SanitizeSpec StrFacts DecFacts SanitizeProofs Zerv Render Pep440 Convert NoPanicProofs IdentProofs PepWfProofs Pep440Nf.
Open Scope N_scope.

Definition u32 (n : N) : Prop := n < 4294967296.
Definition opt_u32_ok (o : option N) : Prop := match o with Some n => u32 n | None => True end.

(* a local segment in normal form *)
Definition lseg_nf (g : lseg) : Prop :=
  match g with
  | LUInt n => u32 n
  | LStr s => good s /\ Forall (fun x => is_ascii_upper x = false) s /\ has_leading_zero s = false /\ parse_u32 s = None
  end.

Record pep_nf (p : pep) : Prop := {
  nf_epoch : u32 (p_epoch p);
  nf_release : p_release p <> [] /\ Forall u32 (p_release p);
  nf_pre : match p_pre_label p with Some _ => exists n, p_pre_num p = Some n /\ u32 n | None => p_pre_num p = None end;
  nf_post : if p_post_label p then exists n, p_post_num p = Some n /\ u32 n else p_post_num p = None;
  nf_dev : if p_dev_label p then exists n, p_dev_num p = Some n /\ u32 n else p_dev_num p = None;
  nf_local : match p_local p with Some l => l <> [] /\ Forall lseg_nf l | None => True end
}.

(* ---- numbers through the sanitisers ---- *)
Lemma digit_not_ws c : is_ascii_digit c = true -> is_whitespace c = false.
Proof.
  unfold is_ascii_digit. intros H. apply andb_true_iff in H. destruct H as [H1 H2]. apply N.leb_le in H1. apply N.leb_le in H2.
  unfold is_whitespace. repeat (apply orb_false_iff; split); try (apply N.eqb_neq; lia); apply andb_false_iff; try (left; apply N.leb_gt; lia); right; apply N.leb_gt; lia.
Qed.

Lemma digits_trim s : all_b is_ascii_digit s = true -> trim_ws s = s.
Proof.
  intros H. apply trim_ws_id.
  - destruct s as [|x s]; [exact I|]. cbn in H. apply andb_true_iff in H. apply digit_not_ws. tauto.
  - intros x t E. apply digit_not_ws. subst s. unfold all_b in H. rewrite forallb_app in H. apply andb_true_iff in H. destruct H as [_ H]. cbn in H.
    rewrite andb_true_r in H. exact H.
Qed.

Lemma uint_sanitize_print n : sanitize uint_sanitizer (print_dec n) = print_dec n.
Proof.
  unfold sanitize. cbn [sz_uint uint_sanitizer]. unfold sanitize_to_integer. cbn [sz_keep_zeros].
  rewrite (digits_trim _ (print_dec_all_digits n)), print_dec_all_digits.
  pose proof (print_dec_canonical n) as C. pose proof (print_dec_nonnil n) as Hn.
  destruct (print_dec n) as [|c [|d s]] eqn:E; [congruence| |].
  - cbn [negb andb drop_while]. destruct (N.eqb c_0 c) eqn:Z; [apply N.eqb_eq in Z; subst; reflexivity|reflexivity].
  - cbn [canonical_dec] in C. apply andb_true_iff in C. destruct C as [_ C]. apply negb_true_iff in C. cbn [negb andb drop_while].
    assert (Z : N.eqb c_0 c = false) by (unfold c_0; rewrite N.eqb_sym; exact C). rewrite Z. reflexivity.
Qed.

Lemma parse_u32_print n : u32 n -> parse_u32 (print_dec n) = Some n.
Proof.
  intros H. unfold parse_u32, parse_uint_bits.
  pose proof (print_dec_all_digits n) as D. pose proof (print_dec_nonnil n) as Hn.
  destruct (print_dec n) as [|c t] eqn:E; [congruence|].
  assert (P : (c =? 43) = false).
  { cbn in D. apply andb_true_iff in D. destruct D as [D _]. unfold is_ascii_digit in D. apply andb_true_iff in D. destruct D as [D _]. apply N.leb_le in D. apply N.eqb_neq. lia. }
  rewrite P, <- E, parse_print. assert (L : (n <? 2 ^ 32) = true) by (apply N.ltb_lt; exact H). rewrite L. reflexivity.
Qed.

Lemma digits_contract lower n : contract c_dot lower false None (print_dec n).
Proof.
  constructor; [|exact I]. exists [print_dec n]. split; [reflexivity|]. split; [constructor; [apply print_dec_good|constructor]|]. split.
  - intros _. constructor; [|constructor]. pose proof (print_dec_canonical n) as C. unfold has_leading_zero. rewrite print_dec_all_digits.
    destruct (print_dec n) as [|c [|d s]]; [reflexivity|reflexivity|]. cbn [canonical_dec] in C. apply andb_true_iff in C. destruct C as [_ C].
    apply negb_true_iff in C. cbn. exact C.
  - intros _. constructor; [|constructor]. pose proof (print_dec_all_digits n) as D. unfold all_b in D; apply forallb_Forall in D. eapply Forall_impl; [|exact D].
    intros x Hx. unfold is_ascii_digit in Hx. apply andb_true_iff in Hx. destruct Hx as [H1 H2]. apply N.leb_le in H1. apply N.leb_le in H2.
    unfold is_ascii_upper. apply andb_false_iff. left. apply N.leb_gt. lia.
Qed.

Lemma sanitize_digits lower n : sanitize_to_string (custom_str (Some [c_dot]) lower false None) (print_dec n) = print_dec n.
Proof. apply (contract_fixed c_dot dot_not_alnum), digits_contract. Qed.

(* ---- values of numeric variables and literals ---- *)
Lemma u32_value_uint n vs : u32 n -> u32_value (CUInt n) vs = Some n.
Proof.
  intros H. unfold u32_value. cbn [comp_value]. rewrite uint_sanitize_print.
  pose proof (print_dec_nonnil n). destruct (print_dec n) eqn:E; [congruence|]. cbn [nonempty]. rewrite <- E. apply parse_u32_print, H.
Qed.

Definition numvar (v : var) (get : vars -> option N) : Prop :=
  forall vs z, var_value v vs z = omap (fun n => sanitize z (print_dec n)) (get vs).

Lemma u32_value_var v get vs : numvar v get -> opt_u32_ok (get vs) -> u32_value (CVar v) vs = get vs.
Proof.
  intros Hv Ho. unfold u32_value. cbn [comp_value]. rewrite Hv. destruct (get vs) as [n|]; [|reflexivity]. cbn [omap].
  rewrite uint_sanitize_print. pose proof (print_dec_nonnil n). destruct (print_dec n) eqn:E; [congruence|]. cbn [nonempty]. rewrite <- E. apply parse_u32_print, Ho.
Qed.

Lemma local_value_var_none v get vs : numvar v get -> get vs = None -> local_value (CVar v) vs = Some [].
Proof. intros Hv Hn. unfold local_value. cbn [comp_value]. rewrite Hv, Hn. reflexivity. Qed.

Lemma numvar_major : numvar Major v_major. Proof. intros vs z; reflexivity. Qed.
Lemma numvar_minor : numvar Minor v_minor. Proof. intros vs z; reflexivity. Qed.
Lemma numvar_patch : numvar Patch v_patch. Proof. intros vs z; reflexivity. Qed.
Lemma numvar_epoch : numvar Epoch v_epoch. Proof. intros vs z; reflexivity. Qed.
Lemma numvar_post : numvar Post v_post. Proof. intros vs z; reflexivity. Qed.
Lemma numvar_dev : numvar Dev v_dev. Proof. intros vs z; reflexivity. Qed.

Definition mkp e r pl pn sl sn dl dn loc : pep :=
  {| p_epoch := e; p_release := r; p_pre_label := pl; p_pre_num := pn; p_post_label := sl; p_post_num := sn; p_dev_label := dl; p_dev_num := dn; p_local := loc |}.
Definition mka p b : pep_acc := {| q := p; q_panic := b |}.

(* a numeric core variable: appends its value to the release, or is skipped when unset *)
Lemma core_step_var v get vs e r pl pn sl sn dl dn loc b : numvar v get -> opt_u32_ok (get vs) ->
  pep_core_step vs (mka (mkp e r pl pn sl sn dl dn loc) b) (CVar v) =
  mka (mkp e (match get vs with Some n => r ++ [n] | None => r end) pl pn sl sn dl dn loc) b.
Proof.
  intros Hv Ho. unfold pep_core_step. rewrite (u32_value_var v get vs Hv Ho). destruct (get vs) as [n|] eqn:E; [reflexivity|].
  rewrite (local_value_var_none v get vs Hv E). unfold pep_add_local, push_local. reflexivity.
Qed.

Lemma core_step_uint vs n e r pl pn sl sn dl dn loc b : u32 n ->
  pep_core_step vs (mka (mkp e r pl pn sl sn dl dn loc) b) (CUInt n) = mka (mkp e (r ++ [n]) pl pn sl sn dl dn loc) b.
Proof. intros H. unfold pep_core_step. rewrite (u32_value_uint n vs H). reflexivity. Qed.

Lemma core_fold_uints vs l : Forall u32 l -> forall e r pl pn sl sn dl dn loc b,
  fold_left (pep_core_step vs) (map CUInt l) (mka (mkp e r pl pn sl sn dl dn loc) b) = mka (mkp e (r ++ l) pl pn sl sn dl dn loc) b.
Proof.
  induction 1 as [|n l Hn Hl IH]; intros e r pl pn sl sn dl dn loc b; cbn [map fold_left]; [rewrite app_nil_r; reflexivity|].
  rewrite (core_step_uint vs n e r pl pn sl sn dl dn loc b Hn), IH, <- app_assoc. reflexivity.
Qed.

(* ---- local segments ---- *)
Lemma nf_str_contract s : good s -> Forall (fun x => is_ascii_upper x = false) s -> has_leading_zero s = false -> contract c_dot true false None s.
Proof.
  intros G U Z. constructor; [|exact I]. exists [s]. split; [reflexivity|]. split; [constructor; [exact G|constructor]|].
  split; intros _; constructor; try constructor; assumption.
Qed.

Lemma local_seg_str s : good s -> Forall (fun x => is_ascii_upper x = false) s -> has_leading_zero s = false -> parse_u32 s = None ->
  local_seg s = Some (LStr s).
Proof.
  intros G U Z P. unfold local_seg. rewrite P.
  change (sanitize pep440_local_str s) with (sanitize_to_string (custom_str (Some [c_dot]) true false None) s).
  rewrite (contract_fixed c_dot dot_not_alnum true false None s (nf_str_contract s G U Z)).
  destruct G as [_ Ga]. rewrite (alnum_no_dot s Ga). reflexivity.
Qed.

Lemma local_value_lseg g vs : lseg_nf g -> local_value (comp_of_lseg g) vs = Some [g].
Proof.
  destruct g as [s|n]; cbn [lseg_nf comp_of_lseg].
  - intros [G [U [Z P]]]. unfold local_value. cbn [comp_value].
    change (sanitize pep440_local_str s) with (sanitize_to_string (custom_str (Some [c_dot]) true false None) s).
    rewrite (contract_fixed c_dot dot_not_alnum true false None s (nf_str_contract s G U Z)).
    destruct s as [|x s'] eqn:Es; [destruct G; congruence|]. cbn [nonempty]. rewrite <- Es in *. unfold flatten_local.
    rewrite (split_on_cfree c_dot s (alnum_cfree c_dot dot_not_alnum s (proj2 G))).
    assert (Ne : nonempty s = true) by (rewrite Es; reflexivity). cbn [filter]. rewrite Ne. cbn [map all_some].
    rewrite (local_seg_str s G U Z P). reflexivity.
  - intros H. unfold local_value. cbn [comp_value].
    change (sanitize pep440_local_str (print_dec n)) with (sanitize_to_string (custom_str (Some [c_dot]) true false None) (print_dec n)).
    rewrite sanitize_digits. pose proof (print_dec_good n) as [Hne Hal].
    destruct (print_dec n) as [|x s'] eqn:Es; [congruence|]. cbn [nonempty]. rewrite <- Es in *. unfold flatten_local.
    rewrite (split_on_cfree c_dot _ (alnum_cfree c_dot dot_not_alnum _ Hal)).
    assert (Ne : nonempty (print_dec n) = true) by (rewrite Es; reflexivity). cbn [filter]. rewrite Ne. cbn [map all_some].
    unfold local_seg. rewrite (parse_u32_print n H). reflexivity.
Qed.

Lemma build_step_lseg vs g e r pl pn sl sn dl dn loc b : lseg_nf g ->
  pep_build_step vs (mka (mkp e r pl pn sl sn dl dn loc) b) (comp_of_lseg g) =
  mka (mkp e r pl pn sl sn dl dn (Some (match loc with Some x => x ++ [g] | None => [g] end))) b.
Proof. intros H. unfold pep_build_step. rewrite (local_value_lseg g vs H). reflexivity. Qed.

Lemma build_fold vs l : Forall lseg_nf l -> forall e r pl pn sl sn dl dn loc b,
  fold_left (pep_build_step vs) (map comp_of_lseg l) (mka (mkp e r pl pn sl sn dl dn loc) b) =
  mka (mkp e r pl pn sl sn dl dn (match l with [] => loc | _ => Some (match loc with Some x => x ++ l | None => l end) end)) b.
Proof.
  induction 1 as [|g l Hg Hl IH]; intros e r pl pn sl sn dl dn loc b; cbn [map fold_left]; [reflexivity|].
  rewrite (build_step_lseg vs g e r pl pn sl sn dl dn loc b Hg), IH. destruct l as [|g2 l2]; [reflexivity|].
  destruct loc as [x|]; [rewrite <- app_assoc|]; reflexivity.
Qed.

(* ---- extra-core steps ---- *)
Lemma label_sanitized l : label_of_str (sanitize key_sanitizer (label_str l)) = Some l.
Proof. destruct l; vm_compute; reflexivity. Qed.
Lemma label_sanitized_nonempty l : nonempty (sanitize key_sanitizer (label_str l)) = true.
Proof. destruct l; vm_compute; reflexivity. Qed.

Lemma pre_expanded vs l n : v_pre vs = Some {| pr_label := l; pr_num := Some n |} ->
  var_expanded PreRelease vs pep440_local_str = [sanitize key_sanitizer (label_str l); print_dec n].
Proof.
  intros E. unfold var_expanded. rewrite E. cbn [pr_label]. unfold var_value. rewrite E. cbn [pr_num omap].
  change (sanitize pep440_local_str (print_dec n)) with (sanitize_to_string (custom_str (Some [c_dot]) true false None) (print_dec n)).
  rewrite sanitize_digits. reflexivity.
Qed.

Lemma extra_step_epoch vs e r pl pn sl sn dl dn loc b : v_epoch vs = (if 0 <? e then Some e else None) -> u32 e ->
  pep_extra_step vs (mka (mkp 0 r pl pn sl sn dl dn loc) b) (CVar Epoch) = mka (mkp e r pl pn sl sn dl dn loc) b.
Proof.
  intros E H. unfold pep_extra_step.
  assert (O : opt_u32_ok (v_epoch vs)) by (rewrite E; destruct (0 <? e); [exact H|exact I]).
  rewrite (u32_value_var Epoch v_epoch vs numvar_epoch O), E. destruct (0 <? e) eqn:Z; [reflexivity|].
  apply N.ltb_ge in Z. assert (e = 0) by lia. subst e. reflexivity.
Qed.

Lemma extra_step_pre vs e r pl pn sl sn dl dn loc b :
  v_pre vs = match pl with Some l => Some {| pr_label := l; pr_num := pn |} | None => None end ->
  match pl with Some _ => exists n, pn = Some n /\ u32 n | None => pn = None end ->
  pep_extra_step vs (mka (mkp e r None None sl sn dl dn loc) b) (CVar PreRelease) = mka (mkp e r pl pn sl sn dl dn loc) b.
Proof.
  intros E N. unfold pep_extra_step. destruct pl as [l|].
  - destruct N as [n [-> Hn]]. rewrite (pre_expanded vs l n E), label_sanitized_nonempty, label_sanitized.
    pose proof (print_dec_nonnil n) as Hne. destruct (print_dec n) eqn:Ep; [congruence|]. cbn [nonempty]. rewrite <- Ep, (parse_u32_print n Hn). reflexivity.
  - subst pn. unfold var_expanded. rewrite E. reflexivity.
Qed.

Lemma extra_step_post vs e r pl pn (sl : bool) sn dl dn loc b : v_post vs = sn ->
  (if sl then exists n, sn = Some n /\ u32 n else sn = None) ->
  pep_extra_step vs (mka (mkp e r pl pn false None dl dn loc) b) (CVar Post) = mka (mkp e r pl pn sl sn dl dn loc) b.
Proof.
  intros E N. unfold pep_extra_step.
  assert (O : opt_u32_ok (v_post vs)) by (rewrite E; destruct sl; [destruct N as [n [-> H]]; exact H|rewrite N; exact I]).
  rewrite (u32_value_var Post v_post vs numvar_post O), E. destruct sl; [destruct N as [n [-> _]]; reflexivity|rewrite N; reflexivity].
Qed.

Lemma extra_step_dev vs e r pl pn sl sn (dl : bool) dn loc b : v_dev vs = dn ->
  (if dl then exists n, dn = Some n /\ u32 n else dn = None) ->
  pep_extra_step vs (mka (mkp e r pl pn sl sn false None loc) b) (CVar Dev) = mka (mkp e r pl pn sl sn dl dn loc) b.
Proof.
  intros E N. unfold pep_extra_step.
  assert (O : opt_u32_ok (v_dev vs)) by (rewrite E; destruct dl; [destruct N as [n [-> H]]; exact H|rewrite N; exact I]).
  rewrite (u32_value_var Dev v_dev vs numvar_dev O), E. destruct dl; [destruct N as [n [-> _]]; reflexivity|rewrite N; reflexivity].
Qed.

Lemma skipn_Forall {A} (P : A -> Prop) k : forall l, Forall P l -> Forall P (skipn k l).
Proof. induction k as [|k IH]; intros l H; [exact H|]. destruct l; [constructor|]. inversion H; subst. apply IH. assumption. Qed.

Lemma release_rebuild (r : list N) : r <> [] ->
  (match nth_error r 2 with
   | Some n => (match nth_error r 1 with Some n0 => (match nth_error r 0 with Some n1 => [] ++ [n1] | None => [] end) ++ [n0]
                                         | None => match nth_error r 0 with Some n1 => [] ++ [n1] | None => [] end end) ++ [n]
   | None => match nth_error r 1 with Some n0 => (match nth_error r 0 with Some n1 => [] ++ [n1] | None => [] end) ++ [n0]
                                      | None => match nth_error r 0 with Some n1 => [] ++ [n1] | None => [] end end
   end) ++ skipn 3 r = r.
Proof. intros H. destruct r as [|a [|b0 [|c0 rest]]]; cbn; reflexivity || congruence. Qed.

Theorem pep_roundtrip p : pep_nf p -> pep_of_zerv (zerv_of_pep p) = Some p.
Proof.
  intros [Ne [Nr Nru] Npre Npost Ndev Nloc]. destruct p as [e r pl pn sl sn dl dn loc].
  cbn [p_epoch p_release p_pre_label p_pre_num p_post_label p_post_num p_dev_label p_dev_num p_local] in *.
  unfold pep_of_zerv, zerv_of_pep. cbn [z_schema z_vars s_core s_extra s_build p_epoch p_release p_pre_label p_pre_num p_post_label p_post_num p_dev_label p_dev_num p_local].
  set (vs := {| v_major := nth_error r 0; v_minor := nth_error r 1; v_patch := nth_error r 2; v_epoch := if 0 <? e then Some e else None;
                v_pre := match pl with Some l => Some {| pr_label := l; pr_num := pn |} | None => None end; v_post := sn; v_dev := dn;
                v_distance := None; v_dirty := None; v_bumped_branch := None; v_bumped_hash := None; v_bumped_ts := None;
                v_last_branch := None; v_last_hash := None; v_last_ts := None; v_last_tag := None; v_custom := JNull |}).
  assert (Onth : forall i, opt_u32_ok (nth_error r i)).
  { intros i. destruct (nth_error r i) eqn:E; [|exact I]. cbn. rewrite Forall_forall in Nru. apply Nru. eapply nth_error_In, E. }
  rewrite fold_left_app. unfold standard_core, pep_empty. cbn [fold_left].
  change {| q := {| p_epoch := 0; p_release := []; p_pre_label := None; p_pre_num := None; p_post_label := false; p_post_num := None; p_dev_label := false; p_dev_num := None; p_local := None |}; q_panic := false |}
    with (mka (mkp 0 [] None None false None false None None) false).
  rewrite (core_step_var Major v_major vs _ _ _ _ _ _ _ _ _ _ numvar_major (Onth 0%nat)).
  rewrite (core_step_var Minor v_minor vs _ _ _ _ _ _ _ _ _ _ numvar_minor (Onth 1%nat)).
  rewrite (core_step_var Patch v_patch vs _ _ _ _ _ _ _ _ _ _ numvar_patch (Onth 2%nat)).
  rewrite (core_fold_uints vs _ (skipn_Forall u32 3 r Nru)).
  change (v_major vs) with (nth_error r 0). change (v_minor vs) with (nth_error r 1). change (v_patch vs) with (nth_error r 2).
  rewrite (release_rebuild r Nr).
  assert (Erel : match p_release (q (mka (mkp 0 r None None false None false None None) false)) with
                 | [] => {| q := {| p_epoch := 0; p_release := [0]; p_pre_label := None; p_pre_num := None; p_post_label := false; p_post_num := None;
                                    p_dev_label := false; p_dev_num := None; p_local := None |}; q_panic := false |}
                 | _ :: _ => mka (mkp 0 r None None false None false None None) false end = mka (mkp 0 r None None false None false None None) false).
  { cbn [mka mkp q p_release]. destruct r; [congruence|reflexivity]. }
  cbn [mka mkp q q_panic p_epoch p_release p_pre_label p_pre_num p_post_label p_post_num p_dev_label p_dev_num p_local] in Erel |- *.
  rewrite Erel. clear Erel.
  unfold prerelease_post_dev_extra. cbn [fold_left].
  fold (mkp 0 r None None false None false None None). fold (mka (mkp 0 r None None false None false None None) false).
  rewrite (extra_step_epoch vs e r None None false None false None None false eq_refl Ne).
  rewrite (extra_step_pre vs e r pl pn false None false None None false eq_refl Npre).
  rewrite (extra_step_post vs e r pl pn sl sn false None None false eq_refl Npost).
  rewrite (extra_step_dev vs e r pl pn sl sn dl dn None false eq_refl Ndev).
  assert (Norm : forall loc', (match loc' with Some l => Forall lseg_nf l | None => True end) ->
                 pep_normalize (mkp e r pl pn sl sn dl dn loc') = mkp e r pl pn sl sn dl dn loc').
  { intros loc' Fl. unfold pep_normalize, mkp. cbn [p_epoch p_release p_pre_label p_pre_num p_post_label p_post_num p_dev_label p_dev_num p_local]. f_equal.
    - destruct pl; [destruct Npre as [n [-> _]]; reflexivity|rewrite Npre; reflexivity].
    - destruct sl; [destruct Npost as [n [-> _]]; reflexivity|reflexivity].
    - destruct dl; [destruct Ndev as [n [-> _]]; reflexivity|reflexivity].
    - destruct loc' as [l|]; [|reflexivity]. cbn [option_map]. f_equal. apply map_fixed. eapply Forall_impl; [|exact Fl].
      intros g0 Hg0. destruct g0 as [s|n]; [|reflexivity]. destruct Hg0 as [_ [U [_ P]]]. cbn.
      assert (El : map ascii_lower s = s) by (apply map_fixed; eapply Forall_impl; [|exact U]; intros x Hx; unfold ascii_lower; rewrite Hx; reflexivity).
      rewrite El, P. reflexivity. }
  destruct loc as [l|].
  - destruct Nloc as [Hl Fl]. rewrite (build_fold vs l Fl). destruct l as [|g l']; [congruence|]. cbn [mka q q_panic]. rewrite (Norm (Some (g :: l')) Fl). reflexivity.
  - cbn [map fold_left mka q q_panic]. rewrite (Norm None I). reflexivity.
Qed.

(* ---- the hypothesis as an executable test (Spec/Pep440Nf.v; run by the correspondence check on every value the parser returns) ---- *)
Lemma u32_b_ok n : u32_b n = true -> u32 n.
Proof. apply N.ltb_lt. Qed.

Lemma lseg_nf_b_sound g : lseg_nf_b g = true -> lseg_nf g.
Proof.
  destruct g as [s|n]; cbn [lseg_nf_b lseg_nf]; [|apply u32_b_ok].
  rewrite !andb_true_iff. intros [[[[H1 H2] H3] H4] H5]. repeat split.
  - destruct s; [discriminate|discriminate].
  - apply forallb_Forall, H2.
  - apply forallb_Forall in H3. eapply Forall_impl; [|exact H3]. intros x Hx. apply negb_true_iff, Hx.
  - apply negb_true_iff, H4.
  - destruct (parse_u32 s); [discriminate|reflexivity].
Qed.

Theorem pep_nf_b_sound p : pep_nf_b p = true -> pep_nf p.
Proof.
  unfold pep_nf_b. rewrite !andb_true_iff. intros [[[[[[H1 H2] H3] H4] H5] H6] H7]. constructor.
  - apply u32_b_ok, H1.
  - split; [destruct (p_release p); [discriminate|discriminate]|]. apply forallb_Forall in H3. eapply Forall_impl; [|exact H3]. intros x; apply u32_b_ok.
  - destruct (p_pre_label p); [destruct (p_pre_num p) as [n|]; [exists n; split; [reflexivity|apply u32_b_ok, H4]|discriminate]|destruct (p_pre_num p); [discriminate|reflexivity]].
  - destruct (p_post_label p); [destruct (p_post_num p) as [n|]; [exists n; split; [reflexivity|apply u32_b_ok, H5]|discriminate]|destruct (p_post_num p); [discriminate|reflexivity]].
  - destruct (p_dev_label p); [destruct (p_dev_num p) as [n|]; [exists n; split; [reflexivity|apply u32_b_ok, H6]|discriminate]|destruct (p_dev_num p); [discriminate|reflexivity]].
  - destruct (p_local p) as [l|]; [|exact I]. apply andb_true_iff in H7. destruct H7 as [H7 H8]. split; [destruct l; [discriminate|discriminate]|].
    apply forallb_Forall in H8. eapply Forall_impl; [|exact H8]. intros g; apply lseg_nf_b_sound.
Qed.

(* so: whenever the test passes on a parsed value, converting it to Zerv and back returns it unchanged *)
Corollary pep_roundtrip_b p : pep_nf_b p = true -> pep_of_zerv (zerv_of_pep p) = Some p.
Proof. intros H. apply pep_roundtrip, pep_nf_b_sound, H. Qed.
