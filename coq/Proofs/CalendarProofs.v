(* C17: the closed-form calendar is the Gregorian calendar (characterised by next_day), for every day in Z *)
From Coq Require Import Lia ZArith List Bool.
From ZV Require Import Calendar CalendarSpec CalendarSweep.
Import ListNotations.
Open Scope Z_scope.

Definition shift400 (t : Z * Z * Z) : Z * Z * Z := let '(y, m, d) := t in (y + 400, m, d).

Lemma civil_shift z : civil_from_days (z + 146097) = shift400 (civil_from_days z).
Proof.
  unfold civil_from_days, shift400.
  replace (z + 146097 + 719468) with (z + 719468 + 1 * 146097) by ring.
  rewrite Z.div_add by lia.
  set (era := (z + 719468) / 146097).
  replace (z + 719468 + 1 * 146097 - (era + 1) * 146097) with (z + 719468 - era * 146097) by ring.
  set (doe := z + 719468 - era * 146097).
  cbv zeta.
  set (yoe := (doe - doe / 1460 + doe / 36524 - doe / 146096) / 365).
  set (doy := doe - (365 * yoe + yoe / 4 - yoe / 100)).
  set (mp := (5 * doy + 2) / 153).
  destruct ((if mp <? 10 then mp + 3 else mp - 9) <=? 2); f_equal; f_equal; ring.
Qed.

Lemma leap_shift y : leap (y + 400) = leap y.
Proof.
  unfold leap.
  replace (y + 400) with (y + 100 * 4) at 1 by ring. rewrite Z.mod_add by lia.
  replace (y + 400) with (y + 4 * 100) at 1 by ring. rewrite Z.mod_add by lia.
  replace (y + 400) with (y + 1 * 400) by ring. rewrite Z.mod_add by lia.
  reflexivity.
Qed.

Lemma month_len_shift y m : month_len (y + 400) m = month_len y m.
Proof. unfold month_len. rewrite leap_shift. reflexivity. Qed.

Lemma next_day_shift t : next_day (shift400 t) = shift400 (next_day t).
Proof.
  destruct t as [[y m] d]. unfold next_day, shift400. rewrite month_len_shift.
  destruct (d <? month_len y m); [reflexivity|]. destruct (m <? 12); [reflexivity|]. f_equal. f_equal. ring.
Qed.

Lemma valid_shift t : valid_date t -> valid_date (shift400 t).
Proof. destruct t as [[y m] d]. unfold valid_date, shift400. rewrite month_len_shift. tauto. Qed.

Lemma valid_unshift t : valid_date (shift400 t) -> valid_date t.
Proof. destruct t as [[y m] d]. unfold valid_date, shift400. rewrite month_len_shift. tauto. Qed.

Lemma cycle_day k : 0 <= k < 146097 ->
  civil_from_days (k + 1) = next_day (civil_from_days k) /\ valid_date (civil_from_days k).
Proof.
  intros H. pose proof cycle_ok as C. rewrite forallb_forall in C.
  specialize (C k (in_zrangeZ 146097 k H)). unfold check_day in C. apply andb_true_iff in C.
  destruct C as [C1 C2]. split; [apply triple_eqb_eq, C1|apply valid_b_ok, C2].
Qed.

Definition P (z : Z) : Prop :=
  civil_from_days (z + 1) = next_day (civil_from_days z) /\ valid_date (civil_from_days z).

Lemma P_up z : P z -> P (z + 146097).
Proof.
  intros [H1 H2]. split.
  - replace (z + 146097 + 1) with (z + 1 + 146097) by ring. rewrite !civil_shift, H1, next_day_shift. reflexivity.
  - rewrite civil_shift. apply valid_shift, H2.
Qed.

Lemma shift400_inj a b : shift400 a = shift400 b -> a = b.
Proof. destruct a as [[y m] d], b as [[y' m'] d']. unfold shift400. intros H. injection H as H1 H2 H3. replace y' with y by lia. subst. reflexivity. Qed.

Lemma P_down z : P (z + 146097) -> P z.
Proof.
  intros [H1 H2]. split.
  - replace (z + 146097 + 1) with (z + 1 + 146097) in H1 by ring. rewrite !civil_shift, next_day_shift in H1.
    apply shift400_inj, H1.
  - rewrite civil_shift in H2. apply valid_unshift, H2.
Qed.

Lemma P_all_qr q : forall r, 0 <= r < 146097 -> P (r + q * 146097).
Proof.
  induction q using Z.peano_ind; intros r Hr.
  - rewrite Z.add_0_r. apply cycle_day, Hr.
  - replace (r + Z.succ q * 146097) with (r + q * 146097 + 146097) by lia. apply P_up, IHq, Hr.
  - apply P_down. replace (r + Z.pred q * 146097 + 146097) with (r + q * 146097) by lia. apply IHq, Hr.
Qed.

Theorem civil_step z : civil_from_days (z + 1) = next_day (civil_from_days z).
Proof.
  pose proof (Z.div_mod z 146097 ltac:(lia)) as E. pose proof (Z.mod_pos_bound z 146097 ltac:(lia)) as B.
  destruct (P_all_qr (z / 146097) (z mod 146097) B) as [H _].
  replace (z mod 146097 + z / 146097 * 146097) with z in H by lia. exact H.
Qed.

Theorem civil_valid z : valid_date (civil_from_days z).
Proof.
  pose proof (Z.div_mod z 146097 ltac:(lia)) as E. pose proof (Z.mod_pos_bound z 146097 ltac:(lia)) as B.
  destruct (P_all_qr (z / 146097) (z mod 146097) B) as [_ H].
  replace (z mod 146097 + z / 146097 * 146097) with z in H by lia. exact H.
Qed.

Theorem civil_epoch : civil_from_days 0 = (1970, 1, 1).
Proof. reflexivity. Qed.

(* next_day is injective on valid dates, so the two facts above characterise the function:
   any f with f 0 = (1970,1,1) and f (z+1) = next_day (f z) for all z agrees with civil_from_days *)
Lemma month_len_bounds y m : 28 <= month_len y m <= 31.
Proof. unfold month_len. destruct (m =? 2); [destruct (leap y); lia|]. destruct ((m =? 4) || (m =? 6) || (m =? 9) || (m =? 11)); lia. Qed.

Lemma month_len_12 y : month_len y 12 = 31.
Proof. reflexivity. Qed.

Lemma next_day_inj a b : valid_date a -> valid_date b -> next_day a = next_day b -> a = b.
Proof.
  destruct a as [[y m] d], b as [[y' m'] d']. unfold valid_date, next_day.
  intros [Hm Hd] [Hm' Hd'].
  destruct (Z.ltb_spec d (month_len y m)) as [L1|L1]; destruct (Z.ltb_spec d' (month_len y' m')) as [L2|L2].
  - intros E. injection E. intros. f_equal; [f_equal|]; lia.
  - destruct (Z.ltb_spec m' 12); intros E; injection E; intros; lia.
  - destruct (Z.ltb_spec m 12); intros E; injection E; intros; lia.
  - destruct (Z.ltb_spec m 12) as [M1|M1]; destruct (Z.ltb_spec m' 12) as [M2|M2]; intros E; injection E; intros; try lia.
    + assert (y = y') by lia. assert (m = m') by lia. subst. f_equal. lia.
    + assert (y = y') by lia. assert (m = 12) by lia. assert (m' = 12) by lia. subst.
      rewrite month_len_12 in *. f_equal. lia.
Qed.

Theorem civil_unique (f : Z -> Z * Z * Z) :
  f 0 = (1970, 1, 1) -> (forall z, f (z + 1) = next_day (f z)) -> (forall z, valid_date (f z)) ->
  forall z, f z = civil_from_days z.
Proof.
  intros H0 Hs Hv z. induction z using Z.peano_ind.
  - rewrite H0. reflexivity.
  - unfold Z.succ. rewrite Hs, civil_step, IHz. reflexivity.
  - apply next_day_inj; [apply Hv|apply civil_valid|].
    rewrite <- Hs, <- civil_step. replace (Z.pred z + 1) with z by lia. exact IHz.
Qed.

(* --- weeks --- *)
Theorem week_counts_mondays yd wd0 : 0 <= yd <= 365 -> 0 <= wd0 <= 6 ->
  week_monday yd ((wd0 + yd) mod 7) = mondays_upto (Z.to_nat yd + 1) wd0.
Proof.
  intros H1 H2. pose proof week_sweep as W. rewrite forallb_forall in W.
  specialize (W yd (in_zrangeZ 366 yd ltac:(lia))). rewrite forallb_forall in W.
  specialize (W wd0 (in_zrangeZ 7 wd0 ltac:(lia))). apply Z.eqb_eq, W.
Qed.

Lemma wd_step z : wd_monday (z + 1) = (wd_monday z + 1) mod 7.
Proof. unfold wd_monday. replace (z + 1 + 3) with (z + 3 + 1) by ring. rewrite (Z.add_mod (z + 3) 1 7) by lia. reflexivity. Qed.

(* day of the year: 0 on January 1st, +1 each day within a year *)
Lemma is_leap_leap y : is_leap y = leap y.
Proof. reflexivity. Qed.

Theorem yday_jan1 y : yday0 y 1 1 = 0.
Proof. unfold yday0, days_before_month. cbn. rewrite andb_false_r. reflexivity. Qed.

Theorem yday_step y m d : valid_date (y, m, d) ->
  let '(y', m', d') := next_day (y, m, d) in
  if y' =? y then yday0 y' m' d' = yday0 y m d + 1 else (m', d') = (1, 1).
Proof.
  unfold valid_date, next_day. intros [Hm Hd].
  destruct (Z.ltb_spec d (month_len y m)).
  - rewrite Z.eqb_refl. unfold yday0. lia.
  - destruct (Z.ltb_spec m 12).
    + rewrite Z.eqb_refl. assert (d = month_len y m) by lia. subst d. unfold yday0, days_before_month, month_len. rewrite is_leap_leap.
      assert (m = 1 \/ m = 2 \/ m = 3 \/ m = 4 \/ m = 5 \/ m = 6 \/ m = 7 \/ m = 8 \/ m = 9 \/ m = 10 \/ m = 11) as Hc by lia.
      destruct (leap y); repeat (destruct Hc as [Hc|Hc]; [subst m; cbn; reflexivity|]); subst m; cbn; reflexivity.
    + destruct (Z.eqb_spec (y + 1) y); [lia|reflexivity].
Qed.

(* --- time of day --- *)
Ltac Zify.zify_post_hook ::= Z.div_mod_to_equations.
Lemma tod_bounds s : let sod := s mod 86400 in
  0 <= sod / 3600 <= 23 /\ 0 <= (sod mod 3600) / 60 <= 59 /\ 0 <= sod mod 60 <= 59 /\
  s = (s / 86400) * 86400 + (sod / 3600) * 3600 + ((sod mod 3600) / 60) * 60 + sod mod 60.
Proof. cbv zeta. repeat split; lia. Qed.
