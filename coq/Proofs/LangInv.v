(* Inversion of regex-language membership for words that are images of strings under an atom function: generic in the atom function. *)
From Coq Require Import Lia.
From ZV Require Import Str Dec StrFacts Rx RxLang GrammarProofs.
From RelationAlgebra Require regex.
Open Scope N_scope.

Section Inv.
Variable at_of : N -> positive.
Hypothesis at_high : forall c, 128 <= c -> at_of c = at_of 128.

Definition LSg (e : regex.regex) (s : str) : Prop := regex.lang e (map at_of s).

Lemma LSg_dot_inv e f s : LSg (regex.r_dot e f) s -> exists s1 s2, s = s1 ++ s2 /\ LSg e s1 /\ LSg f s2.
Proof.
  unfold LSg. intros H. apply lang_dot_inv in H. destruct H as [u [v [E [Hu Hv]]]]. apply map_eq_app in E. destruct E as [s1 [s2 [E [E1 E2]]]].
  exists s1, s2. subst u v. repeat split; assumption.
Qed.

Lemma LSg_pls_inv e f s : LSg (regex.r_pls e f) s -> LSg e s \/ LSg f s.
Proof. apply lang_pls_inv. Qed.

Lemma LSg_one_inv s : LSg regex.r_one s -> s = [].
Proof. unfold LSg. intros H. apply lang_one_inv in H. destruct s; [reflexivity|discriminate]. Qed.

Lemma concat_map_inv_g (s : str) : forall ws, map at_of s = concat ws -> exists ss, s = concat ss /\ map (map at_of) ss = ws.
Proof.
  intros ws. revert s. induction ws as [|w ws IH]; intros s E.
  - exists []. destruct s; [split; reflexivity|discriminate].
  - cbn [concat] in E. apply map_eq_app in E. destruct E as [s1 [s2 [E [E1 E2]]]]. destruct (IH s2 E2) as [ss [E3 E4]].
    exists (s1 :: ss). cbn. subst. split; reflexivity.
Qed.

Lemma LSg_str_inv e s : LSg (regex.r_str e) s -> exists ss, s = concat ss /\ Forall (LSg e) ss.
Proof.
  unfold LSg. intros H. apply lang_str_inv in H. destruct H as [ws [E F]]. destruct (concat_map_inv_g s ws E) as [ss [E1 E2]]. exists ss. split; [exact E1|].
  subst ws. clear -F. induction ss as [|x ss IH]; [constructor|]. inversion F; subst. constructor; [assumption|apply IH; assumption].
Qed.

Definition cls_sweep_inv_g (p : cp -> bool) (e : regex.regex) : bool :=
  cls_b e && negb (p 128) && forallb (fun c => implb (rx_accepts e [at_of c]) (p c)) (nrange_from 129 0).

Lemma cls_inv_g p e : cls_sweep_inv_g p e = true -> forall s, LSg e s -> exists c, s = [c] /\ p c = true.
Proof.
  intros Hs s H. unfold cls_sweep_inv_g in Hs. apply andb_true_iff in Hs. destruct Hs as [Hs Hf]. apply andb_true_iff in Hs. destruct Hs as [Hc Hp].
  destruct (cls_single e Hc _ H) as [a Ea]. destruct s as [|c [|d t]]; try discriminate. exists c. split; [reflexivity|].
  rewrite forallb_forall in Hf. unfold LSg in H. cbn [map] in H. apply rx_accepts_lang in H.
  destruct (N.lt_ge_cases c 128) as [Hlt|Hge].
  - specialize (Hf c (in_nrange_from 129 0 c ltac:(lia))). rewrite H in Hf. exact Hf.
  - rewrite (at_high c Hge) in H. specialize (Hf 128 (in_nrange_from 129 0 128 ltac:(lia))). rewrite H in Hf. cbn [implb] in Hf.
    rewrite Hf in Hp. discriminate.
Qed.

Lemma star_cls_inv_g p e : (forall s, LSg e s -> exists c, s = [c] /\ p c = true) -> forall s, LSg (regex.r_str e) s -> all_b p s = true.
Proof.
  intros H s Hs. apply LSg_str_inv in Hs. destruct Hs as [ss [-> F]]. unfold all_b. induction F as [|x ss Hx _ IH]; [reflexivity|].
  destruct (H x Hx) as [c [-> Hc]]. cbn [concat app forallb]. rewrite Hc, IH. reflexivity.
Qed.

(* e e* : a non-empty run *)
Lemma plus_cls_inv_g p e : (forall s, LSg e s -> exists c, s = [c] /\ p c = true) ->
  forall s, LSg (regex.r_dot e (regex.r_str e)) s -> s <> [] /\ all_b p s = true.
Proof.
  intros H s Hs. apply LSg_dot_inv in Hs. destruct Hs as [x [y [-> [Hx Hy]]]]. destruct (H x Hx) as [c [-> Hc]].
  pose proof (star_cls_inv_g p e H y Hy) as Ay. split; [discriminate|]. cbn [app]. unfold all_b in *. cbn [forallb]. rewrite Hc, Ay. reflexivity.
Qed.
End Inv.
