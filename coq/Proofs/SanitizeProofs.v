(* Proofs for C16: the model of Sanitizer::sanitize meets the sanitiser contract. *)
From Coq Require Import Lia Arith PeanoNat.
From ZV Require Import Str Sanitize SanitizeSpec StrFacts.

Definition alnum (g : str) : Prop := Forall (fun x => is_ascii_alnum x = true) g.
Definition ne (r : str) : bool := negb (is_nil r).
Definition good (g : str) : Prop := g <> [] /\ alnum g.

Lemma strip_is_fix0 g : strip_zeros_segment g = fix0 g.
Proof. unfold strip_zeros_segment, fix0. destruct g as [|x g]; [reflexivity|].
  destruct (all_b is_ascii_digit (x :: g)); [|reflexivity].
  destruct (drop_while (N.eqb c_0) (x :: g)); reflexivity. Qed.

Lemma digit_alnum x : is_ascii_digit x = true -> is_ascii_alnum x = true.
Proof. unfold is_ascii_alnum. intros ->. apply orb_true_r. Qed.

Lemma alnum_suffix (a b : str) : alnum (a ++ b) -> alnum b.
Proof. unfold alnum. rewrite Forall_app. tauto. Qed.

Lemma strip_alnum g : alnum g -> alnum (strip_zeros_segment g).
Proof.
  intros H. unfold strip_zeros_segment. destruct g as [|x g]; [exact H|].
  destruct (all_b is_ascii_digit (x :: g)) eqn:E; [|exact H].
  destruct (drop_while_suffix (N.eqb c_0) (x :: g)) as [a Ha].
  destruct (drop_while (N.eqb c_0) (x :: g)) as [|y t] eqn:Ed.
  - repeat constructor.
  - rewrite Ha in H. eapply alnum_suffix; eauto.
Qed.

Lemma strip_ne g : g <> [] -> strip_zeros_segment g <> [].
Proof.
  intros H. unfold strip_zeros_segment. destruct g as [|x g]; [congruence|].
  destruct (all_b is_ascii_digit (x :: g)); [|discriminate].
  destruct (drop_while (N.eqb c_0) (x :: g)); discriminate.
Qed.

Lemma strip_good g : good g -> good (strip_zeros_segment g).
Proof. intros [H1 H2]. split; [apply strip_ne|apply strip_alnum]; assumption. Qed.

Lemma strip_nil_iff g : ne (strip_zeros_segment g) = ne g.
Proof. destruct g as [|x g]; [reflexivity|]. pose proof (strip_ne (x :: g)) as H.
  destruct (strip_zeros_segment (x :: g)); [exfalso; apply H; [discriminate|reflexivity]|reflexivity]. Qed.

Lemma all_digit_suffix (a b : str) : all_b is_ascii_digit (a ++ b) = true -> all_b is_ascii_digit b = true.
Proof. unfold all_b. rewrite forallb_app. intros H. apply andb_true_iff in H. tauto. Qed.

Lemma strip_no_lz g : has_leading_zero (strip_zeros_segment g) = false.
Proof.
  unfold strip_zeros_segment. destruct g as [|x g]; [reflexivity|].
  destruct (all_b is_ascii_digit (x :: g)) eqn:E.
  - pose proof (drop_while_hd (N.eqb c_0) (x :: g)) as Hh.
    destruct (drop_while (N.eqb c_0) (x :: g)) as [|y t] eqn:Ed; [reflexivity|].
    unfold has_leading_zero. destruct t as [|y2 t]; [apply andb_false_r|].
    rewrite (N.eqb_sym y c_0), Hh. apply andb_false_r.
  - unfold has_leading_zero. rewrite E. reflexivity.
Qed.

Lemma strip_fixed g : has_leading_zero g = false -> strip_zeros_segment g = g.
Proof.
  unfold strip_zeros_segment, has_leading_zero. destruct g as [|x g]; [reflexivity|].
  destruct (all_b is_ascii_digit (x :: g)); [|reflexivity]. cbn [andb].
  destruct g as [|y g].
  - intros _. cbn [drop_while]. destruct (N.eqb c_0 x) eqn:E; [apply N.eqb_eq in E; subst; reflexivity|reflexivity].
  - intros H. cbn [drop_while]. rewrite (N.eqb_sym c_0 x), H. reflexivity.
Qed.

Lemma strip_length g : (length (strip_zeros_segment g) <= length g)%nat.
Proof.
  unfold strip_zeros_segment. destruct g as [|x g]; [cbn; lia|].
  destruct (all_b is_ascii_digit (x :: g)); [|lia].
  destruct (drop_while_suffix (N.eqb c_0) (x :: g)) as [a Ha].
  destruct (drop_while (N.eqb c_0) (x :: g)) as [|y t] eqn:Ed; [cbn; lia|].
  rewrite Ha, app_length. cbn [length]. lia.
Qed.

Lemma strip_chars (Q : cp -> Prop) g : Q c_0 -> Forall Q g -> Forall Q (strip_zeros_segment g).
Proof.
  intros H0 H. unfold strip_zeros_segment. destruct g as [|x g]; [exact H|].
  destruct (all_b is_ascii_digit (x :: g)); [|exact H].
  destruct (drop_while_suffix (N.eqb c_0) (x :: g)) as [a Ha].
  destruct (drop_while (N.eqb c_0) (x :: g)) as [|y t] eqn:Ed; [repeat constructor; exact H0|].
  rewrite Ha in H. apply Forall_app in H. tauto.
Qed.

Section WithSep.
Variable c : cp.
Hypothesis Hc : is_ascii_alnum c = false.

Notation J := (intercalate [c]).
Notation pc := (N.eqb c).

Lemma alnum_not_c x : is_ascii_alnum x = true -> N.eqb c x = false.
Proof. intros H. apply N.eqb_neq. intros ->. congruence. Qed.

Lemma alnum_cfree g : alnum g -> cfree c g.
Proof. unfold alnum, cfree. apply Forall_impl. intros x H. rewrite N.eqb_sym. apply alnum_not_c, H. Qed.

Lemma good_cfree G : Forall good G -> Forall (cfree c) G.
Proof. apply Forall_impl. intros g [_ H]. apply alnum_cfree, H. Qed.

(* --- the loop of replace_non_alphanumeric --- *)
Fixpoint repl (s : str) (last : bool) : str :=
  match s with
  | [] => []
  | ch :: s' => if is_ascii_alnum ch then ch :: repl s' false
                else if last then repl s' true else c :: repl s' true
  end.

Lemma replace_loop_repl s : forall acc last, replace_loop [c] s acc last = rev acc ++ repl s last.
Proof.
  induction s as [|ch s IH]; intros acc last; cbn [replace_loop repl].
  - rewrite app_nil_r. reflexivity.
  - destruct (is_ascii_alnum ch).
    + rewrite IH. cbn [rev]. rewrite <- app_assoc. reflexivity.
    + destruct last; cbn [negb].
      * apply IH.
      * rewrite IH. cbn [rev app]. rewrite <- app_assoc. reflexivity.
Qed.

Lemma split_by_nonnil p s : split_by p s <> [].
Proof. destruct s as [|x s]; cbn; [discriminate|]. destruct (p x); [discriminate|].
  destruct (split_by p s); discriminate. Qed.

Lemma split_by_alnum s : Forall alnum (split_by non_alnum s).
Proof.
  induction s as [|x s IH]; cbn.
  - repeat constructor.
  - unfold non_alnum at 1. destruct (is_ascii_alnum x) eqn:E; cbn [negb].
    + destruct (split_by non_alnum s) as [|h t]; [repeat constructor; exact E|].
      inversion IH; subst. constructor; [constructor; assumption|assumption].
    + constructor; [constructor|exact IH].
Qed.

Lemma J_cons_head x h t : J ((x :: h) :: t) = x :: J (h :: t).
Proof. destruct t; reflexivity. Qed.

Lemma filter_ne_good l : Forall alnum l -> Forall good (filter ne l).
Proof.
  induction 1 as [|g l Hg Hl IH]; cbn; [constructor|].
  destruct g as [|x g]; cbn; [exact IH|]. constructor; [split; [discriminate|exact Hg]|exact IH].
Qed.

Lemma filter_ne_id l : Forall good l -> filter ne l = l.
Proof. induction 1 as [|g l [Hg _] Hl IH]; cbn; [reflexivity|]. destruct g; [congruence|]. cbn. rewrite IH. reflexivity. Qed.

Lemma J_good_nonnil g G : good g -> J (g :: G) <> [].
Proof. intros [H _]. destruct g; [congruence|]. destruct G; discriminate. Qed.

Lemma trimE_repl s : forall last,
  drop_while_end pc (repl s last) =
  match split_by non_alnum s with
  | h :: t => if last then J (filter ne (h :: t)) else J (h :: filter ne t)
  | [] => []
  end.
Proof.
  induction s as [|x s IH]; intros last.
  - cbn. destruct last; reflexivity.
  - pose proof (split_by_nonnil non_alnum s) as Hn.
    pose proof (split_by_alnum s) as Ha.
    cbn [repl split_by].
    destruct (split_by non_alnum s) as [|h t] eqn:Es; [congruence|].
    unfold non_alnum at 1.
    destruct (is_ascii_alnum x) eqn:E; cbn [negb].
    + rewrite dwe_cons, (IH false). rewrite (alnum_not_c x E).
      transitivity (x :: J (h :: filter ne t)); [destruct (J (h :: filter ne t)); reflexivity|].
      destruct last; cbn [filter ne is_nil negb]; rewrite J_cons_head; reflexivity.
    + destruct last.
      * rewrite (IH true). reflexivity.
      * rewrite dwe_cons, (IH true), N.eqb_refl.
        pose proof (filter_ne_good _ Ha) as Hg.
        destruct (filter ne (h :: t)) as [|r F] eqn:EF; [reflexivity|].
        inversion Hg as [|? ? Hr HF]; subst.
        pose proof (J_good_nonnil r F Hr) as Hnn.
        rewrite (intercalate_cons_cons [c] [] r F). cbn [app].
        destruct (J (r :: F)) eqn:EJ; [congruence|]. reflexivity.
Qed.

Lemma replace_spec s :
  replace_non_alnum (Some [c]) s =
  match split_by non_alnum s with h :: t => J (h :: filter ne t) | [] => [] end.
Proof.
  unfold replace_non_alnum. rewrite trim_end_single, replace_loop_repl. cbn [rev app].
  rewrite trimE_repl. reflexivity.
Qed.

(* --- stage: remove_leading_zeros --- *)
Lemma J_nil_pieces ps : ps <> [] -> Forall (cfree c) ps -> J ps = [] -> ps = [[]].
Proof.
  intros Hn Hf HJ. rewrite <- (split_join c ps Hn Hf), HJ. reflexivity.
Qed.

Lemma rlz_spec ps : ps <> [] -> Forall (cfree c) ps ->
  remove_leading_zeros (Some [c]) (J ps) = J (map strip_zeros_segment ps).
Proof.
  intros Hn Hf. unfold remove_leading_zeros.
  destruct (J ps) as [|y r] eqn:EJ.
  - rewrite (J_nil_pieces ps Hn Hf EJ). reflexivity.
  - rewrite <- EJ, split_single, split_join by assumption. reflexivity.
Qed.

Lemma rlz_spec' ps : Forall good ps ->
  remove_leading_zeros (Some [c]) (J ps) = J (map strip_zeros_segment ps).
Proof.
  intros H. destruct ps as [|p ps]; [reflexivity|].
  apply rlz_spec; [discriminate|apply good_cfree, H].
Qed.

(* --- trims on joined pieces --- *)
Lemma dw_J q0 G : alnum q0 -> Forall good G ->
  drop_while pc (J (q0 :: G)) = J (filter ne (q0 :: G)).
Proof.
  intros Hq HG. rewrite (filter_ne_id G HG) || idtac.
  destruct q0 as [|y q0].
  - cbn [filter ne is_nil negb]. rewrite (filter_ne_id G HG).
    destruct G as [|g G]; [reflexivity|].
    rewrite intercalate_cons_cons. cbn [app drop_while]. rewrite N.eqb_refl.
    inversion HG as [|? ? [Hg1 Hg2] HG']; subst.
    destruct g as [|z g]; [congruence|]. rewrite J_cons_head. cbn [drop_while].
    inversion Hg2; subst. rewrite alnum_not_c by assumption. reflexivity.
  - cbn [filter ne is_nil negb]. rewrite (filter_ne_id G HG). rewrite J_cons_head. cbn [drop_while].
    inversion Hq; subst. rewrite alnum_not_c by assumption. reflexivity.
Qed.

Lemma dwe_app_ne p (a b : str) : drop_while_end p b <> [] ->
  drop_while_end p (a ++ b) = a ++ drop_while_end p b.
Proof.
  intros H. induction a as [|x a IH]; [reflexivity|].
  cbn [app]. rewrite dwe_cons, IH.
  destruct (a ++ drop_while_end p b) eqn:E; [|reflexivity].
  apply app_eq_nil in E. tauto.
Qed.

Lemma dwe_app_nil p (a b : str) : drop_while_end p b = [] ->
  drop_while_end p (a ++ b) = drop_while_end p a.
Proof.
  intros H. induction a as [|x a IH]; [exact H|].
  cbn [app]. rewrite !dwe_cons, IH. reflexivity.
Qed.

Lemma dwe_alnum g : alnum g -> drop_while_end pc g = g.
Proof.
  induction 1 as [|x g Hx Hg IH]; [reflexivity|].
  rewrite dwe_cons, IH, (alnum_not_c x Hx). destruct g; reflexivity.
Qed.

Lemma dwe_J G : Forall good G -> drop_while_end pc (J G) = J G.
Proof.
  induction 1 as [|g G Hg HG IH]; [reflexivity|].
  destruct G as [|g2 G].
  - cbn. apply dwe_alnum, Hg.
  - rewrite intercalate_cons_cons.
    assert (Hne : drop_while_end pc ([c] ++ J (g2 :: G)) = [c] ++ J (g2 :: G)).
    { cbn [app]. rewrite dwe_cons, IH. inversion HG; subst.
      pose proof (J_good_nonnil g2 G H1). destruct (J (g2 :: G)); [congruence|reflexivity]. }
    rewrite dwe_app_ne; rewrite Hne; [reflexivity|discriminate].
Qed.

(* --- truncation --- *)
Inductive trunc : list str -> list str -> Prop :=
| tr_nil G : trunc G []
| tr_cut g G p q : g = p ++ q -> p <> [] -> trunc (g :: G) [p]
| tr_cons g G R : trunc G R -> trunc (g :: G) (g :: R).

Lemma take_n_app n (a b : str) :
  take_n n (a ++ b) = if Nat.leb n (length a) then take_n n a else a ++ take_n (n - length a) b.
Proof.
  revert a; induction n as [|n IH]; intros a.
  - destruct a; reflexivity.
  - destruct a as [|x a]; [reflexivity|]. cbn [app take_n length Nat.leb Nat.sub]. rewrite IH.
    destruct (Nat.leb n (length a)); reflexivity.
Qed.

Lemma take_alnum n g : alnum g -> alnum (take_n n g).
Proof. destruct (take_n_prefix n g) as [t Ht]. intros H. rewrite Ht in H. apply Forall_app in H. tauto. Qed.

Lemma dwe_take_J G : Forall good G -> forall m, exists R,
  drop_while_end pc (take_n m (J G)) = J R /\ Forall good R /\ trunc G R.
Proof.
  induction 1 as [|g G Hg HG IH]; intros m.
  - exists []. destruct m; repeat split; constructor.
  - assert (Hcut : forall k, exists R, drop_while_end pc (take_n k g) = J R /\ Forall good R /\ trunc (g :: G) R).
    { intros k. destruct (take_n k g) as [|y t] eqn:Et.
      - exists []. repeat split; constructor.
      - exists [y :: t]. destruct (take_n_prefix k g) as [q Hq]. rewrite Et in Hq.
        repeat split.
        + cbn [intercalate]. apply dwe_alnum. rewrite <- Et. apply take_alnum, Hg.
        + constructor; [|constructor]. split; [discriminate|]. rewrite <- Et. apply take_alnum, Hg.
        + eapply tr_cut; [exact Hq|discriminate]. }
    destruct G as [|g2 G].
    + cbn [intercalate]. apply Hcut.
    + rewrite intercalate_cons_cons, take_n_app.
      destruct (Nat.leb m (length g)) eqn:El; [apply Hcut|].
      apply Nat.leb_gt in El.
      destruct (m - length g)%nat as [|k] eqn:Ek; [lia|].
      cbn [app take_n].
      destruct (IH k) as [R [HR1 [HR2 HR3]]].
      destruct R as [|r R].
      * exists [g]. repeat split.
        -- rewrite dwe_app_nil; [cbn; apply dwe_alnum, Hg|].
           rewrite dwe_cons, HR1. cbn. rewrite N.eqb_refl. reflexivity.
        -- constructor; [exact Hg|constructor].
        -- apply tr_cons, tr_nil.
      * exists (g :: r :: R). repeat split.
        -- assert (Hne : drop_while_end pc (c :: take_n k (J (g2 :: G))) = c :: J (r :: R)).
           { rewrite dwe_cons, HR1. inversion HR2; subst.
             pose proof (J_good_nonnil r R H1). destruct (J (r :: R)); [congruence|reflexivity]. }
           rewrite dwe_app_ne; rewrite Hne; [|discriminate].
           rewrite intercalate_cons_cons. reflexivity.
        -- constructor; assumption.
        -- apply tr_cons. exact HR3.
Qed.

Lemma take_dw_J q0 G m : alnum q0 -> Forall good G -> exists m',
  drop_while pc (take_n m (J (q0 :: G))) = take_n m' (J (filter ne (q0 :: G))).
Proof.
  intros Hq HG. destruct q0 as [|y q0].
  - cbn [filter ne is_nil negb]. rewrite (filter_ne_id G HG).
    destruct G as [|g G].
    + exists m. destruct m; reflexivity.
    + rewrite intercalate_cons_cons. cbn [app].
      destruct m as [|m]; [exists O; destruct (J (g :: G)); reflexivity|].
      cbn [take_n drop_while]. rewrite N.eqb_refl. exists m.
      apply drop_while_id.
      inversion HG as [|? ? [Hg1 Hg2] HG']; subst.
      destruct g as [|z g]; [congruence|]. rewrite J_cons_head.
      destruct m; cbn [take_n]; [exact I|]. inversion Hg2; subst. apply alnum_not_c. assumption.
  - exists m. cbn [filter ne is_nil negb]. rewrite (filter_ne_id G HG), J_cons_head.
    apply drop_while_id. destruct m; cbn [take_n]; [exact I|]. inversion Hq; subst. apply alnum_not_c. assumption.
Qed.

(* --- lengths and character sets --- *)
Lemma J_length_map_strip R : (length (J (map strip_zeros_segment R)) <= length (J R))%nat.
Proof.
  induction R as [|r R IH]; [cbn; lia|].
  destruct R as [|r2 R].
  - cbn. apply strip_length.
  - cbn [map]. cbn [map] in IH. rewrite !intercalate_cons_cons, !app_length.
    pose proof (strip_length r). lia.
Qed.

Lemma Forall_J (Q : cp -> Prop) l : Forall Q (J l) -> Forall (Forall Q) l.
Proof.
  induction l as [|g l IH]; [constructor|].
  destruct l as [|g2 l].
  - cbn. intros H. repeat constructor. exact H.
  - rewrite intercalate_cons_cons. intros H. apply Forall_app in H. destruct H as [H1 H2].
    apply Forall_app in H2. destruct H2 as [_ H2]. constructor; [exact H1|apply IH, H2].
Qed.

Lemma J_Forall (Q : cp -> Prop) l : Q c -> Forall (Forall Q) l -> Forall Q (J l).
Proof.
  intros HQ. induction 1 as [|g l Hg Hl IH]; [constructor|].
  destruct l as [|g2 l]; [exact Hg|].
  rewrite intercalate_cons_cons. apply Forall_app. split; [exact Hg|].
  apply Forall_app. split; [repeat constructor; exact HQ|exact IH].
Qed.

Lemma split_by_chars (Q : cp -> Prop) p s : Forall Q s -> Forall (Forall Q) (split_by p s).
Proof.
  induction 1 as [|x s Hx Hs IH]; cbn; [repeat constructor|].
  destruct (p x).
  - constructor; [constructor|exact IH].
  - destruct (split_by p s) as [|h t]; [repeat constructor; exact Hx|].
    inversion IH; subst. constructor; [constructor; assumption|assumption].
Qed.

Lemma Forall_filter {A} (P : A -> Prop) f l : Forall P l -> Forall P (filter f l).
Proof. induction 1; cbn; [constructor|]. destruct (f x); [constructor|]; assumption. Qed.

Lemma trunc_chars (Q : cp -> Prop) G R : trunc G R -> Forall (Forall Q) G -> Forall (Forall Q) R.
Proof.
  induction 1 as [G|g G p q Hg Hp|g G R Ht IH]; intros HG.
  - constructor.
  - inversion HG; subst. constructor; [|constructor]. apply Forall_app in H1. tauto.
  - inversion HG; subst. constructor; [assumption|apply IH; assumption].
Qed.

Lemma map_strip_chars (Q : cp -> Prop) l : Q c_0 -> Forall (Forall Q) l -> Forall (Forall Q) (map strip_zeros_segment l).
Proof. intros H0. induction 1; cbn; constructor; [apply strip_chars; assumption|assumption]. Qed.

(* --- the pipeline, stage by stage --- *)
Definition f_of (keep : bool) : str -> str := if keep then (fun r => r) else strip_zeros_segment.

Lemma f_of_good keep g : good g -> good (f_of keep g).
Proof. destruct keep; [tauto|apply strip_good]. Qed.

Lemma map_f_good keep G : Forall good G -> Forall good (map (f_of keep) G).
Proof. induction 1; cbn; constructor; [apply f_of_good|]; assumption. Qed.

Lemma f_of_alnum keep g : alnum g -> alnum (f_of keep g).
Proof. destruct keep; [tauto|apply strip_alnum]. Qed.

Lemma filter_ne_map_f keep l : filter ne (map (f_of keep) l) = map (f_of keep) (filter ne l).
Proof.
  induction l as [|g l IH]; [reflexivity|]. cbn [map filter].
  assert (E : ne (f_of keep g) = ne g) by (destruct keep; [reflexivity|apply strip_nil_iff]).
  rewrite E. destruct (ne g); cbn [map]; rewrite IH; reflexivity.
Qed.

Lemma filter_cons_good q0 G : alnum q0 -> Forall good G -> Forall good (filter ne (q0 :: G)).
Proof.
  intros Hq HG. apply filter_ne_good. constructor; [exact Hq|].
  revert HG. apply Forall_impl. intros g [_ H]. exact H.
Qed.

Definition lowered (lower : bool) (s : str) : str := if lower then map ascii_lower s else s.

(* stages 1-3: lower, replace, first zero strip *)
Definition stage3 (lower keep : bool) (s : str) : str :=
  let r := lowered lower s in
  let r := replace_non_alnum (Some [c]) r in
  if keep then r else remove_leading_zeros (Some [c]) r.

Lemma stage3_spec lower keep s :
  exists q0 G, stage3 lower keep s = J (q0 :: G) /\ alnum q0 /\ Forall good G /\
    filter ne (q0 :: G) = map (f_of keep) (ascii_runs (lowered lower s)).
Proof.
  unfold stage3. rewrite replace_spec. unfold ascii_runs. fold ne.
  pose proof (split_by_alnum (lowered lower s)) as Ha.
  pose proof (split_by_nonnil non_alnum (lowered lower s)) as Hn.
  destruct (split_by non_alnum (lowered lower s)) as [|h t]; [congruence|].
  inversion Ha as [|? ? Hh Ht]; subst.
  pose proof (filter_ne_good t Ht) as Hgt.
  exists (f_of keep h), (map (f_of keep) (filter ne t)).
  split; [|split; [apply f_of_alnum, Hh|split; [apply map_f_good, Hgt|]]].
  - destruct keep; cbn [f_of].
    + rewrite map_id. reflexivity.
    + rewrite rlz_spec; [reflexivity|discriminate|].
      constructor; [apply alnum_cfree, Hh|apply good_cfree, Hgt].
  - change (f_of keep h :: map (f_of keep) (filter ne t)) with (map (f_of keep) (h :: filter ne t)).
    rewrite filter_ne_map_f. f_equal. cbn [filter].
    destruct (ne h); cbn [filter]; [|]; rewrite (filter_ne_id (filter ne t)) by exact Hgt; reflexivity.
Qed.

Definition post (keep : bool) (mx : option nat) (r : str) : str :=
  let r := match mx with Some m => take_n m r | None => r end in
  let r := trim_end_str [c] (trim_start_str [c] r) in
  if negb keep && (match mx with Some _ => true | None => false end)
  then remove_leading_zeros (Some [c]) r else r.

Lemma sanitize_stages lower keep mx s :
  sanitize_to_string (custom_str (Some [c]) lower keep mx) s = post keep mx (stage3 lower keep s).
Proof. unfold sanitize_to_string, post, stage3, lowered. cbn. destruct lower, keep; reflexivity. Qed.

(* full shape without max_length *)
Lemma shape_nomax lower keep s :
  sanitize_to_string (custom_str (Some [c]) lower keep None) s =
  J (map (f_of keep) (ascii_runs (lowered lower s))).
Proof.
  rewrite sanitize_stages. destruct (stage3_spec lower keep s) as [q0 [G [E [Hq [HG HF]]]]].
  unfold post. rewrite E, andb_false_r, trim_end_single, trim_start_single.
  rewrite dw_J by assumption. rewrite HF.
  apply dwe_J. rewrite <- HF. apply filter_cons_good; assumption.
Qed.

(* with max_length: result = J (map f2 R), R a truncation of the (zero-stripped) runs *)
Definition f2_of (keep : bool) (mx : option nat) : str -> str :=
  if negb keep && (match mx with Some _ => true | None => false end) then strip_zeros_segment else (fun r => r).

Lemma shape_general lower keep mx s :
  exists R, trunc (map (f_of keep) (ascii_runs (lowered lower s))) R /\ Forall good R /\
    sanitize_to_string (custom_str (Some [c]) lower keep mx) s = J (map (f2_of keep mx) R) /\
    match mx with Some m => (length (J R) <= m)%nat | None => R = map (f_of keep) (ascii_runs (lowered lower s)) end.
Proof.
  destruct mx as [m|].
  - rewrite sanitize_stages. destruct (stage3_spec lower keep s) as [q0 [G [E [Hq [HG HF]]]]].
    unfold post. rewrite E, trim_end_single, trim_start_single.
    destruct (take_dw_J q0 G m Hq HG) as [m' Hm'].
    assert (Hlen : (length (drop_while pc (take_n m (J (q0 :: G)))) <= m)%nat).
    { destruct (drop_while_suffix pc (take_n m (J (q0 :: G)))) as [a Ha].
      pose proof (take_n_length m (J (q0 :: G))) as Hl. rewrite Ha, app_length in Hl. lia. }
    rewrite Hm' in *. rewrite HF in *.
    assert (Hgood : Forall good (map (f_of keep) (ascii_runs (lowered lower s)))).
    { rewrite <- HF. apply filter_cons_good; assumption. }
    destruct (dwe_take_J _ Hgood m') as [R [HR1 [HR2 HR3]]].
    exists R. split; [exact HR3|split; [exact HR2|split]].
    + rewrite HR1. unfold f2_of. destruct keep; cbn [negb andb].
      * rewrite map_id. reflexivity.
      * apply rlz_spec', HR2.
    + rewrite <- HR1.
      destruct (dwe_prefix pc (take_n m' (J (map (f_of keep) (ascii_runs (lowered lower s)))))) as [b Hb].
      rewrite Hb, app_length in Hlen. lia.
  - exists (map (f_of keep) (ascii_runs (lowered lower s))).
    assert (Hgood : Forall good (map (f_of keep) (ascii_runs (lowered lower s)))).
    { destruct (stage3_spec lower keep s) as [q0 [G [E [Hq [HG HF]]]]].
      rewrite <- HF. apply filter_cons_good; assumption. }
    split; [|split; [exact Hgood|split; [|reflexivity]]].
    + clear. induction (map (f_of keep) (ascii_runs (lowered lower s))); constructor; assumption.
    + rewrite shape_nomax. unfold f2_of. rewrite andb_false_r, map_id. reflexivity.
Qed.

Lemma ascii_lower_not_upper x : is_ascii_upper (ascii_lower x) = false.
Proof.
  unfold ascii_lower. destruct (is_ascii_upper x) eqn:E; [|exact E].
  unfold is_ascii_upper in *. apply andb_true_iff in E. destruct E as [E1 E2].
  apply N.leb_le in E1. apply N.leb_le in E2.
  apply andb_false_iff. right. apply N.leb_gt. lia.
Qed.

Lemma c_not_upper : is_ascii_upper c = false.
Proof. unfold is_ascii_alnum, is_ascii_alpha in Hc. destruct (is_ascii_upper c); [discriminate|reflexivity]. Qed.

Theorem contract_holds lower keep mx s :
  contract c lower keep mx (sanitize_to_string (custom_str (Some [c]) lower keep mx) s).
Proof.
  destruct (shape_general lower keep mx s) as [R [HT [HG [HE HL]]]].
  assert (Hg2 : Forall good (map (f2_of keep mx) R)).
  { unfold f2_of. destruct (negb keep && _); [|rewrite map_id; exact HG].
    clear - HG. induction HG; cbn; constructor; [apply strip_good|]; assumption. }
  constructor.
  - exists (map (f2_of keep mx) R). split; [exact HE|split; [exact Hg2|split]].
    + intros ->. unfold f2_of. cbn [negb andb]. destruct mx as [m|].
      * clear. induction R; cbn; constructor; [apply strip_no_lz|assumption].
      * rewrite map_id. subst R. cbn [f_of]. clear.
        induction (ascii_runs (lowered lower s)); cbn; constructor; [apply strip_no_lz|assumption].
    + intros ->. set (Q := fun x => is_ascii_upper x = false).
      assert (H0 : Q c_0) by reflexivity.
      assert (Hruns : Forall (Forall Q) (ascii_runs (lowered true s))).
      { unfold ascii_runs. apply Forall_filter. apply split_by_chars. cbn [lowered].
        apply Forall_forall. intros x Hx. apply in_map_iff in Hx. destruct Hx as [y [<- _]].
        apply ascii_lower_not_upper. }
      assert (Hf : Forall (Forall Q) (map (f_of keep) (ascii_runs (lowered true s)))).
      { destruct keep; cbn [f_of]; [rewrite map_id; exact Hruns|apply map_strip_chars; assumption]. }
      pose proof (trunc_chars Q _ _ HT Hf) as HR.
      unfold f2_of. destruct (negb keep && _); [apply map_strip_chars; assumption|rewrite map_id; exact HR].
  - destruct mx as [m|]; [|exact I]. rewrite HE.
    unfold f2_of. destruct keep; cbn [negb andb].
    + rewrite map_id. exact HL.
    + pose proof (J_length_map_strip R). lia.
Qed.

(* --- fixed points --- *)
Lemma split_by_piece p : alnum p -> split_by non_alnum p = [p].
Proof.
  induction 1 as [|x p Hx Hp IH]; [reflexivity|].
  cbn. unfold non_alnum at 1. rewrite Hx, IH. reflexivity.
Qed.

Lemma split_by_app_sep p rest : alnum p -> split_by non_alnum (p ++ c :: rest) = p :: split_by non_alnum rest.
Proof.
  induction 1 as [|x p Hx Hp IH]; cbn.
  - unfold non_alnum at 1. rewrite Hc. reflexivity.
  - unfold non_alnum at 1. rewrite Hx, IH. reflexivity.
Qed.

Lemma split_by_J segs : segs <> [] -> Forall good segs -> split_by non_alnum (J segs) = segs.
Proof.
  induction segs as [|g segs IH]; [congruence|]. intros _ H. inversion H as [|? ? [Hg1 Hg2] Hs]; subst.
  destruct segs as [|g2 segs].
  - cbn. apply split_by_piece, Hg2.
  - rewrite intercalate_cons_cons. cbn [app]. rewrite split_by_app_sep by exact Hg2.
    f_equal. apply IH; [discriminate|exact Hs].
Qed.

Lemma map_fixed {A} (f : A -> A) l : Forall (fun x => f x = x) l -> map f l = l.
Proof. induction 1; cbn; congruence. Qed.

Theorem contract_fixed lower keep mx r :
  contract c lower keep mx r ->
  sanitize_to_string (custom_str (Some [c]) lower keep mx) r = r.
Proof.
  intros [[segs [Er [Hg [Hz Hl]]]] Hlen].
  destruct segs as [|g0 segs0] eqn:Es.
  { subst r. cbn [intercalate]. unfold sanitize_to_string. cbn.
    destruct lower, keep, mx as [[|m]|]; reflexivity. }
  rewrite <- Es in *. assert (Hne : segs <> []) by (subst segs; discriminate). clear Es g0 segs0.
  rewrite sanitize_stages.
  assert (E1 : lowered lower r = r).
  { unfold lowered. destruct lower; [|reflexivity]. apply map_fixed.
    specialize (Hl eq_refl). subst r.
    assert (HQ : Forall (fun x => is_ascii_upper x = false) (J segs)) by (apply J_Forall; [apply c_not_upper|exact Hl]).
    revert HQ. apply Forall_impl. intros x Hx. unfold ascii_lower. rewrite Hx. reflexivity. }
  assert (E3 : stage3 lower keep r = r).
  { unfold stage3. rewrite E1, replace_spec. subst r. rewrite (split_by_J segs Hne Hg).
    destruct segs as [|h t]; [congruence|]. inversion Hg; subst.
    rewrite (filter_ne_id t) by assumption.
    destruct keep; [reflexivity|]. rewrite rlz_spec' by exact Hg.
    f_equal. apply map_fixed. specialize (Hz eq_refl). revert Hz. apply Forall_impl. intros g. apply strip_fixed. }
  rewrite E3. unfold post.
  assert (E4 : match mx with Some m => take_n m r | None => r end = r).
  { destruct mx as [m|]; [apply take_n_all, Hlen|reflexivity]. }
  rewrite E4, trim_end_single, trim_start_single. subst r.
  destruct segs as [|h t]; [congruence|]. inversion Hg as [|? ? [Hh1 Hh2] Ht]; subst.
  rewrite (dw_J h t Hh2 Ht). rewrite (filter_ne_id (h :: t) Hg), (dwe_J _ Hg).
  destruct (negb keep && _) eqn:Ek; [|reflexivity].
  rewrite rlz_spec' by exact Hg. f_equal. apply map_fixed.
  destruct keep; [discriminate|]. specialize (Hz eq_refl). revert Hz. apply Forall_impl. intros g. apply strip_fixed.
Qed.

Theorem idempotent lower keep mx s :
  let z := custom_str (Some [c]) lower keep mx in
  sanitize_to_string z (sanitize_to_string z s) = sanitize_to_string z s.
Proof. intros z. apply contract_fixed, contract_holds. Qed.

End WithSep.

(* --- the executable oracle decides the contract --- *)
Lemma seg_ok_spec lower keep g :
  seg_ok_b lower keep g = true <->
  (g <> [] /\ Forall (fun x => is_ascii_alnum x = true) g) /\
  (keep = false -> has_leading_zero g = false) /\
  (lower = true -> Forall (fun x => is_ascii_upper x = false) g).
Proof.
  unfold seg_ok_b. rewrite !andb_true_iff, forallb_Forall.
  split.
  - intros [[[H1 H2] H3] H4]. repeat split.
    + destruct g; [discriminate|discriminate].
    + exact H2.
    + intros ->. cbn in H3. destruct (has_leading_zero g); [discriminate|reflexivity].
    + intros ->. cbn in H4. apply forallb_Forall in H4. revert H4. apply Forall_impl.
      intros x Hx. destruct (is_ascii_upper x); [discriminate|reflexivity].
  - intros [[H1 H2] [H3 H4]]. repeat split.
    + destruct g; [congruence|reflexivity].
    + exact H2.
    + destruct keep; [reflexivity|]. rewrite H3; reflexivity.
    + destruct lower; [|reflexivity]. cbn. apply forallb_Forall. specialize (H4 eq_refl).
      revert H4. apply Forall_impl. intros x ->. reflexivity.
Qed.

Theorem contract_b_sound c lower keep mx r :
  contract_b c lower keep mx r = true -> contract c lower keep mx r.
Proof.
  unfold contract_b. rewrite andb_true_iff. intros [H1 H2]. constructor.
  - destruct r as [|x r].
    + exists []. repeat split; try constructor; intros; constructor.
    + cbn [is_nil orb] in H1. exists (split_on c (x :: r)). split; [symmetry; apply join_split|].
      rewrite forallb_forall in H1.
      repeat split.
      * apply Forall_forall. intros g Hg. apply (seg_ok_spec lower keep g), H1, Hg.
      * intros Hk. apply Forall_forall. intros g Hg. apply (seg_ok_spec lower keep g); [apply H1, Hg|exact Hk].
      * intros Hl. apply Forall_forall. intros g Hg. apply (seg_ok_spec lower keep g); [apply H1, Hg|exact Hl].
  - destruct mx as [m|]; [apply Nat.leb_le, H2|exact I].
Qed.

Theorem contract_b_complete c lower keep mx r : is_ascii_alnum c = false ->
  contract c lower keep mx r -> contract_b c lower keep mx r = true.
Proof.
  intros Hc [[segs [Er [Hg [Hz Hl]]]] Hlen]. unfold contract_b. apply andb_true_iff. split.
  - destruct segs as [|g0 segs0] eqn:Es; [subst r; reflexivity|]. rewrite <- Es in *.
    assert (Hne : segs <> []) by (subst segs; discriminate).
    subst r. rewrite split_join; [|exact Hne|apply (good_cfree c Hc); exact Hg].
    apply orb_true_iff. right. apply forallb_forall. intros g Hin.
    apply seg_ok_spec. rewrite Forall_forall in Hg. split; [apply Hg, Hin|]. split.
    + intros Hk. specialize (Hz Hk). rewrite Forall_forall in Hz. apply Hz, Hin.
    + intros Hw. specialize (Hl Hw). rewrite Forall_forall in Hl. apply Hl, Hin.
  - destruct mx as [m|]; [apply Nat.leb_le, Hlen|reflexivity].
Qed.

(* --- integer sanitiser --- *)
Theorem uint_correct s : sanitize uint_sanitizer s = uint_spec (trim_ws s).
Proof.
  unfold sanitize, uint_sanitizer, sanitize_to_integer, uint_spec. cbn.
  unfold all_b, is_nil. destruct (trim_ws s) as [|x t]; [reflexivity|].
  cbn [negb andb]. rewrite andb_true_r. reflexivity.
Qed.

Lemma trim_ws_id s :
  match s with x :: _ => is_whitespace x = false | [] => True end ->
  (forall x t, s = t ++ [x] -> is_whitespace x = false) ->
  trim_ws s = s.
Proof. intros H1 H2. unfold trim_ws. rewrite (drop_while_id _ s H1). apply dwe_id, H2. Qed.
