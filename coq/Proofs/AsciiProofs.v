(* C01: the printed SemVer / PEP 440 strings consist only of ASCII characters of the grammar's alphabet:
   letters, digits, '.', '-', '+' (SemVer) and letters, digits, '.', '+', '!' (PEP 440). *)
From Coq Require Import Lia.
From ZV Require Import Str Dec Sanitize SanitizeSpec StrFacts DecFacts SanitizeProofs Zerv Render SemVer Pep440 NoPanicProofs IdentProofs PepWfProofs.
Open Scope N_scope.

Definition sv_char (c : cp) : bool := is_ascii_alnum c || (c =? c_dot) || (c =? c_dash) || (c =? c_plus).
Definition pp_char (c : cp) : bool := is_ascii_alnum c || (c =? c_dot) || (c =? c_plus) || (c =? c_bang).
Definition all_sv (s : str) : Prop := Forall (fun c => sv_char c = true) s.
Definition all_pp (s : str) : Prop := Forall (fun c => pp_char c = true) s.

Lemma alnum_sv s : alnum s -> all_sv s.
Proof. apply Forall_impl. intros c H. unfold sv_char. rewrite H. reflexivity. Qed.
Lemma alnum_pp s : alnum s -> all_pp s.
Proof. apply Forall_impl. intros c H. unfold pp_char. rewrite H. reflexivity. Qed.

Lemma sv_app a b : all_sv a -> all_sv b -> all_sv (a ++ b).
Proof. intros. apply Forall_app. split; assumption. Qed.
Lemma pp_app a b : all_pp a -> all_pp b -> all_pp (a ++ b).
Proof. intros. apply Forall_app. split; assumption. Qed.

Lemma sv_char_ascii c : sv_char c = true -> c < 128.
Proof.
  unfold sv_char, is_ascii_alnum, is_ascii_alpha, is_ascii_upper, is_ascii_lower, is_ascii_digit, c_dot, c_dash, c_plus.
  rewrite !orb_true_iff, !andb_true_iff, !N.leb_le, !N.eqb_eq. lia.
Qed.
Lemma pp_char_ascii c : pp_char c = true -> c < 128.
Proof.
  unfold pp_char, is_ascii_alnum, is_ascii_alpha, is_ascii_upper, is_ascii_lower, is_ascii_digit, c_dot, c_plus, c_bang.
  rewrite !orb_true_iff, !andb_true_iff, !N.leb_le, !N.eqb_eq. lia.
Qed.

(* ---- SemVer ---- *)
Lemma ident_sv i : id_wf i -> all_sv (ident_print i).
Proof. destruct i as [s|n]; cbn [ident_print id_wf]; [intros [[_ [H _]] _]; apply alnum_sv, H|intros _; apply alnum_sv, print_dec_good]. Qed.

Lemma idents_sv l : Forall id_wf l -> all_sv (idents_print l).
Proof.
  unfold idents_print. induction 1 as [|i l Hi Hl IH]; [constructor|].
  destruct l as [|j l']; [cbn; apply ident_sv, Hi|].
  change (map ident_print (i :: j :: l')) with (ident_print i :: ident_print j :: map ident_print l').
  rewrite intercalate_cons_cons. change (ident_print j :: map ident_print l') with (map ident_print (j :: l')).
  apply sv_app; [apply ident_sv, Hi|]. apply sv_app; [repeat constructor|exact IH].
Qed.

Lemma opt_part_sv sep o : sv_char sep = true -> part_wf o -> all_sv (opt_part [sep] o).
Proof.
  intros Hs Ho. destruct o as [[|i l]|]; cbn [opt_part]; [constructor| |constructor].
  destruct Ho as [_ W]. apply sv_app; [constructor; [exact Hs|constructor]|apply idents_sv, W].
Qed.

Theorem semver_output_chars z : all_sv (semver_print (semver_of_zerv z)).
Proof.
  destruct (semver_of_zerv_wf z) as [Hp Hb]. unfold semver_print, semver_print_sep, release_print.
  repeat apply sv_app; try (apply alnum_sv, print_dec_good); try (repeat constructor);
  [apply opt_part_sv; [reflexivity|exact Hp]|apply opt_part_sv; [reflexivity|exact Hb]].
Qed.

Corollary semver_output_ascii z : Forall (fun c => c < 128) (semver_print (semver_of_zerv z)).
Proof. eapply Forall_impl; [|apply semver_output_chars]. apply sv_char_ascii. Qed.

(* ---- PEP 440 ---- *)
Lemma num_pp n : all_pp (print_dec n).
Proof. apply alnum_pp, print_dec_good. Qed.

Lemma num_opt_pp o : all_pp (num_opt_print o).
Proof. destruct o; cbn; [apply num_pp|constructor]. Qed.

Lemma nums_pp l : all_pp (release_nums_print l).
Proof.
  unfold release_nums_print. induction l as [|n l IH]; [constructor|].
  destruct l as [|m l']; [cbn; apply num_pp|].
  change (map print_dec (n :: m :: l')) with (print_dec n :: print_dec m :: map print_dec l').
  rewrite intercalate_cons_cons. change (print_dec m :: map print_dec l') with (map print_dec (m :: l')).
  apply pp_app; [apply num_pp|]. apply pp_app; [repeat constructor|exact IH].
Qed.

Lemma lseg_pp g : lseg_wf g -> all_pp (lseg_print g).
Proof. destruct g as [s|n]; cbn; [intros [_ H]; apply alnum_pp, H|intros _; apply num_pp]. Qed.

Lemma local_pp l : Forall lseg_wf l -> all_pp (local_print l).
Proof.
  unfold local_print. induction 1 as [|g l Hg Hl IH]; [constructor|].
  destruct l as [|h l']; [cbn; apply lseg_pp, Hg|].
  change (map lseg_print (g :: h :: l')) with (lseg_print g :: lseg_print h :: map lseg_print l').
  rewrite intercalate_cons_cons. change (lseg_print h :: map lseg_print l') with (map lseg_print (h :: l')).
  apply pp_app; [apply lseg_pp, Hg|]. apply pp_app; [repeat constructor|exact IH].
Qed.

Theorem pep_output_chars z p : pep_of_zerv z = Some p -> all_pp (pep_print p).
Proof.
  intros H. destruct (pep_of_zerv_wf z p H) as [_ _ _ _ Wl]. unfold pep_print, epoch_release_print, pre_section_print.
  repeat apply pp_app.
  - destruct (0 <? p_epoch p); [apply pp_app; [apply num_pp|repeat constructor]|constructor].
  - apply nums_pp.
  - destruct (p_pre_label p) as [l|]; [|constructor]. apply pp_app; [destruct l; repeat constructor|apply num_opt_pp].
  - destruct (p_post_label p); [|constructor]. apply pp_app; [repeat constructor|apply num_opt_pp].
  - destruct (p_dev_label p); [|constructor]. apply pp_app; [repeat constructor|apply num_opt_pp].
  - destruct (p_local p) as [l|]; [|constructor]. destruct Wl as [_ W]. apply pp_app; [repeat constructor|apply local_pp, W].
Qed.

Corollary pep_output_ascii z p : pep_of_zerv z = Some p -> Forall (fun c => c < 128) (pep_print p).
Proof. intros H. eapply Forall_impl; [|apply (pep_output_chars z p H)]. apply pp_char_ascii. Qed.
