(* Compositional membership lemmas for regex.lang (RelationAlgebra), derived from lang_eval. *)
From RelationAlgebra Require Import kleene regex lang.
From Coq Require Import List PArith.
From Coq Require Bool.
Import ListNotations.

Lemma lang_var_intro (a : positive) : regex.lang (r_var a) [a].
Proof. apply lang_eval. reflexivity. Qed.

Lemma lang_one_intro : regex.lang (r_one : regex') [].
Proof. apply lang_eval. reflexivity. Qed.

Lemma lang_pls_l (e f : regex') w : regex.lang e w -> regex.lang (r_pls e f) w.
Proof. intros H. apply lang_eval. left. apply lang_eval, H. Qed.

Lemma lang_pls_r (e f : regex') w : regex.lang f w -> regex.lang (r_pls e f) w.
Proof. intros H. apply lang_eval. right. apply lang_eval, H. Qed.

Lemma lang_dot_intro (e f : regex') u v : regex.lang e u -> regex.lang f v -> regex.lang (r_dot e f) (u ++ v).
Proof. intros H1 H2. apply lang_eval. exists u; [apply lang_eval, H1|]. exists v; [apply lang_eval, H2|reflexivity]. Qed.

Lemma lang_str_nil (e : regex') : regex.lang (r_str e) [].
Proof. apply lang_eval. exists O. reflexivity. Qed.

Lemma lang_str_cons (e : regex') u v : regex.lang e u -> regex.lang (r_str e) v -> regex.lang (r_str e) (u ++ v).
Proof.
  intros H1 H2. apply lang_eval. apply lang_eval in H2. destruct H2 as [i Hi]. exists (S i).
  exists u; [apply lang_eval, H1|]. exists v; [exact Hi|reflexivity].
Qed.

(* inclusion of languages from an inequation proved by ka *)
Lemma lang_incl (e f : regex') : e ≦ f -> forall w, regex.lang e w -> regex.lang f w.
Proof. intros H w. exact (@lang_leq e f H w). Qed.

(* ---- inversions ---- *)
Lemma lang_var_inv (a : positive) w : regex.lang (r_var a) w -> w = [a].
Proof. intros H. apply lang_eval in H. simpl in H. symmetry. exact H. Qed.

Lemma lang_one_inv w : regex.lang (r_one : regex') w -> w = [].
Proof. intros H. apply lang_eval in H. simpl in H. symmetry. exact H. Qed.

Lemma lang_pls_inv (e f : regex') w : regex.lang (r_pls e f) w -> regex.lang e w \/ regex.lang f w.
Proof. intros H. apply lang_eval in H. destruct H as [H|H]; [left|right]; apply lang_eval, H. Qed.

Lemma lang_dot_inv (e f : regex') w : regex.lang (r_dot e f) w -> exists u v, w = u ++ v /\ regex.lang e u /\ regex.lang f v.
Proof.
  intros H. apply lang_eval in H. destruct H as [u Hu [v Hv E]]. exists u, v. split; [exact E|]. split; apply lang_eval; assumption.
Qed.

Lemma lang_str_inv (e : regex') w : regex.lang (r_str e) w -> exists ws, w = concat ws /\ Forall (regex.lang e) ws.
Proof.
  intros H. apply lang_eval in H. destruct H as [i Hi]. revert w Hi. induction i as [|i IH]; intros w Hi.
  - exists []. split; [simpl in Hi; symmetry; exact Hi|constructor].
  - destruct Hi as [u Hu [v Hv E]]. destruct (IH v Hv) as [ws [E2 F]]. exists (u :: ws). split; [cbn; rewrite <- E2; exact E|].
    constructor; [apply lang_eval, Hu|exact F].
Qed.

(* a class: a sum of atoms; its words are single atoms *)
Fixpoint cls_b (e : regex') : bool :=
  match e with r_var _ => true | r_pls e f => cls_b e && cls_b f | _ => false end.

Lemma cls_single e : cls_b e = true -> forall w, regex.lang e w -> exists a, w = [a].
Proof.
  induction e as [| |e IHe f IHf|e IHe f IHf|e IHe|a]; cbn [cls_b]; try discriminate.
  - intros H w Hw. apply Bool.andb_true_iff in H. destruct H as [H1 H2]. apply lang_pls_inv in Hw. destruct Hw as [Hw|Hw]; [apply (IHe H1 w Hw)|apply (IHf H2 w Hw)].
  - intros _ w Hw. exists a. apply lang_var_inv, Hw.
Qed.

