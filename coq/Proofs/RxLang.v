(* Compositional membership lemmas for regex.lang (RelationAlgebra), derived from lang_eval. *)
From RelationAlgebra Require Import kleene regex lang.
From Coq Require Import List PArith.
Import ListNotations.

Lemma lang_var_intro (a : positive) : regex.lang (r_var a) [a].
Proof. apply lang_eval. reflexivity. Qed.

Lemma lang_one_intro : regex.lang (r_one : regex') [].
Proof. apply lang_eval. reflexivity. Qed.

Lemma lang_pls_l (e f : regex') w : regex.lang e w -> regex.lang (r_pls e f) w.
Proof. intros H. apply lang_eval. left. apply lang_eval, H. Qed.

Lemma lang_pls_r (e f : regex') w : regex.lang f w -> regex.lang (r_pls e f) w.
Proof. intros H. apply lang_eval. right. apply lang_eval, H. Qed.

Lemma lang_dot_intro (e f : regex') u v : regex.lang e u -> regex.lang f v -> regex.lang (r_dot e f) (u ++ v).
Proof. intros H1 H2. apply lang_eval. exists u; [apply lang_eval, H1|]. exists v; [apply lang_eval, H2|reflexivity]. Qed.

Lemma lang_str_nil (e : regex') : regex.lang (r_str e) [].
Proof. apply lang_eval. exists O. reflexivity. Qed.

Lemma lang_str_cons (e : regex') u v : regex.lang e u -> regex.lang (r_str e) v -> regex.lang (r_str e) (u ++ v).
Proof.
  intros H1 H2. apply lang_eval. apply lang_eval in H2. destruct H2 as [i Hi]. exists (S i).
  exists u; [apply lang_eval, H1|]. exists v; [exact Hi|reflexivity].
Qed.

(* inclusion of languages from an inequation proved by ka *)
Lemma lang_incl (e f : regex') : e ≦ f -> forall w, regex.lang e w -> regex.lang f w.
Proof. intros H w. exact (@lang_leq e f H w). Qed.
