(* C05 / C14: component processing (overrides, bumps, resets - by name or by schema index) never touches the VCS-derived context:
   distance, dirty, branch, hashes, timestamps, last tag, custom values are exactly what they were. *)
From ZV Require Import Str Zerv Bump.
Open Scope N_scope.

Definition ctxv (vs : vars) :=
  (v_distance vs, v_dirty vs, v_bumped_branch vs, v_bumped_hash vs, v_bumped_ts vs,
   v_last_branch vs, v_last_hash vs, v_last_ts vs, v_last_tag vs, v_custom vs).

Definition ctx_setter (set : vars -> option N -> vars) : Prop := forall vs x, ctxv (set vs x) = ctxv vs.

Lemma ctx_set_major : ctx_setter set_major. Proof. intros vs x; reflexivity. Qed.
Lemma ctx_set_minor : ctx_setter set_minor. Proof. intros vs x; reflexivity. Qed.
Lemma ctx_set_patch : ctx_setter set_patch. Proof. intros vs x; reflexivity. Qed.
Lemma ctx_set_epoch : ctx_setter set_epoch. Proof. intros vs x; reflexivity. Qed.
Lemma ctx_set_post : ctx_setter set_post. Proof. intros vs x; reflexivity. Qed.
Lemma ctx_set_dev : ctx_setter set_dev. Proof. intros vs x; reflexivity. Qed.
Lemma ctx_set_pre vs x : ctxv (set_pre vs x) = ctxv vs. Proof. reflexivity. Qed.

Lemma ctx_reset_level vs p : ctxv (reset_level vs p) = ctxv vs.
Proof. destruct p; try reflexivity. cbn. destruct (v_pre vs); reflexivity. Qed.

Lemma ctx_fold_reset later : forall vs, ctxv (fold_left reset_level later vs) = ctxv vs.
Proof. induction later as [|p later IH]; intros vs; [reflexivity|]. cbn. rewrite IH. apply ctx_reset_level. Qed.

Lemma ctx_reset_lower order vs p vs' : reset_lower order vs p = Some vs' -> ctxv vs' = ctxv vs.
Proof. unfold reset_lower. destruct (levels_after order p); [|discriminate]. intros H. inversion H. apply ctx_fold_reset. Qed.

Lemma ctx_process_num order get set lvl ov bv vs vs' : ctx_setter set -> process_num order get set lvl ov bv vs = Some vs' -> ctxv vs' = ctxv vs.
Proof.
  intros Hs. unfold process_num. set (vs1 := match ov with Some x => set vs (Some x) | None => vs end).
  assert (E1 : ctxv vs1 = ctxv vs) by (unfold vs1; destruct ov; [apply Hs|reflexivity]).
  destruct bv as [inc|]; [|intros H; inversion H; subst; exact E1].
  destruct (u64_add _ inc) as [s|]; [|discriminate]. intros H. rewrite (ctx_reset_lower _ _ _ _ H), Hs. exact E1.
Qed.

Lemma ctx_process_pre_label order a vs vs' : process_pre_label order a vs = Some vs' -> ctxv vs' = ctxv vs.
Proof.
  unfold process_pre_label.
  destruct (ro_pre_label a) as [l|].
  - destruct (label_try l) as [lab|]; [|discriminate].
    destruct (rb_pre_label a) as [l2|]; [|intros H; inversion H; reflexivity].
    destruct (label_exact l2) as [lab2|]; [|discriminate].
    destruct (reset_lower order _ PPreLabel) as [vs2|] eqn:R; [|discriminate]. intros H. inversion H.
    rewrite ctx_set_pre, (ctx_reset_lower _ _ _ _ R). reflexivity.
  - destruct (rb_pre_label a) as [l2|]; [|intros H; inversion H; reflexivity].
    destruct (label_exact l2) as [lab2|]; [|discriminate].
    destruct (reset_lower order vs PPreLabel) as [vs2|] eqn:R; [|discriminate]. intros H. inversion H.
    rewrite ctx_set_pre. apply (ctx_reset_lower _ _ _ _ R).
Qed.

Lemma ctx_process_pre_num order ov bv vs vs' : process_pre_num order ov bv vs = Some vs' -> ctxv vs' = ctxv vs.
Proof.
  unfold process_pre_num.
  set (vs1 := match ov with Some n => match v_pre vs with None => _ | Some pr => _ end | None => vs end).
  assert (E1 : ctxv vs1 = ctxv vs) by (unfold vs1; destruct ov; [destruct (v_pre vs); reflexivity|reflexivity]).
  destruct bv as [inc|]; [|intros H; inversion H; subst; exact E1].
  destruct (v_pre vs1) as [pr|].
  - destruct (u64_add _ inc); [|discriminate]. intros H. rewrite (ctx_reset_lower _ _ _ _ H), ctx_set_pre. exact E1.
  - intros H. rewrite (ctx_reset_lower _ _ _ _ H), ctx_set_pre. exact E1.
Qed.

Lemma ctx_process_var_field order v ov bv vs vs' : process_var_field order v ov bv vs = Some vs' -> ctxv vs' = ctxv vs.
Proof.
  unfold process_var_field. destruct (opt_u32 ov) as [o|]; [|discriminate]. destruct (opt_u32 bv) as [b|]; [|discriminate].
  destruct v; try discriminate; unfold process_major, process_minor, process_patch, process_epoch, process_post, process_dev;
  first [apply ctx_process_pre_num | eapply ctx_process_num; intros vs0 x; reflexivity].
Qed.

Lemma ctx_process_component sec ix ov bv z z' : process_component sec ix ov bv z = Some z' -> ctxv (z_vars z') = ctxv (z_vars z).
Proof.
  unfold process_component. destruct (nth_error (get_part (z_schema z) sec) ix) as [c|]; [|discriminate].
  destruct c as [cur|cur|v].
  - destruct (set_part _ _ _); [|discriminate]. intros H. inversion H. reflexivity.
  - destruct (opt_u32 ov); [|discriminate]. destruct (opt_u32 bv); [|discriminate].
    match goal with |- context [match ?x with Some _ => _ | None => None end = Some z'] => destruct x end; [|discriminate].
    destruct (set_part _ _ _); [|discriminate]. intros H. inversion H. reflexivity.
  - destruct v; try discriminate;
    match goal with |- context [process_var_field ?o ?v ?a ?b ?c] => destruct (process_var_field o v a b c) eqn:E end;
    intros H; inversion H; subst; cbn; eapply ctx_process_var_field; exact E.
Qed.

Lemma ctx_fold_specs sec specs : forall z z',
  fold_left (fun acc sp => match acc with Some z0 => let '(ix, o, b) := sp in process_component sec ix o b z0 | None => None end) specs (Some z) = Some z' ->
  ctxv (z_vars z') = ctxv (z_vars z).
Proof.
  induction specs as [|[[ix o] b] specs IH]; intros z z'; cbn [fold_left].
  - intros H. inversion H. reflexivity.
  - destruct (process_component sec ix o b z) as [z1|] eqn:E.
    + intros H. rewrite (IH _ _ H). apply (ctx_process_component _ _ _ _ _ _ E).
    + intros H. exfalso. clear - H. induction specs as [|[[i2 o2] b2] specs IH]; cbn in H; [discriminate|auto].
Qed.

Lemma ctx_process_level a z p z' : process_level a z p = Some z' -> ctxv (z_vars z') = ctxv (z_vars z).
Proof.
  unfold process_level, with_vars, process_section, process_major, process_minor, process_patch, process_epoch, process_post, process_dev.
  destruct p;
  try (match goal with |- context [match ?x with Some vs => Some _ | None => None end] => destruct x eqn:E end; [|discriminate]; intros H; inversion H; cbn;
       first [eapply ctx_process_num; [|exact E]; intros vs0 x; reflexivity | eapply ctx_process_pre_label; exact E | eapply ctx_process_pre_num; exact E]);
  (destruct (parse_specs _ _ _) as [specs|]; [|discriminate]; apply ctx_fold_specs).
Qed.

Theorem processing_keeps_context a z z' : apply_component_processing a z = Some z' -> ctxv (z_vars z') = ctxv (z_vars z).
Proof.
  unfold apply_component_processing. generalize (prec_order (z_schema z)). intros order. revert z.
  induction order as [|p order IH]; intros z; cbn [fold_left].
  - intros H. inversion H. reflexivity.
  - destruct (process_level a z p) as [z1|] eqn:E.
    + intros H. rewrite (IH _ H). apply (ctx_process_level _ _ _ _ E).
    + intros H. exfalso. clear - H. induction order as [|q order IH]; cbn in H; [discriminate|auto].
Qed.
