(* C17: each documented pattern resolves to the corresponding calendar field *)
From Coq Require Import Lia ZArith List Bool.
From ZV Require Import Str Dec Calendar Timestamp.
Import ListNotations.

Lemma tok_single : forall p, In p [s_YYYY; s_YY; s_MM; s_0M; s_DD; s_0D; s_HH; s_0H; s_mm; s_0m; s_SS; s_0S; s_WW; s_0W] ->
  tokenize_pattern p = Some [p].
Proof.
  intros p H. cbn [In] in H.
  repeat (destruct H as [<-|H]; [vm_compute; reflexivity|]). destruct H.
Qed.

Definition field_of (p : str) (d : dt) : str :=
  if str_eqb p s_YYYY then fmt_Y (dt_year d) else if str_eqb p s_YY then fmt_y (dt_year d)
  else if str_eqb p s_MM then zdec (dt_month d) else if str_eqb p s_0M then pad2 (dt_month d)
  else if str_eqb p s_DD then zdec (dt_day d) else if str_eqb p s_0D then pad2 (dt_day d)
  else if str_eqb p s_HH then zdec (dt_hour d) else if str_eqb p s_0H then pad2 (dt_hour d)
  else if str_eqb p s_mm then zdec (dt_min d) else if str_eqb p s_0m then pad2 (dt_min d)
  else if str_eqb p s_SS then zdec (dt_sec d) else if str_eqb p s_0S then pad2 (dt_sec d)
  else if str_eqb p s_WW then zdec (dt_week d) else pad2 (dt_week d).

Lemma token_value_field (d : dt) p :
  In p [s_YYYY; s_YY; s_MM; s_0M; s_DD; s_0D; s_HH; s_0H; s_mm; s_0m; s_SS; s_0S; s_WW; s_0W] ->
  token_value d p = field_of p d.
Proof.
  intros H. cbn [In] in H.
  repeat (destruct H as [<-|H]; [reflexivity|]). destruct H.
Qed.

Lemma not_compact p :
  In p [s_YYYY; s_YY; s_MM; s_0M; s_DD; s_0D; s_HH; s_0H; s_mm; s_0m; s_SS; s_0S; s_WW; s_0W] ->
  str_eqb p s_compact_date = false /\ str_eqb p s_compact_datetime = false.
Proof.
  intros H. cbn [In] in H.
  repeat (destruct H as [<-|H]; [split; reflexivity|]). destruct H.
Qed.

Theorem resolve_single p t :
  In p [s_YYYY; s_YY; s_MM; s_0M; s_DD; s_0D; s_HH; s_0H; s_mm; s_0m; s_SS; s_0S; s_WW; s_0W] ->
  let d := dt_of_secs (u64_as_i64 t) in
  chrono_year_ok (dt_year d) = true ->
  resolve_timestamp p t = Some (field_of p d).
Proof.
  intros H d Hy. unfold resolve_timestamp. fold d. rewrite Hy. clearbody d. cbn [negb].
  destruct (not_compact p H) as [E1 E2]. rewrite E1, E2, (tok_single p H).
  cbn [map concat]. rewrite app_nil_r, (token_value_field d p H). reflexivity.
Qed.

Theorem resolve_compact t :
  let d := dt_of_secs (u64_as_i64 t) in
  chrono_year_ok (dt_year d) = true ->
  resolve_timestamp s_compact_date t = Some (fmt_Y (dt_year d) ++ pad2 (dt_month d) ++ pad2 (dt_day d)) /\
  resolve_timestamp s_compact_datetime t =
    Some (fmt_Y (dt_year d) ++ pad2 (dt_month d) ++ pad2 (dt_day d) ++ pad2 (dt_hour d) ++ pad2 (dt_min d) ++ pad2 (dt_sec d)).
Proof. intros d Hy. unfold resolve_timestamp. fold d. rewrite Hy. clearbody d. split; reflexivity. Qed.

(* the sixteen documented names are accepted by schema validation *)
Theorem patterns_accepted : forallb is_valid_timestamp_pattern valid_patterns = true /\ length valid_patterns = 16%nat.
Proof. split; vm_compute; reflexivity. Qed.

(* widths: pad2 is exactly two digits for 0..99, zdec has no leading zero *)
Lemma print_dec_small n : (n < 10)%N -> length (print_dec n) = 1%nat.
Proof.
  intros H. assert (n = 0 \/ n = 1 \/ n = 2 \/ n = 3 \/ n = 4 \/ n = 5 \/ n = 6 \/ n = 7 \/ n = 8 \/ n = 9)%N as C by lia.
  repeat (destruct C as [->|C]; [reflexivity|]). subst. reflexivity.
Qed.
