(* C11: pep_cmp is the lexicographic order on pep_key *)
From Coq Require Import Lia.
From ZV Require Import Str Pep440 OrderFacts Pep440Spec.

Lemma zeros_cmp_cases l : (zeros_cmp l = Eq /\ strip_zeros l = []) \/ (zeros_cmp l = Gt /\ strip_zeros l <> []).
Proof.
  induction l as [|x l IH]; cbn [zeros_cmp strip_zeros]; [left; split; reflexivity|].
  destruct (N.compare_spec x 0) as [E|E|E].
  - subst x. destruct IH as [[H1 H2]|[H1 H2]].
    + left. rewrite H1, H2. split; reflexivity.
    + right. rewrite H1. split; [reflexivity|]. destruct (strip_zeros l); [congruence|discriminate].
  - lia.
  - right. split; [reflexivity|]. destruct (strip_zeros l); [|discriminate].
    destruct (N.eqb_spec x 0); [lia|discriminate].
Qed.

Lemma strip_cons x l : strip_zeros (x :: l) =
  match strip_zeros l with [] => if x =? 0 then [] else [x] | t => x :: t end.
Proof. reflexivity. Qed.

Lemma release_cmp_lex : forall l r, release_cmp l r = lex N.compare (strip_zeros l) (strip_zeros r).
Proof.
  induction l as [|x l IH]; intros r.
  - cbn [release_cmp strip_zeros]. destruct (zeros_cmp_cases r) as [[H1 H2]|[H1 H2]]; rewrite H1.
    + rewrite H2. reflexivity.
    + destruct (strip_zeros r); [congruence|reflexivity].
  - destruct r as [|y r].
    + cbn [release_cmp]. destruct (zeros_cmp_cases (x :: l)) as [[H1 H2]|[H1 H2]]; rewrite H1.
      * rewrite H2. reflexivity.
      * cbn [strip_zeros] in *. destruct (match strip_zeros l with [] => _ | _ => _ end); [congruence|reflexivity].
    + cbn [release_cmp]. rewrite !strip_cons. specialize (IH r).
      destruct (N.compare_spec x y) as [E|E|E].
      * subst y. rewrite IH.
        destruct (strip_zeros l) as [|a l'] eqn:El; destruct (strip_zeros r) as [|b r'] eqn:Er.
        -- destruct (x =? 0); cbn [lex]; rewrite ?N.compare_refl; reflexivity.
        -- destruct (N.eqb_spec x 0); cbn [lex]; rewrite ?N.compare_refl; reflexivity.
        -- destruct (N.eqb_spec x 0); cbn [lex]; rewrite ?N.compare_refl; reflexivity.
        -- cbn [lex]. rewrite N.compare_refl. reflexivity.
      * assert (Hxy : N.compare x y = Lt) by (apply N.compare_lt_iff; exact E).
        assert (y <> 0) by lia.
        destruct (strip_zeros l) as [|a l'] eqn:El; destruct (strip_zeros r) as [|b r'] eqn:Er;
          destruct (N.eqb_spec x 0); destruct (N.eqb_spec y 0); try lia; cbn [lex]; rewrite ?Hxy; try reflexivity.
      * assert (Hxy : N.compare x y = Gt) by (apply N.compare_gt_iff; exact E).
        assert (x <> 0) by lia.
        destruct (strip_zeros l) as [|a l'] eqn:El; destruct (strip_zeros r) as [|b r'] eqn:Er;
          destruct (N.eqb_spec x 0); destruct (N.eqb_spec y 0); try lia; cbn [lex]; rewrite ?Hxy; try reflexivity.
Qed.

Lemma pstr_cmp_lex a b : pstr_cmp a b = lex N.compare a b.
Proof. revert b; induction a as [|x a IH]; destruct b as [|y b]; cbn [pstr_cmp lex]; try reflexivity. Qed.

Lemma lseg_cmp_key a b : lseg_cmp a b = lseg_key_cmp (lseg_key a) (lseg_key b).
Proof. destruct a, b; cbn; reflexivity. Qed.

Lemma lsegs_cmp_key a : forall b, lsegs_cmp a b = lex lseg_key_cmp (map lseg_key a) (map lseg_key b).
Proof.
  induction a as [|x a IH]; destruct b as [|y b]; cbn [lsegs_cmp lex map]; try reflexivity.
  rewrite lseg_cmp_key, IH. reflexivity.
Qed.

Lemma lseg_key_cmp_good : good_cmp lseg_key_cmp.
Proof.
  pose proof (lex_good N.compare N_good) as G.
  constructor.
  - intros [x|x] [y|y]; cbn; try (intuition congruence).
    + rewrite (gc_eq _ G). intuition congruence.
    + rewrite N.compare_eq_iff. intuition congruence.
  - intros [x|x] [y|y]; cbn; try reflexivity; [apply (gc_opp _ G)|apply N.compare_antisym].
  - intros [x|x] [y|y] [z|z]; cbn; try congruence; [apply (gc_trans _ G)|apply (gc_trans _ N_good)].
Qed.

Lemma pep_key_cmp_good : good_cmp pep_key_cmp.
Proof.
  unfold pep_key_cmp.
  repeat apply pair_good; try apply N_good.
  - apply lex_good, N_good.
  - apply opt_high_good, pair_good; apply N_good.
  - apply opt_low_good, N_good.
  - apply opt_high_good, N_good.
  - apply opt_low_good, lex_good, lseg_key_cmp_good.
Qed.

Theorem pep_cmp_key a b : pep_cmp a b = pep_key_cmp (pep_key a) (pep_key b).
Proof.
  unfold pep_cmp, pep_key_cmp, pep_key, pair_cmp, tw, then_with', label_cmp. cbn [fst snd].
  rewrite release_cmp_lex.
  destruct (N.compare (p_epoch a) (p_epoch b)); try reflexivity.
  destruct (lex N.compare (strip_zeros (p_release a)) (strip_zeros (p_release b))); try reflexivity.
  destruct (p_pre_label a) as [la|], (p_pre_label b) as [lb|]; cbn [opt_high fst snd]; try reflexivity.
  - destruct (N.compare (label_rank la) (label_rank lb)); try reflexivity.
    destruct (N.compare (num0 (p_pre_num a)) (num0 (p_pre_num b))); try reflexivity.
    destruct (p_post_label a), (p_post_label b); cbn [opt_low]; try reflexivity.
    + destruct (N.compare (num0 (p_post_num a)) (num0 (p_post_num b))); try reflexivity.
      destruct (p_dev_label a), (p_dev_label b); cbn [opt_high]; try reflexivity.
      * destruct (N.compare (num0 (p_dev_num a)) (num0 (p_dev_num b))); try reflexivity.
        destruct (p_local a) as [x|], (p_local b) as [y|]; cbn [option_map opt_low]; try reflexivity. apply lsegs_cmp_key.
      * destruct (p_local a) as [x|], (p_local b) as [y|]; cbn [option_map opt_low]; try reflexivity. apply lsegs_cmp_key.
    + destruct (p_dev_label a), (p_dev_label b); cbn [opt_high]; try reflexivity.
      * destruct (N.compare (num0 (p_dev_num a)) (num0 (p_dev_num b))); try reflexivity.
        destruct (p_local a) as [x|], (p_local b) as [y|]; cbn [option_map opt_low]; try reflexivity. apply lsegs_cmp_key.
      * destruct (p_local a) as [x|], (p_local b) as [y|]; cbn [option_map opt_low]; try reflexivity. apply lsegs_cmp_key.
  - destruct (p_post_label a), (p_post_label b); cbn [opt_low]; try reflexivity.
    + destruct (N.compare (num0 (p_post_num a)) (num0 (p_post_num b))); try reflexivity.
      destruct (p_dev_label a), (p_dev_label b); cbn [opt_high]; try reflexivity.
      * destruct (N.compare (num0 (p_dev_num a)) (num0 (p_dev_num b))); try reflexivity.
        destruct (p_local a) as [x|], (p_local b) as [y|]; cbn [option_map opt_low]; try reflexivity. apply lsegs_cmp_key.
      * destruct (p_local a) as [x|], (p_local b) as [y|]; cbn [option_map opt_low]; try reflexivity. apply lsegs_cmp_key.
    + destruct (p_dev_label a), (p_dev_label b); cbn [opt_high]; try reflexivity.
      * destruct (N.compare (num0 (p_dev_num a)) (num0 (p_dev_num b))); try reflexivity.
        destruct (p_local a) as [x|], (p_local b) as [y|]; cbn [option_map opt_low]; try reflexivity. apply lsegs_cmp_key.
      * destruct (p_local a) as [x|], (p_local b) as [y|]; cbn [option_map opt_low]; try reflexivity. apply lsegs_cmp_key.
Qed.

Theorem pep_cmp_eq a b : pep_cmp a b = Eq <-> pep_key a = pep_key b.
Proof. rewrite pep_cmp_key. apply (gc_eq _ pep_key_cmp_good). Qed.

Theorem pep_cmp_opp a b : pep_cmp b a = CompOpp (pep_cmp a b).
Proof. rewrite !pep_cmp_key. apply (gc_opp _ pep_key_cmp_good). Qed.

Theorem pep_cmp_trans a b c : pep_cmp a b = Lt -> pep_cmp b c = Lt -> pep_cmp a c = Lt.
Proof. rewrite !pep_cmp_key. apply (gc_trans _ pep_key_cmp_good). Qed.

Theorem pep_cmp_le_trans a b c : pep_cmp a b <> Gt -> pep_cmp b c <> Gt -> pep_cmp a c <> Gt.
Proof. rewrite !pep_cmp_key. apply (good_trans_le _ pep_key_cmp_good). Qed.
