(* C04: the flow law.  What the second pass of `zerv flow` does to the version variables when the bump templates fire
   (dirty or ahead): patch+1 iff the base has no pre-release; pre-release := (label, number); post := (--post or the base post, 0 if
   unset) + amount; dev := now iff the dev condition holds; epoch / major / minor and the whole VCS context untouched.
   Stated on the bump/reset engine (apply_component_processing) for ANY starting variables, on the default precedence order. *)
From Coq Require Import Lia.
From ZV Require Import Str Zerv Render Convert Bump Cli Flow CtxFrame.
Open Scope N_scope.

Definition flow_args (vs : vars) (opost : option N) (lab : label) (n : N) (pamt : option N) (dev : option N) : bargs :=
  {| ro_major := None; ro_minor := None; ro_patch := None; ro_epoch := None; ro_post := opost;
     ro_dev := None; ro_pre_num := None; ro_pre_label := None; ro_core := []; ro_extra := []; ro_build := [];
     rb_major := None; rb_minor := None;
     rb_patch := if negb (is_some (v_pre vs)) then Some 1 else None;
     rb_epoch := None; rb_post := pamt; rb_dev := dev; rb_pre_num := Some n; rb_pre_label := Some (label_str lab);
     rb_core := []; rb_extra := []; rb_build := [] |}.

Definition law_vars (vs : vars) (opost : option N) (lab : label) (n : N) (pamt : option N) (dev : option N) : vars :=
  {| v_major := v_major vs; v_minor := v_minor vs;
     v_patch := if is_some (v_pre vs) then v_patch vs else Some (n0 (v_patch vs) + 1);
     v_epoch := v_epoch vs;
     v_pre := Some {| pr_label := lab; pr_num := Some n |};
     v_post := match pamt with Some k => Some (n0 opost + k) | None => opost end;
     v_dev := dev;
     v_distance := v_distance vs; v_dirty := v_dirty vs; v_bumped_branch := v_bumped_branch vs; v_bumped_hash := v_bumped_hash vs;
     v_bumped_ts := v_bumped_ts vs; v_last_branch := v_last_branch vs; v_last_hash := v_last_hash vs; v_last_ts := v_last_ts vs;
     v_last_tag := v_last_tag vs; v_custom := v_custom vs |}.

Definition fits (x : N) : Prop := x < 18446744073709551616.

Lemma u64_add_fits a b : fits (a + b) -> u64_add a b = Some (a + b).
Proof. intros H. unfold u64_add. apply N.ltb_lt in H. rewrite H. reflexivity. Qed.

Lemma label_exact_str lab : label_exact (label_str lab) = Some lab.
Proof. destruct lab; vm_compute; reflexivity. Qed.

Lemma section_noop sec z : process_section sec [] [] z = Some z.
Proof. unfold process_section. cbn. reflexivity. Qed.

Lemma vars_ext (a b : vars) :
  v_major a = v_major b -> v_minor a = v_minor b -> v_patch a = v_patch b -> v_epoch a = v_epoch b -> v_pre a = v_pre b -> v_post a = v_post b -> v_dev a = v_dev b ->
  v_distance a = v_distance b -> v_dirty a = v_dirty b -> v_bumped_branch a = v_bumped_branch b -> v_bumped_hash a = v_bumped_hash b -> v_bumped_ts a = v_bumped_ts b ->
  v_last_branch a = v_last_branch b -> v_last_hash a = v_last_hash b -> v_last_ts a = v_last_ts b -> v_last_tag a = v_last_tag b -> v_custom a = v_custom b -> a = b.
Proof. destruct a, b; cbn; intros; subst; reflexivity. Qed.

Ltac vars_eq :=
  f_equal; f_equal; apply vars_ext;
  cbn [law_vars set_dev set_post set_pre set_patch v_major v_minor v_patch v_epoch v_pre v_post v_dev v_distance v_dirty v_bumped_branch v_bumped_hash v_bumped_ts
       v_last_branch v_last_hash v_last_ts v_last_tag v_custom is_some n0];
  rewrite ?N.add_0_l; reflexivity.

Theorem flow_law s vs opost lab n pamt dev :
  prec_order s = default_prec ->
  fits (n0 (v_patch vs) + 1) -> fits n ->
  (match pamt with Some k => fits (n0 opost + k) | None => True end) ->
  (match dev with Some d => fits d | None => True end) ->
  apply_component_processing (flow_args vs opost lab n pamt dev) {| z_schema := s; z_vars := vs |}
  = Some {| z_schema := s; z_vars := law_vars vs opost lab n pamt dev |}.
Proof.
  intros Hp Fp Fn Fpost Fdev. unfold apply_component_processing. cbn [z_schema]. rewrite Hp. unfold default_prec. cbn [fold_left].
  destruct vs as [ma mi pa ep pre po dv dist dirty bb bh bts lb lh lts ltag cust].
  cbn [v_patch v_pre n0] in *.
  unfold process_level. cbn [z_schema z_vars]. rewrite !Hp.
  unfold flow_args. cbn [ro_epoch rb_epoch ro_major rb_major ro_minor rb_minor ro_patch rb_patch ro_post rb_post ro_dev rb_dev ro_pre_num rb_pre_num ro_pre_label rb_pre_label
                        ro_core rb_core ro_extra rb_extra ro_build rb_build v_pre is_some].
  unfold process_epoch, process_major, process_minor, process_patch, process_post, process_dev. unfold process_num at 1 2 3. cbn [with_vars z_schema z_vars].
  rewrite !Hp.
  destruct pre as [pr|]; cbn [is_some negb].
  - (* the base has a pre-release: no patch bump *)
    unfold process_num at 1. cbn [with_vars z_schema z_vars]. rewrite !section_noop. cbn [z_schema z_vars]. rewrite !Hp.
    unfold process_pre_label. cbn [ro_pre_label rb_pre_label]. rewrite label_exact_str. unfold reset_lower. cbn [levels_after default_prec prec_eqb fold_left reset_level v_pre set_pre set_post set_dev pr_label].
    cbn [with_vars z_schema z_vars]. rewrite !Hp.
    unfold process_pre_num. cbn [v_pre set_pre pr_num pr_label n0]. rewrite (u64_add_fits 0 n Fn). unfold reset_lower. cbn [levels_after default_prec prec_eqb fold_left reset_level v_pre set_pre set_post set_dev pr_label].
    cbn [with_vars z_schema z_vars]. rewrite !Hp.
    unfold process_num at 1. cbn [v_post set_post n0].
    destruct pamt as [k|]; destruct opost as [op|]; cbn [n0 v_post set_post set_dev set_pre set_patch] in *.
    all: try rewrite (u64_add_fits _ _ Fpost).
    all: unfold reset_lower; cbn [levels_after default_prec prec_eqb fold_left reset_level v_pre set_pre set_post set_dev pr_label with_vars z_schema z_vars].
    all: rewrite ?Hp. all: unfold process_num; cbn [v_dev set_dev set_post set_pre set_patch n0].
    all: destruct dev as [d|].
    all: try rewrite (u64_add_fits 0 _ Fdev).
    all: unfold reset_lower; cbn [levels_after default_prec prec_eqb fold_left reset_level v_pre set_pre set_post set_dev with_vars z_schema z_vars].
    all: rewrite ?Hp, ?section_noop; cbn [z_schema z_vars]; rewrite ?Hp, ?section_noop.
    all: vars_eq.
  - (* no pre-release: patch + 1, everything below reset *)
    unfold process_num at 1. cbn [v_patch set_patch n0]. rewrite (u64_add_fits _ _ Fp). unfold reset_lower. cbn [levels_after default_prec prec_eqb fold_left reset_level v_pre set_pre set_post set_dev set_patch].
    cbn [with_vars z_schema z_vars]. rewrite !section_noop. cbn [z_schema z_vars]. rewrite !Hp.
    unfold process_pre_label. cbn [ro_pre_label rb_pre_label]. rewrite label_exact_str. unfold reset_lower. cbn [levels_after default_prec prec_eqb fold_left reset_level v_pre set_pre set_post set_dev pr_label].
    cbn [with_vars z_schema z_vars]. rewrite !Hp.
    unfold process_pre_num. cbn [v_pre set_pre pr_num pr_label n0]. rewrite (u64_add_fits 0 n Fn). unfold reset_lower. cbn [levels_after default_prec prec_eqb fold_left reset_level v_pre set_pre set_post set_dev pr_label].
    cbn [with_vars z_schema z_vars]. rewrite !Hp.
    unfold process_num at 1. cbn [v_post set_post n0].
    destruct pamt as [k|]; destruct opost as [op|]; cbn [n0 v_post set_post set_dev set_pre set_patch] in *.
    all: try rewrite (u64_add_fits _ _ Fpost).
    all: unfold reset_lower; cbn [levels_after default_prec prec_eqb fold_left reset_level v_pre set_pre set_post set_dev pr_label with_vars z_schema z_vars].
    all: rewrite ?Hp. all: unfold process_num; cbn [v_dev set_dev set_post set_pre set_patch n0].
    all: destruct dev as [d|].
    all: try rewrite (u64_add_fits 0 _ Fdev).
    all: unfold reset_lower; cbn [levels_after default_prec prec_eqb fold_left reset_level v_pre set_pre set_post set_dev with_vars z_schema z_vars].
    all: rewrite ?Hp, ?section_noop; cbn [z_schema z_vars]; rewrite ?Hp, ?section_noop.
    all: vars_eq.
Qed.

(* ---- the bump arguments flow computes in a dirty / ahead state are exactly [flow_args] ---- *)
Definition flow_cond (vs : vars) : bool := opt_true (v_dirty vs) || opt_pos (v_distance vs).
Definition flow_dev_on (mode : postmode) (vs : vars) : bool := match mode with ModeTag => flow_cond vs | ModeCommit => opt_true (v_dirty vs) end.
Definition flow_post_amount (mode : postmode) (vs : vars) : option N := match mode with ModeCommit => v_distance vs | ModeTag => Some 1 end.
Definition flow_number (num : option N) (hl : N) (vs : vars) : option N :=
  match num with Some n => Some n
  | None => Dec.parse_dec (Hash.hash_int (match v_bumped_branch vs with Some b => b | None => [] end) (N.to_nat hl) false) end.

Theorem flow_bumps_are_flow_args lab num mode hl now a z ra n :
  resolve_args a = Some ra -> ro_major ra = None -> ro_minor ra = None -> ro_patch ra = None -> ro_epoch ra = None ->
  flow_cond (z_vars z) = true ->
  flow_number num hl (z_vars z) = Some n -> u32_fits n = true ->
  (match flow_post_amount mode (z_vars z) with Some k => u32_fits k = true | None => True end) ->
  (flow_dev_on mode (z_vars z) = true -> u32_fits now = true) ->
  flow_bumps lab num mode hl now a z =
  Some (flow_args (z_vars z) (match o_post a with Some _ => ro_post ra | None => v_post (z_vars z) end) lab n
                  (flow_post_amount mode (z_vars z)) (if flow_dev_on mode (z_vars z) then Some now else None)).
Proof.
  intros Hr M1 M2 M3 M4 Hc Hn Hn32 Hpost Hdev. unfold flow_bumps, flow_overrides. rewrite Hr. cbv zeta.
  unfold flow_cond in Hc. rewrite Hc. cbn [negb orb].
  unfold flow_number in Hn. rewrite Hn, Hn32. cbn [andb].
  assert (Pk : match match mode with ModeCommit => v_distance (z_vars z) | ModeTag => Some 1 end with Some n0 => u32_fits n0 | None => true end = true).
  { unfold flow_post_amount in Hpost. destruct mode; [reflexivity|]. destruct (v_distance (z_vars z)); [exact Hpost|reflexivity]. }
  rewrite Pk. cbn [andb].
  assert (Dk : (negb (match mode with ModeTag => true | ModeCommit => opt_true (v_dirty (z_vars z)) end) || u32_fits now) = true).
  { unfold flow_dev_on, flow_cond in Hdev. rewrite Hc in Hdev. destruct mode; cbn [negb orb]; [apply Hdev; reflexivity|].
    destruct (opt_true (v_dirty (z_vars z))); cbn [negb orb]; [apply Hdev; reflexivity|reflexivity]. }
  rewrite Dk. cbn [negb]. unfold flow_args, flow_dev_on, flow_post_amount, flow_cond. rewrite Hc.
  cbn [ro_major ro_minor ro_patch ro_epoch ro_post]. rewrite M1, M2, M3, M4. rewrite andb_true_r. reflexivity.
Qed.

(* ... hence the second pass yields the law *)
Theorem flow_second_pass_law lab num mode hl now a s vs ra n :
  prec_order s = default_prec ->
  resolve_args a = Some ra -> ro_major ra = None -> ro_minor ra = None -> ro_patch ra = None -> ro_epoch ra = None ->
  flow_cond vs = true -> flow_number num hl vs = Some n -> u32_fits n = true ->
  (match flow_post_amount mode vs with Some k => u32_fits k = true | None => True end) ->
  (flow_dev_on mode vs = true -> u32_fits now = true) ->
  let opost := match o_post a with Some _ => ro_post ra | None => v_post vs end in
  fits (n0 (v_patch vs) + 1) -> (match flow_post_amount mode vs with Some k => fits (n0 opost + k) | None => True end) ->
  exists b, flow_bumps lab num mode hl now a {| z_schema := s; z_vars := vs |} = Some b /\
            apply_component_processing b {| z_schema := s; z_vars := vs |}
            = Some {| z_schema := s; z_vars := law_vars vs opost lab n (flow_post_amount mode vs) (if flow_dev_on mode vs then Some now else None) |}.
Proof.
  intros Hp Hr M1 M2 M3 M4 Hc Hn Hn32 Hpost Hdev opost Fp Fpost.
  eexists. split; [apply (flow_bumps_are_flow_args lab num mode hl now a {| z_schema := s; z_vars := vs |} ra n); assumption|].
  cbn [z_vars]. apply flow_law; [exact Hp|exact Fp| | |].
  - unfold u32_fits in Hn32. apply N.ltb_lt in Hn32. unfold fits. lia.
  - exact Fpost.
  - destruct (flow_dev_on mode vs) eqn:D; [|exact I]. specialize (Hdev eq_refl). unfold u32_fits in Hdev. apply N.ltb_lt in Hdev. unfold fits. lia.
Qed.
