(* C12: the pipe `zerv version --output-format zerv | zerv version --source stdin --output-format F` (no other argument) reproduces the
   object and hence every rendering: on an emitted object the second run is the identity (same clock value; with another clock value
   only bumped_timestamp of a dirty object moves - ClockProofs).  The RON printer / parser round trip between the two processes is the
   ron crate's and is decided by the correspondence runs. *)
From Coq Require Import Lia.
From ZV Require Import Str Dec Zerv Render SemVer Pep440 Convert Bump Cli Flow SchemaProofs.
Open Scope N_scope.

Definition plain_stdin (f : outfmt) : vargs :=
  {| g_source := Some SrcStdin; g_input_format := FAuto; g_output_format := f; g_prefix := None; g_schema := None; g_schema_ron := None;
     o_tag_version := None; o_distance := None; o_dirty := false; o_no_dirty := false; o_clean := false;
     o_branch := None; o_hash := None; o_ts := None;
     o_major := None; o_minor := None; o_patch := None; o_epoch := None; o_post := None; o_dev := None; o_pre_label := None; o_pre_num := None;
     o_custom := None; o_core := []; o_extra := []; o_build := [];
     b_major := None; b_minor := None; b_patch := None; b_post := None; b_dev := None; b_pre_num := None; b_epoch := None;
     b_pre_label := None; b_core := []; b_extra := []; b_build := []; b_context := false; b_no_context := false |}.

Definition no_ops : bargs :=
  {| ro_major := None; ro_minor := None; ro_patch := None; ro_epoch := None; ro_post := None; ro_dev := None; ro_pre_num := None; ro_pre_label := None;
     ro_core := []; ro_extra := []; ro_build := [];
     rb_major := None; rb_minor := None; rb_patch := None; rb_epoch := None; rb_post := None; rb_dev := None; rb_pre_num := None; rb_pre_label := None;
     rb_core := []; rb_extra := []; rb_build := [] |}.

Lemma resolve_plain f : resolve_args (plain_stdin f) = Some no_ops.
Proof. reflexivity. Qed.

Lemma zerv_eta z : {| z_schema := z_schema z; z_vars := z_vars z |} = z.
Proof. destruct z; reflexivity. Qed.

Lemma level_no_ops z p : process_level no_ops z p = Some z.
Proof.
  destruct p; cbn [process_level no_ops ro_epoch rb_epoch ro_major rb_major ro_minor rb_minor ro_patch rb_patch ro_core rb_core ro_pre_num rb_pre_num
                   ro_post rb_post ro_dev rb_dev ro_extra rb_extra ro_build rb_build];
    try (unfold process_epoch, process_major, process_minor, process_patch, process_post, process_dev, process_num; cbn [with_vars]; apply f_equal, zerv_eta);
    try (unfold process_section; cbn [parse_specs parse_overrides parse_bumps sort_specs fold_left]; reflexivity).
  - unfold process_pre_label. cbn [no_ops ro_pre_label rb_pre_label with_vars]. apply f_equal, zerv_eta.
  - unfold process_pre_num. cbn [with_vars]. apply f_equal, zerv_eta.
Qed.

Lemma processing_no_ops z : apply_component_processing no_ops z = Some z.
Proof.
  unfold apply_component_processing. generalize (prec_order (z_schema z)). intros l. induction l as [|p l IH]; [reflexivity|].
  cbn [fold_left]. rewrite level_no_ops. exact IH.
Qed.

Lemma vars_eta vs : set_ctx vs (v_distance vs) (v_dirty vs) (v_bumped_branch vs) (v_bumped_hash vs) (v_bumped_ts vs) = vs.
Proof. destruct vs; reflexivity. Qed.

Lemma context_plain f vs : apply_context_overrides (plain_stdin f) vs = OOk vs.
Proof.
  unfold apply_context_overrides. cbn [plain_stdin o_distance o_branch o_hash o_ts o_clean o_tag_version o_custom dirty_override o_dirty o_no_dirty orelse omap].
  rewrite vars_eta. destruct vs; reflexivity.
Qed.

(* what an emitted object looks like: valid schema, no explicit epoch 0, and - if dirty - stamped with the clock value of the run *)
Definition settled (now : N) (z : zerv) : Prop :=
  schema_validate (z_schema z) = true /\ v_epoch (z_vars z) <> Some 0 /\ (v_dirty (z_vars z) = Some true -> v_bumped_ts (z_vars z) = Some now).

Theorem pipe_identity f now z : settled now z -> version_zerv (plain_stdin f) (Some (Some z)) now = OOk z.
Proof.
  intros [Hv [He Hd]]. unfold version_zerv. change (validate_args (plain_stdin f)) with true. cbn [negb g_source plain_stdin].
  unfold to_zerv. rewrite context_plain. unfold resolve_schema. cbn [g_schema g_schema_ron plain_stdin]. rewrite Hv.
  change (resolve_args (plain_stdin f)) with (Some no_ops). rewrite zerv_eta, processing_no_ops.
  assert (B : bump_timestamp now z = z).
  { unfold bump_timestamp. destruct (v_dirty (z_vars z)) as [[|]|] eqn:D; try reflexivity. rewrite <- (Hd eq_refl), <- D, vars_eta. apply zerv_eta. }
  rewrite B. unfold normalize_epoch. destruct (v_epoch (z_vars z)) as [[|e]|]; try reflexivity. congruence.
Qed.

(* every object emitted by `zerv version` / `zerv flow` is settled for the clock value of that run *)
Lemma finish_settled now z' : schema_validate (z_schema z') = true -> settled now (normalize_epoch (bump_timestamp now z')).
Proof.
  intros Hv. unfold settled. rewrite normalize_epoch_schema, bump_timestamp_schema. split; [exact Hv|].
  unfold normalize_epoch, bump_timestamp. destruct z' as [s vs]. cbn [z_vars z_schema].
  destruct (v_dirty vs) as [[|]|] eqn:D; cbn [z_vars z_schema set_ctx v_epoch v_dirty v_bumped_ts];
    destruct (v_epoch vs) as [[|e]|] eqn:E; cbn [z_vars set_epoch set_ctx v_epoch v_dirty v_bumped_ts]; (split; [try discriminate; try congruence|]); intros H; try reflexivity; try congruence.
Qed.

Lemma to_zerv_settled a vs0 ex now z : to_zerv a vs0 ex now = OOk z -> settled now z.
Proof.
  unfold to_zerv. destruct (apply_context_overrides a vs0) as [vs| |]; try discriminate. destruct (resolve_schema a ex vs) as [s|]; [|discriminate].
  destruct (schema_validate s) eqn:Hv; [|discriminate]. destruct (resolve_args a) as [ra|]; [|discriminate].
  destruct (apply_component_processing ra {| z_schema := s; z_vars := vs |}) as [z'|] eqn:P; [|discriminate]. intros H. inversion H; subst z.
  apply finish_settled. apply (apply_processing_valid ra {| z_schema := s; z_vars := vs |} z'); [exact Hv|exact P].
Qed.

Theorem version_emits_settled a stdin now z : version_zerv a stdin now = OOk z -> settled now z.
Proof.
  unfold version_zerv. destruct (negb (validate_args a)); [discriminate|].
  destruct (match g_source a with Some s => s | None => match stdin with Some _ => SrcStdin | None => SrcGit end end); try discriminate;
    try (destruct stdin as [[z0|]|]; try discriminate); apply to_zerv_settled.
Qed.

(* THE PIPE: the object emitted by any `zerv version` run, fed back through stdin with no other argument, comes out unchanged - so the
   semver / pep440 / zerv rendering of the second run is the rendering of that object *)
Theorem version_pipe_identity a stdin now z f : version_zerv a stdin now = OOk z -> version_zerv (plain_stdin f) (Some (Some z)) now = OOk z.
Proof. intros H. apply pipe_identity, (version_emits_settled a stdin now z H). Qed.

Corollary version_pipe_semver a stdin now z : version_zerv a stdin now = OOk z ->
  version_output (plain_stdin OutSemver) (Some (Some z)) now = OOk (semver_print (semver_of_zerv z)).
Proof. intros H. unfold version_output. rewrite (version_pipe_identity a stdin now z OutSemver H). reflexivity. Qed.

Corollary version_pipe_pep440 a stdin now z p : version_zerv a stdin now = OOk z -> pep_of_zerv z = Some p ->
  version_output (plain_stdin OutPep440) (Some (Some z)) now = OOk (pep_print p).
Proof. intros H Hp. unfold version_output. rewrite (version_pipe_identity a stdin now z OutPep440 H). cbn [g_output_format plain_stdin g_prefix]. rewrite Hp. reflexivity. Qed.

Corollary version_pipe_reemits a stdin now z : version_zerv a stdin now = OOk z ->
  version_output (plain_stdin OutZerv) (Some (Some z)) now = OOk (zerv_ron z).
Proof. intros H. unfold version_output. rewrite (version_pipe_identity a stdin now z OutZerv H). reflexivity. Qed.

(* ... and likewise for the object emitted by `zerv flow` *)
Lemma to_zerv_with_settled a resolver vs0 ex now z : to_zerv_with a resolver vs0 ex now = OOk z -> settled now z.
Proof.
  unfold to_zerv_with. destruct (apply_context_overrides a vs0) as [vs| |]; try discriminate. destruct (resolve_schema a ex vs) as [s|]; [|discriminate].
  destruct (schema_validate s) eqn:Hv; [|discriminate]. destruct (resolver {| z_schema := s; z_vars := vs |}) as [ra|]; [|discriminate].
  destruct (apply_component_processing ra {| z_schema := s; z_vars := vs |}) as [z'|] eqn:P; [|discriminate]. intros H. inversion H; subst z.
  apply finish_settled. apply (apply_processing_valid ra {| z_schema := s; z_vars := vs |} z'); [exact Hv|exact P].
Qed.

Lemma run_pass_settled a resolver stdin now z : run_pass a resolver stdin now = OOk z -> settled now z.
Proof.
  unfold run_pass. destruct (negb (validate_args a)); [discriminate|].
  destruct (match g_source a with Some s => s | None => match stdin with Some _ => SrcStdin | None => SrcGit end end); try discriminate;
    try (destruct stdin as [[z0|]|]; try discriminate); apply to_zerv_with_settled.
Qed.

Theorem flow_pipe_identity fa stdin now z f : flow_zerv fa stdin now = OOk z -> version_zerv (plain_stdin f) (Some (Some z)) now = OOk z.
Proof.
  intros H. apply pipe_identity. revert H. unfold flow_zerv.
  destruct (run_pass _ _ stdin now) as [cur| |]; try discriminate. destruct (negb (flow_validate fa)); [discriminate|].
  destruct (resolve_for_branch _ _) as [[rl rn] rm]. apply run_pass_settled.
Qed.

Print Assumptions version_pipe_identity.
Print Assumptions flow_pipe_identity.

(* REFUSAL: an object whose schema violates the placement rules is never rendered when that schema is the one in effect (no --schema /
   --schema-ron), whatever the other arguments; a stdin document that is not a Zerv object at all is refused as well *)
Theorem invalid_schema_refused a z now t : g_schema a = None -> g_schema_ron a = None -> schema_validate (z_schema z) = false ->
  (g_source a = Some SrcStdin \/ g_source a = None) -> version_output a (Some (Some z)) now <> OOk t.
Proof.
  intros G1 G2 Hv Hs. unfold version_output, version_zerv. destruct (negb (validate_args a)); [discriminate|].
  assert (S : match g_source a with Some s => s | None => SrcStdin end = SrcStdin) by (destruct Hs as [-> | ->]; reflexivity).
  rewrite S. unfold to_zerv. destruct (apply_context_overrides a (z_vars z)) as [vs| |]; try discriminate.
  unfold resolve_schema. rewrite G1, G2, Hv. discriminate.
Qed.

Theorem not_a_document_refused a now t : (g_source a = Some SrcStdin \/ g_source a = None) -> version_output a (Some None) now <> OOk t.
Proof.
  intros Hs. unfold version_output, version_zerv. destruct (negb (validate_args a)); [discriminate|].
  assert (S : match g_source a with Some s => s | None => SrcStdin end = SrcStdin) by (destruct Hs as [-> | ->]; reflexivity).
  rewrite S. discriminate.
Qed.
