(* The wall clock enters `zerv version` only through process_bumped_timestamp, i.e. only when the final object is dirty. *)
From ZV Require Import Str Zerv Render Convert Bump Cli Flow.

Lemma bump_timestamp_dirty n z : v_dirty (z_vars (bump_timestamp n z)) = v_dirty (z_vars z).
Proof. unfold bump_timestamp. destruct (v_dirty (z_vars z)) as [[|]|] eqn:E; cbn; try exact E; reflexivity. Qed.

Lemma normalize_epoch_dirty z : v_dirty (z_vars (normalize_epoch z)) = v_dirty (z_vars z).
Proof. unfold normalize_epoch. destruct (v_epoch (z_vars z)) as [[|p]|]; reflexivity. Qed.

Lemma bump_timestamp_clean n z : v_dirty (z_vars z) <> Some true -> bump_timestamp n z = z.
Proof. unfold bump_timestamp. destruct (v_dirty (z_vars z)) as [[|]|]; intros H; try reflexivity. exfalso. apply H. reflexivity. Qed.

Lemma to_zerv_with_clock a r vs ex n1 n2 :
  match to_zerv_with a r vs ex n1 with OOk z => v_dirty (z_vars z) <> Some true | _ => True end ->
  to_zerv_with a r vs ex n1 = to_zerv_with a r vs ex n2.
Proof.
  unfold to_zerv_with. destruct (apply_context_overrides a vs) as [vs'| |]; try reflexivity.
  destruct (resolve_schema a ex vs') as [s|]; [|reflexivity]. destruct (schema_validate s); [|reflexivity].
  destruct (r _) as [ra|]; [|reflexivity]. destruct (apply_component_processing ra _) as [z'|]; [|reflexivity].
  rewrite normalize_epoch_dirty, bump_timestamp_dirty. intros H. rewrite !(bump_timestamp_clean _ z' H). reflexivity.
Qed.

Lemma run_pass_clock a r stdin n1 n2 :
  match run_pass a r stdin n1 with OOk z => v_dirty (z_vars z) <> Some true | _ => True end ->
  run_pass a r stdin n1 = run_pass a r stdin n2.
Proof.
  unfold run_pass. destruct (negb (validate_args a)); [reflexivity|].
  destruct (match g_source a with Some s => s | None => _ end); try reflexivity.
  - apply to_zerv_with_clock.
  - destruct stdin as [[z|]|]; try reflexivity. apply to_zerv_with_clock.
Qed.

Theorem version_zerv_clock a stdin n1 n2 :
  match version_zerv a stdin n1 with OOk z => v_dirty (z_vars z) <> Some true | _ => True end ->
  version_zerv a stdin n1 = version_zerv a stdin n2.
Proof. exact (run_pass_clock a (fun _ => resolve_args a) stdin n1 n2). Qed.

Theorem version_output_clock a stdin n1 n2 :
  match version_zerv a stdin n1 with OOk z => v_dirty (z_vars z) <> Some true | _ => True end ->
  version_output a stdin n1 = version_output a stdin n2.
Proof. intros H. unfold version_output. rewrite (version_zerv_clock a stdin n1 n2 H). reflexivity. Qed.

(* and when the object is dirty, the clock is visible in exactly one place: bumped_timestamp *)
Lemma bump_timestamp_only_ts n z :
  let z' := bump_timestamp n z in
  z_schema z' = z_schema z /\
  (let v := z_vars z in let v' := z_vars z' in
   v_major v' = v_major v /\ v_minor v' = v_minor v /\ v_patch v' = v_patch v /\ v_epoch v' = v_epoch v /\ v_pre v' = v_pre v /\
   v_post v' = v_post v /\ v_dev v' = v_dev v /\ v_distance v' = v_distance v /\ v_dirty v' = v_dirty v /\
   v_bumped_branch v' = v_bumped_branch v /\ v_bumped_hash v' = v_bumped_hash v /\ v_last_branch v' = v_last_branch v /\
   v_last_hash v' = v_last_hash v /\ v_last_ts v' = v_last_ts v /\ v_last_tag v' = v_last_tag v /\ v_custom v' = v_custom v).
Proof. unfold bump_timestamp. destruct (v_dirty (z_vars z)) as [[|]|] eqn:E; cbn; repeat split; try reflexivity; try (symmetry; exact E); exact E. Qed.
