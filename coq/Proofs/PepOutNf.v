(* C01 / C07: EVERY PEP 440 value zerv renders from a Zerv object is in normal form (numbers below 2^32, labels with numbers, local
   segments lower-case alphanumeric or numbers) - so zerv's own parser reads every PEP 440 string zerv prints back as the value printed,
   and PEP 440 -> Zerv -> PEP 440 leaves every rendering unchanged. *)
From Coq Require Import Lia.
From ZV Require Import Str Dec Sanitize SanitizeSpec StrFacts DecFacts SanitizeProofs Zerv Render Pep440 Convert NoPanicProofs IdentProofs PepWfProofs Pep440Nf PepRoundTrip
                       SemVerRoundTrip PepParseBack PepParseNf.
Open Scope N_scope.

Definition lseg_pre (g : lseg) : Prop := lseg_nf (normalize_lseg g).
Definition local_pre (o : option (list lseg)) : Prop := match o with Some l => l <> [] /\ Forall lseg_pre l | None => True end.
Definition no_upper (s : str) : Prop := Forall (fun x => is_ascii_upper x = false) s.

Lemma drop_while_no_upper s : no_upper s -> no_upper (drop_while (N.eqb c_0) s).
Proof. induction 1 as [|x s Hx Hs IH]; [constructor|]. cbn [drop_while]. destruct (N.eqb c_0 x); [exact IH|constructor; assumption]. Qed.

Lemma fix0_facts r : good r -> no_upper r -> good (fix0 r) /\ no_upper (fix0 r) /\ has_leading_zero (fix0 r) = false.
Proof.
  intros [Hn Ha] Hu. unfold fix0. destruct (all_b is_ascii_digit r) eqn:D.
  - pose proof (drop_while_head r) as Hh. pose proof (drop_while_digits r D) as Hd. pose proof (drop_while_alnum r Ha) as Hal. pose proof (drop_while_no_upper r Hu) as Hnu.
    destruct (drop_while (N.eqb c_0) r) as [|x t] eqn:E.
    + destruct r as [|y r']; [congruence|]. repeat split; [discriminate|repeat constructor|repeat constructor].
    + split; [split; [discriminate|exact Hal]|]. split; [exact Hnu|]. unfold has_leading_zero. rewrite Hd. cbn [andb]. destruct t; [reflexivity|exact Hh].
  - split; [split; assumption|]. split; [exact Hu|]. unfold has_leading_zero. rewrite D. reflexivity.
Qed.

Lemma local_seg_pre g x : good g -> local_seg g = Some x -> lseg_pre x.
Proof.
  intros [Hn Ha]. unfold local_seg. destruct (parse_u32 g) as [n|] eqn:P.
  - intros H. inversion H; subst. cbn. apply (parse_u32_bound g n P).
  - rewrite (sanitize_local_alnum g Hn Ha).
    assert (G : good (map ascii_lower g)) by (split; [destruct g; [congruence|discriminate]|apply lower_alnum_all, Ha]).
    destruct (fix0_facts _ G (lower_no_upper g)) as [Fg [Fu Fz]]. set (z := fix0 (map ascii_lower g)) in *.
    destruct (existsb (N.eqb c_dot) z); [discriminate|]. intros H. inversion H; subst x. unfold lseg_pre. cbn [normalize_lseg].
    rewrite (lower_fixed z Fu). destruct (parse_u32 z) as [m|] eqn:Pz; [cbn; apply (parse_u32_bound z m Pz)|]. cbn [lseg_nf]. repeat split; try assumption; apply Fg.
Qed.

Lemma flatten_local_pre y r : flatten_local (sanitize pep440_local_str y) = Some r -> Forall lseg_pre r.
Proof.
  unfold flatten_local. intros E. eapply all_some_Forall; [|exact E].
  intros g x Hin Hx. apply (local_seg_pre g x); [|exact Hx].
  pose proof (contract_holds c_dot dot_not_alnum true false None y) as C.
  change (sanitize_to_string (custom_str (Some [c_dot]) true false None) y) with (sanitize pep440_local_str y) in C.
  destruct C as [[segs [Es [Hgood _]]] _]. rewrite Es in Hin. apply filter_In in Hin. destruct Hin as [Hin Hne].
  destruct segs as [|s0 segs'].
  - cbn in Hin. destruct Hin as [<-|[]]. discriminate.
  - rewrite split_join in Hin; [|discriminate|apply (good_cfree c_dot dot_not_alnum), Hgood].
    rewrite Forall_forall in Hgood. destruct (Hgood g Hin) as [H1 H2]. split; assumption.
Qed.

Lemma local_value_pre c vs r : local_value c vs = Some r -> Forall lseg_pre r.
Proof.
  unfold local_value. destruct (comp_value c vs pep440_local_str) as [x|] eqn:E; [|intros H; inversion H; constructor].
  destruct (nonempty x); [|intros H; inversion H; constructor].
  destruct (comp_value_sanitized _ _ _ _ E) as [y ->]. apply flatten_local_pre.
Qed.

Lemma push_local_pre o l : local_pre o -> Forall lseg_pre l -> local_pre (push_local o l).
Proof.
  intros Ho Hl. unfold push_local. destruct l as [|g l]; [exact Ho|]. destruct o as [x|]; cbn.
  - destruct Ho as [_ Hx]. split; [destruct x; discriminate|apply Forall_app; split; assumption].
  - split; [discriminate|exact Hl].
Qed.

(* the numbers of the accumulator *)
Record num_inv (p : pep) : Prop := {
  ni_epoch : u32 (p_epoch p);
  ni_release : Forall u32 (p_release p);
  ni_pre : match p_pre_label p with Some _ => opt_u32_ok (p_pre_num p) | None => p_pre_num p = None end;
  ni_post : if p_post_label p then opt_u32_ok (p_post_num p) else p_post_num p = None;
  ni_dev : if p_dev_label p then opt_u32_ok (p_dev_num p) else p_dev_num p = None;
  ni_local : local_pre (p_local p)
}.

Lemma u32_value_bound c vs n : u32_value c vs = Some n -> u32 n.
Proof. unfold u32_value. destruct (comp_value c vs uint_sanitizer) as [v|]; [|discriminate]. destruct (nonempty v); [apply parse_u32_bound|discriminate]. Qed.

Lemma add_local_inv a l : num_inv (q a) -> (forall r, l = Some r -> Forall lseg_pre r) -> num_inv (q (pep_add_local a l)).
Proof.
  intros [H1 H2 H3 H4 H5 H6] Hl. unfold pep_add_local. destruct l as [r|]; [|constructor; assumption].
  constructor; cbn [q p_epoch p_release p_pre_label p_pre_num p_post_label p_post_num p_dev_label p_dev_num p_local]; try assumption.
  apply push_local_pre; [exact H6|apply Hl; reflexivity].
Qed.

Lemma core_step_inv vs a c : num_inv (q a) -> num_inv (q (pep_core_step vs a c)).
Proof.
  intros H. unfold pep_core_step. destruct (u32_value c vs) as [n|] eqn:E; [|apply add_local_inv; [exact H|intros r; apply local_value_pre]].
  destruct H as [H1 H2 H3 H4 H5 H6]. constructor; cbn [q p_epoch p_release p_pre_label p_pre_num p_post_label p_post_num p_dev_label p_dev_num p_local]; try assumption.
  apply Forall_app. split; [exact H2|constructor; [apply (u32_value_bound c vs n E)|constructor]].
Qed.

Lemma label_of_label l : label_of_str (sanitize key_sanitizer (label_str l)) = Some l.
Proof. destruct l; vm_compute; reflexivity. Qed.

Lemma extra_step_inv vs a c : num_inv (q a) -> num_inv (q (pep_extra_step vs a c)).
Proof.
  intros H. unfold pep_extra_step. cbv zeta.
  assert (Other : forall c', num_inv (q (pep_add_local a (local_value c' vs)))) by (intros c'; apply add_local_inv; [exact H|intros r; apply local_value_pre]).
  destruct c as [s|n|v]; [apply Other|apply Other|]. destruct v; try apply Other.
  - (* Epoch *) destruct (u32_value _ vs) as [n|] eqn:E; [|exact H]. destruct H as [H1 H2 H3 H4 H5 H6].
    constructor; cbn [q p_epoch p_release p_pre_label p_pre_num p_post_label p_post_num p_dev_label p_dev_num p_local]; try assumption. apply (u32_value_bound _ vs n E).
  - (* PreRelease *) unfold var_expanded. destruct (v_pre vs) as [pr|]; [|exact H]. cbn [app].
    destruct (nonempty (sanitize key_sanitizer (label_str (pr_label pr)))); [|exact H]. rewrite label_of_label.
    destruct H as [H1 H2 H3 H4 H5 H6].
    constructor; cbn [q p_epoch p_release p_pre_label p_pre_num p_post_label p_post_num p_dev_label p_dev_num p_local]; try assumption.
    assert (Prev : opt_u32_ok (p_pre_num (q a))) by (destruct (p_pre_label (q a)); [exact H3|rewrite H3; exact I]).
    destruct (var_value PreRelease vs pep440_local_str) as [e1|]; [|exact Prev]. destruct (nonempty e1); [|exact Prev].
    destruct (parse_u32 e1) as [m|] eqn:P; [cbn; apply (parse_u32_bound e1 m P)|exact Prev].
  - (* Post *) destruct (u32_value _ vs) as [n|] eqn:E; [|exact H]. destruct H as [H1 H2 H3 H4 H5 H6].
    constructor; cbn [q p_epoch p_release p_pre_label p_pre_num p_post_label p_post_num p_dev_label p_dev_num p_local]; try assumption. cbn. apply (u32_value_bound _ vs n E).
  - (* Dev *) destruct (u32_value _ vs) as [n|] eqn:E; [|exact H]. destruct H as [H1 H2 H3 H4 H5 H6].
    constructor; cbn [q p_epoch p_release p_pre_label p_pre_num p_post_label p_post_num p_dev_label p_dev_num p_local]; try assumption. cbn. apply (u32_value_bound _ vs n E).
Qed.

Lemma build_step_inv vs a c : num_inv (q a) -> num_inv (q (pep_build_step vs a c)).
Proof. intros H. apply add_local_inv; [exact H|intros r; apply local_value_pre]. Qed.

Lemma fold_inv (step : pep_acc -> component -> pep_acc) : (forall a c, num_inv (q a) -> num_inv (q (step a c))) ->
  forall cs a, num_inv (q a) -> num_inv (q (fold_left step cs a)).
Proof. intros Hs. induction cs as [|c cs IH]; intros a H; [exact H|]. cbn. apply IH, Hs, H. Qed.

Theorem pep_of_zerv_nf z p : pep_of_zerv z = Some p -> pep_nf p.
Proof.
  intros Hz. pose proof (pep_of_zerv_wf z p Hz) as W. revert Hz. unfold pep_of_zerv.
  set (a1 := fold_left (pep_core_step (z_vars z)) (s_core (z_schema z)) {| q := pep_empty; q_panic := false |}).
  assert (I1 : num_inv (q a1)).
  { apply fold_inv; [apply core_step_inv|]. constructor; cbn; [unfold u32; lia|constructor|reflexivity|reflexivity|reflexivity|exact I]. }
  set (a1' := match p_release (q a1) with [] => _ | _ => a1 end).
  assert (I1' : num_inv (q a1')).
  { unfold a1'. destruct (p_release (q a1)) eqn:E; [|exact I1]. destruct I1 as [H1 H2 H3 H4 H5 H6].
    constructor; cbn [q p_epoch p_release p_pre_label p_pre_num p_post_label p_post_num p_dev_label p_dev_num p_local]; try assumption.
    constructor; [unfold u32; lia|constructor]. }
  set (a2 := fold_left (pep_extra_step (z_vars z)) (s_extra (z_schema z)) a1').
  assert (I2 : num_inv (q a2)) by (apply fold_inv; [apply extra_step_inv|exact I1']).
  set (a3 := fold_left (pep_build_step (z_vars z)) (s_build (z_schema z)) a2).
  assert (I3 : num_inv (q a3)) by (apply fold_inv; [apply build_step_inv|exact I2]).
  destruct (q_panic a3); [discriminate|]. intros H. inversion H; subst p. clear H.
  destruct I3 as [H1 H2 H3 H4 H5 H6]. destruct W as [Wr _ _ _ _].
  constructor; cbn [pep_normalize p_epoch p_release p_pre_label p_pre_num p_post_label p_post_num p_dev_label p_dev_num p_local] in *.
  - exact H1.
  - split; [exact Wr|exact H2].
  - destruct (p_pre_label (q a3)); [|exact H3]. destruct (p_pre_num (q a3)) as [n|]; [exists n; split; [reflexivity|exact H3]|exists 0; split; [reflexivity|unfold u32; lia]].
  - destruct (p_post_label (q a3)); [|exact H4]. destruct (p_post_num (q a3)) as [n|]; [exists n; split; [reflexivity|exact H4]|exists 0; split; [reflexivity|unfold u32; lia]].
  - destruct (p_dev_label (q a3)); [|exact H5]. destruct (p_dev_num (q a3)) as [n|]; [exists n; split; [reflexivity|exact H5]|exists 0; split; [reflexivity|unfold u32; lia]].
  - destruct (p_local (q a3)) as [l|]; [|exact I]. cbn [option_map]. destruct H6 as [Hne Hl]. split; [destruct l; [congruence|discriminate]|].
    apply Forall_map. exact Hl.
Qed.

(* zerv's own PEP 440 parser on every PEP 440 string zerv prints: accepted, and the value printed comes back *)
Theorem pep_parse_back_all z p : pep_of_zerv z = Some p -> pep_parse (pep_print p) = Some p.
Proof. intros H. apply pep_parse_print, (pep_of_zerv_nf z p H). Qed.

(* every PEP 440 rendering is a fixed point of PEP 440 -> Zerv -> PEP 440 *)
Theorem pep_rendering_fixed_point z p : pep_of_zerv z = Some p -> pep_of_zerv (zerv_of_pep p) = Some p.
Proof. intros H. apply pep_roundtrip, (pep_of_zerv_nf z p H). Qed.

Print Assumptions pep_parse_back_all.
