(* C12: every string value survives emission and reading: the reader of RON string literals (Model/RonRead.v, ron's parse_escape as a state machine)
   applied to the literal the writer prints (Model/Ron.v ron_string = char::escape_debug per character) returns the string, for EVERY string of
   Unicode scalar values - quotes, backslashes, control characters, the \u{...} escapes of non-printable characters included. *)
From Coq Require Import Lia Bool.
From ZV Require Import Str Ron RonRead.
Open Scope N_scope.

Definition hexc (d : N) : N := if d <? 10 then 48 + d else 87 + d.

Lemma hexv_hexc d : d < 16 -> hexv (hexc d) = Some d /\ (hexc d =? 125) = false.
Proof.
  intros H. unfold hexc, hexv. destruct (d <? 10) eqn:E.
  - apply N.ltb_lt in E. assert (A : (48 <=? 48 + d) = true) by (apply N.leb_le; lia). assert (B : (48 + d <=? 57) = true) by (apply N.leb_le; lia).
    rewrite A, B. cbn [andb]. split; [f_equal; lia|apply N.eqb_neq; lia].
  - apply N.ltb_ge in E. assert (A : (48 + d <=? 57) && true = (48 + d <=? 57)) by apply andb_true_r.
    assert (B : (87 + d <=? 57) = false) by (apply N.leb_gt; lia). rewrite B, andb_false_r.
    assert (C : (97 <=? 87 + d) = true) by (apply N.leb_le; lia). assert (Dd : (87 + d <=? 102) = true) by (apply N.leb_le; lia).
    rewrite C, Dd. cbn [andb]. split; [f_equal; lia|apply N.eqb_neq; lia].
Qed.

(* number of digits hex_of prints *)
Fixpoint ndig (f : nat) (n : N) : nat := match f with O => O | S f' => if n / 16 =? 0 then 1%nat else S (ndig f' (n / 16)) end.

Lemma hex_of_app f : forall n acc x, hex_of f n acc ++ x = hex_of f n (acc ++ x).
Proof. induction f as [|f IH]; intros n acc x; [reflexivity|]. cbn [hex_of]. destruct (n / 16 =? 0); [reflexivity|]. rewrite IH. reflexivity. Qed.

Lemma ndig_bound f : forall m n, (1 <= m)%nat -> n < 16 ^ N.of_nat m -> (ndig f n <= m)%nat.
Proof.
  induction f as [|f IH]; intros m n Hm Hn; [cbn; lia|]. cbn [ndig]. destruct (n / 16 =? 0) eqn:E; [exact Hm|].
  apply N.eqb_neq in E. destruct m as [|m]; [lia|]. rewrite Nat2N.inj_succ, N.pow_succ_r' in Hn.
  destruct m as [|m].
  - exfalso. change (16 ^ N.of_nat 0) with 1 in Hn. apply E. apply N.div_small. lia.
  - assert (H : (ndig f (n / 16) <= S m)%nat); [|lia]. apply IH; [lia|]. apply N.div_lt_upper_bound; lia.
Qed.

Lemma hex_run f : forall n acc out, n < 16 ^ N.of_nat f -> (ndig f n <= 6)%nat ->
  ron_run (hex_of f n acc) (RUHex 0 0) out = ron_run acc (RUHex n (ndig f n)) out.
Proof.
  induction f as [|f IH]; intros n acc out Hn Hd.
  - change (16 ^ N.of_nat 0) with 1 in Hn. assert (n = 0) by lia. subst. reflexivity.
  - cbn [hex_of ndig] in *.
    assert (Hm : n mod 16 < 16) by (apply N.mod_lt; lia). destruct (hexv_hexc _ Hm) as [Hv Hc]. unfold hexc in Hv, Hc.
    rewrite Nat2N.inj_succ, N.pow_succ_r' in Hn.
    destruct (n / 16 =? 0) eqn:E.
    + apply N.eqb_eq in E. cbn [ron_run]. change (Nat.ltb 0 6) with true. cbv iota. rewrite Hc, Hv.
      assert (En : 16 * 0 + n mod 16 = n). { rewrite (N.div_mod n 16) at 2 by lia. rewrite E. lia. } rewrite En. reflexivity.
    + assert (Hq : n / 16 < 16 ^ N.of_nat f) by (apply N.div_lt_upper_bound; lia).
      rewrite (IH (n / 16) _ out Hq) by lia.
      cbn [ron_run]. assert (L : Nat.ltb (ndig f (n / 16)) 6 = true) by (apply Nat.ltb_lt; lia). rewrite L, Hc, Hv.
      assert (En : 16 * (n / 16) + n mod 16 = n) by (symmetry; apply N.div_mod; lia). rewrite En. reflexivity.
Qed.

Lemma hex_run_app f n acc x out : n < 16 ^ N.of_nat f -> (ndig f n <= 6)%nat ->
  ron_run (hex_of f n acc ++ x) (RUHex 0 0) out = ron_run (acc ++ x) (RUHex n (ndig f n)) out.
Proof. intros Hn Hd. rewrite hex_of_app. apply hex_run; assumption. Qed.

Lemma ndig_pos f n : (1 <= ndig (S f) n)%nat.
Proof. cbn [ndig]. destruct (n / 16 =? 0); lia. Qed.

Lemma close_run v k rest out : (1 <= k <= 6)%nat -> is_scalar v = true -> ron_run (125 :: rest) (RUHex v k) out = ron_run rest RNormal (out ++ [v]).
Proof.
  intros Hk Hs. cbn [ron_run]. change (125 =? 125) with true. rewrite Hs. destruct (Nat.ltb k 6); [|reflexivity]. destruct k; [lia|reflexivity].
Qed.

Lemma scalar_bound v : is_scalar v = true -> v < 16 ^ N.of_nat 6.
Proof.
  unfold is_scalar. change (16 ^ N.of_nat 6) with 16777216. intros H. apply orb_true_iff in H. destruct H as [H|H].
  - apply N.ltb_lt in H. lia.
  - apply andb_true_iff in H. destruct H as [_ H]. apply N.ltb_lt in H. lia.
Qed.

(* one character: what escape_debug prints is read back as that character *)
Lemma escape_run c rest out : is_scalar c = true -> ron_run (escape_char c ++ rest) RNormal out = ron_run rest RNormal (out ++ [c]).
Proof.
  intros Hs. unfold escape_char.
  destruct (c =? 34) eqn:E1; [apply N.eqb_eq in E1; subst; reflexivity|].
  destruct (c =? 92) eqn:E2; [apply N.eqb_eq in E2; subst; reflexivity|].
  destruct (c =? 39) eqn:E3; [apply N.eqb_eq in E3; subst; reflexivity|].
  destruct (c =? 10) eqn:E4; [apply N.eqb_eq in E4; subst; reflexivity|].
  destruct (c =? 13) eqn:E5; [apply N.eqb_eq in E5; subst; reflexivity|].
  destruct (c =? 9) eqn:E6; [apply N.eqb_eq in E6; subst; reflexivity|].
  destruct (c =? 0) eqn:E7; [apply N.eqb_eq in E7; subst; reflexivity|].
  match goal with |- context [if ?b then _ else _] => destruct b end.
  - assert (B6 : c < 16 ^ N.of_nat 6) by (apply scalar_bound, Hs).
    assert (B8 : c < 16 ^ N.of_nat 8). { change (16 ^ N.of_nat 8) with 4294967296. change (16 ^ N.of_nat 6) with 16777216 in B6. lia. }
    assert (Dn : (ndig 8 c <= 6)%nat) by (apply ndig_bound; [lia|exact B6]).
    rewrite <- !app_assoc.
    change (ron_run (hex_of 8 c [] ++ [125] ++ rest) (RUHex 0 0) out = ron_run rest RNormal (out ++ [c])).
    etransitivity; [apply (hex_run_app 8 c [] ([125] ++ rest) out B8 Dn)|].
    cbn [app]. apply close_run; [split; [apply ndig_pos|exact Dn]|exact Hs].
  - cbn [app ron_run]. rewrite E1, E2. reflexivity.
Qed.

Lemma body_run rest : forall s out, forallb is_scalar s = true -> ron_run (flat_map escape_char s ++ 34 :: rest) RNormal out = Some (out ++ s, rest).
Proof.
  induction s as [|c s IH]; intros out H.
  - cbn [flat_map app ron_run]. change (34 =? 34) with true. rewrite app_nil_r. reflexivity.
  - cbn [forallb] in H. apply andb_true_iff in H. destruct H as [Hc Hs]. cbn [flat_map]. rewrite <- app_assoc, (escape_run c _ out Hc), (IH _ Hs), <- app_assoc. reflexivity.
Qed.

(* THE ROUND TRIP of string values *)
Theorem ron_string_roundtrip s rest : forallb is_scalar s = true -> ron_read_string (ron_string s ++ rest) = Some (s, rest).
Proof.
  intros H. unfold ron_string, ron_read_string. rewrite <- !app_assoc.
  change (ron_run (flat_map escape_char s ++ 34 :: rest) RNormal [] = Some ([] ++ s, rest)). exact (body_run rest s [] H).
Qed.

Theorem ron_string_document_roundtrip s : forallb is_scalar s = true -> ron_string_document (ron_string s) = Some s.
Proof.
  intros H. unfold ron_string_document. assert (E : drop_ws (ron_string s) = ron_string s) by reflexivity. rewrite E.
  rewrite <- (app_nil_r (ron_string s)), (ron_string_roundtrip s [] H). reflexivity.
Qed.

(* hence the writer loses nothing: different strings have different literals *)
Theorem ron_string_injective s1 s2 : forallb is_scalar s1 = true -> forallb is_scalar s2 = true -> ron_string s1 = ron_string s2 -> s1 = s2.
Proof.
  intros H1 H2 E. pose proof (ron_string_document_roundtrip s1 H1) as A. rewrite E, (ron_string_document_roundtrip s2 H2) in A. congruence.
Qed.

Print Assumptions ron_string_roundtrip.
Print Assumptions ron_string_document_roundtrip.
Print Assumptions ron_string_injective.
