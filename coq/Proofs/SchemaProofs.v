(* C12: ZervSchema::validate accepts exactly the schemas that satisfy the placement rules *)
From Coq Require Import Lia Sorted.
From ZV Require Import Str StrFacts Zerv SchemaSpec ConvertProofs.
Open Scope N_scope.

Lemma var_eqb_true a b : var_eqb a b = true <-> a = b.
Proof.
  split.
  - destruct a, b; cbn; try discriminate; try reflexivity.
    + intros H. f_equal. revert name0 H. induction name as [|x n IH]; destruct name0 as [|y m]; cbn; try discriminate; [reflexivity|].
      intros H. apply andb_true_iff in H. destruct H as [H1 H2]. apply N.eqb_eq in H1. subst. f_equal. apply IH, H2.
    + intros H. f_equal. revert pattern0 H. induction pattern as [|x n IH]; destruct pattern0 as [|y m]; cbn; try discriminate; [reflexivity|].
      intros H. apply andb_true_iff in H. destruct H as [H1 H2]. apply N.eqb_eq in H1. subst. f_equal. apply IH, H2.
  - intros ->. destruct b; cbn; try reflexivity.
    + induction name as [|x n IH]; cbn; [reflexivity|]. rewrite N.eqb_refl. exact IH.
    + induction pattern as [|x n IH]; cbn; [reflexivity|]. rewrite N.eqb_refl. exact IH.
Qed.

(* ---- core ---- *)
Lemma core_ok_spec l : forall seen,
  core_ok l seen = true <->
  Forall (fun v => is_secondary v = false) (vars_of l) /\
  StronglySorted (fun a b => primary_index a < primary_index b) (filter is_primary (vars_of l)) /\
  Forall (fun p => Forall (fun s => primary_index s < primary_index p) seen) (filter is_primary (vars_of l)).
Proof.
  induction l as [|c l IH]; intros seen; cbn [core_ok vars_of flat_map].
  - cbn. split; [intros _; repeat split; constructor|reflexivity].
  - destruct c as [s|n|v]; cbn [app]; try apply IH.
    fold (vars_of l). cbn [filter].
    destruct (is_primary v) eqn:Ep.
    + assert (Es : is_secondary v = false) by (destruct v; try discriminate; reflexivity).
      destruct (existsb (var_eqb v) seen) eqn:Edup.
      * split; [discriminate|]. intros [_ [_ H]]. inversion H as [|? ? Hv _]; subst.
        apply existsb_exists in Edup. destruct Edup as [s [Hin Heq]]. apply var_eqb_true in Heq. subst s.
        rewrite Forall_forall in Hv. specialize (Hv v Hin). lia.
      * destruct (existsb (fun s => primary_index v <=? primary_index s) seen) eqn:Ele.
        -- split; [discriminate|]. intros [_ [_ H]]. inversion H as [|? ? Hv _]; subst.
           apply existsb_exists in Ele. destruct Ele as [s [Hin Hle]]. apply N.leb_le in Hle.
           rewrite Forall_forall in Hv. specialize (Hv s Hin). lia.
        -- rewrite IH. split.
           ++ intros [H1 [H2 H3]]. split; [constructor; assumption|]. split.
              ** constructor; [exact H2|]. revert H3. apply Forall_impl. intros p Hp. inversion Hp; assumption.
              ** constructor.
                 --- apply Forall_forall. intros s Hin. destruct (N.ltb_spec (primary_index s) (primary_index v)); [assumption|].
                     exfalso. assert (existsb (fun s => primary_index v <=? primary_index s) seen = true); [|congruence].
                     apply existsb_exists. exists s. split; [exact Hin|apply N.leb_le; assumption].
                 --- revert H3. apply Forall_impl. intros p Hp. inversion Hp; assumption.
           ++ intros [H1 [H2 H3]]. inversion H1; subst. inversion H2 as [|? ? Hs Hlt]; subst. inversion H3 as [|? ? Hv Hrest]; subst.
              split; [assumption|]. split; [assumption|].
              rewrite Forall_forall in *. intros p Hp. constructor; [apply Hlt, Hp|apply Hrest, Hp].
    + destruct (is_secondary v) eqn:Es.
      * split; [discriminate|]. intros [H _]. inversion H; congruence.
      * rewrite IH. split.
        -- intros [H1 H2]. split; [constructor; assumption|exact H2].
        -- intros [H1 H2]. inversion H1; subst. split; assumption.
Qed.

(* ---- extra_core ---- *)
Lemma extra_ok_spec l : forall seen,
  extra_ok l seen = true <->
  Forall (fun v => is_primary v = false) (vars_of l) /\
  NoDup (filter is_secondary (vars_of l)) /\
  Forall (fun p => ~ In p seen) (filter is_secondary (vars_of l)).
Proof.
  induction l as [|c l IH]; intros seen; cbn [extra_ok vars_of flat_map].
  - cbn. split; [intros _; repeat split; constructor|reflexivity].
  - destruct c as [s|n|v]; cbn [app]; try apply IH.
    fold (vars_of l). cbn [filter].
    destruct (is_secondary v) eqn:Es.
    + assert (Ep : is_primary v = false) by (destruct v; try discriminate; reflexivity).
      destruct (existsb (var_eqb v) seen) eqn:Edup.
      * split; [discriminate|]. intros [_ [_ H]]. inversion H as [|? ? Hv _]; subst.
        apply existsb_exists in Edup. destruct Edup as [s [Hin Heq]]. apply var_eqb_true in Heq. subst s. contradiction.
      * rewrite IH. split.
        -- intros [H1 [H2 H3]]. split; [constructor; assumption|]. split.
           ++ constructor; [|exact H2]. intros Hin. rewrite Forall_forall in H3. apply (H3 v Hin). left. reflexivity.
           ++ constructor.
              ** intros Hin. assert (existsb (var_eqb v) seen = true); [|congruence].
                 apply existsb_exists. exists v. split; [exact Hin|apply var_eqb_true; reflexivity].
              ** revert H3. apply Forall_impl. intros p Hp Hin. apply Hp. right. exact Hin.
        -- intros [H1 [H2 H3]]. inversion H1; subst. inversion H2 as [|? ? Hn Hnd]; subst. inversion H3 as [|? ? Hv Hrest]; subst.
           split; [assumption|]. split; [assumption|].
           rewrite Forall_forall in *. intros p Hp [Heq|Hin]; [subst; contradiction|apply (Hrest p Hp Hin)].
    + destruct (is_primary v) eqn:Ep.
      * split; [discriminate|]. intros [H _]. inversion H; congruence.
      * rewrite IH. split.
        -- intros [H1 H2]. split; [constructor; assumption|exact H2].
        -- intros [H1 H2]. inversion H1; subst. split; assumption.
Qed.

Lemma build_ok_spec l : build_ok l = true <-> Forall (fun v => is_primary v = false /\ is_secondary v = false) (vars_of l).
Proof.
  unfold build_ok. induction l as [|c l IH]; cbn [forallb vars_of flat_map]; [split; [constructor|reflexivity]|].
  fold (vars_of l). destruct c as [s|n|v]; cbn [app]; try (rewrite andb_true_l; exact IH).
  rewrite andb_true_iff, IH, andb_true_iff, !negb_true_iff. split.
  - intros [[H1 H2] H3]. constructor; [split; assumption|assumption].
  - intros H. inversion H; subst. tauto.
Qed.

Theorem validate_iff_placement s : schema_validate s = true <-> Placement s.
Proof.
  unfold schema_validate. rewrite !andb_true_iff, negb_true_iff, (core_ok_spec (s_core s) []), (extra_ok_spec (s_extra s) []), build_ok_spec.
  rewrite !forallb_Forall. split.
  - intros [[[[[[H0 H1] [H2 [H3 _]]] H4] [H5 [H6 _]]] H7] H8]. constructor; try assumption.
    + destruct (s_core s); [|left; discriminate]. destruct (s_extra s); [|right; left; discriminate]. destruct (s_build s); [discriminate|right; right; discriminate].
    + rewrite !Forall_app. tauto.
  - intros [P0 P1 P2 P3 P4 P5 P6]. rewrite !Forall_app in P1.
    assert (E : match s_core s, s_extra s, s_build s with [], [], [] => true | _, _, _ => false end = false).
    { destruct (s_core s); [|reflexivity]. destruct (s_extra s); [|reflexivity]. destruct (s_build s); [|reflexivity]. destruct P0 as [H|[H|H]]; congruence. }
    repeat split; try tauto.
    + apply Forall_forall. intros p _. constructor.
    + apply Forall_forall. intros p _ [].
Qed.

(* ---- every object the version pipeline can emit has a valid schema ---- *)
From ZV Require Import Bump Cli Flow.

Lemma set_part_valid s sec l s' : set_part s sec l = Some s' -> schema_validate s' = true.
Proof. unfold set_part. destruct sec; match goal with |- context [schema_validate ?x] => destruct (schema_validate x) eqn:E end; intros H; inversion H; subst; exact E. Qed.

Lemma process_component_valid sec ix ov bv z z' :
  schema_validate (z_schema z) = true -> process_component sec ix ov bv z = Some z' -> schema_validate (z_schema z') = true.
Proof.
  intros Hv. unfold process_component.
  destruct (nth_error (get_part (z_schema z) sec) ix) as [c|]; [|discriminate].
  destruct c as [cur|cur|v].
  - destruct (set_part _ _ _) eqn:E; [|discriminate]. intros H. inversion H; subst. cbn. eapply set_part_valid; eauto.
  - destruct (opt_u32 ov); [|discriminate]. destruct (opt_u32 bv); [|discriminate].
    match goal with |- context [match ?x with Some _ => _ | None => None end = Some z'] => destruct x end; [|discriminate].
    destruct (set_part _ _ _) eqn:E; [|discriminate]. intros H. inversion H; subst. cbn. eapply set_part_valid; eauto.
  - destruct v; try discriminate;
    match goal with |- context [process_var_field ?o ?v ?a ?b ?c] => destruct (process_var_field o v a b c) end;
    intros H; inversion H; subst; exact Hv.
Qed.

Lemma fold_specs_valid sec specs : forall z z',
  schema_validate (z_schema z) = true ->
  fold_left (fun acc sp => match acc with Some z0 => let '(ix, o, b) := sp in process_component sec ix o b z0 | None => None end) specs (Some z) = Some z' ->
  schema_validate (z_schema z') = true.
Proof.
  induction specs as [|[[ix o] b] specs IH]; intros z z' Hv; cbn [fold_left].
  - intros H. inversion H; subst. exact Hv.
  - destruct (process_component sec ix o b z) as [z1|] eqn:E.
    + intros H. eapply IH; [eapply process_component_valid; eauto|exact H].
    + intros H. exfalso. clear - H. induction specs as [|[[i2 o2] b2] specs IH]; cbn in H; [discriminate|auto].
Qed.

Lemma process_level_valid a z p z' :
  schema_validate (z_schema z) = true -> process_level a z p = Some z' -> schema_validate (z_schema z') = true.
Proof.
  intros Hv. unfold process_level, with_vars, process_section.
  destruct p;
  try (match goal with |- context [match ?x with Some vs => Some _ | None => None end] => destruct x end; intros H; inversion H; subst; exact Hv);
  (destruct (parse_specs _ _ _) as [specs|]; [|discriminate]; intros H; eapply fold_specs_valid; eauto).
Qed.

Theorem apply_processing_valid a z z' :
  schema_validate (z_schema z) = true -> apply_component_processing a z = Some z' -> schema_validate (z_schema z') = true.
Proof.
  unfold apply_component_processing. generalize (prec_order (z_schema z)). intros order. revert z.
  induction order as [|p order IH]; intros z Hv; cbn [fold_left].
  - intros H. inversion H; subst. exact Hv.
  - destruct (process_level a z p) as [z1|] eqn:E.
    + intros H. eapply IH; [eapply process_level_valid; eauto|exact H].
    + intros H. exfalso. clear - H. induction order as [|q order IH]; cbn in H; [discriminate|auto].
Qed.

Lemma normalize_epoch_schema z : z_schema (normalize_epoch z) = z_schema z.
Proof. unfold normalize_epoch. destruct (v_epoch (z_vars z)) as [[|p]|]; reflexivity. Qed.

Lemma bump_timestamp_schema now z : z_schema (bump_timestamp now z) = z_schema z.
Proof. unfold bump_timestamp. destruct (v_dirty (z_vars z)) as [[|]|]; reflexivity. Qed.

Theorem to_zerv_with_valid a resolver vs0 existing now z :
  to_zerv_with a resolver vs0 existing now = OOk z -> schema_validate (z_schema z) = true.
Proof.
  unfold to_zerv_with. destruct (apply_context_overrides a vs0) as [vs| |]; try discriminate.
  destruct (resolve_schema a existing vs) as [s|]; [|discriminate].
  destruct (schema_validate s) eqn:Hv; [|discriminate].
  destruct (resolver _) as [ra|]; [|discriminate].
  destruct (apply_component_processing ra _) as [z'|] eqn:E; [|discriminate].
  intros H. inversion H; subst. rewrite normalize_epoch_schema, bump_timestamp_schema.
  eapply apply_processing_valid; [|exact E]. exact Hv.
Qed.

Theorem version_emits_valid a stdin now z : version_zerv a stdin now = OOk z -> schema_validate (z_schema z) = true.
Proof.
  unfold version_zerv. destruct (negb (validate_args a)); [discriminate|].
  assert (T : forall vs0 ex, to_zerv a vs0 ex now = to_zerv_with a (fun _ => resolve_args a) vs0 ex now) by reflexivity.
  destruct (match g_source a with Some s => s | None => _ end); try discriminate.
  - rewrite T. apply to_zerv_with_valid.
  - destruct stdin as [[z0|]|]; try discriminate. rewrite T. apply to_zerv_with_valid.
Qed.

Theorem flow_emits_valid f stdin now z : flow_zerv f stdin now = OOk z -> schema_validate (z_schema z) = true.
Proof.
  unfold flow_zerv. destruct (run_pass _ _ stdin now) as [cur| |]; try discriminate.
  destruct (negb (flow_validate f)); [discriminate|].
  destruct (resolve_for_branch _ _) as [[rl rn] rm].
  match goal with |- run_pass ?a2 ?r stdin now = OOk z -> _ => generalize a2, r end. intros a2 r.
  unfold run_pass. destruct (negb (validate_args a2)); [discriminate|].
  destruct (match g_source a2 with Some s => s | None => _ end); try discriminate.
  - apply to_zerv_with_valid.
  - destruct stdin as [[z0|]|]; try discriminate. apply to_zerv_with_valid.
Qed.
