(* A small theory of "good" three-way comparisons and their lexicographic combinations. *)
From Coq Require Import Lia.
From ZV Require Import Str.

Record good_cmp {A} (cmp : A -> A -> comparison) : Prop := {
  gc_eq : forall x y, cmp x y = Eq <-> x = y;
  gc_opp : forall x y, cmp y x = CompOpp (cmp x y);
  gc_trans : forall x y z, cmp x y = Lt -> cmp y z = Lt -> cmp x z = Lt
}.

Lemma gc_refl {A} (cmp : A -> A -> comparison) : good_cmp cmp -> forall x, cmp x x = Eq.
Proof. intros G x. apply (gc_eq cmp G). reflexivity. Qed.

Lemma gc_gt {A} (cmp : A -> A -> comparison) : good_cmp cmp -> forall x y, cmp x y = Gt <-> cmp y x = Lt.
Proof. intros G x y. rewrite (gc_opp cmp G x y). destruct (cmp x y); cbn; intuition congruence. Qed.

Lemma N_good : good_cmp N.compare.
Proof.
  constructor.
  - intros x y. apply N.compare_eq_iff.
  - intros x y. apply N.compare_antisym.
  - intros x y z. rewrite !N.compare_lt_iff. lia.
Qed.

Definition then_with' (c d : comparison) : comparison := match c with Eq => d | _ => c end.

(* lexicographic comparison of lists, shorter prefix lower *)
Section Lex.
Context {A} (cmp : A -> A -> comparison) (G : good_cmp cmp).
Fixpoint lex (l r : list A) : comparison :=
  match l, r with
  | [], [] => Eq
  | [], _ :: _ => Lt
  | _ :: _, [] => Gt
  | x :: l', y :: r' => match cmp x y with Eq => lex l' r' | c => c end
  end.

Lemma lex_good : good_cmp lex.
Proof.
  constructor.
  - induction x as [|a x IH]; destruct y as [|b y]; cbn; try (intuition congruence).
    destruct (cmp a b) eqn:E.
    + apply (gc_eq cmp G) in E. subst b. rewrite IH. intuition congruence.
    + split; [discriminate|]. intros H. inversion H; subst. rewrite (gc_refl cmp G) in E. discriminate.
    + split; [discriminate|]. intros H. inversion H; subst. rewrite (gc_refl cmp G) in E. discriminate.
  - induction x as [|a x IH]; destruct y as [|b y]; cbn; try reflexivity.
    rewrite (gc_opp cmp G a b). destruct (cmp a b); cbn; [apply IH|reflexivity|reflexivity].
  - induction x as [|a x IH]; destruct y as [|b y]; destruct z as [|c z]; cbn; try congruence.
    destruct (cmp a b) eqn:E1; destruct (cmp b c) eqn:E2; try congruence.
    + apply (gc_eq cmp G) in E1, E2. subst. rewrite (gc_refl cmp G). apply IH.
    + apply (gc_eq cmp G) in E1. subst. rewrite E2. reflexivity.
    + apply (gc_eq cmp G) in E2. subst. rewrite E1. reflexivity.
    + rewrite (gc_trans cmp G a b c E1 E2). reflexivity.
Qed.
End Lex.

(* product: first component, then second *)
Section Pair.
Context {A B} (ca : A -> A -> comparison) (cb : B -> B -> comparison) (Ga : good_cmp ca) (Gb : good_cmp cb).
Definition pair_cmp (x y : A * B) : comparison := then_with' (ca (fst x) (fst y)) (cb (snd x) (snd y)).
Lemma pair_good : good_cmp pair_cmp.
Proof.
  constructor.
  - intros [a b] [a' b']. unfold pair_cmp. cbn. destruct (ca a a') eqn:E; cbn.
    + apply (gc_eq ca Ga) in E. subst. rewrite (gc_eq cb Gb). intuition congruence.
    + split; [discriminate|]. intros H. inversion H; subst. rewrite (gc_refl ca Ga) in E. discriminate.
    + split; [discriminate|]. intros H. inversion H; subst. rewrite (gc_refl ca Ga) in E. discriminate.
  - intros [a b] [a' b']. unfold pair_cmp. cbn. rewrite (gc_opp ca Ga a a'). destruct (ca a a'); cbn; [apply (gc_opp cb Gb)|reflexivity|reflexivity].
  - intros [a b] [a' b'] [a'' b'']. unfold pair_cmp. cbn.
    destruct (ca a a') eqn:E1; destruct (ca a' a'') eqn:E2; cbn; try congruence.
    + apply (gc_eq ca Ga) in E1, E2. subst. rewrite (gc_refl ca Ga). cbn. apply (gc_trans cb Gb).
    + apply (gc_eq ca Ga) in E1. subst. rewrite E2. reflexivity.
    + apply (gc_eq ca Ga) in E2. subst. rewrite E1. reflexivity.
    + rewrite (gc_trans ca Ga _ _ _ E1 E2). reflexivity.
Qed.
End Pair.

(* option with None lowest / highest *)
Section Opt.
Context {A} (cmp : A -> A -> comparison) (G : good_cmp cmp).
Definition opt_low (x y : option A) : comparison :=
  match x, y with None, None => Eq | None, Some _ => Lt | Some _, None => Gt | Some a, Some b => cmp a b end.
Definition opt_high (x y : option A) : comparison :=
  match x, y with None, None => Eq | None, Some _ => Gt | Some _, None => Lt | Some a, Some b => cmp a b end.
Lemma opt_low_good : good_cmp opt_low.
Proof.
  constructor.
  - intros [a|] [b|]; cbn; try (intuition congruence). rewrite (gc_eq cmp G). intuition congruence.
  - intros [a|] [b|]; cbn; try reflexivity. apply (gc_opp cmp G).
  - intros [a|] [b|] [c|]; cbn; try congruence. apply (gc_trans cmp G).
Qed.
Lemma opt_high_good : good_cmp opt_high.
Proof.
  constructor.
  - intros [a|] [b|]; cbn; try (intuition congruence). rewrite (gc_eq cmp G). intuition congruence.
  - intros [a|] [b|]; cbn; try reflexivity. apply (gc_opp cmp G).
  - intros [a|] [b|] [c|]; cbn; try congruence. apply (gc_trans cmp G).
Qed.
End Opt.

(* comparison through an injection-like key *)
Lemma key_good {A K} (key : A -> K) (ck : K -> K -> comparison) : good_cmp ck ->
  (forall x y, ck (key x) (key y) = Eq <-> key x = key y) /\
  (forall x y, ck (key y) (key x) = CompOpp (ck (key x) (key y))) /\
  (forall x y z, ck (key x) (key y) = Lt -> ck (key y) (key z) = Lt -> ck (key x) (key z) = Lt).
Proof. intros G. repeat split; intros; try apply (gc_eq ck G); try apply (gc_opp ck G); try assumption.
  eapply (gc_trans ck G); eassumption. Qed.

(* consequences used for "the greatest tag is well defined" *)
Lemma good_trans_le {A} (cmp : A -> A -> comparison) : good_cmp cmp ->
  forall x y z, cmp x y <> Gt -> cmp y z <> Gt -> cmp x z <> Gt.
Proof.
  intros G x y z H1 H2 H3. apply (gc_gt cmp G) in H3.
  destruct (cmp x y) eqn:E1; [|clear H1|congruence].
  - apply (gc_eq cmp G) in E1. subst y. apply H2. apply (gc_gt cmp G). exact H3.
  - destruct (cmp y z) eqn:E2; [| |congruence].
    + apply (gc_eq cmp G) in E2. subst z. rewrite (gc_opp cmp G x y), E1 in H3. discriminate.
    + pose proof (gc_trans cmp G _ _ _ E2 H3) as H4. rewrite (gc_opp cmp G x y), E1 in H4. discriminate.
Qed.
