(* C01 / C09: every PEP 440 value PEP440::from(Zerv) produces is printable in normal form: non-empty release, every label with its
   number, local segments numbers or non-empty ASCII-alphanumeric strings. *)
From Coq Require Import Lia.
From ZV Require Import Str Dec Sanitize SanitizeSpec StrFacts DecFacts SanitizeProofs Zerv Render Pep440 NoPanicProofs IdentProofs.
Open Scope N_scope.

Definition lseg_wf (g : lseg) : Prop := match g with LUInt _ => True | LStr s => good s end.
Definition local_wf (o : option (list lseg)) : Prop := match o with Some l => l <> [] /\ Forall lseg_wf l | None => True end.

Lemma local_seg_wf g x : good g -> local_seg g = Some x -> lseg_wf x.
Proof.
  intros G. unfold local_seg. destruct (parse_u32 g); [intros H; inversion H; exact I|].
  destruct (existsb _ _); [discriminate|]. intros H. inversion H. cbn. exact (single_good true g G).
Qed.

Lemma all_some_Forall {A B} (f : A -> option B) (P : B -> Prop) l r :
  (forall x y, In x l -> f x = Some y -> P y) -> all_some (map f l) = Some r -> Forall P r.
Proof.
  revert r. induction l as [|x l IH]; intros r H E; cbn in E; [inversion E; constructor|].
  destruct (f x) as [y|] eqn:Fx; [|discriminate]. destruct (all_some (map f l)) as [ys|] eqn:Ey; [|discriminate]. inversion E; subst.
  constructor; [apply (H x y (or_introl eq_refl) Fx)|]. apply IH; [intros a b Ha; apply H; right; exact Ha|reflexivity].
Qed.

Lemma flatten_local_wf y r : flatten_local (sanitize pep440_local_str y) = Some r -> Forall lseg_wf r.
Proof.
  unfold flatten_local. intros E. eapply all_some_Forall; [|exact E].
  intros g x Hin Hx. apply (local_seg_wf g x); [|exact Hx].
  pose proof (contract_holds c_dot dot_not_alnum true false None y) as C.
  change (sanitize_to_string (custom_str (Some [c_dot]) true false None) y) with (sanitize pep440_local_str y) in C.
  destruct C as [[segs [Es [Hgood _]]] _]. rewrite Es in Hin. apply filter_In in Hin. destruct Hin as [Hin Hne].
  destruct segs as [|s0 segs'].
  - cbn in Hin. destruct Hin as [<-|[]]. discriminate.
  - rewrite split_join in Hin; [|discriminate|apply (good_cfree c_dot dot_not_alnum), Hgood].
    rewrite Forall_forall in Hgood. destruct (Hgood g Hin) as [H1 H2]. split; assumption.
Qed.

Lemma local_value_wf c vs r : local_value c vs = Some r -> Forall lseg_wf r.
Proof.
  unfold local_value. destruct (comp_value c vs pep440_local_str) as [x|] eqn:E; [|intros H; inversion H; constructor].
  destruct (nonempty x); [|intros H; inversion H; constructor].
  destruct (comp_value_sanitized _ _ _ _ E) as [y ->]. apply flatten_local_wf.
Qed.

Lemma push_local_wf o l : local_wf o -> Forall lseg_wf l -> local_wf (push_local o l).
Proof.
  intros Ho Hl. unfold push_local. destruct l as [|g l]; [exact Ho|]. destruct o as [x|]; cbn.
  - destruct Ho as [_ Hx]. split; [destruct x; discriminate|apply Forall_app; split; assumption].
  - split; [discriminate|exact Hl].
Qed.

Lemma add_local_wf a l : local_wf (p_local (q a)) -> (forall r, l = Some r -> Forall lseg_wf r) -> local_wf (p_local (q (pep_add_local a l))).
Proof. intros H Hl. unfold pep_add_local. destruct l as [r|]; [|exact H]. cbn. apply push_local_wf; [exact H|apply Hl; reflexivity]. Qed.

Lemma core_step_wf vs a c : local_wf (p_local (q a)) -> local_wf (p_local (q (pep_core_step vs a c))).
Proof. intros H. unfold pep_core_step. destruct (u32_value c vs); [exact H|]. apply add_local_wf; [exact H|intros r; apply local_value_wf]. Qed.

Lemma extra_step_wf vs a c : local_wf (p_local (q a)) -> local_wf (p_local (q (pep_extra_step vs a c))).
Proof.
  intros H. unfold pep_extra_step. destruct c as [s|n|v]; try (apply add_local_wf; [exact H|intros r; apply local_value_wf]).
  destruct v; try (apply add_local_wf; [exact H|intros r; apply local_value_wf]).
  - destruct (u32_value _ vs); exact H.
  - destruct (var_expanded PreRelease vs pep440_local_str) as [|e0 rest]; [exact H|]. destruct (nonempty e0); exact H.
  - destruct (u32_value _ vs); exact H.
  - destruct (u32_value _ vs); exact H.
Qed.

Lemma build_step_wf vs a c : local_wf (p_local (q a)) -> local_wf (p_local (q (pep_build_step vs a c))).
Proof. intros H. apply add_local_wf; [exact H|intros r; apply local_value_wf]. Qed.

Lemma fold_wf (step : pep_acc -> component -> pep_acc) : (forall a c, local_wf (p_local (q a)) -> local_wf (p_local (q (step a c)))) ->
  forall cs a, local_wf (p_local (q a)) -> local_wf (p_local (q (fold_left step cs a))).
Proof. intros Hs. induction cs as [|c cs IH]; intros a H; [exact H|]. cbn. apply IH, Hs, H. Qed.

(* the release part only grows *)
Lemma extra_step_release vs a c : p_release (q (pep_extra_step vs a c)) = p_release (q a).
Proof.
  unfold pep_extra_step, pep_add_local. destruct c as [s|n|v]; try (destruct (local_value _ vs); reflexivity).
  destruct v; try (destruct (local_value _ vs); reflexivity).
  - destruct (u32_value _ vs); reflexivity.
  - destruct (var_expanded PreRelease vs pep440_local_str) as [|e0 rest]; [reflexivity|]. destruct (nonempty e0); reflexivity.
  - destruct (u32_value _ vs); reflexivity.
  - destruct (u32_value _ vs); reflexivity.
Qed.
Lemma build_step_release vs a c : p_release (q (pep_build_step vs a c)) = p_release (q a).
Proof. unfold pep_build_step, pep_add_local. destruct (local_value c vs); reflexivity. Qed.
Lemma fold_release (step : pep_acc -> component -> pep_acc) : (forall a c, p_release (q (step a c)) = p_release (q a)) ->
  forall cs a, p_release (q (fold_left step cs a)) = p_release (q a).
Proof. intros Hs. induction cs as [|c cs IH]; intros a; [reflexivity|]. cbn. rewrite IH. apply Hs. Qed.

Lemma normalize_lseg_wf g : lseg_wf g -> lseg_wf (normalize_lseg g).
Proof.
  destruct g as [s|n]; [|trivial]. intros [Hne Hal]. cbn. destruct (parse_u32 (map ascii_lower s)); [exact I|]. cbn. split.
  - destruct s; [congruence|discriminate].
  - exact (lowered_alnum true s Hal).
Qed.

Record pep_wf (p : pep) : Prop := {
  pw_release : p_release p <> [];
  pw_pre : p_pre_label p <> None -> p_pre_num p <> None;
  pw_post : p_post_label p = true -> p_post_num p <> None;
  pw_dev : p_dev_label p = true -> p_dev_num p <> None;
  pw_local : local_wf (p_local p)
}.

Theorem pep_of_zerv_wf z p : pep_of_zerv z = Some p -> pep_wf p.
Proof.
  unfold pep_of_zerv.
  set (a1 := fold_left (pep_core_step (z_vars z)) (s_core (z_schema z)) {| q := pep_empty; q_panic := false |}).
  assert (W1 : local_wf (p_local (q a1))) by (apply fold_wf; [apply core_step_wf|exact I]).
  set (a1' := match p_release (q a1) with [] => _ | _ => a1 end).
  assert (W1' : local_wf (p_local (q a1')) /\ p_release (q a1') <> []).
  { unfold a1'. destruct (p_release (q a1)) eqn:E; [split; [exact W1|discriminate]|split; [exact W1|rewrite E; discriminate]]. }
  destruct W1' as [W1' R1].
  set (a2 := fold_left (pep_extra_step (z_vars z)) (s_extra (z_schema z)) a1').
  assert (W2 : local_wf (p_local (q a2))) by (apply fold_wf; [apply extra_step_wf|exact W1']).
  assert (R2 : p_release (q a2) = p_release (q a1')) by (apply fold_release, extra_step_release).
  set (a3 := fold_left (pep_build_step (z_vars z)) (s_build (z_schema z)) a2).
  assert (W3 : local_wf (p_local (q a3))) by (apply fold_wf; [apply build_step_wf|exact W2]).
  assert (R3 : p_release (q a3) = p_release (q a2)) by (apply fold_release, build_step_release).
  destruct (q_panic a3); [discriminate|]. intros H. inversion H; subst p. clear H.
  constructor; cbn [pep_normalize p_release p_pre_label p_pre_num p_post_label p_post_num p_dev_label p_dev_num p_local].
  - rewrite R3, R2. exact R1.
  - destruct (p_pre_label (q a3)); [destruct (p_pre_num (q a3)); discriminate|congruence].
  - intros E. rewrite E. destruct (p_post_num (q a3)); discriminate.
  - intros E. rewrite E. destruct (p_dev_num (q a3)); discriminate.
  - destruct (p_local (q a3)) as [l|]; [|exact I]. cbn. destruct W3 as [Hne Hl]. split; [destruct l; [congruence|discriminate]|].
    apply Forall_forall. intros g Hg. apply in_map_iff in Hg. destruct Hg as [g0 [<- Hg0]]. apply normalize_lseg_wf.
    rewrite Forall_forall in Hl. apply Hl, Hg0.
Qed.
