(* C05: frame properties of the bump engine - an operation at a level changes that level and lower levels only *)
From Coq Require Import Lia.
From ZV Require Import Str Zerv Bump.

(* what a level "is" in the variables *)
Inductive lvlval := LNum (o : option N) | LLabel (o : option label) | LPreNum (o : option (option N)) | LNone.

Definition obs (p : prec) (vs : vars) : lvlval :=
  match p with
  | PEpoch => LNum (v_epoch vs) | PMajor => LNum (v_major vs) | PMinor => LNum (v_minor vs) | PPatch => LNum (v_patch vs)
  | PPreLabel => LLabel (omap pr_label (v_pre vs))
  | PPreNum => LPreNum (omap pr_num (v_pre vs))
  | PPost => LNum (v_post vs) | PDev => LNum (v_dev vs)
  | PCore | PExtraCore | PBuild => LNone
  end.

Lemma prec_eqb_eq a b : prec_eqb a b = true <-> a = b.
Proof. destruct a, b; cbn; split; intros H; try reflexivity; try discriminate. Qed.

(* resetting level p leaves every other level alone - except that clearing the pre-release label also clears its number *)
Lemma reset_level_frame vs p q : q <> p -> ~ (p = PPreLabel /\ q = PPreNum) -> obs q (reset_level vs p) = obs q vs.
Proof.
  intros Hne Hx. destruct p, q; try congruence; cbn; try reflexivity;
  try (destruct (v_pre vs); reflexivity);
  try (exfalso; apply Hx; split; reflexivity);
  try (destruct (v_pre vs) eqn:E; cbn; rewrite ?E; reflexivity).
Qed.

Lemma fold_reset_frame later : forall vs q, ~ In q later -> (q = PPreNum -> ~ In PPreLabel later) ->
  obs q (fold_left reset_level later vs) = obs q vs.
Proof.
  induction later as [|p later IH]; intros vs q Hq Hl; cbn [fold_left]; [reflexivity|].
  rewrite IH.
  - apply reset_level_frame.
    + intros ->. apply Hq. left. reflexivity.
    + intros [-> ->]. apply (Hl eq_refl). left. reflexivity.
  - intros H. apply Hq. right. exact H.
  - intros E H. apply (Hl E). right. exact H.
Qed.

Theorem reset_lower_frame order vs p vs' later : reset_lower order vs p = Some vs' -> levels_after order p = Some later ->
  forall q, ~ In q later -> (q = PPreNum -> ~ In PPreLabel later) -> obs q vs' = obs q vs.
Proof.
  unfold reset_lower. intros H L q Hq Hl. rewrite L in H. inversion H; subst. apply fold_reset_frame; assumption.
Qed.

(* a numeric field operation at level lvl: every level other than lvl itself and the later ones is unchanged *)
Definition numeric_level (lvl : prec) (get : vars -> option N) (set : vars -> option N -> vars) : Prop :=
  (forall vs x q, q <> lvl -> obs q (set vs x) = obs q vs).

Lemma numeric_major : numeric_level PMajor v_major set_major.
Proof. intros vs x q H. destruct q; try congruence; reflexivity. Qed.
Lemma numeric_minor : numeric_level PMinor v_minor set_minor.
Proof. intros vs x q H. destruct q; try congruence; reflexivity. Qed.
Lemma numeric_patch : numeric_level PPatch v_patch set_patch.
Proof. intros vs x q H. destruct q; try congruence; reflexivity. Qed.
Lemma numeric_epoch : numeric_level PEpoch v_epoch set_epoch.
Proof. intros vs x q H. destruct q; try congruence; reflexivity. Qed.
Lemma numeric_post : numeric_level PPost v_post set_post.
Proof. intros vs x q H. destruct q; try congruence; reflexivity. Qed.
Lemma numeric_dev : numeric_level PDev v_dev set_dev.
Proof. intros vs x q H. destruct q; try congruence; reflexivity. Qed.

Theorem process_num_frame order get set lvl ov bv vs vs' later :
  numeric_level lvl get set ->
  process_num order get set lvl ov bv vs = Some vs' -> levels_after order lvl = Some later ->
  forall q, q <> lvl -> ~ In q later -> (q = PPreNum -> ~ In PPreLabel later) -> obs q vs' = obs q vs.
Proof.
  intros NL H L q Hne Hq Hl. unfold process_num in H.
  set (vs1 := match ov with Some x => set vs (Some x) | None => vs end) in *.
  assert (E1 : obs q vs1 = obs q vs) by (unfold vs1; destruct ov; [apply NL; exact Hne|reflexivity]).
  destruct bv as [inc|].
  - destruct (u64_add (n0 (get vs1)) inc) as [s|]; [|discriminate].
    rewrite (reset_lower_frame order _ lvl vs' later H L q Hq Hl). rewrite (NL vs1 (Some s) q Hne). exact E1.
  - inversion H; subst. exact E1.
Qed.

(* the default order has the label before its number, so the proviso disappears *)
Lemma levels_after_default p later : levels_after default_prec p = Some later -> ~ (In PPreLabel later /\ ~ In PPreNum later).
Proof.
  destruct p; cbn; intros H; inversion H; subst; cbn; intuition congruence.
Qed.

(* without a bump nothing but the level itself is touched *)
Theorem override_only_touches_its_level order get set lvl x vs vs' :
  numeric_level lvl get set -> process_num order get set lvl (Some x) None vs = Some vs' ->
  forall q, q <> lvl -> obs q vs' = obs q vs.
Proof. intros NL H q Hne. unfold process_num in H. inversion H; subst. apply NL. exact Hne. Qed.

(* a bump resets every later level: numbers to 0, pre-release / post / dev to absent *)
Lemma reset_level_effect vs p :
  match p with
  | PEpoch | PMajor | PMinor | PPatch => obs p (reset_level vs p) = LNum (Some 0)
  | PPreLabel => obs p (reset_level vs p) = LLabel None
  | PPost | PDev => obs p (reset_level vs p) = LNum None
  | PPreNum => obs p (reset_level vs p) = LPreNum (omap (fun _ => Some 0) (v_pre vs))
  | _ => True
  end.
Proof. destruct p; cbn; try reflexivity; try exact I. destruct (v_pre vs) eqn:E; cbn; rewrite ?E; reflexivity. Qed.
