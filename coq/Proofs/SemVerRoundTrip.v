(* C07: a version in zerv's canonical SemVer shape  X.Y.Z[-[epoch.E.][alpha|beta|rc.N.][post.P.][dev.D]][+ids]  converts to the
   expected Zerv object (schema extra-core = the secondary variables present, in that order; values in the variables) and renders
   back to exactly the same SemVer value: nothing dropped, reordered or replaced.  Numbers below 2^64. *)
From Coq Require Import Lia.
From ZV Require Import Str Dec Sanitize SanitizeSpec StrFacts DecFacts SanitizeProofs Zerv Render SemVer Pep440 Convert NoPanicProofs IdentProofs PepRoundTrip.
Open Scope N_scope.

Definition u64 (n : N) : Prop := n < 18446744073709551616.

Definition canon_pre (e : option N) (pl : option (label * N)) (po pd : option N) : list ident :=
  (match e with Some n => [IStr s_epoch; IUInt n] | None => [] end)
  ++ (match pl with Some (l, n) => [IStr (label_str l); IUInt n] | None => [] end)
  ++ (match po with Some n => [IStr s_post; IUInt n] | None => [] end)
  ++ (match pd with Some n => [IStr s_dev; IUInt n] | None => [] end).

Definition some_if_nonempty {A} (l : list A) : option (list A) := match l with [] => None | _ => Some l end.

Definition canon_semver a b c e pl po pd (bl : option (list ident)) : semver :=
  {| sv_major := a; sv_minor := b; sv_patch := c; sv_pre := some_if_nonempty (canon_pre e pl po pd); sv_build := bl |}.

Definition canon_extra (e : option N) (pl : option (label * N)) (po pd : option N) : list component :=
  (match e with Some _ => [CVar Epoch] | None => [] end) ++ (match pl with Some _ => [CVar PreRelease] | None => [] end)
  ++ (match po with Some _ => [CVar Post] | None => [] end) ++ (match pd with Some _ => [CVar Dev] | None => [] end).

Definition canon_zerv a b c e (pl : option (label * N)) po pd (bl : option (list ident)) : zerv :=
  {| z_schema := {| s_core := standard_core; s_extra := canon_extra e pl po pd;
                    s_build := match bl with Some l => map comp_of_ident l | None => [] end; s_prec := default_prec |};
     z_vars := {| v_major := Some a; v_minor := Some b; v_patch := Some c; v_epoch := e;
                  v_pre := match pl with Some (l, n) => Some {| pr_label := l; pr_num := Some n |} | None => None end;
                  v_post := po; v_dev := pd;
                  v_distance := None; v_dirty := None; v_bumped_branch := None; v_bumped_hash := None; v_bumped_ts := None;
                  v_last_branch := None; v_last_hash := None; v_last_ts := None; v_last_tag := None; v_custom := JNull |} |}.

(* ---- SemVer -> Zerv on the canonical shape: by evaluation of the PreReleaseProcessor state machine (numbers stay symbolic) ---- *)
Theorem canon_to_zerv a b c e pl po pd bl :
  zerv_of_semver (canon_semver a b c e pl po pd bl) = Some (canon_zerv a b c e pl po pd bl).
Proof.
  destruct e as [e|]; destruct pl as [[[| |] n]|]; destruct po as [p|]; destruct pd as [d|]; vm_compute; reflexivity.
Qed.

(* ---- Zerv -> SemVer on the canonical object ---- *)
Lemma parse_u64_print n : u64 n -> parse_u64 (print_dec n) = Some n.
Proof.
  intros H. unfold parse_u64, parse_uint_bits.
  pose proof (print_dec_all_digits n) as D. pose proof (print_dec_nonnil n) as Hn.
  destruct (print_dec n) as [|c t] eqn:E; [congruence|].
  assert (P : (c =? 43) = false).
  { cbn in D. apply andb_true_iff in D. destruct D as [D _]. unfold is_ascii_digit in D. apply andb_true_iff in D. destruct D as [D _]. apply N.leb_le in D. apply N.eqb_neq. lia. }
  rewrite P, <- E, parse_print. assert (L : (n <? 2 ^ 64) = true) by (apply N.ltb_lt; exact H). rewrite L. reflexivity.
Qed.

Lemma classify_print n : u64 n -> classify_u64 (print_dec n) = IUInt n.
Proof. intros H. unfold classify_u64. rewrite (parse_u64_print n H). reflexivity. Qed.

Lemma print_dec_nonempty n : nonempty (print_dec n) = true.
Proof. pose proof (print_dec_nonnil n). destruct (print_dec n); [congruence|reflexivity]. Qed.

Lemma semver_sanitize_digits n : sanitize semver_str (print_dec n) = print_dec n.
Proof. exact (sanitize_digits false n). Qed.

(* push_ids accumulates *)
Lemma push_ids_app o l1 l2 : push_ids (push_ids o l1) l2 = push_ids o (l1 ++ l2).
Proof.
  unfold push_ids. destruct l1 as [|x l1]; [reflexivity|]. destruct l2 as [|y l2]; [rewrite app_nil_r; reflexivity|].
  cbn [app]. destruct o as [z|]; [rewrite <- app_assoc|]; reflexivity.
Qed.

Lemma push_fold (f : component -> list ident) cs : forall o, fold_left (fun o c => push_ids o (f c)) cs o = push_ids o (flat_map f cs).
Proof.
  induction cs as [|c cs IH]; intros o; cbn [fold_left flat_map]; [destruct o; reflexivity|]. rewrite IH, push_ids_app. reflexivity.
Qed.

Lemma push_none l : push_ids None l = some_if_nonempty l.
Proof. destruct l; reflexivity. Qed.

(* one numeric secondary variable *)
Lemma key_epoch : sanitize key_sanitizer (key_of Epoch) = s_epoch. Proof. vm_compute. reflexivity. Qed.
Lemma key_post : sanitize key_sanitizer (key_of Post) = s_post. Proof. vm_compute. reflexivity. Qed.
Lemma key_dev : sanitize key_sanitizer (key_of Dev) = s_dev. Proof. vm_compute. reflexivity. Qed.
Lemma classify_s_epoch : classify_u64 s_epoch = IStr s_epoch. Proof. vm_compute. reflexivity. Qed.
Lemma classify_s_post : classify_u64 s_post = IStr s_post. Proof. vm_compute. reflexivity. Qed.
Lemma classify_s_dev : classify_u64 s_dev = IStr s_dev. Proof. vm_compute. reflexivity. Qed.

Lemma secondary_epoch vs n : v_epoch vs = Some n -> u64 n -> sv_secondary Epoch vs = [IStr s_epoch; IUInt n].
Proof.
  intros Hg Hn. unfold sv_secondary, var_expanded, var_value. rewrite Hg. cbn [omap app]. rewrite semver_sanitize_digits, key_epoch.
  cbn [filter]. rewrite print_dec_nonempty. change (nonempty s_epoch) with true. cbn [map]. rewrite (classify_print n Hn), classify_s_epoch. reflexivity.
Qed.
Lemma secondary_post vs n : v_post vs = Some n -> u64 n -> sv_secondary Post vs = [IStr s_post; IUInt n].
Proof.
  intros Hg Hn. unfold sv_secondary, var_expanded, var_value. rewrite Hg. cbn [omap app]. rewrite semver_sanitize_digits, key_post.
  cbn [filter]. rewrite print_dec_nonempty. change (nonempty s_post) with true. cbn [map]. rewrite (classify_print n Hn), classify_s_post. reflexivity.
Qed.
Lemma secondary_dev vs n : v_dev vs = Some n -> u64 n -> sv_secondary Dev vs = [IStr s_dev; IUInt n].
Proof.
  intros Hg Hn. unfold sv_secondary, var_expanded, var_value. rewrite Hg. cbn [omap app]. rewrite semver_sanitize_digits, key_dev.
  cbn [filter]. rewrite print_dec_nonempty. change (nonempty s_dev) with true. cbn [map]. rewrite (classify_print n Hn), classify_s_dev. reflexivity.
Qed.

Lemma key_label l : sanitize key_sanitizer (label_str l) = label_str l. Proof. destruct l; vm_compute; reflexivity. Qed.
Lemma classify_label l : classify_u64 (label_str l) = IStr (label_str l). Proof. destruct l; vm_compute; reflexivity. Qed.
Lemma nonempty_label l : nonempty (label_str l) = true. Proof. destruct l; reflexivity. Qed.

Lemma secondary_pre vs l n : v_pre vs = Some {| pr_label := l; pr_num := Some n |} -> u64 n ->
  sv_secondary PreRelease vs = [IStr (label_str l); IUInt n].
Proof.
  intros E Hn. unfold sv_secondary, var_expanded. rewrite E. cbn [pr_label]. unfold var_value. rewrite E. cbn [pr_num omap].
  rewrite semver_sanitize_digits, key_label. cbn [filter]. rewrite print_dec_nonempty, nonempty_label. cbn [map].
  rewrite (classify_print n Hn), classify_label. reflexivity.
Qed.

(* identifiers of the build part in normal form *)
Definition ident_nf (i : ident) : Prop :=
  match i with IUInt n => u64 n | IStr s => seg_wf s /\ parse_u64 s = None end.

Lemma seg_contract s : seg_wf s -> contract c_dot false false None s.
Proof.
  intros [Hne [Hal Hz]]. constructor; [|exact I]. exists [s]. split; [reflexivity|]. split; [constructor; [split; assumption|constructor]|].
  split; [intros _; constructor; [exact Hz|constructor]|discriminate].
Qed.

Lemma build_ids_ident i vs : ident_nf i -> sv_build_ids (comp_of_ident i) vs = [i].
Proof.
  destruct i as [s|n]; cbn [ident_nf comp_of_ident]; unfold sv_build_ids; cbn [comp_value].
  - intros [W P]. change (sanitize semver_str s) with (sanitize_to_string (custom_str (Some [c_dot]) false false None) s).
    rewrite (contract_fixed c_dot dot_not_alnum false false None s (seg_contract s W)).
    destruct W as [Hne [Hal _]]. destruct s as [|x s'] eqn:Es; [congruence|]. cbn [nonempty]. rewrite <- Es in *. unfold flatten_ids.
    rewrite (split_on_cfree c_dot s (alnum_cfree c_dot dot_not_alnum s Hal)). cbn [filter]. assert (Nn : nonempty s = true) by (rewrite Es; reflexivity).
    rewrite Nn. cbn [map]. unfold classify_u64. rewrite P. reflexivity.
  - intros H. rewrite semver_sanitize_digits, print_dec_nonempty. unfold flatten_ids.
    rewrite (split_on_cfree c_dot _ (alnum_cfree c_dot dot_not_alnum _ (proj2 (print_dec_good n)))). cbn [filter]. rewrite print_dec_nonempty. cbn [map].
    rewrite (classify_print n H). reflexivity.
Qed.

Lemma build_flat l vs : Forall ident_nf l -> flat_map (fun c => sv_build_ids c vs) (map comp_of_ident l) = l.
Proof. induction 1 as [|i l Hi Hl IH]; [reflexivity|]. cbn [map flat_map]. rewrite (build_ids_ident i vs Hi), IH. reflexivity. Qed.

Definition opt_u64 (o : option N) : Prop := match o with Some n => u64 n | None => True end.

Theorem canon_render a b c e pl po pd bl :
  u64 a -> u64 b -> u64 c -> opt_u64 e -> (match pl with Some (_, n) => u64 n | None => True end) -> opt_u64 po -> opt_u64 pd ->
  (match bl with Some l => l <> [] /\ Forall ident_nf l | None => True end) ->
  semver_of_zerv (canon_zerv a b c e pl po pd bl) = canon_semver a b c e pl po pd bl.
Proof.
  intros Ha Hb Hc He Hpl Hpo Hpd Hbl. unfold semver_of_zerv, canon_zerv, canon_semver. cbn [z_schema z_vars s_core s_extra s_build].
  set (vs := {| v_major := Some a; v_minor := Some b; v_patch := Some c; v_epoch := e;
                v_pre := match pl with Some (l, n) => Some {| pr_label := l; pr_num := Some n |} | None => None end; v_post := po; v_dev := pd;
                v_distance := None; v_dirty := None; v_bumped_branch := None; v_bumped_hash := None; v_bumped_ts := None;
                v_last_branch := None; v_last_hash := None; v_last_ts := None; v_last_tag := None; v_custom := JNull |}).
  (* core *)
  assert (Core : sv_process_core standard_core vs O {| a_major := 0; a_minor := 0; a_patch := 0; a_pre := None; a_build := None |}
                 = {| a_major := a; a_minor := b; a_patch := c; a_pre := None; a_build := None |}).
  { unfold standard_core. cbn [sv_process_core comp_value var_value vs v_major v_minor v_patch omap].
    rewrite !uint_sanitize_print, !print_dec_nonempty, (parse_u64_print a Ha), (parse_u64_print b Hb), (parse_u64_print c Hc). reflexivity. }
  rewrite Core. cbn [a_major a_minor a_patch a_pre a_build].
  rewrite !push_fold, !push_none. f_equal.
  - (* pre-release part *)
    f_equal. unfold canon_extra, canon_pre. rewrite !flat_map_app. f_equal; [|f_equal; [|f_equal]].
    + destruct e as [n|]; [|reflexivity]. cbn [flat_map sv_extra_ids is_secondary]. rewrite app_nil_r.
      apply (secondary_epoch vs n eq_refl He).
    + destruct pl as [[l n]|]; [|reflexivity]. cbn [flat_map sv_extra_ids is_secondary]. rewrite app_nil_r. apply (secondary_pre vs l n eq_refl Hpl).
    + destruct po as [n|]; [|reflexivity]. cbn [flat_map sv_extra_ids is_secondary]. rewrite app_nil_r.
      apply (secondary_post vs n eq_refl Hpo).
    + destruct pd as [n|]; [|reflexivity]. cbn [flat_map sv_extra_ids is_secondary]. rewrite app_nil_r.
      apply (secondary_dev vs n eq_refl Hpd).
  - (* build part *)
    destruct bl as [l|]; [|reflexivity]. destruct Hbl as [Hne Hl]. rewrite (build_flat l vs Hl). destruct l; [congruence|reflexivity].
Qed.

(* the round trip *)
Theorem semver_canonical_roundtrip a b c e pl po pd bl :
  u64 a -> u64 b -> u64 c -> opt_u64 e -> (match pl with Some (_, n) => u64 n | None => True end) -> opt_u64 po -> opt_u64 pd ->
  (match bl with Some l => l <> [] /\ Forall ident_nf l | None => True end) ->
  exists z, zerv_of_semver (canon_semver a b c e pl po pd bl) = Some z /\ semver_of_zerv z = canon_semver a b c e pl po pd bl.
Proof. intros. eexists. split; [apply canon_to_zerv|apply canon_render; assumption]. Qed.

(* ---- the same canonical object rendered as PEP 440:  [E!]X.Y.Z[{a|b|rc}N][.postP][.devD][+ids]  (numbers below 2^32) ---- *)
Definition lseg_of_ident (i : ident) : lseg := match i with IStr s => LStr s | IUInt n => LUInt n end.
Definition ident_pep_nf (i : ident) : Prop := lseg_nf (lseg_of_ident i).

Lemma comp_of_ident_lseg i : comp_of_ident i = comp_of_lseg (lseg_of_ident i).
Proof. destruct i; reflexivity. Qed.

Lemma extra_step_epoch_some vs n e0 r pl pn sl sn dl dn loc b : v_epoch vs = Some n -> u32 n ->
  pep_extra_step vs (mka (mkp e0 r pl pn sl sn dl dn loc) b) (CVar Epoch) = mka (mkp n r pl pn sl sn dl dn loc) b.
Proof.
  intros E H. unfold pep_extra_step.
  assert (O : opt_u32_ok (v_epoch vs)) by (rewrite E; exact H).
  rewrite (u32_value_var Epoch v_epoch vs numvar_epoch O), E. reflexivity.
Qed.

Definition canon_pep a b c (e : option N) (pl : option (label * N)) (po pd : option N) (bl : option (list ident)) : pep :=
  mkp (match e with Some n => n | None => 0 end) [a; b; c]
      (match pl with Some (l, _) => Some l | None => None end) (match pl with Some (_, n) => Some n | None => None end)
      (match po with Some _ => true | None => false end) po (match pd with Some _ => true | None => false end) pd
      (match bl with Some l => Some (map lseg_of_ident l) | None => None end).

Theorem canon_to_pep a b c e pl po pd bl :
  u32 a -> u32 b -> u32 c -> opt_u32_ok e -> (match pl with Some (_, n) => u32 n | None => True end) -> opt_u32_ok po -> opt_u32_ok pd ->
  (match bl with Some l => l <> [] /\ Forall ident_pep_nf l | None => True end) ->
  pep_of_zerv (canon_zerv a b c e pl po pd bl) = Some (canon_pep a b c e pl po pd bl).
Proof.
  intros Ha Hb Hc He Hpl Hpo Hpd Hbl. unfold pep_of_zerv, canon_zerv. cbn [z_schema z_vars s_core s_extra s_build].
  set (vs := {| v_major := Some a; v_minor := Some b; v_patch := Some c; v_epoch := e;
                v_pre := match pl with Some (l, n) => Some {| pr_label := l; pr_num := Some n |} | None => None end; v_post := po; v_dev := pd;
                v_distance := None; v_dirty := None; v_bumped_branch := None; v_bumped_hash := None; v_bumped_ts := None;
                v_last_branch := None; v_last_hash := None; v_last_ts := None; v_last_tag := None; v_custom := JNull |}).
  unfold standard_core, pep_empty. cbn [fold_left].
  change {| q := {| p_epoch := 0; p_release := []; p_pre_label := None; p_pre_num := None; p_post_label := false; p_post_num := None; p_dev_label := false; p_dev_num := None; p_local := None |}; q_panic := false |}
    with (mka (mkp 0 [] None None false None false None None) false).
  rewrite (core_step_var Major v_major vs _ _ _ _ _ _ _ _ _ _ numvar_major Ha).
  rewrite (core_step_var Minor v_minor vs _ _ _ _ _ _ _ _ _ _ numvar_minor Hb).
  rewrite (core_step_var Patch v_patch vs _ _ _ _ _ _ _ _ _ _ numvar_patch Hc).
  change (v_major vs) with (Some a). change (v_minor vs) with (Some b). change (v_patch vs) with (Some c). cbn [app].
  cbn [mka mkp q q_panic p_release]. fold (mkp 0 [a; b; c] None None false None false None None). fold (mka (mkp 0 [a; b; c] None None false None false None None) false).
  unfold canon_extra. rewrite !fold_left_app.
  (* epoch *)
  assert (S1 : fold_left (pep_extra_step vs) (match e with Some _ => [CVar Epoch] | None => [] end) (mka (mkp 0 [a; b; c] None None false None false None None) false)
               = mka (mkp (match e with Some n => n | None => 0 end) [a; b; c] None None false None false None None) false).
  { destruct e as [n|]; [|reflexivity]. cbn [fold_left]. apply (extra_step_epoch_some vs n); [reflexivity|exact He]. }
  rewrite S1. set (E := match e with Some n => n | None => 0 end).
  (* pre-release *)
  assert (S2 : fold_left (pep_extra_step vs) (match pl with Some _ => [CVar PreRelease] | None => [] end) (mka (mkp E [a; b; c] None None false None false None None) false)
               = mka (mkp E [a; b; c] (match pl with Some (l, _) => Some l | None => None end) (match pl with Some (_, n) => Some n | None => None end) false None false None None) false).
  { destruct pl as [[l n]|]; [|reflexivity]. cbn [fold_left].
    apply (extra_step_pre vs E [a; b; c] (Some l) (Some n) false None false None None false); [reflexivity|exists n; split; [reflexivity|exact Hpl]]. }
  rewrite S2. set (PL := match pl with Some (l, _) => Some l | None => None end). set (PN := match pl with Some (_, n) => Some n | None => None end).
  (* post *)
  assert (S3 : fold_left (pep_extra_step vs) (match po with Some _ => [CVar Post] | None => [] end) (mka (mkp E [a; b; c] PL PN false None false None None) false)
               = mka (mkp E [a; b; c] PL PN (match po with Some _ => true | None => false end) po false None None) false).
  { destruct po as [n|]; [|reflexivity]. cbn [fold_left].
    apply (extra_step_post vs E [a; b; c] PL PN true (Some n) false None None false); [reflexivity|exists n; split; [reflexivity|exact Hpo]]. }
  rewrite S3.
  (* dev *)
  assert (S4 : fold_left (pep_extra_step vs) (match pd with Some _ => [CVar Dev] | None => [] end) (mka (mkp E [a; b; c] PL PN (match po with Some _ => true | None => false end) po false None None) false)
               = mka (mkp E [a; b; c] PL PN (match po with Some _ => true | None => false end) po (match pd with Some _ => true | None => false end) pd None) false).
  { destruct pd as [n|]; [|reflexivity]. cbn [fold_left].
    apply (extra_step_dev vs E [a; b; c] PL PN _ po true (Some n) None false); [reflexivity|exists n; split; [reflexivity|exact Hpd]]. }
  rewrite S4.
  (* build and normalisation *)
  assert (Norm : forall loc', (match loc' with Some l => Forall lseg_nf l | None => True end) ->
                 pep_normalize (mkp E [a; b; c] PL PN (match po with Some _ => true | None => false end) po (match pd with Some _ => true | None => false end) pd loc')
                 = mkp E [a; b; c] PL PN (match po with Some _ => true | None => false end) po (match pd with Some _ => true | None => false end) pd loc').
  { intros loc' Fl. unfold pep_normalize, mkp. cbn [p_epoch p_release p_pre_label p_pre_num p_post_label p_post_num p_dev_label p_dev_num p_local]. f_equal.
    - unfold PL, PN. destruct pl as [[l n]|]; reflexivity.
    - destruct po; reflexivity.
    - destruct pd; reflexivity.
    - destruct loc' as [l|]; [|reflexivity]. cbn [option_map]. f_equal. apply map_fixed. eapply Forall_impl; [|exact Fl].
      intros g0 Hg0. destruct g0 as [s|n]; [|reflexivity]. destruct Hg0 as [_ [U [_ P]]]. cbn.
      assert (El : map ascii_lower s = s) by (apply map_fixed; eapply Forall_impl; [|exact U]; intros x Hx; unfold ascii_lower; rewrite Hx; reflexivity).
      rewrite El, P. reflexivity. }
  unfold canon_pep. fold E PL PN.
  destruct bl as [l|].
  - destruct Hbl as [Hne Hl].
    assert (Em : map comp_of_ident l = map comp_of_lseg (map lseg_of_ident l)) by (rewrite map_map; apply map_ext; intros i; apply comp_of_ident_lseg).
    assert (Fl : Forall lseg_nf (map lseg_of_ident l)) by (apply Forall_forall; intros g Hg; apply in_map_iff in Hg; destruct Hg as [i [<- Hi]]; rewrite Forall_forall in Hl; apply Hl, Hi).
    rewrite Em, (build_fold vs _ Fl). destruct l as [|i l']; [congruence|]. cbn [map mka q q_panic]. rewrite (Norm (Some (lseg_of_ident i :: map lseg_of_ident l')) Fl). reflexivity.
  - cbn [map fold_left mka q q_panic]. rewrite (Norm None I). reflexivity.
Qed.

(* ---- and back: the PEP 440 value converts to Zerv (all four secondary variables in the schema, unset ones empty) and renders as the
        original SemVer, provided the epoch is not the explicit 0 (PEP 440 has no "epoch 0" distinct from "no epoch") ---- *)
Lemma secondary_none v vs : is_secondary v = true ->
  (match v with Epoch => v_epoch vs = None | Post => v_post vs = None | Dev => v_dev vs = None | PreRelease => v_pre vs = None | _ => True end) ->
  sv_secondary v vs = [].
Proof.
  intros Hs H. unfold sv_secondary, var_expanded, var_value. destruct v; try discriminate; rewrite H; reflexivity.
Qed.

Theorem pep_back_to_semver a b c e pl po pd bl :
  u64 a -> u64 b -> u64 c -> opt_u64 e -> e <> Some 0 -> (match pl with Some (_, n) => u64 n | None => True end) -> opt_u64 po -> opt_u64 pd ->
  (match bl with Some l => l <> [] /\ Forall ident_nf l | None => True end) ->
  semver_of_zerv (zerv_of_pep (canon_pep a b c e pl po pd bl)) = canon_semver a b c e pl po pd bl.
Proof.
  intros Ha Hb Hc He He0 Hpl Hpo Hpd Hbl. unfold semver_of_zerv, zerv_of_pep, canon_pep, canon_semver, mkp.
  cbn [z_schema z_vars s_core s_extra s_build p_epoch p_release p_pre_label p_pre_num p_post_label p_post_num p_dev_label p_dev_num p_local skipn map app nth_error].
  set (E := match e with Some n => n | None => 0 end).
  assert (Ee : (if 0 <? E then Some E else None) = e).
  { unfold E. destruct e as [n|]; [|reflexivity]. destruct (0 <? n) eqn:Z; [reflexivity|]. apply N.ltb_ge in Z. assert (n = 0) by lia. subst. congruence. }
  rewrite Ee.
  set (vs := {| v_major := Some a; v_minor := Some b; v_patch := Some c; v_epoch := e;
                v_pre := match match pl with Some (l, _) => Some l | None => None end with
                         | Some l => Some {| pr_label := l; pr_num := match pl with Some (_, n) => Some n | None => None end |} | None => None end;
                v_post := po; v_dev := pd;
                v_distance := None; v_dirty := None; v_bumped_branch := None; v_bumped_hash := None; v_bumped_ts := None;
                v_last_branch := None; v_last_hash := None; v_last_ts := None; v_last_tag := None; v_custom := JNull |}).
  assert (Core : sv_process_core standard_core vs O {| a_major := 0; a_minor := 0; a_patch := 0; a_pre := None; a_build := None |}
                 = {| a_major := a; a_minor := b; a_patch := c; a_pre := None; a_build := None |}).
  { unfold standard_core. cbn [sv_process_core comp_value var_value vs v_major v_minor v_patch omap].
    rewrite !uint_sanitize_print, !print_dec_nonempty, (parse_u64_print a Ha), (parse_u64_print b Hb), (parse_u64_print c Hc). reflexivity. }
  rewrite !app_nil_r, Core. cbn [a_major a_minor a_patch a_pre a_build].
  rewrite !push_fold, !push_none. f_equal.
  - f_equal. unfold prerelease_post_dev_extra, canon_pre. cbn [flat_map sv_extra_ids is_secondary]. rewrite app_nil_r. f_equal; [|f_equal; [|f_equal]].
    + destruct e as [n|]; [apply (secondary_epoch vs n eq_refl He)|apply (secondary_none Epoch vs eq_refl eq_refl)].
    + destruct pl as [[l n]|]; [apply (secondary_pre vs l n eq_refl Hpl)|apply (secondary_none PreRelease vs eq_refl eq_refl)].
    + destruct po as [n|]; [apply (secondary_post vs n eq_refl Hpo)|apply (secondary_none Post vs eq_refl eq_refl)].
    + destruct pd as [n|]; [apply (secondary_dev vs n eq_refl Hpd)|apply (secondary_none Dev vs eq_refl eq_refl)].
  - destruct bl as [l|]; [|reflexivity]. destruct Hbl as [Hne Hl]. cbn [option_map].
    assert (Em : map comp_of_lseg (map lseg_of_ident l) = map comp_of_ident l) by (rewrite map_map; apply map_ext; intros i; symmetry; apply comp_of_ident_lseg).
    rewrite Em, (build_flat l vs Hl). destruct l; [congruence|reflexivity].
Qed.
