(* C09: the captures of the scanner reconstruct the input: an accepted string IS  [v] [N!] N(.N)* [pre] [post] [dev] [+local]  with the
   captured digit strings at exactly those places - so every number of the parsed value is the value of the digits written in the input
   (numbers are preserved exactly, whatever the spelling). *)
From Coq Require Import Lia.
From ZV Require Import Str Dec StrFacts DecFacts Pep440 PepParseBack PepParseNf PepAccept.
Open Scope N_scope.

Lemma opt_sep_inv s t : In t (opt_sep s) -> exists sp, optsep sp /\ s = sp ++ t.
Proof.
  unfold opt_sep. destruct s as [|c r].
  - intros [<-|[]]. exists []. split; [left; reflexivity|reflexivity].
  - destruct (sep_char c) eqn:E.
    + intros [<-|[<-|[]]]; [exists [c]; split; [right; exists c; split; [reflexivity|exact E]|reflexivity]|exists []; split; [left; reflexivity|reflexivity]].
    + intros [<-|[]]. exists []. split; [left; reflexivity|reflexivity].
Qed.

Lemma ci_prefix_inv lit : forall s t, ci_prefix lit s = Some t -> exists w, s = w ++ t /\ map ascii_lower w = lit.
Proof.
  induction lit as [|x lit IH]; intros s t H.
  - cbn in H. inversion H; subst. exists []. split; reflexivity.
  - destruct s as [|y s']; [discriminate|]. cbn [ci_prefix] in H. destruct (N.eqb_spec x (ascii_lower y)) as [->|]; [|discriminate].
    destruct (IH s' t H) as [w [-> Ew]]. exists (y :: w). cbn [map app]. rewrite Ew. split; reflexivity.
Qed.

Definition cap_digits (n : option str) : str := match n with Some d => d | None => [] end.
Definition cap_ok (n : option str) : Prop := match n with Some d => dnum d | None => True end.

Lemma span_split (p : cp -> bool) s : forall d r, span p s = (d, r) -> s = d ++ r /\ all_b p d = true.
Proof.
  induction s as [|c s IH]; intros d r H; cbn [span] in H.
  - inversion H; subst. split; reflexivity.
  - destruct (p c) eqn:E.
    + destruct (span p s) as [d' r'] eqn:Es. inversion H; subst. destruct (IH d' r eq_refl) as [-> A]. split; [reflexivity|]. unfold all_b in *. cbn [forallb]. rewrite E, A. reflexivity.
    + inversion H; subst. split; reflexivity.
Qed.

Lemma opt_digits_inv s3 n s4 : In (n, s4) (opt_digits s3) -> s3 = cap_digits n ++ s4 /\ cap_ok n.
Proof.
  unfold opt_digits. destruct (span is_ascii_digit s3) as [d r] eqn:E. destruct (span_split _ _ _ _ E) as [-> A]. destruct d as [|x t].
  - intros [H|[]]. inversion H; subst. split; [reflexivity|exact I].
  - intros [H|[H|[]]]; inversion H; subst; [split; [reflexivity|split; [discriminate|exact A]]|split; [reflexivity|exact I]].
Qed.

(* one labelled piece: [sep] label [sep] [digits] *)
Definition piece (lits : list str) (x : str) (n : option str) : Prop :=
  exists sp1 w sp2, x = sp1 ++ w ++ sp2 ++ cap_digits n /\ optsep sp1 /\ In (map ascii_lower w) lits /\ optsep sp2 /\ cap_ok n.

Lemma tail_inv {B} (k : option str -> str -> option B) s2 r :
  first_some (fun s3 => first_some (fun '(n, s4) => k n s4) (opt_digits s3)) (opt_sep s2) = Some r ->
  exists sp2 n s4, s2 = sp2 ++ cap_digits n ++ s4 /\ optsep sp2 /\ cap_ok n /\ k n s4 = Some r.
Proof.
  intros H. apply first_some_inv in H. destruct H as [s3 [Hi H]]. apply first_some_inv in H. destruct H as [[n s4] [Hd H]].
  destruct (opt_sep_inv _ _ Hi) as [sp2 [H2 ->]]. destruct (opt_digits_inv _ _ _ Hd) as [-> Hn]. exists sp2, n, s4. repeat split; assumption.
Qed.

Lemma scan_dev_sound {B} (k : option (option str) -> str -> option B) s r : scan_dev k s = Some r ->
  exists x a s', s = x ++ s' /\ k a s' = Some r /\ match a with Some n => piece [L_dev] x n | None => x = [] end.
Proof.
  unfold scan_dev. match goal with |- match ?X with _ => _ end = _ -> _ => destruct X as [r0|] eqn:E end.
  - intros H. inversion H; subst r0. apply first_some_inv in E. destruct E as [s1 [Hi E]]. destruct (opt_sep_inv _ _ Hi) as [sp1 [H1 ->]].
    destruct (ci_prefix L_dev s1) as [s2|] eqn:C; [|discriminate]. destruct (ci_prefix_inv _ _ _ C) as [w [-> Ew]].
    destruct (tail_inv (fun n => k (Some n)) s2 r E) as [sp2 [n [s4 [-> [H2 [Hn Hk]]]]]].
    exists (sp1 ++ w ++ sp2 ++ cap_digits n), (Some n), s4. split; [rewrite <- !app_assoc; reflexivity|]. split; [exact Hk|].
    exists sp1, w, sp2. repeat split; try assumption. left. symmetry. exact Ew.
  - intros H. exists [], None, s. repeat split. exact H.
Qed.

Definition post_piece (x : str) (n : option str) : Prop :=
  (exists d, n = Some d /\ x = c_dash :: d /\ dnum d) \/ piece post_labels x n.

Lemma scan_post_sound {B} (k : option (option str) -> str -> option B) s r : scan_post k s = Some r ->
  exists x a s', s = x ++ s' /\ k a s' = Some r /\ match a with Some n => post_piece x n | None => x = [] end.
Proof.
  unfold scan_post. match goal with |- match ?X with _ => _ end = _ -> _ => destruct X as [r0|] eqn:E end.
  - intros H. inversion H; subst r0. destruct s as [|c t]; [discriminate|]. destruct (N.eqb_spec c 45) as [->|]; [|discriminate].
    destruct (span is_ascii_digit t) as [d r1] eqn:Es. destruct (span_split _ _ _ _ Es) as [-> A]. destruct d as [|y d']; [discriminate|].
    exists (c_dash :: y :: d'), (Some (Some (y :: d'))), r1. split; [reflexivity|]. split; [exact E|]. left. exists (y :: d'). repeat split; [discriminate|exact A].
  - clear E. match goal with |- match ?X with _ => _ end = _ -> _ => destruct X as [r0|] eqn:E end.
    + intros H. inversion H; subst r0. apply first_some_inv in E. destruct E as [s1 [Hi E]]. destruct (opt_sep_inv _ _ Hi) as [sp1 [H1 ->]].
      apply first_some_inv in E. destruct E as [l [Hl E]]. destruct (ci_prefix l s1) as [s2|] eqn:C; [|discriminate]. destruct (ci_prefix_inv _ _ _ C) as [w [-> Ew]].
      destruct (tail_inv (fun n => k (Some n)) s2 r E) as [sp2 [n [s4 [-> [H2 [Hn Hk]]]]]].
      exists (sp1 ++ w ++ sp2 ++ cap_digits n), (Some n), s4. split; [rewrite <- !app_assoc; reflexivity|]. split; [exact Hk|].
      right. exists sp1, w, sp2. repeat split; try assumption. rewrite Ew. exact Hl.
    + intros H. exists [], None, s. repeat split. exact H.
Qed.

Lemma scan_pre_sound {B} (k : option (label * option str) -> str -> option B) s r : scan_pre k s = Some r ->
  exists x a s', s = x ++ s' /\ k a s' = Some r /\ match a with Some (lab, n) => exists l, In (l, lab) pre_labels /\ piece [l] x n | None => x = [] end.
Proof.
  unfold scan_pre. match goal with |- match ?X with _ => _ end = _ -> _ => destruct X as [r0|] eqn:E end.
  - intros H. inversion H; subst r0. apply first_some_inv in E. destruct E as [s1 [Hi E]]. destruct (opt_sep_inv _ _ Hi) as [sp1 [H1 ->]].
    apply first_some_inv in E. destruct E as [[l lab] [Hl E]]. destruct (ci_prefix l s1) as [s2|] eqn:C; [|discriminate]. destruct (ci_prefix_inv _ _ _ C) as [w [-> Ew]].
    destruct (tail_inv (fun n => k (Some (lab, n))) s2 r E) as [sp2 [n [s4 [-> [H2 [Hn Hk]]]]]].
    exists (sp1 ++ w ++ sp2 ++ cap_digits n), (Some (lab, n)), s4. split; [rewrite <- !app_assoc; reflexivity|]. split; [exact Hk|].
    exists l. split; [exact Hl|]. exists sp1, w, sp2. repeat split; try assumption. left. symmetry. exact Ew.
  - intros H. exists [], None, s. repeat split. exact H.
Qed.

(* ---- release options ---- *)
Definition join_dot (l : list str) : str := intercalate [c_dot] l.

Lemma join_snoc l d : l <> [] -> join_dot (l ++ [d]) = join_dot l ++ [c_dot] ++ d.
Proof.
  unfold join_dot. induction l as [|x l IH]; [congruence|]. intros _. destruct l as [|y l'].
  - cbn [app]. rewrite intercalate_cons_cons. cbn [intercalate]. reflexivity.
  - cbn [app]. rewrite !intercalate_cons_cons. cbn [app] in IH. rewrite IH by discriminate. rewrite <- !app_assoc. reflexivity.
Qed.

Definition rel_ok (S0 : str) (o : list str * str) : Prop := S0 = join_dot (fst o) ++ snd o /\ Forall dnum (fst o) /\ fst o <> [].

Lemma rev_nonnil {A} (l : list A) : l <> [] -> rev l <> [].
Proof. intros H E. apply H. rewrite <- (rev_involutive l), E. reflexivity. Qed.

Lemma release_more_sound S0 fuel : forall acc s opts, S0 = join_dot (rev acc) ++ s -> acc <> [] -> Forall dnum acc -> Forall (rel_ok S0) opts ->
  Forall (rel_ok S0) (release_more fuel acc s opts).
Proof.
  induction fuel as [|f IH]; intros acc s opts E Ha Fa Fo; cbn [release_more].
  - constructor; [|exact Fo]. split; [exact E|]. split; [apply Forall_rev, Fa|apply rev_nonnil, Ha].
  - assert (Here : rel_ok S0 (rev acc, s)) by (split; [exact E|split; [apply Forall_rev, Fa|apply rev_nonnil, Ha]]).
    destruct s as [|c t]; [constructor; assumption|]. destruct (N.eqb_spec c 46) as [->|]; [|constructor; assumption].
    destruct (span is_ascii_digit t) as [d r] eqn:Es. destruct (span_split _ _ _ _ Es) as [-> A]. destruct d as [|x d']; [constructor; assumption|].
    apply IH; [|discriminate|constructor; [split; [discriminate|exact A]|exact Fa]|constructor; assumption].
    cbn [rev]. rewrite (join_snoc (rev acc) (x :: d') (rev_nonnil acc Ha)), E. change 46 with c_dot. rewrite <- !app_assoc. reflexivity.
Qed.

Lemma release_options_sound s rel s1 : In (rel, s1) (release_options s) -> s = join_dot rel ++ s1 /\ Forall dnum rel /\ rel <> [].
Proof.
  unfold release_options. destruct (span is_ascii_digit s) as [d r] eqn:Es. destruct (span_split _ _ _ _ Es) as [E A]. destruct d as [|x d']; [intros []|].
  intros Hi. pose proof (release_more_sound s (length r) [x :: d'] r []) as H. cbn [rev app] in H.
  assert (F : Forall (rel_ok s) (release_more (length r) [x :: d'] r [])).
  { apply H; [exact E|discriminate|constructor; [split; [discriminate|exact A]|constructor]|constructor]. }
  rewrite Forall_forall in F. exact (F _ Hi).
Qed.

(* ---- the whole scanner ---- *)
Definition pre_cap_piece (x : str) (a : option (label * option str)) : Prop :=
  match a with Some (lab, n) => exists l, In (l, lab) pre_labels /\ piece [l] x n | None => x = [] end.
Definition post_cap_piece (x : str) (a : option (option str)) : Prop := match a with Some n => post_piece x n | None => x = [] end.
Definition dev_cap_piece (x : str) (a : option (option str)) : Prop := match a with Some n => piece [L_dev] x n | None => x = [] end.

Lemma from_release_sound ep s k : scan_from_release ep s = Some k ->
  k_epoch k = ep /\ exists PRE POST DEV,
    s = join_dot (k_release k) ++ PRE ++ POST ++ DEV ++ (match k_local k with Some l => c_plus :: l | None => [] end) /\
    Forall dnum (k_release k) /\ k_release k <> [] /\ pre_cap_piece PRE (k_pre k) /\ post_cap_piece POST (k_post k) /\ dev_cap_piece DEV (k_dev k).
Proof.
  unfold scan_from_release. intros H. apply first_some_inv in H. destruct H as [[rel s1] [Hi H]].
  destruct (release_options_sound _ _ _ Hi) as [-> [Fr Rn]].
  apply scan_pre_sound in H. destruct H as [PRE [pre [s2 [-> [H Ppre]]]]].
  apply scan_post_sound in H. destruct H as [POST [post [s3 [-> [H Ppost]]]]].
  apply scan_dev_sound in H. destruct H as [DEV [dev [s4 [-> [H Pdev]]]]].
  destruct (scan_tail s4) as [loc|] eqn:T; [|discriminate]. inversion H; subst k. clear H. cbn [k_epoch k_release k_pre k_post k_dev k_local].
  split; [reflexivity|]. exists PRE, POST, DEV. repeat split; try assumption.
  f_equal. f_equal. f_equal. f_equal. unfold scan_tail in T. destruct s4 as [|c t]; [inversion T; reflexivity|].
  destruct (N.eqb_spec c 43) as [->|]; [|discriminate]. destruct (local_ok t); [|discriminate]. inversion T; reflexivity.
Qed.

Theorem caps_sound s k : pep_caps s = Some k ->
  exists V PRE POST DEV,
    s = V ++ (match k_epoch k with Some e => e ++ [c_bang] | None => [] end) ++ join_dot (k_release k) ++ PRE ++ POST ++ DEV
          ++ (match k_local k with Some l => c_plus :: l | None => [] end) /\
    (V = [] \/ V = [118] \/ V = [86]) /\ (match k_epoch k with Some e => dnum e | None => True end) /\
    Forall dnum (k_release k) /\ k_release k <> [] /\ pre_cap_piece PRE (k_pre k) /\ post_cap_piece POST (k_post k) /\ dev_cap_piece DEV (k_dev k).
Proof.
  unfold pep_caps.
  assert (SV : exists V, s = V ++ strip_v_ci s /\ (V = [] \/ V = [118] \/ V = [86])).
  { unfold strip_v_ci. destruct s as [|c t]; [exists []; split; [reflexivity|left; reflexivity]|].
    destruct (N.eqb_spec c 118) as [->|]; [exists [118]; split; [reflexivity|right; left; reflexivity]|].
    destruct (N.eqb_spec c 86) as [->|]; [exists [86]; split; [reflexivity|right; right; reflexivity]|]. exists []. split; [reflexivity|left; reflexivity]. }
  destruct SV as [V [EV HV]]. set (s' := strip_v_ci s) in *. clearbody s'.
  destruct (span is_ascii_digit s') as [d r] eqn:Es. destruct (span_split _ _ _ _ Es) as [E A].
  match goal with |- match ?X with _ => _ end = _ -> _ => destruct X as [k0|] eqn:W end.
  - intros H. inversion H; subst k0. destruct d as [|x d']; [discriminate|]. destruct r as [|c t]; [discriminate|]. destruct (N.eqb_spec c 33) as [->|]; [|discriminate].
    destruct (from_release_sound _ _ _ W) as [Ee [PRE [POST [DEV [Et [Fr [Rn [P1 [P2 P3]]]]]]]]].
    exists V, PRE, POST, DEV. rewrite Ee. split; [rewrite EV, E, Et; change 33 with c_bang; rewrite <- !app_assoc; reflexivity|].
    split; [exact HV|]. split; [split; [discriminate|exact A]|]. repeat split; assumption.
  - intros H. destruct (from_release_sound _ _ _ H) as [Ee [PRE [POST [DEV [Et [Fr [Rn [P1 [P2 P3]]]]]]]]].
    exists V, PRE, POST, DEV. rewrite Ee. split; [rewrite EV, Et; reflexivity|]. split; [exact HV|]. split; [exact I|]. repeat split; assumption.
Qed.

Print Assumptions caps_sound.

(* ---- the numbers of the parsed value are the values of the captured digit strings ---- *)
Definition num_of (n : option str) (o : option N) : Prop := match n with Some d => num32 d = o | None => o = Some 0 end.

Theorem parsed_numbers s v : pep_parse s = Some v -> exists k, pep_caps s = Some k /\
  map_opt_n num32 (k_release k) = Some (p_release v) /\
  (match k_epoch k with Some e => num32 e = Some (p_epoch v) | None => p_epoch v = 0 end) /\
  (match k_pre k with Some (lab, n) => p_pre_label v = Some lab /\ num_of n (p_pre_num v) | None => p_pre_label v = None /\ p_pre_num v = None end) /\
  (match k_post k with Some n => p_post_label v = true /\ num_of n (p_post_num v) | None => p_post_label v = false /\ p_post_num v = None end) /\
  (match k_dev k with Some n => p_dev_label v = true /\ num_of n (p_dev_num v) | None => p_dev_label v = false /\ p_dev_num v = None end).
Proof.
  unfold pep_parse, pep_extract. destruct (rx_accepts _ _); [|discriminate]. destruct (pep_caps s) as [k|]; [|discriminate]. intros H. exists k. split; [reflexivity|].
  unfold pep_of_caps in H. destruct (map_opt_n num32 (k_release k)) as [rel|]; [|discriminate].
  destruct (k_epoch k) as [e|].
  - destruct (num32 e) as [ep|] eqn:Ee; [|discriminate].
    destruct (k_pre k) as [[lab n]|]; [destruct n as [d|]; cbn [opt_num32] in H; [destruct (num32 d) eqn:E1; [|discriminate]|]|];
    (destruct (k_post k) as [n2|]; [destruct n2 as [d2|]; cbn [opt_num32] in H; [destruct (num32 d2) eqn:E2; [|discriminate]|]|]);
    (destruct (k_dev k) as [n3|]; [destruct n3 as [d3|]; cbn [opt_num32] in H; [destruct (num32 d3) eqn:E3; [|discriminate]|]|]);
    (destruct (match k_local k with Some l => match parse_local_segments l with Some x => Some (Some x) | None => None end | None => Some None end); [|discriminate]);
    inversion H; subst v; cbn; repeat split; try reflexivity; try assumption.
  - destruct (k_pre k) as [[lab n]|]; [destruct n as [d|]; cbn [opt_num32] in H; [destruct (num32 d) eqn:E1; [|discriminate]|]|];
    (destruct (k_post k) as [n2|]; [destruct n2 as [d2|]; cbn [opt_num32] in H; [destruct (num32 d2) eqn:E2; [|discriminate]|]|]);
    (destruct (k_dev k) as [n3|]; [destruct n3 as [d3|]; cbn [opt_num32] in H; [destruct (num32 d3) eqn:E3; [|discriminate]|]|]);
    (destruct (match k_local k with Some l => match parse_local_segments l with Some x => Some (Some x) | None => None end | None => Some None end); [|discriminate]);
    inversion H; subst v; cbn; repeat split; try reflexivity; try assumption.
Qed.
