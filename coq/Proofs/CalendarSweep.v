(* C17: the finite sweeps (one full 400-year cycle; 366 x 7 week cases), by vm_compute.  Kept in their
   own file so that the result is cached. *)
From Coq Require Import Lia ZArith List Bool.
From ZV Require Import Calendar CalendarSpec.
Import ListNotations.
Open Scope Z_scope.

(* --- one full 400-year cycle, by computation --- *)
Definition triple_eqb (a b : Z * Z * Z) : bool :=
  let '(y, m, d) := a in let '(y', m', d') := b in (y =? y') && (m =? m') && (d =? d').

Lemma triple_eqb_eq a b : triple_eqb a b = true -> a = b.
Proof.
  destruct a as [[y m] d], b as [[y' m'] d']. unfold triple_eqb.
  rewrite !andb_true_iff, !Z.eqb_eq. intros [[-> ->] ->]. reflexivity.
Qed.

Definition valid_b (t : Z * Z * Z) : bool :=
  let '(y, m, d) := t in (1 <=? m) && (m <=? 12) && (1 <=? d) && (d <=? month_len y m).

Lemma valid_b_ok t : valid_b t = true -> valid_date t.
Proof. destruct t as [[y m] d]. unfold valid_b, valid_date. rewrite !andb_true_iff, !Z.leb_le. tauto. Qed.

Definition check_day (k : Z) : bool :=
  triple_eqb (civil_from_days (k + 1)) (next_day (civil_from_days k)) && valid_b (civil_from_days k).

Fixpoint zrange_from (n : nat) (start : Z) : list Z :=
  match n with O => [] | S k => start :: zrange_from k (start + 1) end.
Definition zrange (n : nat) : list Z := zrange_from n 0.

Lemma in_zrange_from n : forall s k, s <= k < s + Z.of_nat n -> In k (zrange_from n s).
Proof.
  induction n as [|n IH]; intros s k H; [lia|].
  cbn [zrange_from]. destruct (Z.eq_dec k s) as [->|Hne]; [left; reflexivity|].
  right. apply IH. lia.
Qed.

Lemma in_zrange n k : 0 <= k < Z.of_nat n -> In k (zrange n).
Proof. intros H. apply in_zrange_from. lia. Qed.

Lemma in_zrangeZ (n k : Z) : 0 <= k < n -> In k (zrange (Z.to_nat n)).
Proof. intros H. apply in_zrange. rewrite Z2Nat.id by lia. exact H. Qed.

Lemma cycle_ok : forallb check_day (zrange (Z.to_nat 146097)) = true.
Proof. vm_compute. reflexivity. Qed.


Definition week_check (yd wd0 : Z) : bool :=
  week_monday yd ((wd0 + yd) mod 7) =? mondays_upto (Z.to_nat yd + 1) wd0.

Lemma week_sweep : forallb (fun yd => forallb (week_check yd) (zrange (Z.to_nat 7))) (zrange (Z.to_nat 366)) = true.
Proof. vm_compute. reflexivity. Qed.

