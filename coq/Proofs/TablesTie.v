(* The constant tables the model repeats are the ones in /repo's source: Gen/TablesSrc.v is regenerated from the source by tools/tables2coq.py on
   every run, and the model's own definitions are proved equal to it here - by computation, so a changed table breaks these obligations. *)
From Coq Require Import Bool.
From ZV Require Import Str Zerv Timestamp Render Convert TablesSrc.
Open Scope N_scope.

(* src/schema/components.rs *)
Theorem standard_core_as_source : standard_core = src_components_standard_core. Proof. reflexivity. Qed.
Theorem calver_core_as_source : calver_core = src_components_calver_core. Proof. reflexivity. Qed.
Theorem epoch_extra_as_source : epoch_extra = src_components_epoch_extra_core. Proof. reflexivity. Qed.
Theorem prerelease_extra_as_source : prerelease_extra = src_components_prerelease_core. Proof. reflexivity. Qed.
Theorem prerelease_post_extra_as_source : prerelease_post_extra = src_components_prerelease_post_core. Proof. reflexivity. Qed.
Theorem prerelease_post_dev_extra_as_source : prerelease_post_dev_extra = src_components_prerelease_post_dev_core. Proof. reflexivity. Qed.
Theorem build_context_as_source : build_context = src_components_build_context. Proof. reflexivity. Qed.

Theorem component_tables_as_source :
  standard_core = src_components_standard_core /\ calver_core = src_components_calver_core /\ epoch_extra = src_components_epoch_extra_core /\
  prerelease_extra = src_components_prerelease_core /\ prerelease_post_extra = src_components_prerelease_post_core /\
  prerelease_post_dev_extra = src_components_prerelease_post_dev_core /\ build_context = src_components_build_context.
Proof. repeat split. Qed.

(* src/version/zerv/bump/precedence.rs: PrecedenceOrder::pep440_based *)
Theorem default_prec_as_source : default_prec = src_pep440_based. Proof. reflexivity. Qed.

(* src/utils/constants.rs: timestamp_patterns::get_valid_timestamp_patterns *)
Theorem valid_patterns_as_source : valid_patterns = src_valid_timestamp_patterns. Proof. reflexivity. Qed.

(* src/version/zerv/core.rs: PreReleaseLabel::try_from_str - the first arm one of whose patterns equals the lower-cased label *)
Definition lookup_label (tbl : list (list str * label)) (l : str) : option label :=
  match find (fun e => existsb (str_eqb l) (fst e)) tbl with Some e => Some (snd e) | None => None end.

Theorem label_try_as_source s : label_try s = lookup_label src_label_alternatives (map ascii_lower s).
Proof.
  unfold label_try, lookup_label, src_label_alternatives. cbn [find existsb fst snd].
  unfold L_alpha, L_a, L_beta, L_b, L_rc, L_c, L_preview, L_pre, lit.
  repeat match goal with |- context [str_eqb (map ascii_lower s) ?x] => destruct (str_eqb (map ascii_lower s) x) end; reflexivity.
Qed.

(* src/schema/presets.rs: the enum, the schema each preset stands for (fixed builders, smart tier selection, build context) and the name table *)
From ZV Require Import Cli.
Definition model_of (p : src_preset) : preset :=
  match p with
  | SP_Standard => Smart Standard | SP_StandardNoContext => SmartNoContext Standard | SP_StandardContext => SmartContext Standard
  | SP_StandardBase => Fixed Standard TBase false | SP_StandardBasePrerelease => Fixed Standard TPre false
  | SP_StandardBasePrereleasePost => Fixed Standard TPrePost false | SP_StandardBasePrereleasePostDev => Fixed Standard TPrePostDev false
  | SP_StandardBaseContext => Fixed Standard TBase true | SP_StandardBasePrereleaseContext => Fixed Standard TPre true
  | SP_StandardBasePrereleasePostContext => Fixed Standard TPrePost true | SP_StandardBasePrereleasePostDevContext => Fixed Standard TPrePostDev true
  | SP_Calver => Smart Calver | SP_CalverNoContext => SmartNoContext Calver | SP_CalverContext => SmartContext Calver
  | SP_CalverBase => Fixed Calver TBase false | SP_CalverBasePrerelease => Fixed Calver TPre false
  | SP_CalverBasePrereleasePost => Fixed Calver TPrePost false | SP_CalverBasePrereleasePostDev => Fixed Calver TPrePostDev false
  | SP_CalverBaseContext => Fixed Calver TBase true | SP_CalverBasePrereleaseContext => Fixed Calver TPre true
  | SP_CalverBasePrereleasePostContext => Fixed Calver TPrePost true | SP_CalverBasePrereleasePostDevContext => Fixed Calver TPrePostDev true
  end.

(* every preset of the source, on every variable state, stands for the schema the model says (and the source's unwrap()s / panic arm are not reached) *)
Theorem schema_with_zerv_as_source p vs : src_schema_with_zerv p vs = Some (schema_with_zerv (model_of p) vs).
Proof.
  destruct p; cbn [src_schema_with_zerv src_schema model_of schema_with_zerv]; try reflexivity;
    unfold src_with_smart_build_context, src_with_build_context, src_smart_standard_schema, src_smart_calver_schema, smart_tier, opt_true, opt_pos, is_some;
    destruct (v_dirty vs) as [[|]|]; destruct (v_distance vs) as [n|]; try destruct (0 <? n); destruct (v_pre vs); destruct (v_post vs); reflexivity.
Qed.

(* the name table: every name of the source is read by the model's parser to the same preset, and every preset has a name *)
Theorem preset_names_as_source :
  map (fun e => preset_of_name (fst e)) src_preset_names = map (fun e => Some (model_of (snd e))) src_preset_names.
Proof. vm_compute. reflexivity. Qed.

Theorem every_preset_named p : In p (map snd src_preset_names).
Proof. destruct p; vm_compute; tauto. Qed.

(* the schema of every preset passes the placement validation that ZervSchema::new_with_precedence / set_build apply (the unwrap()s cannot fail) *)
Theorem preset_schemas_valid p vs s : src_schema_with_zerv p vs = Some s -> schema_validate s = true.
Proof.
  rewrite schema_with_zerv_as_source. intros E. inversion E; subst s. clear E.
  destruct p; cbn [model_of schema_with_zerv]; unfold smart_tier, opt_true, opt_pos, is_some;
    destruct (v_dirty vs) as [[|]|]; destruct (v_distance vs) as [n|]; try destruct (0 <? n); destruct (v_pre vs); destruct (v_post vs); vm_compute; reflexivity.
Qed.

Print Assumptions schema_with_zerv_as_source.
Print Assumptions preset_names_as_source.
Print Assumptions every_preset_named.
Print Assumptions preset_schemas_valid.

(* src/utils/sanitize.rs: the preset constructors *)
From ZV Require Import Sanitize Flow.
Theorem sanitizer_presets_as_source :
  semver_str = src_sanitizer_semver_str /\ pep440_local_str = src_sanitizer_pep440_local_str /\ uint_sanitizer = src_sanitizer_uint /\
  key_sanitizer = src_sanitizer_key /\ forall sep lower keep mx, custom_str sep lower keep mx = src_sanitizer_str sep lower keep mx.
Proof. repeat split. Qed.

(* src/cli/flow/branch_rules.rs: the default rules, and the answer when no rule matches / there is no branch *)
Theorem default_rules_as_source : default_rules = src_default_rules. Proof. reflexivity. Qed.
Theorem no_rule_answer_as_source : forall rules b, find (fun r => rule_matches r b) rules = None ->
  resolve_for_branch rules (Some b) = src_no_rule_answer /\ resolve_for_branch rules None = src_no_rule_answer.
Proof. intros rules b H. unfold resolve_for_branch. rewrite H. split; reflexivity. Qed.

Print Assumptions sanitizer_presets_as_source.
Print Assumptions default_rules_as_source.
Print Assumptions no_rule_answer_as_source.

Print Assumptions component_tables_as_source.
Print Assumptions default_prec_as_source.
Print Assumptions valid_patterns_as_source.
Print Assumptions label_try_as_source.
