(* The constant tables the model repeats are the ones in /repo's source: Gen/TablesSrc.v is regenerated from the source by tools/tables2coq.py on
   every run, and the model's own definitions are proved equal to it here - by computation, so a changed table breaks these obligations. *)
From Coq Require Import Bool.
From ZV Require Import Str Zerv Timestamp Render Convert TablesSrc.
Open Scope N_scope.

(* src/schema/components.rs *)
Theorem standard_core_as_source : standard_core = src_components_standard_core. Proof. reflexivity. Qed.
Theorem calver_core_as_source : calver_core = src_components_calver_core. Proof. reflexivity. Qed.
Theorem epoch_extra_as_source : epoch_extra = src_components_epoch_extra_core. Proof. reflexivity. Qed.
Theorem prerelease_extra_as_source : prerelease_extra = src_components_prerelease_core. Proof. reflexivity. Qed.
Theorem prerelease_post_extra_as_source : prerelease_post_extra = src_components_prerelease_post_core. Proof. reflexivity. Qed.
Theorem prerelease_post_dev_extra_as_source : prerelease_post_dev_extra = src_components_prerelease_post_dev_core. Proof. reflexivity. Qed.
Theorem build_context_as_source : build_context = src_components_build_context. Proof. reflexivity. Qed.

Theorem component_tables_as_source :
  standard_core = src_components_standard_core /\ calver_core = src_components_calver_core /\ epoch_extra = src_components_epoch_extra_core /\
  prerelease_extra = src_components_prerelease_core /\ prerelease_post_extra = src_components_prerelease_post_core /\
  prerelease_post_dev_extra = src_components_prerelease_post_dev_core /\ build_context = src_components_build_context.
Proof. repeat split. Qed.

(* src/version/zerv/bump/precedence.rs: PrecedenceOrder::pep440_based *)
Theorem default_prec_as_source : default_prec = src_pep440_based. Proof. reflexivity. Qed.

(* src/utils/constants.rs: timestamp_patterns::get_valid_timestamp_patterns *)
Theorem valid_patterns_as_source : valid_patterns = src_valid_timestamp_patterns. Proof. reflexivity. Qed.

(* src/version/zerv/core.rs: PreReleaseLabel::try_from_str - the first arm one of whose patterns equals the lower-cased label *)
Definition lookup_label (tbl : list (list str * label)) (l : str) : option label :=
  match find (fun e => existsb (str_eqb l) (fst e)) tbl with Some e => Some (snd e) | None => None end.

Theorem label_try_as_source s : label_try s = lookup_label src_label_alternatives (map ascii_lower s).
Proof.
  unfold label_try, lookup_label, src_label_alternatives. cbn [find existsb fst snd].
  unfold L_alpha, L_a, L_beta, L_b, L_rc, L_c, L_preview, L_pre, lit.
  repeat match goal with |- context [str_eqb (map ascii_lower s) ?x] => destruct (str_eqb (map ascii_lower s) x) end; reflexivity.
Qed.

Print Assumptions component_tables_as_source.
Print Assumptions default_prec_as_source.
Print Assumptions valid_patterns_as_source.
Print Assumptions label_try_as_source.
