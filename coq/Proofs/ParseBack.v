(* C01 / C08: zerv's own SemVer parser accepts every SemVer string zerv prints and returns exactly the value that was printed:
   semver_parse (semver_print (semver_of_zerv z)) = Some (semver_of_zerv z), for every object. *)
From Coq Require Import Lia.
From ZV Require Import Str Dec Sanitize SanitizeSpec StrFacts DecFacts SanitizeProofs Zerv Render SemVer SemVerProofs NoPanicProofs IdentProofs
                       PepRoundTrip SemVerRoundTrip Rx RegexSrc RegexEquiv GrammarProofs.
From RelationAlgebra Require regex.
Open Scope N_scope.

Lemma split_first_free c s : cfree c s -> split_first c s = (s, None).
Proof. induction 1 as [|x s Hx Hs IH]; [reflexivity|]. cbn. rewrite Hx, IH. reflexivity. Qed.

Lemma split_first_at c a b : cfree c a -> split_first c (a ++ c :: b) = (a, Some b).
Proof. induction 1 as [|x a Hx Ha IH]; cbn; [rewrite N.eqb_refl; reflexivity|]. rewrite Hx, IH. reflexivity. Qed.

Lemma alnum_free c s : is_ascii_alnum c = false -> alnum s -> cfree c s.
Proof. intros Hc. apply Forall_impl. intros x Hx. apply N.eqb_neq. intros ->. congruence. Qed.

Lemma free_app c a b : cfree c a -> cfree c b -> cfree c (a ++ b).
Proof. intros. apply Forall_app. split; assumption. Qed.

Lemma digits_free c n : is_ascii_alnum c = false -> cfree c (print_dec n).
Proof. intros Hc. apply (alnum_free c _ Hc), print_dec_good. Qed.

(* ---- identifiers parse back ---- *)
Lemma alnum_ident_chars s : alnum s -> all_b is_ident_char s = true.
Proof.
  intros H. unfold all_b. apply forallb_forall. intros x Hx. unfold alnum in H. rewrite Forall_forall in H. unfold is_ident_char. rewrite (H x Hx). reflexivity.
Qed.

Lemma numeric_like_of_wf s : all_b is_ascii_digit s = true -> has_leading_zero s = false -> numeric_like s = true.
Proof.
  intros D Z. unfold numeric_like. rewrite D. cbn [andb]. unfold has_leading_zero in Z. rewrite D in Z. cbn [andb] in Z.
  destruct s as [|a [|b t]]; [reflexivity|reflexivity|]. change c_0 with 48 in Z. rewrite Z. reflexivity.
Qed.

Lemma print_dec_numeric_like n : numeric_like (print_dec n) = true.
Proof.
  unfold numeric_like. rewrite print_dec_all_digits. cbn [andb]. pose proof (print_dec_canonical n) as C.
  destruct (print_dec n) as [|a [|b t]]; [reflexivity|reflexivity|]. cbn [canonical_dec] in C. apply andb_true_iff in C. tauto.
Qed.

Lemma pre_ident_back i : id_wf i -> parse_pre_ident (ident_print i) = Some i.
Proof.
  destruct i as [s|n]; cbn [id_wf ident_print].
  - intros [[Hne [Hal Hz]] P]. unfold parse_pre_ident. destruct s as [|x s'] eqn:Es; [congruence|]. rewrite <- Es in *.
    rewrite (alnum_ident_chars s Hal). cbn [negb]. destruct (all_b is_ascii_digit s) eqn:D; [|reflexivity].
    rewrite (numeric_like_of_wf s D Hz), P. reflexivity.
  - intros H. unfold parse_pre_ident. pose proof (print_dec_nonnil n) as Hn. destruct (print_dec n) as [|x s'] eqn:Es; [congruence|]. rewrite <- Es in *.
    rewrite (alnum_ident_chars _ (proj2 (print_dec_good n))), print_dec_all_digits, print_dec_numeric_like, (parse_u64_print n H). reflexivity.
Qed.

Lemma build_ident_back i : id_wf i -> parse_build_ident (ident_print i) = Some i.
Proof.
  destruct i as [s|n]; cbn [id_wf ident_print].
  - intros [[Hne [Hal Hz]] P]. unfold parse_build_ident. destruct s as [|x s'] eqn:Es; [congruence|]. rewrite <- Es in *.
    rewrite (alnum_ident_chars s Hal). cbn [negb]. destruct (numeric_like s); [rewrite P|]; reflexivity.
  - intros H. unfold parse_build_ident. pose proof (print_dec_nonnil n) as Hn. destruct (print_dec n) as [|x s'] eqn:Es; [congruence|]. rewrite <- Es in *.
    rewrite (alnum_ident_chars _ (proj2 (print_dec_good n))), print_dec_numeric_like, (parse_u64_print n H). reflexivity.
Qed.

Lemma map_opt_back (f : str -> option ident) l : (forall i, In i l -> f (ident_print i) = Some i) -> map_opt f (map ident_print l) = Some l.
Proof.
  induction l as [|i l IH]; intros H; [reflexivity|]. cbn [map map_opt]. rewrite (H i (or_introl eq_refl)), IH; [reflexivity|].
  intros j Hj. apply H. right. exact Hj.
Qed.

Lemma ident_dot_free i : id_wf i -> cfree c_dot (ident_print i).
Proof.
  destruct i as [s|n]; cbn [id_wf ident_print]; [intros [[_ [H _]] _]; apply (alnum_free c_dot s eq_refl H)|intros _; apply (digits_free c_dot n eq_refl)].
Qed.

Lemma idents_split l : l <> [] -> Forall id_wf l -> split_on c_dot (idents_print l) = map ident_print l.
Proof.
  intros Hne W. unfold idents_print. apply split_join; [destruct l; [congruence|discriminate]|].
  apply Forall_forall. intros g Hg. apply in_map_iff in Hg. destruct Hg as [i [<- Hi]]. apply ident_dot_free. rewrite Forall_forall in W. apply W, Hi.
Qed.

Lemma idents_free c l : is_ascii_alnum c = false -> c <> c_dot -> Forall id_wf l -> cfree c (idents_print l).
Proof.
  intros Hc Hd W. unfold idents_print. induction W as [|i l Hi Hl IH]; [constructor|].
  assert (Fi : cfree c (ident_print i)).
  { destruct i as [s|n]; cbn [id_wf ident_print] in *; [destruct Hi as [[_ [H _]] _]; apply (alnum_free c s Hc H)|apply (digits_free c n Hc)]. }
  destruct l as [|j l']; [exact Fi|].
  change (map ident_print (i :: j :: l')) with (ident_print i :: ident_print j :: map ident_print l'). rewrite intercalate_cons_cons.
  change (ident_print j :: map ident_print l') with (map ident_print (j :: l')). apply free_app; [exact Fi|]. apply free_app; [|exact IH].
  unfold cfree. apply Forall_cons; [apply N.eqb_neq; intros E; apply Hd; symmetry; exact E|apply Forall_nil].
Qed.

(* ---- the core numbers are below 2^64 ---- *)
Lemma process_core_bound cs vs : forall n a, u64 (a_major a) -> u64 (a_minor a) -> u64 (a_patch a) ->
  u64 (a_major (sv_process_core cs vs n a)) /\ u64 (a_minor (sv_process_core cs vs n a)) /\ u64 (a_patch (sv_process_core cs vs n a)).
Proof.
  induction cs as [|c cs IH]; intros n a H1 H2 H3; cbn [sv_process_core]; [repeat split; assumption|].
  destruct (comp_value c vs uint_sanitizer) as [v|] eqn:Ev.
  - destruct (nonempty v).
    + destruct (parse_u64 v) as [k|] eqn:Pk.
      * destruct (Nat.ltb n 3).
        -- pose proof (parse_u64_bound v k Pk) as Bk. apply IH; destruct n as [|[|n]]; cbn; assumption.
        -- apply IH; (destruct (comp_value c vs semver_str) as [x|]; [destruct (nonempty x)|]); cbn; assumption.
      * apply IH; (destruct (comp_value c vs semver_str) as [x|]; [destruct (nonempty x)|]); cbn; assumption.
    + apply IH; (destruct (comp_value c vs semver_str) as [x|]; [destruct (nonempty x)|]); cbn; assumption.
  - apply IH; (destruct (comp_value c vs semver_str) as [x|]; [destruct (nonempty x)|]); cbn; assumption.
Qed.

Lemma core_bound z : u64 (sv_major (semver_of_zerv z)) /\ u64 (sv_minor (semver_of_zerv z)) /\ u64 (sv_patch (semver_of_zerv z)).
Proof. unfold semver_of_zerv. cbn [sv_major sv_minor sv_patch]. apply process_core_bound; unfold u64; cbn; lia. Qed.

(* ---- extraction of a printed value ---- *)
Lemma core_num_back n : u64 n -> parse_core_num (print_dec n) = Some n.
Proof. intros H. unfold parse_core_num. rewrite print_dec_canonical. apply parse_u64_print, H. Qed.

Theorem extract_print v : u64 (sv_major v) -> u64 (sv_minor v) -> u64 (sv_patch v) -> part_wf (sv_pre v) -> part_wf (sv_build v) ->
  semver_extract (semver_print v) = Some v.
Proof.
  intros Ha Hb Hc Hp Hbd. destruct v as [a b c pre bld]. cbn [sv_major sv_minor sv_patch sv_pre sv_build] in *.
  unfold semver_extract, semver_print, semver_print_sep. cbn [sv_major sv_minor sv_patch sv_pre sv_build].
  set (core := release_print a b c).
  assert (Cp : cfree c_plus core) by (unfold core, release_print; repeat apply free_app; try (apply digits_free; reflexivity); repeat constructor).
  assert (Cd : cfree c_dash core) by (unfold core, release_print; repeat apply free_app; try (apply digits_free; reflexivity); repeat constructor).
  assert (Sv : strip_v (core ++ opt_part [c_dash] pre ++ opt_part [c_plus] bld) = core ++ opt_part [c_dash] pre ++ opt_part [c_plus] bld).
  { unfold core, release_print. pose proof (print_dec_all_digits a) as D. pose proof (print_dec_nonnil a) as Hn.
    destruct (print_dec a) as [|x t]; [congruence|]. cbn. cbn in D. apply andb_true_iff in D. destruct D as [D _].
    unfold is_ascii_digit in D. apply andb_true_iff in D. destruct D as [_ D]. apply N.leb_le in D. destruct (N.eqb_spec x 118); [lia|reflexivity]. }
  rewrite Sv.
  assert (Core3 : split_on c_dot core = [print_dec a; print_dec b; print_dec c]).
  { unfold core, release_print. change (print_dec a ++ [c_dot] ++ print_dec b ++ [c_dot] ++ print_dec c) with (intercalate [c_dot] [print_dec a; print_dec b; print_dec c]).
    apply split_join; [discriminate|]. repeat constructor; apply digits_free; reflexivity. }
  (* the main part (core and pre-release) is plus-free *)
  set (main := core ++ opt_part [c_dash] pre).
  assert (Mp : cfree c_plus main).
  { unfold main. apply free_app; [exact Cp|]. destruct pre as [[|i l]|]; cbn [opt_part]; [constructor| |constructor].
    destruct Hp as [_ W]. apply free_app; [apply Forall_cons; [reflexivity|apply Forall_nil]|apply idents_free; [reflexivity|discriminate|exact W]]. }
  rewrite app_assoc. fold main.
  assert (Main : split_first c_dash main = (core, match pre with Some ((_ :: _) as l) => Some (idents_print l) | _ => None end)).
  { unfold main. destruct pre as [[|i l]|]; cbn [opt_part].
    - destruct Hp as [K _]. congruence.
    - cbn [app]. apply split_first_at, Cd.
    - rewrite app_nil_r. apply split_first_free, Cd. }
  assert (Pre : match pre with
                | Some ((_ :: _) as l) => map_opt parse_pre_ident (split_on c_dot (idents_print l)) = Some l
                | _ => True end).
  { destruct pre as [[|i l]|]; try exact I. destruct Hp as [Hne W]. rewrite (idents_split _ Hne W). apply map_opt_back.
    intros j Hj. apply pre_ident_back. rewrite Forall_forall in W. apply W, Hj. }
  destruct bld as [[|i l]|]; cbn [opt_part].
  - destruct Hbd as [K _]. congruence.
  - destruct Hbd as [Hne W]. cbn [app]. rewrite (split_first_at c_plus main _ Mp), Main, Core3, (core_num_back a Ha), (core_num_back b Hb), (core_num_back c Hc).
    rewrite (idents_split _ Hne W), (map_opt_back parse_build_ident (i :: l)); [|intros j Hj; apply build_ident_back; rewrite Forall_forall in W; apply W, Hj].
    destruct pre as [[|i0 l0]|]; [destruct Hp; congruence|rewrite Pre; reflexivity|reflexivity].
  - rewrite app_nil_r, (split_first_free c_plus main Mp), Main, Core3, (core_num_back a Ha), (core_num_back b Hb), (core_num_back c Hc).
    destruct pre as [[|i0 l0]|]; [destruct Hp; congruence|rewrite Pre; reflexivity|reflexivity].
Qed.

(* ---- the parser accepts what zerv prints, and returns the printed value ---- *)
Theorem parse_back z : semver_parse (semver_print (semver_of_zerv z)) = Some (semver_of_zerv z).
Proof.
  unfold semver_parse.
  assert (A : rx_accepts semver_src (map semver_atom_of (semver_print (semver_of_zerv z))) = true).
  { apply rx_accepts_lang, semver_regex_lang, semver_output_in_bnf. }
  rewrite A. destruct (core_bound z) as [H1 [H2 H3]]. destruct (semver_of_zerv_wf z) as [Hp Hb]. apply extract_print; assumption.
Qed.
