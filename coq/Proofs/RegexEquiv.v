(* Tie 1: the regexes regenerated from /repo's source denote the same languages as the spec
   regexes (SemVer BNF transcription; PEP 440 Appendix B verbatim).  Decided by the reflexive
   Kleene-algebra tactic of RelationAlgebra on every run. *)
From RelationAlgebra Require Import kleene regex ka_completeness lang kat_tac.
From ZV Require Import RegexSrc.

Lemma semver_ka : (semver_src : regex') ≡ semver_spec.
Proof. unfold semver_src, semver_spec. ka. Qed.

Lemma pep440_ka : (pep440_src : regex') ≡ pep440_spec.
Proof. unfold pep440_src, pep440_spec. ka. Qed.

Theorem semver_regex_lang : forall w, regex.lang semver_src w <-> regex.lang semver_spec w.
Proof. intro w. exact (proj2 (ka_correct_complete_weq semver_src semver_spec) semver_ka w). Qed.

Theorem pep440_regex_lang : forall w, regex.lang pep440_src w <-> regex.lang pep440_spec w.
Proof. intro w. exact (proj2 (ka_correct_complete_weq pep440_src pep440_spec) pep440_ka w). Qed.

Print Assumptions semver_regex_lang.
Print Assumptions pep440_regex_lang.
