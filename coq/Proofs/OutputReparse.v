(* C01 at the level of the commands: what `zerv version` / `zerv flow` / `zerv render` print for --output-format semver / pep440 (no template)
   is the prefix followed by a string that zerv's own parser of that format accepts, reading back exactly the value that was printed. *)
From ZV Require Import Str Zerv Render SemVer Pep440 Convert Bump Cli Flow OutputGrammar ParseBack PepOutNf.

Theorem version_semver_reparsed a stdin now t : g_output_format a = OutSemver -> version_output a stdin now = OOk t ->
  exists v, t = prefix_of a ++ semver_print v /\ semver_parse (semver_print v) = Some v.
Proof.
  unfold version_output. intros F. rewrite F. destruct (version_zerv a stdin now) as [z| |]; try discriminate.
  intros H. inversion H. exists (semver_of_zerv z). split; [reflexivity|apply parse_back].
Qed.

Theorem version_pep440_reparsed a stdin now t : g_output_format a = OutPep440 -> version_output a stdin now = OOk t ->
  exists p, t = prefix_of a ++ pep_print p /\ pep_parse (pep_print p) = Some p.
Proof.
  unfold version_output. intros F. rewrite F. destruct (version_zerv a stdin now) as [z| |]; try discriminate.
  destruct (pep_of_zerv z) as [p|] eqn:E; [|discriminate]. intros H. inversion H. exists p. split; [reflexivity|apply (pep_parse_back_all z p E)].
Qed.

Theorem flow_semver_reparsed f stdin now t : g_output_format (f_base f) = OutSemver -> flow_output f stdin now = OOk t ->
  exists v, t = prefix_of (f_base f) ++ semver_print v /\ semver_parse (semver_print v) = Some v.
Proof.
  unfold flow_output. intros F. rewrite F. destruct (flow_zerv f stdin now) as [z| |]; try discriminate.
  intros H. inversion H. exists (semver_of_zerv z). split; [reflexivity|apply parse_back].
Qed.

Theorem flow_pep440_reparsed f stdin now t : g_output_format (f_base f) = OutPep440 -> flow_output f stdin now = OOk t ->
  exists p, t = prefix_of (f_base f) ++ pep_print p /\ pep_parse (pep_print p) = Some p.
Proof.
  unfold flow_output. intros F. rewrite F. destruct (flow_zerv f stdin now) as [z| |]; try discriminate.
  destruct (pep_of_zerv z) as [p|] eqn:E; [|discriminate]. intros H. inversion H. exists p. split; [reflexivity|apply (pep_parse_back_all z p E)].
Qed.

Theorem render_semver_reparsed inf pre s t : render_cmd inf FSemver pre s = OOk t ->
  exists v, t = pre ++ semver_print v /\ semver_parse (semver_print v) = Some v.
Proof.
  unfold render_cmd. destruct (parse_version inf s) as [z| |]; try discriminate. cbn [format_zerv].
  intros H. inversion H. exists (semver_of_zerv z). split; [reflexivity|apply parse_back].
Qed.

Theorem render_pep440_reparsed inf pre s t : render_cmd inf FPep440 pre s = OOk t ->
  exists p, t = pre ++ pep_print p /\ pep_parse (pep_print p) = Some p.
Proof.
  unfold render_cmd. destruct (parse_version inf s) as [z| |]; try discriminate. cbn [format_zerv].
  destruct (pep_of_zerv z) as [p|] eqn:E; [|discriminate]. intros H. inversion H. exists p. split; [reflexivity|apply (pep_parse_back_all z p E)].
Qed.
