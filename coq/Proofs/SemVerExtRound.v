(* C07: the SemVer rendering of ANY PEP 440 version - any number of release numbers - is a fixed point of re-conversion.
   The canonical SemVer shape is extended by a prefix of bare numeric pre-release identifiers (the release numbers beyond the third):
       X.Y.Z-[n4.n5. ... .][epoch.E.][alpha|beta|rc.N.][post.P.][dev.D][+ids]
   The PreReleaseProcessor state machine commutes with such a prefix (`shift`), so the closed evaluation of the canonical shape lifts. *)
From Coq Require Import Lia.
From ZV Require Import Str Dec Sanitize SanitizeSpec StrFacts DecFacts SanitizeProofs Zerv Render SemVer Pep440 Pep440Spec Convert NoPanicProofs IdentProofs PepWfProofs Pep440Nf
                       PepRoundTrip SemVerRoundTrip Pep440Order ParseBack PepSemverRound PepParseNf.
Open Scope N_scope.

(* ---------------- the state machine under a prefix of numeric literals ---------------- *)
Definition shift (xs : list N) (st : pstate) : pstate :=
  {| ps_epoch := ps_epoch st; ps_post := ps_post st; ps_dev := ps_dev st; ps_pre := ps_pre st;
     ps_extra := map CUInt xs ++ ps_extra st; ps_pending := ps_pending st; ps_failed := ps_failed st |}.

Lemma ok_shift xs e : forallb component_ok (map CUInt xs ++ e) = forallb component_ok e.
Proof. induction xs as [|x xs IH]; [reflexivity|exact IH]. Qed.

Lemma extra_ok_shift xs e seen : extra_ok (map CUInt xs ++ e) seen = extra_ok e seen.
Proof. induction xs as [|x xs IH]; [reflexivity|exact IH]. Qed.

Lemma upd_extra_shift xs st c : upd_extra (shift xs st) c = shift xs (upd_extra st c).
Proof.
  unfold upd_extra, shift. cbn [ps_epoch ps_post ps_dev ps_pre ps_extra ps_pending ps_failed].
  rewrite <- app_assoc, ok_shift, extra_ok_shift. reflexivity.
Qed.

Lemma set_pending_shift xs st p : set_pending (shift xs st) p = shift xs (set_pending st p).
Proof. reflexivity. Qed.

Lemma in_extra_shift xs st v : in_extra (shift xs st) v = in_extra st v.
Proof. unfold in_extra, shift. cbn [ps_extra]. rewrite existsb_app. induction xs as [|x xs IH]; [reflexivity|exact IH]. Qed.

Lemma is_var_set_shift xs st v : is_var_set (shift xs st) v = is_var_set st v.
Proof. unfold is_var_set. rewrite in_extra_shift. reflexivity. Qed.

Lemma finalize_var_shift xs st v value : finalize_var (shift xs st) v value = shift xs (finalize_var st v value).
Proof. unfold finalize_var. destruct v; rewrite <- upd_extra_shift; reflexivity. Qed.

Lemma finalize_pending_shift xs st : finalize_pending (shift xs st) = shift xs (finalize_pending st).
Proof.
  unfold finalize_pending. change (ps_pending (shift xs st)) with (ps_pending st). destruct (ps_pending st) as [v|]; [|reflexivity].
  rewrite set_pending_shift. apply finalize_var_shift.
Qed.

Lemma step_uint_shift xs st n : step_uint (shift xs st) n = shift xs (step_uint st n).
Proof.
  unfold step_uint. change (ps_pending (shift xs st)) with (ps_pending st). destruct (ps_pending st) as [v|]; [|apply upd_extra_shift].
  rewrite set_pending_shift. apply finalize_var_shift.
Qed.

Ltac push_shift := repeat first [rewrite set_pending_shift | rewrite finalize_pending_shift | rewrite finalize_var_shift | rewrite upd_extra_shift | rewrite is_var_set_shift].

Lemma step_str_shift xs st s : step_str (shift xs st) s = shift xs (step_str st s).
Proof.
  unfold step_str. change (ps_pending (shift xs st)) with (ps_pending st).
  destruct (var_is (ps_pending st) PreRelease); [push_shift; reflexivity|].
  destruct (secondary_of_label s) as [v|]; [|push_shift; reflexivity].
  destruct (var_is (ps_pending st) v); [push_shift; reflexivity|].
  rewrite is_var_set_shift. destruct (is_var_set st v); [push_shift; reflexivity|].
  rewrite finalize_pending_shift.
  destruct v; try reflexivity; try (push_shift; reflexivity).
  destruct (label_try s); [reflexivity|push_shift; reflexivity].
Qed.

Lemma step_ident_shift xs st i : step_ident (shift xs st) i = shift xs (step_ident st i).
Proof. destruct i; [apply step_str_shift|apply step_uint_shift]. Qed.

Lemma fold_shift xs ids : forall st, fold_left step_ident ids (shift xs st) = shift xs (fold_left step_ident ids st).
Proof. induction ids as [|i ids IH]; intros st; [reflexivity|]. cbn [fold_left]. rewrite step_ident_shift. apply IH. Qed.

Definition st0 : pstate := {| ps_epoch := None; ps_post := None; ps_dev := None; ps_pre := None; ps_extra := []; ps_pending := None; ps_failed := false |}.

Lemma fold_uints xs : forall ys, fold_left step_ident (map IUInt xs) (shift ys st0) = shift (ys ++ xs) st0.
Proof.
  induction xs as [|x xs IH]; intros ys; cbn [map fold_left]; [rewrite app_nil_r; reflexivity|].
  replace (step_ident (shift ys st0) (IUInt x)) with (shift (ys ++ [x]) st0); [rewrite IH, <- app_assoc; reflexivity|].
  cbn [step_ident]. unfold step_uint. cbn [ps_pending shift st0]. unfold upd_extra, shift.
  cbn [ps_epoch ps_post ps_dev ps_pre ps_extra ps_pending ps_failed st0]. rewrite !app_nil_r.
  assert (E : map CUInt ys ++ [CUInt x] = map CUInt (ys ++ [x]) ++ []) by (rewrite app_nil_r, map_app; reflexivity).
  rewrite E, ok_shift, extra_ok_shift, app_nil_r. reflexivity.
Qed.

(* the canonical shape, evaluated once and for all with symbolic numbers *)
Definition canon_state (e : option N) (pl : option (label * N)) (po pd : option N) : pstate :=
  {| ps_epoch := e; ps_post := po; ps_dev := pd;
     ps_pre := match pl with Some (l, n) => Some {| pr_label := l; pr_num := Some n |} | None => None end;
     ps_extra := canon_extra e pl po pd; ps_pending := None; ps_failed := false |}.

Lemma canon_fold e pl po pd : fold_left step_ident (canon_pre e pl po pd) st0 = canon_state e pl po pd.
Proof. destruct e as [e|]; destruct pl as [[[| |] n]|]; destruct po as [p|]; destruct pd as [d|]; vm_compute; reflexivity. Qed.

(* ---------------- the extended canonical shape ---------------- *)
Definition ext_pre (xs : list N) e pl po pd : list ident := map IUInt xs ++ canon_pre e pl po pd.

Definition ext_semver (xs : list N) a b c e pl po pd (bl : option (list ident)) : semver :=
  {| sv_major := a; sv_minor := b; sv_patch := c; sv_pre := some_if_nonempty (ext_pre xs e pl po pd); sv_build := bl |}.

Definition ext_zerv (xs : list N) a b c e (pl : option (label * N)) po pd (bl : option (list ident)) : zerv :=
  {| z_schema := {| s_core := standard_core; s_extra := map CUInt xs ++ canon_extra e pl po pd;
                    s_build := match bl with Some l => map comp_of_ident l | None => [] end; s_prec := default_prec |};
     z_vars := z_vars (canon_zerv a b c e pl po pd bl) |}.

Lemma ext_nil a b c e pl po pd bl : ext_semver [] a b c e pl po pd bl = canon_semver a b c e pl po pd bl.
Proof. reflexivity. Qed.

Lemma fold_some_if {A B} (f : A -> B -> A) (l : list B) (a : A) :
  match some_if_nonempty l with Some ids => fold_left f ids a | None => a end = fold_left f l a.
Proof. destruct l; reflexivity. Qed.

(* SemVer -> Zerv *)
Theorem ext_to_zerv xs a b c e pl po pd bl :
  zerv_of_semver (ext_semver xs a b c e pl po pd bl) = Some (ext_zerv xs a b c e pl po pd bl).
Proof.
  unfold zerv_of_semver, ext_semver. cbn [sv_pre sv_build sv_major sv_minor sv_patch].
  change {| ps_epoch := None; ps_post := None; ps_dev := None; ps_pre := None; ps_extra := []; ps_pending := None; ps_failed := false |} with st0.
  rewrite (fold_some_if step_ident (ext_pre xs e pl po pd) st0). unfold ext_pre. rewrite fold_left_app.
  change (fold_left step_ident (map IUInt xs) st0) with (fold_left step_ident (map IUInt xs) (shift [] st0)).
  rewrite (fold_uints xs []). cbn [app]. rewrite fold_shift, canon_fold.
  cbn [shift canon_state ps_epoch ps_post ps_dev ps_pre ps_extra ps_pending ps_failed]. reflexivity.
Qed.

(* Zerv -> SemVer *)
Lemma flatten_print n : u64 n -> flatten_ids (print_dec n) = [IUInt n].
Proof.
  intros H. unfold flatten_ids.
  rewrite (split_on_cfree c_dot _ (alnum_cfree c_dot dot_not_alnum _ (proj2 (print_dec_good n)))). cbn [filter]. rewrite print_dec_nonempty. cbn [map].
  rewrite (classify_print n H). reflexivity.
Qed.

Lemma uints_flat xs vs : Forall u64 xs -> flat_map (fun c => sv_extra_ids c vs) (map CUInt xs) = map IUInt xs.
Proof.
  induction 1 as [|x xs Hx Hxs IH]; [reflexivity|]. cbn [map flat_map]. rewrite IH.
  change (sv_extra_ids (CUInt x) vs) with (sv_build_ids (comp_of_ident (IUInt x)) vs). rewrite (build_ids_ident (IUInt x) vs Hx). reflexivity.
Qed.

Lemma extra_flat e pl po pd vs :
  v_epoch vs = e -> v_pre vs = match pl with Some (l, n) => Some {| pr_label := l; pr_num := Some n |} | None => None end -> v_post vs = po -> v_dev vs = pd ->
  opt_u64 e -> (match pl with Some (_, n) => u64 n | None => True end) -> opt_u64 po -> opt_u64 pd ->
  flat_map (fun c => sv_extra_ids c vs) (canon_extra e pl po pd) = canon_pre e pl po pd.
Proof.
  intros Ve Vp Vo Vd He Hpl Hpo Hpd. unfold canon_extra, canon_pre. rewrite !flat_map_app. f_equal; [|f_equal; [|f_equal]].
  - destruct e as [n|]; [|reflexivity]. cbn [flat_map sv_extra_ids is_secondary]. rewrite app_nil_r. apply (secondary_epoch vs n Ve He).
  - destruct pl as [[l n]|]; [|reflexivity]. cbn [flat_map sv_extra_ids is_secondary]. rewrite app_nil_r. apply (secondary_pre vs l n Vp Hpl).
  - destruct po as [n|]; [|reflexivity]. cbn [flat_map sv_extra_ids is_secondary]. rewrite app_nil_r. apply (secondary_post vs n Vo Hpo).
  - destruct pd as [n|]; [|reflexivity]. cbn [flat_map sv_extra_ids is_secondary]. rewrite app_nil_r. apply (secondary_dev vs n Vd Hpd).
Qed.

Theorem ext_render xs a b c e pl po pd bl :
  Forall u64 xs -> u64 a -> u64 b -> u64 c -> opt_u64 e -> (match pl with Some (_, n) => u64 n | None => True end) -> opt_u64 po -> opt_u64 pd ->
  (match bl with Some l => l <> [] /\ Forall ident_nf l | None => True end) ->
  semver_of_zerv (ext_zerv xs a b c e pl po pd bl) = ext_semver xs a b c e pl po pd bl.
Proof.
  intros Hxs Ha Hb Hc He Hpl Hpo Hpd Hbl. unfold semver_of_zerv, ext_zerv, canon_zerv, ext_semver. cbn [z_schema z_vars s_core s_extra s_build].
  set (vs := {| v_major := Some a; v_minor := Some b; v_patch := Some c; v_epoch := e;
                v_pre := match pl with Some (l, n) => Some {| pr_label := l; pr_num := Some n |} | None => None end; v_post := po; v_dev := pd;
                v_distance := None; v_dirty := None; v_bumped_branch := None; v_bumped_hash := None; v_bumped_ts := None;
                v_last_branch := None; v_last_hash := None; v_last_ts := None; v_last_tag := None; v_custom := JNull |}).
  assert (Core : sv_process_core standard_core vs O {| a_major := 0; a_minor := 0; a_patch := 0; a_pre := None; a_build := None |}
                 = {| a_major := a; a_minor := b; a_patch := c; a_pre := None; a_build := None |}).
  { unfold standard_core. cbn [sv_process_core comp_value var_value vs v_major v_minor v_patch omap].
    rewrite !uint_sanitize_print, !print_dec_nonempty, (parse_u64_print a Ha), (parse_u64_print b Hb), (parse_u64_print c Hc). reflexivity. }
  rewrite Core. cbn [a_major a_minor a_patch a_pre a_build].
  rewrite !push_fold, !push_none. f_equal.
  - f_equal. unfold ext_pre. rewrite flat_map_app, (uints_flat xs vs Hxs). f_equal.
    apply extra_flat; try assumption; reflexivity.
  - destruct bl as [l|]; [|reflexivity]. destruct Hbl as [Hne Hl]. rewrite (build_flat l vs Hl). destruct l; [congruence|reflexivity].
Qed.

Theorem ext_roundtrip xs a b c e pl po pd bl :
  Forall u64 xs -> u64 a -> u64 b -> u64 c -> opt_u64 e -> (match pl with Some (_, n) => u64 n | None => True end) -> opt_u64 po -> opt_u64 pd ->
  (match bl with Some l => l <> [] /\ Forall ident_nf l | None => True end) ->
  exists z, zerv_of_semver (ext_semver xs a b c e pl po pd bl) = Some z /\ semver_of_zerv z = ext_semver xs a b c e pl po pd bl.
Proof. intros. eexists. split; [apply ext_to_zerv|apply ext_render; assumption]. Qed.

(* ---------------- PEP 440 -> Zerv -> SemVer, any number of release numbers ---------------- *)
Lemma core_uints xs vs : Forall u64 xs -> forall acc,
  sv_process_core (map CUInt xs) vs 3 acc
  = {| a_major := a_major acc; a_minor := a_minor acc; a_patch := a_patch acc; a_pre := push_ids (a_pre acc) (map IUInt xs); a_build := a_build acc |}.
Proof.
  induction 1 as [|x xs Hx Hxs IH]; intros acc; [destruct acc; reflexivity|].
  cbn [map sv_process_core comp_value].
  rewrite uint_sanitize_print, print_dec_nonempty, (parse_u64_print x Hx). cbn [Nat.ltb Nat.leb].
  rewrite semver_sanitize_digits, print_dec_nonempty, (flatten_print x Hx), IH. cbn [a_major a_minor a_patch a_pre a_build].
  rewrite push_ids_app. reflexivity.
Qed.

Theorem pep_to_semver_ext rel xs a b c e pl po pd bl :
  (rel = [a] /\ b = 0 /\ c = 0 /\ xs = []) \/ (rel = [a; b] /\ c = 0 /\ xs = []) \/ rel = a :: b :: c :: xs ->
  Forall u64 xs -> u64 a -> u64 b -> u64 c -> opt_u64 e -> e <> Some 0 -> (match pl with Some (_, n) => u64 n | None => True end) -> opt_u64 po -> opt_u64 pd ->
  (match bl with Some l => l <> [] /\ Forall ident_nf l | None => True end) ->
  semver_of_zerv (zerv_of_pep (mkp (match e with Some n => n | None => 0 end) rel
      (match pl with Some (l, _) => Some l | None => None end) (match pl with Some (_, n) => Some n | None => None end)
      (match po with Some _ => true | None => false end) po (match pd with Some _ => true | None => false end) pd
      (match bl with Some l => Some (map lseg_of_ident l) | None => None end))) = ext_semver xs a b c e pl po pd bl.
Proof.
  intros Hrel Hxs Ha Hb Hc He He0 Hpl Hpo Hpd Hbl. unfold semver_of_zerv, zerv_of_pep, ext_semver, mkp.
  cbn [z_schema z_vars s_core s_extra s_build p_epoch p_release p_pre_label p_pre_num p_post_label p_post_num p_dev_label p_dev_num p_local].
  set (E := match e with Some n => n | None => 0 end).
  assert (Ee : (if 0 <? E then Some E else None) = e).
  { unfold E. destruct e as [n|]; [|reflexivity]. destruct (0 <? n) eqn:Z; [reflexivity|]. apply N.ltb_ge in Z. assert (n = 0) by lia. subst. congruence. }
  rewrite Ee.
  assert (Sk : skipn 3 rel = xs) by (destruct Hrel as [[-> [_ [_ ->]]]|[[-> [_ ->]]| ->]]; reflexivity). rewrite Sk.
  set (vs := {| v_major := nth_error rel 0; v_minor := nth_error rel 1; v_patch := nth_error rel 2; v_epoch := e;
                v_pre := match match pl with Some (l, _) => Some l | None => None end with
                         | Some l => Some {| pr_label := l; pr_num := match pl with Some (_, n) => Some n | None => None end |} | None => None end;
                v_post := po; v_dev := pd;
                v_distance := None; v_dirty := None; v_bumped_branch := None; v_bumped_hash := None; v_bumped_ts := None;
                v_last_branch := None; v_last_hash := None; v_last_ts := None; v_last_tag := None; v_custom := JNull |}).
  assert (Core : sv_process_core (standard_core ++ map CUInt xs) vs O {| a_major := 0; a_minor := 0; a_patch := 0; a_pre := None; a_build := None |}
                 = {| a_major := a; a_minor := b; a_patch := c; a_pre := some_if_nonempty (map IUInt xs); a_build := None |}).
  { unfold standard_core, vs. destruct Hrel as [[-> [-> [-> ->]]]|[[-> [-> ->]]| ->]];
      cbn [app map sv_process_core comp_value var_value v_major v_minor v_patch omap nth_error];
      rewrite ?uint_sanitize_print, ?print_dec_nonempty, ?(parse_u64_print a Ha), ?(parse_u64_print b Hb), ?(parse_u64_print c Hc); try reflexivity.
    cbn [Nat.ltb Nat.leb]. rewrite (core_uints xs _ Hxs). cbn [a_major a_minor a_patch a_pre a_build]. rewrite push_none. reflexivity. }
  rewrite Core. cbn [a_major a_minor a_patch a_pre a_build].
  rewrite !push_fold, <- (push_none (map IUInt xs)), push_ids_app, !push_none. f_equal.
  - f_equal. unfold ext_pre. f_equal. unfold prerelease_post_dev_extra, canon_pre. cbn [flat_map sv_extra_ids is_secondary]. rewrite app_nil_r. f_equal; [|f_equal; [|f_equal]].
    + destruct e as [n|]; [apply (secondary_epoch vs n eq_refl He)|apply (secondary_none Epoch vs eq_refl eq_refl)].
    + destruct pl as [[l n]|]; [apply (secondary_pre vs l n eq_refl Hpl)|apply (secondary_none PreRelease vs eq_refl eq_refl)].
    + destruct po as [n|]; [apply (secondary_post vs n eq_refl Hpo)|apply (secondary_none Post vs eq_refl eq_refl)].
    + destruct pd as [n|]; [apply (secondary_dev vs n eq_refl Hpd)|apply (secondary_none Dev vs eq_refl eq_refl)].
  - destruct bl as [l|]; [|reflexivity]. destruct Hbl as [Hne Hl]. cbn [option_map].
    assert (Em : map comp_of_lseg (map lseg_of_ident l) = map comp_of_ident l) by (rewrite map_map; apply map_ext; intros i; symmetry; apply comp_of_ident_lseg).
    rewrite Em, (build_flat l vs Hl). destruct l; [congruence|reflexivity].
Qed.

(* the facts of PepSemverRound.fields_facts / p_shape without the bound on the number of release numbers *)
Section Any.
Variable p : pep.
Hypothesis Hnf : pep_nf p.
Hypothesis Hloc : local_plain p.

Lemma fields_facts_any :
  Forall u32 (p_release p) /\ u32 (r0 p) /\ u32 (r1 p) /\ u32 (r2 p) /\ opt_u32_ok (f_epoch p) /\ f_epoch p <> Some 0 /\
  (match f_pre p with Some (_, n) => u32 n | None => True end) /\ opt_u32_ok (p_post_num p) /\ opt_u32_ok (p_dev_num p) /\
  (match f_build p with Some l => l <> [] /\ Forall ident_nf l /\ Forall ident_pep_nf l | None => True end).
Proof.
  destruct Hnf as [He [Hrn Hru] Hpre Hpost Hdev Hl].
  assert (R : forall i, u32 (nth i (p_release p) 0)).
  { intros i. destruct (nth_in_or_default i (p_release p) 0) as [Hin|E]; [rewrite Forall_forall in Hru; apply Hru, Hin|rewrite E; unfold u32; lia]. }
  split; [exact Hru|].
  repeat split; try apply R.
  - unfold f_epoch. destruct (0 <? p_epoch p); [exact He|exact I].
  - unfold f_epoch. destruct (0 <? p_epoch p) eqn:E; [|discriminate]. apply N.ltb_lt in E. intros K. inversion K. lia.
  - unfold f_pre. destruct (p_pre_label p) as [lb|]; [|exact I]. destruct Hpre as [n [-> Hn]]. exact Hn.
  - destruct (p_post_label p); [destruct Hpost as [n [-> Hn]]; exact Hn|rewrite Hpost; exact I].
  - destruct (p_dev_label p); [destruct Hdev as [n [-> Hn]]; exact Hn|rewrite Hdev; exact I].
  - unfold f_build, local_plain in *. destruct (p_local p) as [l|]; [|exact I]. destruct Hl as [Hne Hw]. cbn [option_map].
    split; [destruct l; [congruence|discriminate]|].
    assert (A : Forall (fun g => ident_nf (ident_of_lseg g) /\ ident_pep_nf (ident_of_lseg g)) l).
    { rewrite Forall_forall in *. intros g Hg. apply ident_nf_of_lseg; [apply Hw, Hg|apply Hloc, Hg]. }
    split; apply Forall_map; eapply Forall_impl; try exact A; intros g [H1 H2]; assumption.
Qed.

Lemma p_shape_any : p = mkp (p_epoch p) (p_release p) (match f_pre p with Some (l, _) => Some l | None => None end) (match f_pre p with Some (_, n) => Some n | None => None end)
                        (match p_post_num p with Some _ => true | None => false end) (p_post_num p)
                        (match p_dev_num p with Some _ => true | None => false end) (p_dev_num p)
                        (match f_build p with Some l => Some (map lseg_of_ident l) | None => None end).
Proof.
  destruct Hnf as [He [Hrn Hru] Hpre Hpost Hdev Hl]. destruct p as [e rel pl pn ql qn dl dn loc]. unfold mkp, f_pre, f_build.
  cbn [p_epoch p_release p_pre_label p_pre_num p_post_label p_post_num p_dev_label p_dev_num p_local] in *.
  assert (E1 : pl = match match pl, pn with Some l, Some n => Some (l, n) | _, _ => None end with Some (l, _) => Some l | None => None end)
    by (destruct pl; [destruct Hpre as [n [-> _]]|]; reflexivity).
  assert (E2 : pn = match match pl, pn with Some l, Some n => Some (l, n) | _, _ => None end with Some (_, n) => Some n | None => None end)
    by (destruct pl; [destruct Hpre as [n [-> _]]; reflexivity|exact Hpre]).
  assert (E3 : ql = match qn with Some _ => true | None => false end) by (destruct ql; [destruct Hpost as [n [-> _]]; reflexivity|rewrite Hpost; reflexivity]).
  assert (E4 : dl = match dn with Some _ => true | None => false end) by (destruct dl; [destruct Hdev as [n [-> _]]; reflexivity|rewrite Hdev; reflexivity]).
  assert (E5 : loc = match option_map (map ident_of_lseg) loc with Some l => Some (map lseg_of_ident l) | None => None end)
    by (destruct loc as [l|]; [cbn [option_map]; rewrite lseg_ident_id|]; reflexivity).
  rewrite <- E1, <- E2, <- E3, <- E4, <- E5. reflexivity.
Qed.
End Any.

Lemma release_cases_any (rel : list N) : rel <> [] ->
  (rel = [nth 0 rel 0] /\ nth 1 rel 0 = 0 /\ nth 2 rel 0 = 0 /\ skipn 3 rel = []) \/ (rel = [nth 0 rel 0; nth 1 rel 0] /\ nth 2 rel 0 = 0 /\ skipn 3 rel = [])
  \/ rel = nth 0 rel 0 :: nth 1 rel 0 :: nth 2 rel 0 :: skipn 3 rel.
Proof.
  destruct rel as [|a [|b [|c r]]]; cbn; intros H; try congruence; [left|right; left|right; right]; repeat split.
Qed.

Lemma Forall_skipn {A} (P : A -> Prop) n : forall l, Forall P l -> Forall P (skipn n l).
Proof. induction n as [|n IH]; intros l H; [exact H|]. destruct l as [|x l]; [constructor|]. cbn [skipn]. apply IH. inversion H; assumption. Qed.

(* THE FIXED POINT: the SemVer rendering of a PEP 440 version has the extended canonical shape, zerv's SemVer parser reads its text back to the same value,
   and converting that value to Zerv and rendering it as SemVer again gives it back unchanged *)
Theorem pep_semver_rendering_fixed_point p : pep_nf p -> local_plain p ->
  let sv := semver_of_zerv (zerv_of_pep p) in
  sv = ext_semver (skipn 3 (p_release p)) (r0 p) (r1 p) (r2 p) (f_epoch p) (f_pre p) (p_post_num p) (p_dev_num p) (f_build p) /\
  semver_parse (semver_print sv) = Some sv /\
  exists z, zerv_of_semver sv = Some z /\ semver_of_zerv z = sv.
Proof.
  intros Hnf Hloc. destruct (fields_facts_any p Hnf Hloc) as [Ur [U0 [U1 [U2 [Ue [Ue0 [Upl [Upo [Upd Ubl]]]]]]]]].
  assert (Epoch : match f_epoch p with Some n => n | None => 0 end = p_epoch p).
  { unfold f_epoch. destruct (0 <? p_epoch p) eqn:E; [reflexivity|]. apply N.ltb_ge in E. lia. }
  assert (Uxs : Forall u64 (skipn 3 (p_release p))).
  { apply Forall_skipn. eapply Forall_impl; [|exact Ur]. intros n; apply u32_u64. }
  assert (Hbl : match f_build p with Some l => l <> [] /\ Forall ident_nf l | None => True end).
  { destruct (f_build p) as [l|]; [|exact I]. destruct Ubl as [A [B _]]. split; assumption. }
  assert (S1 : semver_of_zerv (zerv_of_pep p)
               = ext_semver (skipn 3 (p_release p)) (r0 p) (r1 p) (r2 p) (f_epoch p) (f_pre p) (p_post_num p) (p_dev_num p) (f_build p)).
  { rewrite (p_shape_any p Hnf Hloc) at 1. rewrite <- Epoch. apply pep_to_semver_ext; try assumption.
    - apply release_cases_any. exact (proj1 (nf_release p Hnf)).
    - apply u32_u64, U0. - apply u32_u64, U1. - apply u32_u64, U2.
    - destruct (f_epoch p); [apply u32_u64, Ue|exact I].
    - destruct (f_pre p) as [[l n]|]; [apply u32_u64, Upl|exact I].
    - destruct (p_post_num p); [apply u32_u64, Upo|exact I].
    - destruct (p_dev_num p); [apply u32_u64, Upd|exact I]. }
  cbv zeta. split; [exact S1|]. split; [apply parse_back|]. rewrite S1. apply ext_roundtrip; try assumption.
  - apply u32_u64, U0. - apply u32_u64, U1. - apply u32_u64, U2.
  - destruct (f_epoch p); [apply u32_u64, Ue|exact I].
  - destruct (f_pre p) as [[l n]|]; [apply u32_u64, Upl|exact I].
  - destruct (p_post_num p); [apply u32_u64, Upo|exact I].
  - destruct (p_dev_num p); [apply u32_u64, Upd|exact I].
Qed.

(* for every string zerv's PEP 440 parser accepts *)
Theorem parsed_pep_semver_rendering_fixed_point s p : pep_parse s = Some p -> local_plain p ->
  let sv := semver_of_zerv (zerv_of_pep p) in
  semver_parse (semver_print sv) = Some sv /\ exists z, zerv_of_semver sv = Some z /\ semver_of_zerv z = sv.
Proof. intros H L. destruct (pep_semver_rendering_fixed_point p (pep_parse_nf s p H) L) as [_ R]. exact R. Qed.



(* ---------------- without the restriction on local segments: an all-digit text segment (2^32 or more, kept as text by PEP 440) is read as a number
   by the SemVer rendering when it fits u64 - the rendering is a fixed point all the same ---------------- *)
Definition ident_sem (g : lseg) : ident := match g with LStr s => classify_u64 s | LUInt n => IUInt n end.

Lemma ident_sem_nf g : lseg_nf g -> ident_nf (ident_sem g).
Proof.
  destruct g as [s|n]; cbn [lseg_nf ident_sem].
  - intros [G [U [Z P]]]. unfold classify_u64. destruct (parse_u64 s) as [n|] eqn:E.
    + cbn [ident_nf]. exact (IdentProofs.parse_u64_bound s n E).
    + cbn [ident_nf]. destruct G as [Gn Ga]. split; [split; [exact Gn|split; [exact Ga|exact Z]]|exact E].
  - intros H. apply u32_u64, H.
Qed.

Lemma local_ids g vs : lseg_nf g -> sv_build_ids (comp_of_lseg g) vs = [ident_sem g].
Proof.
  destruct g as [s|n]; cbn [lseg_nf comp_of_lseg ident_sem]; unfold sv_build_ids; cbn [comp_value].
  - intros [G [U [Z P]]]. destruct G as [Gn Ga]. assert (W : seg_wf s) by (split; [exact Gn|split; [exact Ga|exact Z]]).
    change (sanitize semver_str s) with (sanitize_to_string (custom_str (Some [c_dot]) false false None) s).
    rewrite (contract_fixed c_dot dot_not_alnum false false None s (seg_contract s W)).
    destruct s as [|x s'] eqn:Es; [congruence|]. cbn [nonempty]. rewrite <- Es in *. unfold flatten_ids.
    rewrite (split_on_cfree c_dot s (alnum_cfree c_dot dot_not_alnum s Ga)). cbn [filter]. assert (Nn : nonempty s = true) by (rewrite Es; reflexivity).
    rewrite Nn. reflexivity.
  - intros H. exact (build_ids_ident (IUInt n) vs (u32_u64 n H)).
Qed.

Lemma local_flat l vs : Forall lseg_nf l -> flat_map (fun c => sv_build_ids c vs) (map comp_of_lseg l) = map ident_sem l.
Proof. induction 1 as [|g l Hg Hl IH]; [reflexivity|]. cbn [map flat_map]. rewrite (local_ids g vs Hg), IH. reflexivity. Qed.

Theorem pep_to_semver_all rel xs a b c e pl po pd (loc : option (list lseg)) :
  (rel = [a] /\ b = 0 /\ c = 0 /\ xs = []) \/ (rel = [a; b] /\ c = 0 /\ xs = []) \/ rel = a :: b :: c :: xs ->
  Forall u64 xs -> u64 a -> u64 b -> u64 c -> opt_u64 e -> e <> Some 0 -> (match pl with Some (_, n) => u64 n | None => True end) -> opt_u64 po -> opt_u64 pd ->
  (match loc with Some l => l <> [] /\ Forall lseg_nf l | None => True end) ->
  semver_of_zerv (zerv_of_pep (mkp (match e with Some n => n | None => 0 end) rel
      (match pl with Some (l, _) => Some l | None => None end) (match pl with Some (_, n) => Some n | None => None end)
      (match po with Some _ => true | None => false end) po (match pd with Some _ => true | None => false end) pd
      loc)) = ext_semver xs a b c e pl po pd (option_map (map ident_sem) loc).
Proof.
  intros Hrel Hxs Ha Hb Hc He He0 Hpl Hpo Hpd Hbl. unfold semver_of_zerv, zerv_of_pep, ext_semver, mkp.
  cbn [z_schema z_vars s_core s_extra s_build p_epoch p_release p_pre_label p_pre_num p_post_label p_post_num p_dev_label p_dev_num p_local].
  set (E := match e with Some n => n | None => 0 end).
  assert (Ee : (if 0 <? E then Some E else None) = e).
  { unfold E. destruct e as [n|]; [|reflexivity]. destruct (0 <? n) eqn:Z; [reflexivity|]. apply N.ltb_ge in Z. assert (n = 0) by lia. subst. congruence. }
  rewrite Ee.
  assert (Sk : skipn 3 rel = xs) by (destruct Hrel as [[-> [_ [_ ->]]]|[[-> [_ ->]]| ->]]; reflexivity). rewrite Sk.
  set (vs := {| v_major := nth_error rel 0; v_minor := nth_error rel 1; v_patch := nth_error rel 2; v_epoch := e;
                v_pre := match match pl with Some (l, _) => Some l | None => None end with
                         | Some l => Some {| pr_label := l; pr_num := match pl with Some (_, n) => Some n | None => None end |} | None => None end;
                v_post := po; v_dev := pd;
                v_distance := None; v_dirty := None; v_bumped_branch := None; v_bumped_hash := None; v_bumped_ts := None;
                v_last_branch := None; v_last_hash := None; v_last_ts := None; v_last_tag := None; v_custom := JNull |}).
  assert (Core : sv_process_core (standard_core ++ map CUInt xs) vs O {| a_major := 0; a_minor := 0; a_patch := 0; a_pre := None; a_build := None |}
                 = {| a_major := a; a_minor := b; a_patch := c; a_pre := some_if_nonempty (map IUInt xs); a_build := None |}).
  { unfold standard_core, vs. destruct Hrel as [[-> [-> [-> ->]]]|[[-> [-> ->]]| ->]];
      cbn [app map sv_process_core comp_value var_value v_major v_minor v_patch omap nth_error];
      rewrite ?uint_sanitize_print, ?print_dec_nonempty, ?(parse_u64_print a Ha), ?(parse_u64_print b Hb), ?(parse_u64_print c Hc); try reflexivity.
    cbn [Nat.ltb Nat.leb]. rewrite (core_uints xs _ Hxs). cbn [a_major a_minor a_patch a_pre a_build]. rewrite push_none. reflexivity. }
  rewrite Core. cbn [a_major a_minor a_patch a_pre a_build].
  rewrite !push_fold, <- (push_none (map IUInt xs)), push_ids_app, !push_none. f_equal.
  - f_equal. unfold ext_pre. f_equal. unfold prerelease_post_dev_extra, canon_pre. cbn [flat_map sv_extra_ids is_secondary]. rewrite app_nil_r. f_equal; [|f_equal; [|f_equal]].
    + destruct e as [n|]; [apply (secondary_epoch vs n eq_refl He)|apply (secondary_none Epoch vs eq_refl eq_refl)].
    + destruct pl as [[l n]|]; [apply (secondary_pre vs l n eq_refl Hpl)|apply (secondary_none PreRelease vs eq_refl eq_refl)].
    + destruct po as [n|]; [apply (secondary_post vs n eq_refl Hpo)|apply (secondary_none Post vs eq_refl eq_refl)].
    + destruct pd as [n|]; [apply (secondary_dev vs n eq_refl Hpd)|apply (secondary_none Dev vs eq_refl eq_refl)].
  - destruct loc as [l|]; [|reflexivity]. destruct Hbl as [Hne Hl]. cbn [option_map].
    rewrite (local_flat l vs Hl). destruct l; [congruence|reflexivity].
Qed.

Lemma p_eta (p : pep) : pep_nf p -> p = mkp (p_epoch p) (p_release p) (match f_pre p with Some (l, _) => Some l | None => None end) (match f_pre p with Some (_, n) => Some n | None => None end)
                        (match p_post_num p with Some _ => true | None => false end) (p_post_num p)
                        (match p_dev_num p with Some _ => true | None => false end) (p_dev_num p) (p_local p).
Proof.
  intros [He [Hrn Hru] Hpre Hpost Hdev Hl]. destruct p as [e rel pl pn ql qn dl dn loc]. unfold mkp, f_pre.
  cbn [p_epoch p_release p_pre_label p_pre_num p_post_label p_post_num p_dev_label p_dev_num p_local] in *.
  assert (E1 : pl = match match pl, pn with Some l, Some n => Some (l, n) | _, _ => None end with Some (l, _) => Some l | None => None end)
    by (destruct pl; [destruct Hpre as [n [-> _]]|]; reflexivity).
  assert (E2 : pn = match match pl, pn with Some l, Some n => Some (l, n) | _, _ => None end with Some (_, n) => Some n | None => None end)
    by (destruct pl; [destruct Hpre as [n [-> _]]; reflexivity|exact Hpre]).
  assert (E3 : ql = match qn with Some _ => true | None => false end) by (destruct ql; [destruct Hpost as [n [-> _]]; reflexivity|rewrite Hpost; reflexivity]).
  assert (E4 : dl = match dn with Some _ => true | None => false end) by (destruct dl; [destruct Hdev as [n [-> _]]; reflexivity|rewrite Hdev; reflexivity]).
  rewrite <- E1, <- E2, <- E3, <- E4. reflexivity.
Qed.

(* THE FIXED POINT FOR EVERY PEP 440 VALUE IN NORMAL FORM - no condition on the local segments *)
Theorem pep_semver_rendering_fixed_point_all p : pep_nf p ->
  let sv := semver_of_zerv (zerv_of_pep p) in
  sv = ext_semver (skipn 3 (p_release p)) (r0 p) (r1 p) (r2 p) (f_epoch p) (f_pre p) (p_post_num p) (p_dev_num p) (option_map (map ident_sem) (p_local p)) /\
  semver_parse (semver_print sv) = Some sv /\
  exists z, zerv_of_semver sv = Some z /\ semver_of_zerv z = sv.
Proof.
  intros Hnf. pose proof Hnf as [He [Hrn Hru] Hpre Hpost Hdev Hl].
  assert (R : forall i, u64 (nth i (p_release p) 0)).
  { intros i. apply u32_u64. destruct (nth_in_or_default i (p_release p) 0) as [Hin|E]; [rewrite Forall_forall in Hru; apply Hru, Hin|rewrite E; unfold u32; lia]. }
  assert (Ue : opt_u64 (f_epoch p)) by (unfold f_epoch; destruct (0 <? p_epoch p); [apply u32_u64, He|exact I]).
  assert (Ue0 : f_epoch p <> Some 0).
  { unfold f_epoch. destruct (0 <? p_epoch p) eqn:E; [|discriminate]. apply N.ltb_lt in E. intros K. inversion K. lia. }
  assert (Upl : match f_pre p with Some (_, n) => u64 n | None => True end).
  { unfold f_pre. destruct (p_pre_label p) as [lb|]; [|exact I]. destruct Hpre as [n [-> Hn]]. apply u32_u64, Hn. }
  assert (Upo : opt_u64 (p_post_num p)) by (destruct (p_post_label p); [destruct Hpost as [n [-> Hn]]; apply u32_u64, Hn|rewrite Hpost; exact I]).
  assert (Upd : opt_u64 (p_dev_num p)) by (destruct (p_dev_label p); [destruct Hdev as [n [-> Hn]]; apply u32_u64, Hn|rewrite Hdev; exact I]).
  assert (Epoch : match f_epoch p with Some n => n | None => 0 end = p_epoch p).
  { unfold f_epoch. destruct (0 <? p_epoch p) eqn:E; [reflexivity|]. apply N.ltb_ge in E. lia. }
  assert (Uxs : Forall u64 (skipn 3 (p_release p))).
  { apply Forall_skipn. eapply Forall_impl; [|exact Hru]. intros n; apply u32_u64. }
  assert (Hbl : match option_map (map ident_sem) (p_local p) with Some l => l <> [] /\ Forall ident_nf l | None => True end).
  { destruct (p_local p) as [l|]; [|exact I]. cbn [option_map]. destruct Hl as [Hne Hw]. split; [destruct l; [congruence|discriminate]|].
    apply Forall_map. eapply Forall_impl; [|exact Hw]. intros g; apply ident_sem_nf. }
  assert (S1 : semver_of_zerv (zerv_of_pep p)
               = ext_semver (skipn 3 (p_release p)) (r0 p) (r1 p) (r2 p) (f_epoch p) (f_pre p) (p_post_num p) (p_dev_num p) (option_map (map ident_sem) (p_local p))).
  { rewrite (p_eta p Hnf) at 1. rewrite <- Epoch. apply pep_to_semver_all; try assumption; try apply R.
    apply release_cases_any. exact Hrn. }
  cbv zeta. split; [exact S1|]. split; [apply parse_back|]. rewrite S1. apply ext_roundtrip; try assumption; apply R.
Qed.

Theorem render_pep_to_semver_fixed_point_all s p : pep_parse s = Some p ->
  exists t, render_cmd FPep440 FSemver [] s = OOk t /\ render_cmd FSemver FSemver [] t = OOk t /\ render_cmd FAuto FSemver [] t = OOk t.
Proof.
  intros H. destruct (pep_semver_rendering_fixed_point_all p (pep_parse_nf s p H)) as [_ [P [z [Z R]]]].
  exists (semver_print (semver_of_zerv (zerv_of_pep p))). split; [|split].
  - unfold render_cmd, parse_version. rewrite H. reflexivity.
  - unfold render_cmd, parse_version. rewrite P, Z. cbn [format_zerv]. rewrite R. reflexivity.
  - unfold render_cmd, parse_version. rewrite P, Z. cbn [format_zerv]. rewrite R. reflexivity.
Qed.

(* the same at the command:  zerv render <pep440> -f pep440 --output-format semver  prints a text that  zerv render -f semver|auto --output-format semver
   prints back unchanged *)
Theorem render_pep_to_semver_fixed_point s p : pep_parse s = Some p -> local_plain p ->
  exists t, render_cmd FPep440 FSemver [] s = OOk t /\ render_cmd FSemver FSemver [] t = OOk t /\ render_cmd FAuto FSemver [] t = OOk t.
Proof.
  intros H L. destruct (parsed_pep_semver_rendering_fixed_point s p H L) as [P [z [Z R]]].
  exists (semver_print (semver_of_zerv (zerv_of_pep p))). split; [|split].
  - unfold render_cmd, parse_version. rewrite H. reflexivity.
  - unfold render_cmd, parse_version. rewrite P, Z. cbn [format_zerv]. rewrite R. reflexivity.
  - unfold render_cmd, parse_version. rewrite P, Z. cbn [format_zerv]. rewrite R. reflexivity.
Qed.

Print Assumptions pep_semver_rendering_fixed_point.
Print Assumptions render_pep_to_semver_fixed_point.
Print Assumptions ext_roundtrip.
Print Assumptions pep_semver_rendering_fixed_point_all.
Print Assumptions render_pep_to_semver_fixed_point_all.
