(* The language of the strings zerv prints for a SemVer version, written over the character classes regenerated with the source
   and BNF regexes (Gen/RegexSrc.v), is included in the SemVer 2.0.0 BNF language.  Decided by `ka` on every run. *)
From RelationAlgebra Require Import kleene regex ka_completeness lang kat_tac.
From ZV Require Import RegexSrc RxLang.

(* a canonical decimal numeral *)
Definition sv_num_r : regex' := r_pls semver_cls_zero (r_dot semver_cls_posdigit (r_str semver_cls_digit)).
(* an identifier zerv can print: a canonical numeral, or ASCII letters and digits with at least one letter *)
Definition sv_id_r : regex' := r_pls sv_num_r (r_dot (r_str semver_cls_digit) (r_dot semver_cls_alpha (r_str semver_cls_alnum))).
Definition sv_ids_r : regex' := r_dot sv_id_r (r_str (r_dot semver_cls_dot sv_id_r)).
Definition sv_out_r : regex' :=
  r_dot sv_num_r (r_dot semver_cls_dot (r_dot sv_num_r (r_dot semver_cls_dot (r_dot sv_num_r
    (r_dot (r_pls r_one (r_dot semver_cls_dash sv_ids_r)) (r_pls r_one (r_dot semver_cls_plus sv_ids_r))))))).

Lemma sv_out_ka : (sv_out_r : regex') ≦ semver_spec.
Proof.
  unfold sv_out_r, sv_ids_r, sv_id_r, sv_num_r, semver_cls_zero, semver_cls_posdigit, semver_cls_digit, semver_cls_alpha, semver_cls_alnum,
         semver_cls_dot, semver_cls_dash, semver_cls_plus, semver_spec.
  ka.
Qed.

Theorem sv_out_in_bnf : forall w, regex.lang sv_out_r w -> regex.lang semver_spec w.
Proof. exact (lang_incl _ _ sv_out_ka). Qed.

(* ---- PEP 440: the language of printed (normal-form) strings is included in Appendix B ---- *)
Definition pp_num_r : regex' := r_dot pep440_cls_digit (r_str pep440_cls_digit).
Definition pp_seg_r : regex' := r_dot pep440_cls_alnum (r_str pep440_cls_alnum).
Definition pp_optnum_r : regex' := r_pls r_one pp_num_r.
Definition pp_out_r : regex' :=
  r_dot (r_pls r_one (r_dot pp_num_r pep440_cls_bang))
  (r_dot pp_num_r (r_dot (r_str (r_dot pep440_cls_dot pp_num_r))
  (r_dot (r_pls r_one (r_dot (r_pls pep440_cls_la (r_pls pep440_cls_lb pep440_cls_lrc)) pp_optnum_r))
  (r_dot (r_pls r_one (r_dot pep440_cls_dot (r_dot pep440_cls_post pp_optnum_r)))
  (r_dot (r_pls r_one (r_dot pep440_cls_dot (r_dot pep440_cls_dev pp_optnum_r)))
         (r_pls r_one (r_dot pep440_cls_plus (r_dot pp_seg_r (r_str (r_dot pep440_cls_dot pp_seg_r)))))))))).

Lemma pp_out_ka : (pp_out_r : regex') ≦ pep440_spec.
Proof.
  unfold pp_out_r, pp_optnum_r, pp_seg_r, pp_num_r, pep440_cls_digit, pep440_cls_alnum, pep440_cls_dot, pep440_cls_plus, pep440_cls_bang,
         pep440_cls_la, pep440_cls_lb, pep440_cls_lrc, pep440_cls_post, pep440_cls_dev, pep440_spec.
  ka.
Qed.

Theorem pp_out_in_appendix_b : forall w, regex.lang pp_out_r w -> regex.lang pep440_spec w.
Proof. exact (lang_incl _ _ pp_out_ka). Qed.

(* ---- the BNF language in a shape convenient for inversion, over the regenerated classes; inclusion decided by ka on every run ---- *)
Definition idc_r : regex' := r_pls semver_cls_alnum semver_cls_dash.
Definition nd_r : regex' := r_pls semver_cls_alpha semver_cls_dash.
Definition preid_r : regex' := r_pls sv_num_r (r_dot (r_str idc_r) (r_dot nd_r (r_str idc_r))).
Definition buildid_r : regex' := r_dot idc_r (r_str idc_r).
Definition pre_r : regex' := r_dot preid_r (r_str (r_dot semver_cls_dot preid_r)).
Definition build_r : regex' := r_dot buildid_r (r_str (r_dot semver_cls_dot buildid_r)).
Definition sv_in_r : regex' :=
  r_dot (r_pls r_one semver_cls_vee)
  (r_dot sv_num_r (r_dot semver_cls_dot (r_dot sv_num_r (r_dot semver_cls_dot (r_dot sv_num_r
    (r_dot (r_pls r_one (r_dot semver_cls_dash pre_r)) (r_pls r_one (r_dot semver_cls_plus build_r)))))))).

Lemma sv_in_ka : (semver_spec : regex') ≦ sv_in_r.
Proof.
  unfold sv_in_r, build_r, pre_r, buildid_r, preid_r, nd_r, idc_r, sv_num_r, semver_cls_zero, semver_cls_posdigit, semver_cls_digit, semver_cls_alpha, semver_cls_alnum,
         semver_cls_dot, semver_cls_dash, semver_cls_plus, semver_cls_vee, semver_spec.
  ka.
Qed.


(* ---- Appendix B in a shape convenient for inversion (Proofs/PepAccept.v), over the regenerated classes; inclusion decided by ka ---- *)
Definition pi_num_r : regex' := r_dot pep440_cls_digit (r_str pep440_cls_digit).
Definition pi_optnum_r : regex' := r_pls r_one pi_num_r.
Definition pi_optsep_r : regex' := r_pls r_one pep440_cls_sep.
Definition w2 (a b : regex') : regex' := r_dot a b.
Definition w3 (a b c : regex') : regex' := r_dot a (r_dot b c).
Definition w4 (a b c d : regex') : regex' := r_dot a (r_dot b (r_dot c d)).
Definition w5 (a b c d e : regex') : regex' := r_dot a (r_dot b (r_dot c (r_dot d e))).
Definition w7 (a b c d e f g : regex') : regex' := r_dot a (r_dot b (r_dot c (r_dot d (r_dot e (r_dot f g))))).
Definition W_alpha := w5 pep440_cls_ci_a pep440_cls_ci_l pep440_cls_ci_p pep440_cls_ci_h pep440_cls_ci_a.
Definition W_beta := w4 pep440_cls_ci_b pep440_cls_ci_e pep440_cls_ci_t pep440_cls_ci_a.
Definition W_preview := w7 pep440_cls_ci_p pep440_cls_ci_r pep440_cls_ci_e pep440_cls_ci_v pep440_cls_ci_i pep440_cls_ci_e pep440_cls_ci_w.
Definition W_pre := w3 pep440_cls_ci_p pep440_cls_ci_r pep440_cls_ci_e.
Definition W_rc := w2 pep440_cls_ci_r pep440_cls_ci_c.
Definition W_post := w4 pep440_cls_ci_p pep440_cls_ci_o pep440_cls_ci_s pep440_cls_ci_t.
Definition W_rev := w3 pep440_cls_ci_r pep440_cls_ci_e pep440_cls_ci_v.
Definition W_dev := w3 pep440_cls_ci_d pep440_cls_ci_e pep440_cls_ci_v.
Definition pi_prelabel_r : regex' :=
  r_pls W_alpha (r_pls pep440_cls_ci_a (r_pls W_beta (r_pls pep440_cls_ci_b (r_pls W_preview (r_pls W_pre (r_pls pep440_cls_ci_c W_rc)))))).
Definition pi_postlabel_r : regex' := r_pls W_post (r_pls W_rev pep440_cls_ci_r).
Definition pi_pre_r : regex' := r_dot pi_optsep_r (r_dot pi_prelabel_r (r_dot pi_optsep_r pi_optnum_r)).
Definition pi_post_r : regex' := r_pls (r_dot pep440_cls_dash pi_num_r) (r_dot pi_optsep_r (r_dot pi_postlabel_r (r_dot pi_optsep_r pi_optnum_r))).
Definition pi_dev_r : regex' := r_dot pi_optsep_r (r_dot W_dev (r_dot pi_optsep_r pi_optnum_r)).
Definition pi_seg_r : regex' := r_dot pep440_cls_alnum (r_str pep440_cls_alnum).
Definition pi_local_r : regex' := r_dot pep440_cls_plus (r_dot pi_seg_r (r_str (r_dot pep440_cls_sep pi_seg_r))).
Definition pp_in_r : regex' :=
  r_dot (r_pls r_one pep440_cls_ci_v)
  (r_dot (r_pls r_one (r_dot pi_num_r pep440_cls_bang))
  (r_dot pi_num_r (r_dot (r_str (r_dot pep440_cls_dot pi_num_r))
  (r_dot (r_pls r_one pi_pre_r) (r_dot (r_pls r_one pi_post_r) (r_dot (r_pls r_one pi_dev_r) (r_pls r_one pi_local_r))))))).

Lemma pp_in_ka : (pep440_spec : regex') ≦ pp_in_r.
Proof.
  unfold pp_in_r, pi_local_r, pi_seg_r, pi_dev_r, pi_post_r, pi_pre_r, pi_postlabel_r, pi_prelabel_r, W_dev, W_rev, W_post, W_rc, W_pre, W_preview, W_beta, W_alpha,
         w7, w5, w4, w3, w2, pi_optsep_r, pi_optnum_r, pi_num_r,
         pep440_cls_digit, pep440_cls_alnum, pep440_cls_dot, pep440_cls_plus, pep440_cls_bang, pep440_cls_sep, pep440_cls_dash,
         pep440_cls_ci_a, pep440_cls_ci_b, pep440_cls_ci_c, pep440_cls_ci_d, pep440_cls_ci_e, pep440_cls_ci_h, pep440_cls_ci_i, pep440_cls_ci_l,
         pep440_cls_ci_o, pep440_cls_ci_p, pep440_cls_ci_r, pep440_cls_ci_s, pep440_cls_ci_t, pep440_cls_ci_v, pep440_cls_ci_w, pep440_spec.
  ka.
Qed.

(* the part of sv_in_r after the optional v is itself within the BNF language (v is optional) *)
Definition sv_rest_r : regex' :=
  r_dot sv_num_r (r_dot semver_cls_dot (r_dot sv_num_r (r_dot semver_cls_dot (r_dot sv_num_r
    (r_dot (r_pls r_one (r_dot semver_cls_dash pre_r)) (r_pls r_one (r_dot semver_cls_plus build_r))))))).
Lemma sv_rest_ka : (sv_rest_r : regex') ≦ semver_spec.
Proof.
  unfold sv_rest_r, build_r, pre_r, buildid_r, preid_r, nd_r, idc_r, sv_num_r, semver_cls_zero, semver_cls_posdigit, semver_cls_digit, semver_cls_alpha, semver_cls_alnum,
         semver_cls_dot, semver_cls_dash, semver_cls_plus, semver_spec.
  ka.
Qed.

(* the part of pp_in_r after the optional v, and pp_in_r itself, are within Appendix B (the v is optional, the two regexes are in fact equal) *)
Definition pp_rest_r : regex' :=
  r_dot (r_pls r_one (r_dot pi_num_r pep440_cls_bang))
  (r_dot pi_num_r (r_dot (r_str (r_dot pep440_cls_dot pi_num_r))
  (r_dot (r_pls r_one pi_pre_r) (r_dot (r_pls r_one pi_post_r) (r_dot (r_pls r_one pi_dev_r) (r_pls r_one pi_local_r)))))).
Lemma pp_rest_ka : (pp_rest_r : regex') ≦ pep440_spec.
Proof.
  unfold pp_rest_r, pi_local_r, pi_seg_r, pi_dev_r, pi_post_r, pi_pre_r, pi_postlabel_r, pi_prelabel_r, W_dev, W_rev, W_post, W_rc, W_pre, W_preview, W_beta, W_alpha,
         w7, w5, w4, w3, w2, pi_optsep_r, pi_optnum_r, pi_num_r,
         pep440_cls_digit, pep440_cls_alnum, pep440_cls_dot, pep440_cls_plus, pep440_cls_bang, pep440_cls_sep, pep440_cls_dash,
         pep440_cls_ci_a, pep440_cls_ci_b, pep440_cls_ci_c, pep440_cls_ci_d, pep440_cls_ci_e, pep440_cls_ci_h, pep440_cls_ci_i, pep440_cls_ci_l,
         pep440_cls_ci_o, pep440_cls_ci_p, pep440_cls_ci_r, pep440_cls_ci_s, pep440_cls_ci_t, pep440_cls_ci_v, pep440_cls_ci_w, pep440_spec.
  ka.
Qed.
Lemma pp_vrest_ka : (r_dot pep440_cls_ci_v pp_rest_r : regex') ≦ pep440_spec.
Proof.
  unfold pp_rest_r, pi_local_r, pi_seg_r, pi_dev_r, pi_post_r, pi_pre_r, pi_postlabel_r, pi_prelabel_r, W_dev, W_rev, W_post, W_rc, W_pre, W_preview, W_beta, W_alpha,
         w7, w5, w4, w3, w2, pi_optsep_r, pi_optnum_r, pi_num_r,
         pep440_cls_digit, pep440_cls_alnum, pep440_cls_dot, pep440_cls_plus, pep440_cls_bang, pep440_cls_sep, pep440_cls_dash,
         pep440_cls_ci_a, pep440_cls_ci_b, pep440_cls_ci_c, pep440_cls_ci_d, pep440_cls_ci_e, pep440_cls_ci_h, pep440_cls_ci_i, pep440_cls_ci_l,
         pep440_cls_ci_o, pep440_cls_ci_p, pep440_cls_ci_r, pep440_cls_ci_s, pep440_cls_ci_t, pep440_cls_ci_v, pep440_cls_ci_w, pep440_spec.
  ka.
Qed.
