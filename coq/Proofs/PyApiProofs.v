(* C18: what _extend_args appends, and parity of the regenerated Python tables with the regenerated clap tables. *)
From Coq Require Import ZArith Lia.
From ZV Require Import Str Dec PyApi PyApiGen FlowProofs.
Open Scope N_scope.

Definition arg_of (fv : str * pyval) : list str :=
  match snd fv with
  | PNone | PBool false => []
  | PBool true => [fst fv]
  | v => [fst fv; py_str v]
  end.

Theorem extend_args_spec flags : forall args, extend_args args flags = args ++ flat_map arg_of flags.
Proof.
  induction flags as [|[f v] rest IH]; intros args; cbn [extend_args flat_map]; [rewrite app_nil_r; reflexivity|].
  destruct v as [|[|]|z|s]; rewrite IH; unfold arg_of; cbn [fst snd]; rewrite <- ?app_assoc; reflexivity.
Qed.

(* None and False add nothing *)
Theorem none_false_add_nothing args flags :
  (forall fv, In fv flags -> snd fv = PNone \/ snd fv = PBool false) -> extend_args args flags = args.
Proof.
  intros H. rewrite extend_args_spec. assert (E : flat_map arg_of flags = []).
  { induction flags as [|fv rest IH]; [reflexivity|]. cbn. rewrite IH; [|intros x Hx; apply H; right; exact Hx].
    destruct (H fv (or_introl eq_refl)) as [K|K]; unfold arg_of; rewrite K; reflexivity. }
  rewrite E. apply app_nil_r.
Qed.

(* one keyword given, all others None: exactly that flag (and its value) follows the fixed arguments *)
Lemma lookup_single k v k' : kw_lookup k' [(k, v)] = if str_eqb k' k then v else PNone.
Proof. reflexivity. Qed.

(* ---- parity over the regenerated tables (finite, decided by computation) ---- *)
Theorem parity_version : parity_ok py_version_keywords py_version_table clap_version_flags py_version_passes_stdin = true.
Proof. vm_compute. reflexivity. Qed.
Theorem parity_flow : parity_ok py_flow_keywords py_flow_table clap_flow_flags py_flow_passes_stdin = true.
Proof. vm_compute. reflexivity. Qed.
Theorem parity_check : parity_ok py_check_keywords py_check_table clap_check_flags py_check_passes_stdin = true.
Proof. vm_compute. reflexivity. Qed.
Theorem parity_render : parity_ok py_render_keywords py_render_table clap_render_flags py_render_passes_stdin = true.
Proof. vm_compute. reflexivity. Qed.

Theorem extend_args_is_the_modelled_loop : extend_args_source_matches = true.
Proof. vm_compute. reflexivity. Qed.

(* the positional version string of check / render is passed and accepted *)
Theorem positional_parity :
  py_check_base = [(false, [99;104;101;99;107]); (true, [118;101;114;115;105;111;110])] /\ clap_check_positional = true /\
  py_render_base = [(false, [114;101;110;100;101;114]); (true, [118;101;114;115;105;111;110])] /\ clap_render_positional = true /\
  py_version_base = [(false, [118;101;114;115;105;111;110])] /\ py_flow_base = [(false, [102;108;111;119])].
Proof. vm_compute. repeat split. Qed.

(* lifting: what parity_ok gives for each table entry *)
Theorem parity_entry keywords table clap st flag kw :
  parity_ok keywords table clap st = true -> In (flag, kw) table ->
  exists is_bool long short arity,
    In (kw, is_bool) keywords /\ In (long, short, arity) clap /\
    (flag = [45;45] ++ long \/ exists s, short = Some s /\ flag = 45 :: s) /\
    long = long_of_kw kw /\ (if is_bool then arity = 0 else arity <> 0).
Proof.
  unfold parity_ok. rewrite !andb_true_iff. intros [[[H _] _] _] Hin. rewrite forallb_forall in H. specialize (H _ Hin).
  unfold entry_ok in H.
  destruct (find (fun kb => str_eqb (fst kb) kw) keywords) as [[k b]|] eqn:Ek; [|discriminate].
  destruct (find (denotes flag) clap) as [[[long short] arity]|] eqn:Ec; [|discriminate].
  apply andb_true_iff in H. destruct H as [H1 H2].
  apply find_some in Ek. destruct Ek as [Ek1 Ek2]. cbn in Ek2. apply str_eqb_eq in Ek2. subst k.
  apply find_some in Ec. destruct Ec as [Ec1 Ec2]. cbn in Ec2.
  exists b, long, short, arity. split; [exact Ek1|]. split; [exact Ec1|]. split.
  - apply orb_true_iff in Ec2. destruct Ec2 as [E|E]; [left; apply str_eqb_eq, E|].
    destruct short as [s|]; [|discriminate]. right. exists s. split; [reflexivity|apply str_eqb_eq, E].
  - split; [apply str_eqb_eq, H1|]. destruct b; [apply N.eqb_eq, H2|apply negb_true_iff in H2; apply N.eqb_neq, H2].
Qed.
