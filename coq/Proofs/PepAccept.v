(* C09: the PEP 440 parser accepts EXACTLY the members of Appendix B whose captured numbers fit u32:
   every member of the Appendix B language (any spelling: case, separators, alternative labels, leading zeros, v prefix, implicit numbers,
   the -N post form) is split into captures by the backtracking scanner, and the conversion of the captures fails only on a number >= 2^32. *)
From Coq Require Import Lia.
From ZV Require Import Str Dec Sanitize SanitizeSpec StrFacts DecFacts SanitizeProofs Zerv Render Pep440 Convert NoPanicProofs IdentProofs PepWfProofs Pep440Nf PepRoundTrip
                       PepParseBack PepParseNf Rx RegexSrc RxLang RegexEquiv GrammarKa GrammarProofs LangInv.
From RelationAlgebra Require regex.
Open Scope N_scope.

(* ================= scanner completeness on shapes (no regex here) ================= *)
Lemma first_some_complete {A B} (f : A -> option B) l x : In x l -> f x <> None -> first_some f l <> None.
Proof.
  induction l as [|y l IH]; [intros []|]. intros Hi Hx. rewrite first_some_cons. destruct (f y) eqn:E; [discriminate|].
  destruct Hi as [->|Hi]; [congruence|apply IH; assumption].
Qed.

Definition digits (d : str) : Prop := all_b is_ascii_digit d = true.
Definition optsep (sp : str) : Prop := sp = [] \/ exists c, sp = [c] /\ sep_char c = true.

Lemma opt_sep_in sp rest : optsep sp -> In rest (opt_sep (sp ++ rest)).
Proof.
  intros [->|[c [-> Hc]]].
  - cbn [app]. unfold opt_sep. destruct rest as [|x t]; [left; reflexivity|]. destruct (sep_char x); [right; left; reflexivity|left; reflexivity].
  - cbn [app]. unfold opt_sep. rewrite Hc. left. reflexivity.
Qed.

Lemma ci_prefix_lower w : forall t, ci_prefix (map ascii_lower w) (w ++ t) = Some t.
Proof. induction w as [|x w IH]; intros t; [reflexivity|]. cbn [map app ci_prefix]. rewrite N.eqb_refl. apply IH. Qed.

Lemma opt_digits_in d rest : digits d -> no_digit_ahead rest -> exists a, In (a, rest) (opt_digits (d ++ rest)).
Proof.
  intros Hd Hr. unfold opt_digits. rewrite (span_digits_app d rest (proj1 (all_b_Forall _ _) Hd) Hr).
  destruct d as [|x t]; [exists None; left; reflexivity|exists (Some (x :: t)); left; reflexivity].
Qed.

(* [sep] label [sep] [digits] with the label spelled in any case *)
Definition labelled (lits : list str) (x : str) : Prop :=
  exists sp1 w sp2 d, x = sp1 ++ w ++ sp2 ++ d /\ optsep sp1 /\ In (map ascii_lower w) lits /\ optsep sp2 /\ digits d.

Lemma labelled_tail {B} (k : option str -> str -> option B) sp2 d rest : optsep sp2 -> digits d -> no_digit_ahead rest ->
  (forall a, k a rest <> None) ->
  first_some (fun s3 => first_some (fun '(n, s4) => k n s4) (opt_digits s3)) (opt_sep (sp2 ++ d ++ rest)) <> None.
Proof.
  intros H2 Hd Hr Hk. apply (first_some_complete _ _ (d ++ rest)); [apply opt_sep_in, H2|].
  destruct (opt_digits_in d rest Hd Hr) as [a Ha]. apply (first_some_complete _ _ (a, rest) Ha). apply Hk.
Qed.

Lemma scan_dev_complete {B} (k : option (option str) -> str -> option B) x rest : labelled [L_dev] x -> no_digit_ahead rest ->
  (forall a, k a rest <> None) -> scan_dev k (x ++ rest) <> None.
Proof.
  intros [sp1 [w [sp2 [d [-> [H1 [Hw [H2 Hd]]]]]]]] Hr Hk. unfold scan_dev.
  match goal with |- match ?X with _ => _ end <> None => assert (E : X <> None); [|destruct X; [discriminate|congruence]] end.
  rewrite <- !app_assoc. apply (first_some_complete _ _ (w ++ sp2 ++ d ++ rest)); [apply opt_sep_in, H1|].
  destruct Hw as [Hw|[]]. cbv beta. rewrite Hw, ci_prefix_lower. apply (labelled_tail (fun n => k (Some n))); try assumption. intros a. apply Hk.
Qed.

Lemma scan_dev_absent {B} (k : option (option str) -> str -> option B) s : k None s <> None -> scan_dev k s <> None.
Proof. intros H. unfold scan_dev. match goal with |- match ?X with _ => _ end <> None => destruct X; [discriminate|exact H] end. Qed.

Definition post_shape (x : str) : Prop := (exists d, x = c_dash :: d /\ d <> [] /\ digits d) \/ labelled post_labels x.

Lemma scan_post_complete {B} (k : option (option str) -> str -> option B) x rest : post_shape x -> no_digit_ahead rest ->
  (forall a, k a rest <> None) -> scan_post k (x ++ rest) <> None.
Proof.
  intros Hx Hr Hk. unfold scan_post.
  match goal with |- match ?X with _ => _ end <> None => destruct X as [r0|] eqn:E1; [discriminate|] end.
  match goal with |- match ?X with _ => _ end <> None => assert (E : X <> None); [|destruct X; [discriminate|congruence]] end.
  destruct Hx as [[d [-> [Hne Hd]]]|[sp1 [w [sp2 [d [-> [H1 [Hw [H2 Hd]]]]]]]]].
  - (* the -N form: the first alternative succeeds, so E1 is impossible *)
    exfalso. cbn [app] in E1. change (c_dash =? 45) with true in E1. cbv iota in E1.
    rewrite (span_digits_app d rest (proj1 (all_b_Forall _ _) Hd) Hr) in E1. destruct d as [|y t]; [congruence|]. apply (Hk _ E1).
  - rewrite <- !app_assoc. apply (first_some_complete _ _ (w ++ sp2 ++ d ++ rest)); [apply opt_sep_in, H1|].
    apply (first_some_complete _ _ (map ascii_lower w) Hw). cbv beta. rewrite ci_prefix_lower. apply (labelled_tail (fun n => k (Some n))); try assumption. intros a. apply Hk.
Qed.

Lemma scan_post_absent {B} (k : option (option str) -> str -> option B) s : k None s <> None -> scan_post k s <> None.
Proof.
  intros H. unfold scan_post. match goal with |- match ?X with _ => _ end <> None => destruct X; [discriminate|] end.
  match goal with |- match ?X with _ => _ end <> None => destruct X; [discriminate|exact H] end.
Qed.

Lemma scan_pre_complete {B} (k : option (label * option str) -> str -> option B) x rest : labelled (map fst pre_labels) x -> no_digit_ahead rest ->
  (forall a, k a rest <> None) -> scan_pre k (x ++ rest) <> None.
Proof.
  intros [sp1 [w [sp2 [d [-> [H1 [Hw [H2 Hd]]]]]]]] Hr Hk. unfold scan_pre.
  match goal with |- match ?X with _ => _ end <> None => assert (E : X <> None); [|destruct X; [discriminate|congruence]] end.
  rewrite <- !app_assoc. apply (first_some_complete _ _ (w ++ sp2 ++ d ++ rest)); [apply opt_sep_in, H1|].
  apply in_map_iff in Hw. destruct Hw as [[l lab] [El Hin]]. cbn [fst] in El. subst l.
  apply (first_some_complete _ _ (map ascii_lower w, lab) Hin). cbv beta iota. rewrite ci_prefix_lower.
  apply (labelled_tail (fun n => k (Some (lab, n)))); try assumption. intros a. apply Hk.
Qed.

Lemma scan_pre_absent {B} (k : option (label * option str) -> str -> option B) s : k None s <> None -> scan_pre k s <> None.
Proof. intros H. unfold scan_pre. match goal with |- match ?X with _ => _ end <> None => destruct X; [discriminate|exact H] end. Qed.

(* ---- release: the longest option is the whole release ---- *)
Definition dnum (d : str) : Prop := d <> [] /\ digits d.
Definition rel_tail_s (l : list str) : str := flat_map (fun d => c_dot :: d) l.

Lemma span_dnum d rest : dnum d -> no_digit_ahead rest -> span is_ascii_digit (d ++ rest) = (d, rest).
Proof. intros [_ Hd] Hr. apply span_digits_app; [apply all_b_Forall, Hd|exact Hr]. Qed.

Lemma release_more_spec_s l : forall fuel acc rest opts, (length l <= fuel)%nat -> Forall dnum l -> rel_stop rest ->
  exists opts', release_more fuel acc (rel_tail_s l ++ rest) opts = (rev acc ++ l, rest) :: opts'.
Proof.
  induction l as [|d l IH]; intros fuel acc rest opts Hf Hl Hr; cbn [rel_tail_s flat_map map app].
  - rewrite app_nil_r. exists opts. destruct fuel as [|f]; [reflexivity|]. cbn [release_more].
    destruct rest as [|c t]; [reflexivity|]. cbn in Hr. destruct (c =? 46) eqn:E; [|reflexivity].
    change 46 with c_dot in E. rewrite E in Hr. destruct Hr as [Hd Hne]. destruct t as [|x t']; [congruence|]. cbn in Hd. cbn [span]. rewrite Hd. reflexivity.
  - fold (rel_tail_s l). inversion Hl as [|? ? Hd Hl']; subst. destruct fuel as [|f]; [cbn in Hf; lia|]. cbn [release_more]. change (c_dot =? 46) with true. cbv iota.
    rewrite <- app_assoc.
    assert (Nd : no_digit_ahead (rel_tail_s l ++ rest)) by (destruct l as [|m l']; [cbn; apply rel_stop_no_digit, Hr|reflexivity]).
    rewrite (span_dnum d _ Hd Nd). destruct Hd as [Hn Hdd]. destruct d as [|x t] eqn:E; [congruence|]. rewrite <- E.
    destruct (IH f (d :: acc) rest ((rev acc, c_dot :: d ++ rel_tail_s l ++ rest) :: opts) ltac:(cbn in Hf; lia) Hl' Hr) as [o' Ho].
    exists o'. etransitivity; [exact Ho|]. cbn [rev]. rewrite <- app_assoc. reflexivity.
Qed.

Lemma release_options_spec_s d l rest : dnum d -> Forall dnum l -> rel_stop rest ->
  exists opts', release_options ((d ++ rel_tail_s l) ++ rest) = (d :: l, rest) :: opts'.
Proof.
  intros Hd Hl Hr. rewrite <- app_assoc. unfold release_options.
  assert (Nd : no_digit_ahead (rel_tail_s l ++ rest)) by (destruct l as [|m l']; [cbn; apply rel_stop_no_digit, Hr|reflexivity]).
  rewrite (span_dnum d _ Hd Nd). destruct Hd as [Hn Hdd]. destruct d as [|x t] eqn:E; [congruence|]. rewrite <- E.
  destruct (release_more_spec_s l (length (rel_tail_s l ++ rest)) [d] rest [] ) as [o' Ho]; [|exact Hl|exact Hr|].
  - unfold rel_tail_s. rewrite app_length. clear. induction l as [|m l IH]; [cbn; lia|]. cbn [flat_map length]. rewrite app_length. cbn [length] in *. lia.
  - exists o'. rewrite Ho. reflexivity.
Qed.

(* ---- local part with any separators ---- *)
Definition local_shape (x : str) : Prop :=
  exists seg segs, x = c_plus :: seg ++ flat_map (fun cg : cp * str => fst cg :: snd cg) segs /\ good seg /\
                   Forall (fun cg : cp * str => sep_char (fst cg) = true /\ good (snd cg)) segs.

Lemma sep_not_alnum c : sep_char c = true -> is_ascii_alnum c = false.
Proof.
  unfold sep_char. intros H. apply orb_true_iff in H. destruct H as [H|H]; [apply orb_true_iff in H; destruct H as [H|H]|]; apply N.eqb_eq in H; subst; reflexivity.
Qed.

Lemma local_ok_shape seg segs : good seg -> Forall (fun cg : cp * str => sep_char (fst cg) = true /\ good (snd cg)) segs ->
  local_ok (seg ++ flat_map (fun cg : cp * str => fst cg :: snd cg) segs) = true.
Proof.
  intros Hs F. unfold local_ok. revert seg Hs F. induction segs as [|cg segs IH]; intros seg [Sn Sa] F.
  - cbn [flat_map]. rewrite (local_aux_seg seg [] true Sa Sn). reflexivity.
  - inversion F as [|? ? [Hc Hg] F']; subst. destruct cg as [c g]. cbn [fst snd] in *. cbn [flat_map fst snd]. rewrite (local_aux_seg seg _ true Sa Sn).
    cbn [app local_ok_aux]. unfold local_char. rewrite (sep_not_alnum c Hc), Hc. apply (IH g Hg F').
Qed.

Lemma scan_tail_shape x : x = [] \/ local_shape x -> scan_tail x <> None.
Proof.
  intros [->|[seg [segs [-> [Hs F]]]]]; [discriminate|]. cbn [scan_tail]. change (c_plus =? 43) with true. cbv iota.
  rewrite (local_ok_shape seg segs Hs F). discriminate.
Qed.

(* ---- what the optional parts start with ---- *)
Definition head_ok (x : str) : Prop := x <> [] /\ rel_stop x.
Definition opt_shape (P : str -> Prop) (x : str) : Prop := x = [] \/ P x.

Lemma rel_stop_app x y : head_ok x -> rel_stop (x ++ y).
Proof.
  intros [Hne H]. destruct x as [|c t]; [congruence|]. cbn [app]. cbn in H |- *. destruct (c =? c_dot); [|exact H]. destruct H as [Hd Ht].
  destruct t as [|z t']; [congruence|]. split; [exact Hd|discriminate].
Qed.

Definition letter_lit (l : str) : Prop := exists c t, l = c :: t /\ 97 <= c <= 122.

Lemma lower_letter_facts c : 97 <= ascii_lower c <= 122 -> is_ascii_digit c = false /\ sep_char c = false /\ (c =? c_dot) = false.
Proof.
  unfold ascii_lower, is_ascii_upper. intros H. destruct ((65 <=? c) && (c <=? 90)) eqn:U.
  - apply andb_true_iff in U. destruct U as [U1 U2]. apply N.leb_le in U1. apply N.leb_le in U2. unfold is_ascii_digit, sep_char, c_dot.
    repeat split; [apply andb_false_iff; right; apply N.leb_gt; lia| |apply N.eqb_neq; lia].
    repeat (apply orb_false_iff; split); apply N.eqb_neq; lia.
  - unfold is_ascii_digit, sep_char, c_dot. repeat split; [apply andb_false_iff; right; apply N.leb_gt; lia| |apply N.eqb_neq; lia].
    repeat (apply orb_false_iff; split); apply N.eqb_neq; lia.
Qed.

Lemma labelled_head lits x : Forall letter_lit lits -> labelled lits x -> head_ok x.
Proof.
  intros Hl [sp1 [w [sp2 [d [-> [H1 [Hw [H2 Hd]]]]]]]]. rewrite Forall_forall in Hl. destruct (Hl _ Hw) as [c0 [t0 [E R]]].
  destruct w as [|c w']; [discriminate|]. cbn [map] in E. inversion E as [[Ec Et]]. rewrite <- Ec in R. destruct (lower_letter_facts c R) as [Fd [Fs Fdot]].
  destruct H1 as [->|[s [-> Hs]]]; cbn [app].
  - split; [discriminate|]. cbn. rewrite Fdot. exact Fd.
  - split; [discriminate|]. cbn. destruct (s =? c_dot) eqn:Es.
    + split; [exact Fd|discriminate].
    + unfold sep_char in Hs. unfold is_ascii_digit. apply orb_true_iff in Hs. destruct Hs as [Hs|Hs]; [apply orb_true_iff in Hs; destruct Hs as [Hs|Hs]|];
        apply N.eqb_eq in Hs; subst s; reflexivity.
Qed.

Lemma pre_lits_ok : Forall letter_lit (map fst pre_labels).
Proof. repeat constructor; eexists; eexists; (split; [reflexivity|lia]). Qed.
Lemma post_lits_ok : Forall letter_lit post_labels.
Proof. repeat constructor; eexists; eexists; (split; [reflexivity|lia]). Qed.
Lemma dev_lits_ok : Forall letter_lit [L_dev].
Proof. repeat constructor; eexists; eexists; (split; [reflexivity|lia]). Qed.

Lemma post_head x : post_shape x -> head_ok x.
Proof. intros [[d [-> _]]|H]; [split; [discriminate|reflexivity]|apply (labelled_head _ _ post_lits_ok H)]. Qed.

Lemma local_head x : local_shape x -> head_ok x.
Proof. intros [seg [segs [-> _]]]. split; [discriminate|reflexivity]. Qed.

Lemma opt_stop (P : str -> Prop) x y : (forall z, P z -> head_ok z) -> opt_shape P x -> rel_stop y -> rel_stop (x ++ y).
Proof. intros HP [->|H] Hy; [exact Hy|apply rel_stop_app, HP, H]. Qed.

(* ---- the stages composed ---- *)
Section Stages.
Variables PRE POST DEV LOC : str.
Hypothesis Hpre : opt_shape (labelled (map fst pre_labels)) PRE.
Hypothesis Hpost : opt_shape post_shape POST.
Hypothesis Hdev : opt_shape (labelled [L_dev]) DEV.
Hypothesis Hloc : opt_shape local_shape LOC.

Lemma stop_loc : rel_stop LOC.
Proof. destruct Hloc as [->|H]; [exact I|apply (local_head _ H)]. Qed.
Lemma stop_dev : rel_stop (DEV ++ LOC).
Proof. apply (opt_stop _ _ _ (fun z => labelled_head _ z dev_lits_ok) Hdev stop_loc). Qed.
Lemma stop_post : rel_stop (POST ++ DEV ++ LOC).
Proof. apply (opt_stop _ _ _ post_head Hpost stop_dev). Qed.
Lemma stop_pre : rel_stop (PRE ++ POST ++ DEV ++ LOC).
Proof. apply (opt_stop _ _ _ (fun z => labelled_head _ z pre_lits_ok) Hpre stop_post). Qed.

Lemma sections_complete ep rel : 
  scan_pre (fun pre s2 => scan_post (fun post s3 => scan_dev (fun dev s4 =>
      match scan_tail s4 with
      | Some loc => Some {| k_epoch := ep; k_release := rel; k_pre := pre; k_post := post; k_dev := dev; k_local := loc |}
      | None => None
      end) s3) s2) (PRE ++ POST ++ DEV ++ LOC) <> None.
Proof.
  assert (T : forall dev, match scan_tail LOC with
      | Some loc => Some {| k_epoch := ep; k_release := rel; k_pre := None; k_post := None; k_dev := dev; k_local := loc |}
      | None => None end <> None -> True) by trivial. clear T.
  assert (Tail : scan_tail LOC <> None) by (apply scan_tail_shape; exact Hloc).
  assert (Dv : forall pre post, scan_dev (fun dev s4 => match scan_tail s4 with
      | Some loc => Some {| k_epoch := ep; k_release := rel; k_pre := pre; k_post := post; k_dev := dev; k_local := loc |}
      | None => None end) (DEV ++ LOC) <> None).
  { intros pre post. destruct Hdev as [->|H].
    - apply scan_dev_absent. cbn [app]. destruct (scan_tail LOC); [discriminate|congruence].
    - apply scan_dev_complete; [exact H|apply rel_stop_no_digit, stop_loc|]. intros a. destruct (scan_tail LOC); [discriminate|congruence]. }
  assert (Po : forall pre, scan_post (fun post s3 => scan_dev (fun dev s4 => match scan_tail s4 with
      | Some loc => Some {| k_epoch := ep; k_release := rel; k_pre := pre; k_post := post; k_dev := dev; k_local := loc |}
      | None => None end) s3) (POST ++ DEV ++ LOC) <> None).
  { intros pre. destruct Hpost as [->|H].
    - apply scan_post_absent. cbn [app]. apply Dv.
    - apply scan_post_complete; [exact H|apply rel_stop_no_digit, stop_dev|]. intros a. apply Dv. }
  destruct Hpre as [->|H].
  - apply scan_pre_absent. cbn [app]. apply Po.
  - apply scan_pre_complete; [exact H|apply rel_stop_no_digit, stop_post|]. intros a. apply Po.
Qed.

Lemma from_release_complete ep d l : dnum d -> Forall dnum l ->
  scan_from_release ep ((d ++ rel_tail_s l) ++ PRE ++ POST ++ DEV ++ LOC) <> None.
Proof.
  intros Hd Hl. unfold scan_from_release. destruct (release_options_spec_s d l _ Hd Hl stop_pre) as [o' ->]. rewrite first_some_cons.
  pose proof (sections_complete ep (d :: l)) as S.
  match goal with |- match ?X with _ => _ end <> None => assert (E : X <> None) by exact S; destruct X; [discriminate|congruence] end.
Qed.
End Stages.

(* ---- the whole scanner on the shape of a member ---- *)
Lemma dnum_head d : dnum d -> exists c t, d = c :: t /\ is_ascii_digit c = true.
Proof.
  intros [Hn Hd]. destruct d as [|c t]; [congruence|]. exists c, t. split; [reflexivity|]. unfold digits, all_b in Hd. cbn [forallb] in Hd. apply andb_true_iff in Hd. tauto.
Qed.

Lemma strip_v_ci_digit c t : is_ascii_digit c = true -> strip_v_ci (c :: t) = c :: t.
Proof. intros H. cbn [strip_v_ci]. unfold is_ascii_digit in H. apply andb_true_iff in H. destruct H as [H1 H2]. apply N.leb_le in H1. apply N.leb_le in H2.
  assert (E1 : (c =? 118) = false) by (apply N.eqb_neq; lia). assert (E2 : (c =? 86) = false) by (apply N.eqb_neq; lia). rewrite E1, E2. reflexivity. Qed.

Lemma or_else_left {A} (x y : option A) : x <> None -> match x with Some k => Some k | None => y end <> None.
Proof. destruct x; [discriminate|congruence]. Qed.
Lemma or_else_right {A} (x y : option A) : y <> None -> match x with Some k => Some k | None => y end <> None.
Proof. destruct x; [discriminate|trivial]. Qed.

Theorem caps_complete V E d l PRE POST DEV LOC :
  (V = [] \/ exists c, V = [c] /\ ascii_lower c = 118) ->
  (E = [] \/ exists e, E = e ++ [c_bang] /\ dnum e) ->
  dnum d -> Forall dnum l ->
  opt_shape (labelled (map fst pre_labels)) PRE -> opt_shape post_shape POST -> opt_shape (labelled [L_dev]) DEV -> opt_shape local_shape LOC ->
  pep_caps (V ++ E ++ (d ++ rel_tail_s l) ++ PRE ++ POST ++ DEV ++ LOC) <> None.
Proof.
  intros HV HE Hd Hl Hpre Hpost Hdev Hloc. unfold pep_caps.
  set (R := (d ++ rel_tail_s l) ++ PRE ++ POST ++ DEV ++ LOC).
  assert (HR : forall ep, scan_from_release ep R <> None) by (intros ep; apply from_release_complete; assumption).
  assert (X0 : exists c t, E ++ R = c :: t /\ is_ascii_digit c = true).
  { destruct HE as [->|[e [-> He]]].
    - destruct (dnum_head d Hd) as [c [t [-> Hc]]]. exists c, (t ++ rel_tail_s l ++ PRE ++ POST ++ DEV ++ LOC). split; [unfold R; cbn [app]; rewrite <- !app_assoc; reflexivity|exact Hc].
    - destruct (dnum_head e He) as [c [t [-> Hc]]]. exists c, ((t ++ [c_bang]) ++ R). split; [reflexivity|exact Hc]. }
  clearbody R.
  assert (Sv : strip_v_ci (V ++ E ++ R) = E ++ R).
  { destruct HV as [->|[c [-> Hc]]].
    - cbn [app]. destruct X0 as [c [t [-> Hc]]]. apply strip_v_ci_digit, Hc.
    - cbn [app strip_v_ci]. unfold ascii_lower in Hc. destruct (is_ascii_upper c) eqn:U.
      + assert (c = 86) by lia. subst c. reflexivity.
      + subst c. reflexivity. }
  rewrite Sv. destruct HE as [->|[e [-> He]]].
  - cbn [app]. destruct (span is_ascii_digit R) as [dd r].
    apply or_else_right, HR.
  - rewrite <- app_assoc. cbn [app]. rewrite (span_dnum e (c_bang :: R) He eq_refl). destruct He as [Hn _]. destruct e as [|x t]; [congruence|].
    change (c_bang =? 33) with true. cbv iota. apply or_else_left, HR.
Qed.

(* ================= conversion of the captures ================= *)
Definition opt_fit (o : option str) : Prop := match o with Some d => num32 d <> None | None => True end.
Definition caps_fit (k : caps) : Prop :=
  Forall (fun d => num32 d <> None) (k_release k) /\ opt_fit (k_epoch k) /\
  (match k_pre k with Some (_, n) => opt_fit n | None => True end) /\
  (match k_post k with Some n => opt_fit n | None => True end) /\
  (match k_dev k with Some n => opt_fit n | None => True end).

Lemma map_num32_ok l : Forall (fun d => num32 d <> None) l -> map_opt_n num32 l <> None.
Proof. induction 1 as [|x l Hx _ IH]; cbn [map_opt_n]; [discriminate|]. destruct (num32 x); [|congruence]. destruct (map_opt_n num32 l); [discriminate|congruence]. Qed.

Lemma map_num32_inv l : map_opt_n num32 l <> None -> Forall (fun d => num32 d <> None) l.
Proof.
  induction l as [|x l IH]; [constructor|]. cbn [map_opt_n]. destruct (num32 x) eqn:E; [|congruence]. destruct (map_opt_n num32 l); [|congruence].
  intros _. constructor; [congruence|apply IH; discriminate].
Qed.

Lemma opt_num32_ok o : opt_fit o <-> opt_num32 o <> None.
Proof. destruct o as [d|]; cbn; [|split; [discriminate|trivial]]. destruct (num32 d); split; congruence. Qed.

Lemma local_part_good p : good p -> local_part p <> None.
Proof.
  intros [Hn Ha]. unfold local_part. destruct ((match p with [] => false | _ => true end) && all_b is_ascii_digit p); [destruct (parse_u32 p); discriminate|].
  rewrite (sanitize_part_no_dot p Hn Ha). discriminate.
Qed.

Lemma local_go_ok parts : Forall good parts ->
  (fix go (ps0 : list str) : option (list lseg) := match ps0 with [] => Some [] | p0 :: ps' =>
     match local_part p0, go ps' with Some x0, Some xs => Some (x0 :: xs) | _, _ => None end end) parts <> None.
Proof.
  induction 1 as [|q qs Hq _ IH]; [discriminate|]. pose proof (local_part_good q Hq) as Lq. destruct (local_part q); [|congruence].
  match goal with |- match ?Y with _ => _ end <> None => destruct Y; [discriminate|congruence] end.
Qed.

Lemma parse_local_ok l : local_ok l = true -> parse_local_segments l <> None.
Proof.
  intros Hok. unfold parse_local_segments. change (map (fun c => if (c =? 45) || (c =? 95) then c_dot else c) l) with (map norm_sep l).
  destruct (local_ok_parts l true Hok) as [p [ps [E [Hp [Hn Hps]]]]]. rewrite E.
  assert (G : Forall good (p :: ps)) by (constructor; [split; [apply Hn; reflexivity|exact Hp]|exact Hps]).
  exact (local_go_ok (p :: ps) G).
Qed.

Theorem pep_of_caps_iff k : caps_ok k -> (pep_of_caps k <> None <-> caps_fit k).
Proof.
  intros [Hr Hl]. unfold pep_of_caps, caps_fit.
  set (A := map_opt_n num32 (k_release k)).
  set (B := match k_epoch k with Some d => num32 d | None => Some 0 end).
  set (C := match k_pre k with Some (l, n) => match opt_num32 n with Some n' => Some (Some l, n') | None => None end | None => Some (None, None) end).
  set (D := match k_post k with Some n => match opt_num32 n with Some n' => Some (true, n') | None => None end | None => Some (false, None) end).
  set (E := match k_dev k with Some n => match opt_num32 n with Some n' => Some (true, n') | None => None end | None => Some (false, None) end).
  set (F := match k_local k with Some l => match parse_local_segments l with Some x => Some (Some x) | None => None end | None => Some None end).
  assert (HA : A <> None <-> Forall (fun d => num32 d <> None) (k_release k)) by (split; [apply map_num32_inv|apply map_num32_ok]).
  assert (HB : B <> None <-> opt_fit (k_epoch k)) by (unfold B; destruct (k_epoch k); cbn; [tauto|split; [trivial|discriminate]]).
  assert (HC : C <> None <-> match k_pre k with Some (_, n) => opt_fit n | None => True end).
  { unfold C. destruct (k_pre k) as [[lb n]|]; [|split; [trivial|discriminate]]. rewrite (opt_num32_ok n). destruct (opt_num32 n); split; congruence. }
  assert (HD : D <> None <-> match k_post k with Some n => opt_fit n | None => True end).
  { unfold D. destruct (k_post k) as [n|]; [|split; [trivial|discriminate]]. rewrite (opt_num32_ok n). destruct (opt_num32 n); split; congruence. }
  assert (HE : E <> None <-> match k_dev k with Some n => opt_fit n | None => True end).
  { unfold E. destruct (k_dev k) as [n|]; [|split; [trivial|discriminate]]. rewrite (opt_num32_ok n). destruct (opt_num32 n); split; congruence. }
  assert (HF : F <> None).
  { unfold F. destruct (k_local k) as [l|]; [|discriminate]. pose proof (parse_local_ok l Hl) as P. destruct (parse_local_segments l); [discriminate|congruence]. }
  clearbody A B C D E F. rewrite <- HA, <- HB, <- HC, <- HD, <- HE. clear HA HB HC HD HE Hr Hl.
  destruct A as [a|]; [|split; [congruence|tauto]].
  destruct B as [b|]; [|split; [congruence|tauto]].
  destruct C as [[c1 c2]|]; [|split; [congruence|tauto]].
  destruct D as [[d1 d2]|]; [|split; [congruence|tauto]].
  destruct E as [[e1 e2]|]; [|split; [congruence|tauto]].
  destruct F as [f|]; [|congruence].
  split; [intros _; repeat split; discriminate|discriminate].
Qed.

(* ================= the shape of a member of Appendix B ================= *)
Notation P := pep440_atom_of.
Lemma atom_high_p c : 128 <= c -> P c = P 128.
Proof.
  intros H. unfold pep440_atom_of.
  repeat match goal with |- context [N.ltb c ?k] => let E := fresh in destruct (N.ltb_spec c k) as [E|E]; [exfalso; lia|] end.
  reflexivity.
Qed.

Notation LP := (LSg P).
Notation dot_i := (LSg_dot_inv P).
Notation pls_i := (LSg_pls_inv P).

Lemma ci_inv x e : cls_sweep_inv_g P (fun c => ascii_lower c =? x) e = true -> forall s, LP e s -> exists c, s = [c] /\ ascii_lower c = x.
Proof. intros Hs s H. destruct (cls_inv_g P atom_high_p _ e Hs s H) as [c [-> Hc]]. exists c. split; [reflexivity|apply N.eqb_eq, Hc]. Qed.

Lemma lit_inv x e : cls_sweep_inv_g P (fun c => c =? x) e = true -> forall s, LP e s -> s = [x].
Proof. intros Hs s H. destruct (cls_inv_g P atom_high_p _ e Hs s H) as [c [-> Hc]]. apply N.eqb_eq in Hc. subst. reflexivity. Qed.

Lemma pdigit_inv s : LP pep440_cls_digit s -> exists c, s = [c] /\ is_ascii_digit c = true.
Proof. apply (cls_inv_g P atom_high_p). vm_compute. reflexivity. Qed.
Lemma palnum_inv s : LP pep440_cls_alnum s -> exists c, s = [c] /\ is_ascii_alnum c = true.
Proof. apply (cls_inv_g P atom_high_p). vm_compute. reflexivity. Qed.
Lemma psep_inv s : LP pep440_cls_sep s -> exists c, s = [c] /\ sep_char c = true.
Proof. apply (cls_inv_g P atom_high_p). vm_compute. reflexivity. Qed.
Lemma pdot_inv s : LP pep440_cls_dot s -> s = [c_dot].
Proof. apply (lit_inv 46). vm_compute. reflexivity. Qed.
Lemma pplus_inv s : LP pep440_cls_plus s -> s = [c_plus].
Proof. apply (lit_inv 43). vm_compute. reflexivity. Qed.
Lemma pbang_inv s : LP pep440_cls_bang s -> s = [c_bang].
Proof. apply (lit_inv 33). vm_compute. reflexivity. Qed.
Lemma pdash_inv s : LP pep440_cls_dash s -> s = [c_dash].
Proof. apply (lit_inv 45). vm_compute. reflexivity. Qed.

Lemma pnum_inv s : LP pi_num_r s -> dnum s.
Proof. intros H. apply (plus_cls_inv_g P is_ascii_digit _ pdigit_inv s H). Qed.
Lemma poptnum_inv s : LP pi_optnum_r s -> digits s.
Proof. intros H. apply pls_i in H. destruct H as [H|H]; [apply (LSg_one_inv P) in H; subst; reflexivity|apply pnum_inv in H; apply H]. Qed.
Lemma poptsep_inv s : LP pi_optsep_r s -> optsep s.
Proof. intros H. apply pls_i in H. destruct H as [H|H]; [left; apply (LSg_one_inv P), H|right; apply psep_inv, H]. Qed.
Lemma pseg_inv s : LP pi_seg_r s -> good s.
Proof. intros H. destruct (plus_cls_inv_g P is_ascii_alnum _ palnum_inv s H) as [Hn Ha]. split; [exact Hn|apply all_b_Forall, Ha]. Qed.

(* words, letter by letter *)
Ltac letter H x cls := apply (ci_inv x cls ltac:(vm_compute; reflexivity)) in H; let c := fresh "c" in let E := fresh "E" in destruct H as [c [-> E]].

Lemma W_alpha_inv s : LP W_alpha s -> map ascii_lower s = L_alpha.
Proof.
  unfold W_alpha, w5. intros H. apply dot_i in H. destruct H as [s1 [r1 [-> [H1 H]]]]. apply dot_i in H. destruct H as [s2 [r2 [-> [H2 H]]]].
  apply dot_i in H. destruct H as [s3 [r3 [-> [H3 H]]]]. apply dot_i in H. destruct H as [s4 [s5 [-> [H4 H5]]]].
  letter H1 97 pep440_cls_ci_a. letter H2 108 pep440_cls_ci_l. letter H3 112 pep440_cls_ci_p. letter H4 104 pep440_cls_ci_h. letter H5 97 pep440_cls_ci_a.
  cbn [app map]. repeat match goal with E : ascii_lower _ = _ |- _ => rewrite E; clear E end. reflexivity.
Qed.
Lemma W_beta_inv s : LP W_beta s -> map ascii_lower s = L_beta.
Proof.
  unfold W_beta, w4. intros H. apply dot_i in H. destruct H as [s1 [r1 [-> [H1 H]]]]. apply dot_i in H. destruct H as [s2 [r2 [-> [H2 H]]]].
  apply dot_i in H. destruct H as [s3 [s4 [-> [H3 H4]]]].
  letter H1 98 pep440_cls_ci_b. letter H2 101 pep440_cls_ci_e. letter H3 116 pep440_cls_ci_t. letter H4 97 pep440_cls_ci_a.
  cbn [app map]. repeat match goal with E : ascii_lower _ = _ |- _ => rewrite E; clear E end. reflexivity.
Qed.
Lemma W_preview_inv s : LP W_preview s -> map ascii_lower s = L_preview.
Proof.
  unfold W_preview, w7. intros H. apply dot_i in H. destruct H as [s1 [r1 [-> [H1 H]]]]. apply dot_i in H. destruct H as [s2 [r2 [-> [H2 H]]]].
  apply dot_i in H. destruct H as [s3 [r3 [-> [H3 H]]]]. apply dot_i in H. destruct H as [s4 [r4 [-> [H4 H]]]].
  apply dot_i in H. destruct H as [s5 [r5 [-> [H5 H]]]]. apply dot_i in H. destruct H as [s6 [s7 [-> [H6 H7]]]].
  letter H1 112 pep440_cls_ci_p. letter H2 114 pep440_cls_ci_r. letter H3 101 pep440_cls_ci_e. letter H4 118 pep440_cls_ci_v.
  letter H5 105 pep440_cls_ci_i. letter H6 101 pep440_cls_ci_e. letter H7 119 pep440_cls_ci_w.
  cbn [app map]. repeat match goal with E : ascii_lower _ = _ |- _ => rewrite E; clear E end. reflexivity.
Qed.
Lemma W_pre_inv s : LP W_pre s -> map ascii_lower s = L_pre.
Proof.
  unfold W_pre, w3. intros H. apply dot_i in H. destruct H as [s1 [r1 [-> [H1 H]]]]. apply dot_i in H. destruct H as [s2 [s3 [-> [H2 H3]]]].
  letter H1 112 pep440_cls_ci_p. letter H2 114 pep440_cls_ci_r. letter H3 101 pep440_cls_ci_e. cbn [app map]. repeat match goal with E : ascii_lower _ = _ |- _ => rewrite E; clear E end. reflexivity.
Qed.
Lemma W_rc_inv s : LP W_rc s -> map ascii_lower s = L_rc.
Proof.
  unfold W_rc, w2. intros H. apply dot_i in H. destruct H as [s1 [s2 [-> [H1 H2]]]].
  letter H1 114 pep440_cls_ci_r. letter H2 99 pep440_cls_ci_c. cbn [app map]. repeat match goal with E : ascii_lower _ = _ |- _ => rewrite E; clear E end. reflexivity.
Qed.
Lemma W_post_inv s : LP W_post s -> map ascii_lower s = L_post.
Proof.
  unfold W_post, w4. intros H. apply dot_i in H. destruct H as [s1 [r1 [-> [H1 H]]]]. apply dot_i in H. destruct H as [s2 [r2 [-> [H2 H]]]].
  apply dot_i in H. destruct H as [s3 [s4 [-> [H3 H4]]]].
  letter H1 112 pep440_cls_ci_p. letter H2 111 pep440_cls_ci_o. letter H3 115 pep440_cls_ci_s. letter H4 116 pep440_cls_ci_t.
  cbn [app map]. repeat match goal with E : ascii_lower _ = _ |- _ => rewrite E; clear E end. reflexivity.
Qed.
Lemma W_rev_inv s : LP W_rev s -> map ascii_lower s = L_rev.
Proof.
  unfold W_rev, w3. intros H. apply dot_i in H. destruct H as [s1 [r1 [-> [H1 H]]]]. apply dot_i in H. destruct H as [s2 [s3 [-> [H2 H3]]]].
  letter H1 114 pep440_cls_ci_r. letter H2 101 pep440_cls_ci_e. letter H3 118 pep440_cls_ci_v. cbn [app map]. repeat match goal with E : ascii_lower _ = _ |- _ => rewrite E; clear E end. reflexivity.
Qed.
Lemma W_dev_inv s : LP W_dev s -> map ascii_lower s = L_dev.
Proof.
  unfold W_dev, w3. intros H. apply dot_i in H. destruct H as [s1 [r1 [-> [H1 H]]]]. apply dot_i in H. destruct H as [s2 [s3 [-> [H2 H3]]]].
  letter H1 100 pep440_cls_ci_d. letter H2 101 pep440_cls_ci_e. letter H3 118 pep440_cls_ci_v. cbn [app map]. repeat match goal with E : ascii_lower _ = _ |- _ => rewrite E; clear E end. reflexivity.
Qed.
Lemma one_letter_inv x cls s : cls_sweep_inv_g P (fun c => ascii_lower c =? x) cls = true -> LP cls s -> map ascii_lower s = [x].
Proof. intros Hs H. destruct (ci_inv x cls Hs s H) as [c [-> E]]. cbn [map]. rewrite E. reflexivity. Qed.

Lemma prelabel_inv w : LP pi_prelabel_r w -> In (map ascii_lower w) (map fst pre_labels).
Proof.
  unfold pi_prelabel_r. intros H. cbn [map fst pre_labels].
  apply pls_i in H. destruct H as [H|H]; [left; symmetry; apply W_alpha_inv, H|right].
  apply pls_i in H. destruct H as [H|H]; [left; symmetry; apply (one_letter_inv 97 pep440_cls_ci_a); [vm_compute; reflexivity|exact H]|right].
  apply pls_i in H. destruct H as [H|H]; [left; symmetry; apply W_beta_inv, H|right].
  apply pls_i in H. destruct H as [H|H]; [left; symmetry; apply (one_letter_inv 98 pep440_cls_ci_b); [vm_compute; reflexivity|exact H]|right].
  apply pls_i in H. destruct H as [H|H]; [left; symmetry; apply W_preview_inv, H|right].
  apply pls_i in H. destruct H as [H|H]; [left; symmetry; apply W_pre_inv, H|right].
  apply pls_i in H. destruct H as [H|H]; [left; symmetry; apply (one_letter_inv 99 pep440_cls_ci_c); [vm_compute; reflexivity|exact H]|right].
  left; symmetry; apply W_rc_inv, H.
Qed.

Lemma postlabel_inv w : LP pi_postlabel_r w -> In (map ascii_lower w) post_labels.
Proof.
  unfold pi_postlabel_r, post_labels. intros H.
  apply pls_i in H. destruct H as [H|H]; [left; symmetry; apply W_post_inv, H|right].
  apply pls_i in H. destruct H as [H|H]; [left; symmetry; apply W_rev_inv, H|right].
  left; symmetry; apply (one_letter_inv 114 pep440_cls_ci_r); [vm_compute; reflexivity|exact H].
Qed.

Lemma labelled_inv (lab : regex.regex) lits : (forall w, LP lab w -> In (map ascii_lower w) lits) ->
  forall x, LP (regex.r_dot pi_optsep_r (regex.r_dot lab (regex.r_dot pi_optsep_r pi_optnum_r))) x -> labelled lits x.
Proof.
  intros HL x H. apply dot_i in H. destruct H as [sp1 [r1 [-> [H1 H]]]]. apply dot_i in H. destruct H as [w [r2 [-> [Hw H]]]].
  apply dot_i in H. destruct H as [sp2 [d [-> [H2 Hd]]]]. exists sp1, w, sp2, d. split; [reflexivity|].
  split; [apply poptsep_inv, H1|]. split; [apply HL, Hw|]. split; [apply poptsep_inv, H2|apply poptnum_inv, Hd].
Qed.

Lemma ppre_inv x : LP pi_pre_r x -> labelled (map fst pre_labels) x.
Proof. apply labelled_inv, prelabel_inv. Qed.
Lemma pdev_inv x : LP pi_dev_r x -> labelled [L_dev] x.
Proof. apply labelled_inv. intros w H. left. symmetry. apply W_dev_inv, H. Qed.
Lemma ppost_inv x : LP pi_post_r x -> post_shape x.
Proof.
  unfold pi_post_r. intros H. apply pls_i in H. destruct H as [H|H].
  - left. apply dot_i in H. destruct H as [a [d [-> [Ha Hd]]]]. apply pdash_inv in Ha. subst a. apply pnum_inv in Hd. exists d. split; [reflexivity|exact Hd].
  - right. apply (labelled_inv _ _ postlabel_inv x H).
Qed.

Lemma plocal_inv x : LP pi_local_r x -> local_shape x.
Proof.
  unfold pi_local_r. intros H. apply dot_i in H. destruct H as [a [r [-> [Ha H]]]]. apply pplus_inv in Ha. subst a.
  apply dot_i in H. destruct H as [seg [r2 [-> [Hs H]]]]. apply pseg_inv in Hs. apply (LSg_str_inv P) in H. destruct H as [ss [-> F]].
  assert (G : exists segs, concat ss = flat_map (fun cg : cp * str => fst cg :: snd cg) segs /\
                           Forall (fun cg : cp * str => sep_char (fst cg) = true /\ good (snd cg)) segs).
  { clear -F. induction F as [|y ss Hy _ IH]; [exists []; split; [reflexivity|constructor]|]. destruct IH as [segs [E Fs]].
    apply dot_i in Hy. destruct Hy as [c [g [-> [Hc Hg]]]]. apply psep_inv in Hc. destruct Hc as [c0 [-> Hc0]]. apply pseg_inv in Hg.
    exists ((c0, g) :: segs). cbn [concat flat_map fst snd app]. rewrite E. split; [reflexivity|constructor; [split; assumption|exact Fs]]. }
  destruct G as [segs [E Fs]]. exists seg, segs. rewrite E. cbn [app]. split; [reflexivity|split; [exact Hs|exact Fs]].
Qed.

Lemma opt_inv (e : regex.regex) (Q : str -> Prop) : (forall x, LP e x -> Q x) -> forall x, LP (regex.r_pls regex.r_one e) x -> opt_shape Q x.
Proof. intros HQ x H. apply pls_i in H. destruct H as [H|H]; [left; apply (LSg_one_inv P), H|right; apply HQ, H]. Qed.

Theorem pep_member_shape s : regex.lang pep440_spec (map P s) ->
  exists V E d l PRE POST DEV LOC, s = V ++ E ++ (d ++ rel_tail_s l) ++ PRE ++ POST ++ DEV ++ LOC /\
    (V = [] \/ exists c, V = [c] /\ ascii_lower c = 118) /\ (E = [] \/ exists e, E = e ++ [c_bang] /\ dnum e) /\ dnum d /\ Forall dnum l /\
    opt_shape (labelled (map fst pre_labels)) PRE /\ opt_shape post_shape POST /\ opt_shape (labelled [L_dev]) DEV /\ opt_shape local_shape LOC.
Proof.
  intros H. apply (lang_incl _ _ pp_in_ka) in H. change (LP pp_in_r s) in H. unfold pp_in_r in H.
  apply dot_i in H. destruct H as [V [r [-> [HV H]]]]. apply dot_i in H. destruct H as [E [r1 [-> [HE H]]]].
  apply dot_i in H. destruct H as [d [r2 [-> [Hd H]]]]. apply dot_i in H. destruct H as [T [r3 [-> [HT H]]]].
  apply dot_i in H. destruct H as [PRE [r4 [-> [Hpre H]]]]. apply dot_i in H. destruct H as [POST [r5 [-> [Hpost H]]]].
  apply dot_i in H. destruct H as [DEV [LOC [-> [Hdev Hloc]]]].
  assert (Tl : exists l, T = rel_tail_s l /\ Forall dnum l).
  { apply (LSg_str_inv P) in HT. destruct HT as [ss [-> F]]. clear -F. induction F as [|y ss Hy _ IH]; [exists []; split; [reflexivity|constructor]|].
    destruct IH as [l [E Fl]]. apply dot_i in Hy. destruct Hy as [a [n [-> [Ha Hn]]]]. apply pdot_inv in Ha. subst a. apply pnum_inv in Hn.
    exists (n :: l). cbn [concat rel_tail_s flat_map app]. fold (rel_tail_s l). rewrite E. split; [reflexivity|constructor; assumption]. }
  destruct Tl as [l [-> Fl]]. exists V, E, d, l, PRE, POST, DEV, LOC. split; [rewrite <- !app_assoc; reflexivity|].
  split. { apply pls_i in HV. destruct HV as [HV|HV]; [left; apply (LSg_one_inv P), HV|right]. apply (ci_inv 118 pep440_cls_ci_v ltac:(vm_compute; reflexivity)) in HV. exact HV. }
  split. { apply pls_i in HE. destruct HE as [HE|HE]; [left; apply (LSg_one_inv P), HE|right]. apply dot_i in HE. destruct HE as [e [b [-> [He Hb]]]]. apply pbang_inv in Hb. subst b.
           exists e. split; [reflexivity|apply pnum_inv, He]. }
  split; [apply pnum_inv, Hd|]. split; [exact Fl|].
  split; [apply (opt_inv _ _ ppre_inv), Hpre|]. split; [apply (opt_inv _ _ ppost_inv), Hpost|]. split; [apply (opt_inv _ _ pdev_inv), Hdev|apply (opt_inv _ _ plocal_inv), Hloc].
Qed.

(* every member of Appendix B is split into captures *)
Theorem member_has_caps s : regex.lang pep440_spec (map P s) -> pep_caps s <> None.
Proof.
  intros H. destruct (pep_member_shape s H) as [V [E [d [l [PRE [POST [DEV [LOC [-> [HV [HE [Hd [Hl [H1 [H2 [H3 H4]]]]]]]]]]]]]]]].
  apply caps_complete; assumption.
Qed.

(* THE ACCEPTANCE THEOREM: the parser accepts s exactly when s is a member of Appendix B and the numbers it captures fit u32 *)
Definition numbers_fit (s : str) : Prop := match pep_caps s with Some k => caps_fit k | None => False end.

Theorem pep_accepts_iff s : (exists v, pep_parse s = Some v) <-> regex.lang pep440_spec (map P s) /\ numbers_fit s.
Proof.
  unfold pep_parse, pep_extract, numbers_fit. split.
  - intros [v H]. destruct (rx_accepts pep440_src (map P s)) eqn:R; [|discriminate]. split; [apply pep440_regex_lang, rx_accepts_lang, R|].
    destruct (pep_caps s) as [k|] eqn:K; [|discriminate]. apply (pep_of_caps_iff k (pep_caps_ok s k K)). rewrite H. discriminate.
  - intros [H Hf]. assert (R : rx_accepts pep440_src (map P s) = true) by (apply rx_accepts_lang, pep440_regex_lang, H). rewrite R.
    destruct (pep_caps s) as [k|] eqn:K; [|contradiction]. apply (pep_of_caps_iff k (pep_caps_ok s k K)) in Hf. destruct (pep_of_caps k) as [v|]; [exists v; reflexivity|congruence].
Qed.

(* no member is lost for another reason: a member is refused only because a captured number does not fit *)
Corollary member_refused_only_for_size s : regex.lang pep440_spec (map P s) -> pep_parse s = None -> exists k, pep_caps s = Some k /\ ~ caps_fit k.
Proof.
  intros H N. pose proof (member_has_caps s H) as C. destruct (pep_caps s) as [k|] eqn:K; [|congruence]. exists k. split; [reflexivity|]. intros F.
  assert (A : exists v, pep_parse s = Some v) by (apply pep_accepts_iff; split; [exact H|unfold numbers_fit; rewrite K; exact F]). destruct A as [v A]. congruence.
Qed.

Print Assumptions pep_accepts_iff.

(* ================= the v prefix is irrelevant ================= *)
Lemma member_split_p s : regex.lang pep440_spec (map P s) -> exists V r, s = V ++ r /\ (V = [] \/ exists c, V = [c] /\ ascii_lower c = 118) /\ LP pp_rest_r r.
Proof.
  intros H. apply (lang_incl _ _ pp_in_ka) in H. change (LP pp_in_r s) in H. unfold pp_in_r in H.
  apply dot_i in H. destruct H as [V [r [-> [HV H]]]]. exists V, r. split; [reflexivity|]. split; [|exact H].
  apply pls_i in HV. destruct HV as [HV|HV]; [left; apply (LSg_one_inv P), HV|right]. apply (ci_inv 118 pep440_cls_ci_v ltac:(vm_compute; reflexivity)) in HV. exact HV.
Qed.

Lemma rest_starts_with_digit_p r : LP pp_rest_r r -> exists c t, r = c :: t /\ is_ascii_digit c = true.
Proof.
  unfold pp_rest_r. intros H. apply dot_i in H. destruct H as [E [r1 [-> [HE H]]]]. apply dot_i in H. destruct H as [d [r2 [-> [Hd _]]]].
  apply pnum_inv in Hd. apply pls_i in HE. destruct HE as [HE|HE].
  - apply (LSg_one_inv P) in HE. subst E. destruct (dnum_head d Hd) as [c [t [-> Hc]]]. exists c, (t ++ r2). split; [reflexivity|exact Hc].
  - apply dot_i in HE. destruct HE as [e [b [-> [He _]]]]. apply pnum_inv in He. destruct (dnum_head e He) as [c [t [-> Hc]]].
    exists c, ((t ++ b) ++ d ++ r2). split; [rewrite <- !app_assoc; reflexivity|exact Hc].
Qed.

Lemma vee_in c : ascii_lower c = 118 -> regex.lang pep440_cls_ci_v [P c].
Proof.
  intros H. assert (E : c = 118 \/ c = 86).
  { unfold ascii_lower in H. destruct (is_ascii_upper c) eqn:U; [right; lia|left; exact H]. }
  destruct E as [-> | ->]; apply rx_accepts_lang; vm_compute; reflexivity.
Qed.

(* an accepted string parses to the same value with or without the v / V in front *)
Theorem pep_v_prefix_irrelevant c s v : ascii_lower c = 118 -> (pep_parse (c :: s) = Some v <-> (exists d t, s = d :: t /\ is_ascii_digit d = true) /\ pep_parse s = Some v).
Proof.
  intros Hc. assert (Cv : c = 118 \/ c = 86).
  { unfold ascii_lower in Hc. destruct (is_ascii_upper c) eqn:U; [right; lia|left; exact Hc]. }
  assert (Strip : strip_v_ci (c :: s) = s) by (destruct Cv as [-> | ->]; reflexivity).
  split.
  - intros H. assert (M : regex.lang pep440_spec (map P (c :: s))).
    { unfold pep_parse in H. destruct (rx_accepts pep440_src (map P (c :: s))) eqn:R; [|discriminate]. apply pep440_regex_lang, rx_accepts_lang, R. }
    destruct (member_split_p _ M) as [V [r [E [HV Hr]]]]. destruct (rest_starts_with_digit_p r Hr) as [d [t [-> Hd]]].
    destruct HV as [-> |[c0 [-> _]]].
    + (* no v consumed: the string would start with a digit, but it starts with v *) cbn [app] in E. inversion E; subst d.
      destruct Cv as [-> | ->]; discriminate Hd.
    + cbn [app] in E. inversion E; subst c0 s. split; [exists d, t; split; [reflexivity|exact Hd]|].
      revert H. unfold pep_parse. destruct (rx_accepts pep440_src (map P (c :: d :: t))); [|discriminate].
      assert (R2 : rx_accepts pep440_src (map P (d :: t)) = true) by (apply rx_accepts_lang, pep440_regex_lang, (lang_incl _ _ pp_rest_ka), Hr).
      rewrite R2. unfold pep_extract, pep_caps. rewrite Strip, (strip_v_ci_digit d t Hd). trivial.
  - intros [[d [t [-> Hd]]] H]. assert (M : regex.lang pep440_spec (map P (d :: t))).
    { unfold pep_parse in H. destruct (rx_accepts pep440_src (map P (d :: t))) eqn:R; [|discriminate]. apply pep440_regex_lang, rx_accepts_lang, R. }
    destruct (member_split_p _ M) as [V [r [E [HV Hr]]]]. destruct HV as [-> |[c0 [-> Hc0]]].
    + cbn [app] in E. subst r.
      assert (R2 : rx_accepts pep440_src (map P (c :: d :: t)) = true).
      { apply rx_accepts_lang, pep440_regex_lang, (lang_incl _ _ pp_vrest_ka). change (map P (c :: d :: t)) with ([P c] ++ map P (d :: t)).
        apply lang_dot_intro; [apply vee_in, Hc|exact Hr]. }
      revert H. unfold pep_parse. rewrite R2. destruct (rx_accepts pep440_src (map P (d :: t))); [|discriminate].
      unfold pep_extract, pep_caps. rewrite Strip, (strip_v_ci_digit d t Hd). trivial.
    + cbn [app] in E. inversion E; subst c0. exfalso. assert (Dv : d = 118 \/ d = 86).
      { unfold ascii_lower in Hc0. destruct (is_ascii_upper d) eqn:U; [right; lia|left; exact Hc0]. }
      destruct Dv as [-> | ->]; discriminate Hd.
Qed.
