(* C01 / C15: every identifier SemVer::from(Zerv) produces is well-formed - a number, or a non-empty ASCII-alphanumeric string
   that is not a digit string with a leading zero - and the optional parts are never Some(empty).  Consequence of the C16 contract. *)
From Coq Require Import Lia.
From ZV Require Import Str Dec Sanitize SanitizeSpec StrFacts DecFacts SanitizeProofs Zerv Render SemVer NoPanicProofs.
Open Scope N_scope.

Definition seg_wf (g : str) : Prop := g <> [] /\ alnum g /\ has_leading_zero g = false.
(* what classify produces: a number below 2^64, or a well-formed segment that does NOT read as a u64 (so it stays text when re-parsed) *)
Definition id_wf (i : ident) : Prop := match i with IUInt n => n < 18446744073709551616 | IStr s => seg_wf s /\ parse_u64 s = None end.
Definition part_wf (o : option (list ident)) : Prop := match o with Some l => l <> [] /\ Forall id_wf l | None => True end.

Lemma parse_u64_bound g n : parse_u64 g = Some n -> n < 18446744073709551616.
Proof.
  unfold parse_u64, parse_uint_bits. destruct (parse_dec _) as [m|]; [|discriminate].
  destruct (m <? 2 ^ 64) eqn:E; [|discriminate]. intros H. inversion H; subst. apply N.ltb_lt in E. exact E.
Qed.

Lemma classify_wf g : seg_wf g -> id_wf (classify_u64 g).
Proof. intros H. unfold classify_u64. destruct (parse_u64 g) as [n|] eqn:E; cbn; [apply (parse_u64_bound g n E)|split; [exact H|exact E]]. Qed.

(* a dotted sanitiser output is a list of well-formed segments *)
Lemma sanitized_segs lower y :
  exists segs, sanitize_to_string (custom_str (Some [c_dot]) lower false None) y = intercalate [c_dot] segs /\ Forall seg_wf segs.
Proof.
  destruct (contract_holds c_dot dot_not_alnum lower false None y) as [[segs [E [Hgood [Hz _]]]] _].
  exists segs. split; [exact E|]. specialize (Hz eq_refl).
  rewrite Forall_forall in *. intros g Hg. destruct (Hgood g Hg) as [H1 H2]. repeat split; auto.
Qed.

Lemma semver_sanitize_eq y : sanitize semver_str y = sanitize_to_string (custom_str (Some [c_dot]) false false None) y.
Proof. reflexivity. Qed.
Lemma key_sanitize_eq y : sanitize key_sanitizer y = sanitize_to_string (custom_str (Some [c_dot]) true false None) y.
Proof. reflexivity. Qed.

Lemma filter_nonempty_wf segs : Forall seg_wf segs -> Forall seg_wf (filter nonempty segs).
Proof. intros H. rewrite Forall_forall in *. intros g Hg. apply filter_In in Hg. apply H, Hg. Qed.

Lemma seg_cfree g : seg_wf g -> cfree c_dot g.
Proof. intros [_ [H _]]. apply (alnum_cfree c_dot dot_not_alnum), H. Qed.

(* add_flattened_to_prerelease / _to_build on a sanitised value *)
Lemma flatten_ids_wf y : Forall id_wf (flatten_ids (sanitize semver_str y)).
Proof.
  unfold flatten_ids. rewrite semver_sanitize_eq. destruct (sanitized_segs false y) as [segs [E W]]. rewrite E.
  destruct segs as [|s0 segs'].
  - cbn. constructor.
  - rewrite split_join; [|discriminate|eapply Forall_impl; [|exact W]; intros g; apply seg_cfree].
    apply Forall_forall. intros i Hi. apply in_map_iff in Hi. destruct Hi as [g [<- Hg]]. apply classify_wf.
    apply filter_In in Hg. destruct Hg as [Hg _]. rewrite Forall_forall in W. apply W, Hg.
Qed.

(* a non-empty alphanumeric input gives a single well-formed segment *)
Lemma lowered_alnum lower g : alnum g -> alnum (lowered lower g).
Proof.
  destruct lower; [|tauto]. intros Hg. unfold lowered, alnum in *. apply Forall_forall. intros x Hx.
  apply in_map_iff in Hx. destruct Hx as [y [<- Hy]]. apply lower_alnum. rewrite Forall_forall in Hg. apply Hg, Hy.
Qed.

Lemma single_good lower g : good g -> good (sanitize_to_string (custom_str (Some [c_dot]) lower false None) g).
Proof.
  intros [Hne Hg]. rewrite (shape_nomax c_dot dot_not_alnum). unfold ascii_runs.
  assert (Hl : alnum (lowered lower g)) by (apply lowered_alnum, Hg).
  rewrite (split_by_piece _ Hl).
  assert (Hn : lowered lower g <> []) by (destruct g as [|x0 g0]; [congruence|destruct lower; discriminate]).
  destruct (lowered lower g) as [|y l] eqn:El; [exfalso; first [apply Hn; reflexivity|apply Hn; exact El]|].
  cbn [filter is_nil negb map intercalate]. apply f_of_good. split; [discriminate|exact Hl].
Qed.

Lemma intercalate_two_has_sep (c : cp) a b l : ~ cfree c (intercalate [c] (a :: b :: l)).
Proof.
  rewrite intercalate_cons_cons. intros H. unfold cfree in H. rewrite !Forall_app in H. destruct H as [_ [H _]].
  inversion H as [|x t Hx Ht]; subst. rewrite N.eqb_refl in Hx. discriminate.
Qed.

Lemma single_wf lower g : good g -> seg_wf (sanitize_to_string (custom_str (Some [c_dot]) lower false None) g).
Proof.
  intros G. pose proof (single_good lower g G) as [Xne Xal].
  destruct (sanitized_segs lower g) as [segs [E W]].
  destruct segs as [|s0 [|s1 segs']].
  - exfalso. apply Xne. rewrite E. reflexivity.
  - change (intercalate [c_dot] [s0]) with s0 in E. rewrite E. inversion W; assumption.
  - exfalso. apply (intercalate_two_has_sep c_dot s0 s1 segs'). rewrite <- E. apply (alnum_cfree c_dot dot_not_alnum), Xal.
Qed.

Lemma digit_alnum x : is_ascii_digit x = true -> is_ascii_alnum x = true.
Proof. intros H. unfold is_ascii_alnum. rewrite H. apply orb_true_r. Qed.

Lemma print_dec_good n : good (print_dec n).
Proof.
  split; [apply print_dec_nonnil|].
  pose proof (parse_print n) as P. unfold parse_dec in P.
  destruct (print_dec n) as [|x s] eqn:E; [discriminate|].
  destruct (uint_of_str (x :: s)) as [u|] eqn:U; [|discriminate].
  pose proof (uint_of_str_digits _ _ U) as D. unfold alnum. apply Forall_forall. intros y Hy.
  apply digit_alnum. clear - D Hy. revert D Hy. generalize (x :: s). intros l. induction l as [|a l IH]; intros D [].
  - subst. cbn in D. apply andb_true_iff in D. tauto.
  - cbn in D. apply andb_true_iff in D. apply IH; tauto.
Qed.

(* the fixed words *)
Lemma label_wf l : seg_wf (sanitize key_sanitizer (label_str l)).
Proof. destruct l; vm_compute; (split; [discriminate|split; [repeat constructor|reflexivity]]). Qed.

Lemma key_wf v : is_secondary v = true -> v <> PreRelease -> seg_wf (sanitize key_sanitizer (key_of v)).
Proof. destruct v; try discriminate; intros _ H; try congruence; vm_compute; (split; [discriminate|split; [repeat constructor|reflexivity]]). Qed.

Lemma num_value_wf (o : option N) x : omap (fun n => sanitize semver_str (print_dec n)) o = Some x -> seg_wf x.
Proof. destruct o as [n|]; [|discriminate]. intros H. cbn [omap] in H. inversion H. exact (single_wf false _ (print_dec_good n)). Qed.

Lemma classify_all l : Forall seg_wf l -> Forall id_wf (map classify_u64 (filter nonempty l)).
Proof.
  intros H. apply Forall_forall. intros i Hi. apply in_map_iff in Hi. destruct Hi as [g [<- Hg]]. apply classify_wf.
  apply filter_In in Hg. rewrite Forall_forall in H. apply H, Hg.
Qed.

Lemma secondary_wf v vs : is_secondary v = true -> Forall id_wf (sv_secondary v vs).
Proof.
  intros Hs. unfold sv_secondary. apply classify_all. destruct v; try discriminate; cbn [var_expanded].
  - (* Epoch *) destruct (var_value Epoch vs semver_str) as [x|] eqn:E; [|constructor].
    cbn. constructor; [apply (key_wf Epoch eq_refl); discriminate|]. constructor; [|constructor]. cbn in E. eapply num_value_wf, E.
  - (* PreRelease *) destruct (v_pre vs) as [p|] eqn:Ep; [|constructor].
    constructor; [apply label_wf|]. destruct (var_value PreRelease vs semver_str) as [x|] eqn:E; [|constructor].
    constructor; [|constructor]. cbn in E. rewrite Ep in E. eapply num_value_wf, E.
  - (* Post *) destruct (var_value Post vs semver_str) as [x|] eqn:E; [|constructor].
    cbn. constructor; [apply (key_wf Post eq_refl); discriminate|]. constructor; [|constructor]. cbn in E. eapply num_value_wf, E.
  - (* Dev *) destruct (var_value Dev vs semver_str) as [x|] eqn:E; [|constructor].
    cbn. constructor; [apply (key_wf Dev eq_refl); discriminate|]. constructor; [|constructor]. cbn in E. eapply num_value_wf, E.
Qed.

Lemma value_ids_wf c vs : Forall id_wf (match comp_value c vs semver_str with Some x => if nonempty x then flatten_ids x else [] | None => [] end).
Proof.
  destruct (comp_value c vs semver_str) as [x|] eqn:E; [|constructor]. destruct (nonempty x); [|constructor].
  destruct (comp_value_sanitized _ _ _ _ E) as [y ->]. apply flatten_ids_wf.
Qed.

Lemma extra_ids_wf c vs : Forall id_wf (sv_extra_ids c vs).
Proof.
  unfold sv_extra_ids. destruct c as [s|n|v]; try apply value_ids_wf.
  destruct (is_secondary v) eqn:S; [apply secondary_wf, S|apply value_ids_wf].
Qed.

Lemma build_ids_wf c vs : Forall id_wf (sv_build_ids c vs).
Proof. apply value_ids_wf. Qed.

Lemma push_ids_wf o l : part_wf o -> Forall id_wf l -> part_wf (push_ids o l).
Proof.
  intros Ho Hl. unfold push_ids. destruct l as [|i l]; [exact Ho|]. destruct o as [x|]; cbn.
  - destruct Ho as [_ Hx]. split; [destruct x; discriminate|apply Forall_app; split; assumption].
  - split; [discriminate|exact Hl].
Qed.

Lemma process_core_wf cs vs : forall n a, part_wf (a_pre a) -> part_wf (a_build a) ->
  part_wf (a_pre (sv_process_core cs vs n a)) /\ part_wf (a_build (sv_process_core cs vs n a)).
Proof.
  induction cs as [|c cs IH]; intros n a Hp Hb; cbn [sv_process_core]; [split; assumption|].
  match goal with |- context [match ?X with Some n0 => _ | None => _ end] => destruct X as [k|] end.
  - apply IH; destruct n as [|[|n]]; cbn; assumption.
  - apply IH.
    + destruct (comp_value c vs semver_str) as [x|] eqn:E; [|exact Hp]. destruct (nonempty x); [|exact Hp]. cbn.
      apply push_ids_wf; [exact Hp|]. destruct (comp_value_sanitized _ _ _ _ E) as [y ->]. apply flatten_ids_wf.
    + destruct (comp_value c vs semver_str) as [x|]; [|exact Hb]. destruct (nonempty x); exact Hb.
Qed.

Lemma fold_push_wf (f : component -> list ident) cs : (forall c, Forall id_wf (f c)) ->
  forall o, part_wf o -> part_wf (fold_left (fun o c => push_ids o (f c)) cs o).
Proof. intros Hf. induction cs as [|c cs IH]; intros o Ho; [exact Ho|]. cbn. apply IH, push_ids_wf; [exact Ho|apply Hf]. Qed.

Theorem semver_of_zerv_wf z : part_wf (sv_pre (semver_of_zerv z)) /\ part_wf (sv_build (semver_of_zerv z)).
Proof.
  unfold semver_of_zerv. cbn [sv_pre sv_build].
  set (a0 := {| a_major := 0; a_minor := 0; a_patch := 0; a_pre := None; a_build := None |}).
  destruct (process_core_wf (s_core (z_schema z)) (z_vars z) O a0 I I) as [H1 H2].
  split.
  - apply (fold_push_wf (fun c => sv_extra_ids c (z_vars z))); [intros c; apply extra_ids_wf|exact H1].
  - apply (fold_push_wf (fun c => sv_build_ids c (z_vars z))); [intros c; apply build_ids_wf|exact H2].
Qed.
