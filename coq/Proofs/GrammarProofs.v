(* C01: for EVERY Zerv object, the string printed for --output-format semver is in the SemVer 2.0.0 BNF language
   (regex.lang semver_spec), hence made only of ASCII characters of that grammar.
   Route: identifiers are well-formed (IdentProofs, from the C16 contract) -> the printed string is in the language sv_out_r of
   printed strings (this file, by structural membership) -> sv_out_r is included in the BNF language (GrammarKa, by ka). *)
From Coq Require Import Lia.
From ZV Require Import Str Dec Sanitize SanitizeSpec StrFacts DecFacts SanitizeProofs Zerv Render SemVer NoPanicProofs IdentProofs Rx RegexSrc RxLang GrammarKa.
From RelationAlgebra Require regex.
Open Scope N_scope.

Notation A := semver_atom_of.
Notation L := regex.lang.

(* ---- single characters: class membership by a sweep over the ASCII range ---- *)
Fixpoint nrange_from (n : nat) (start : N) : list N := match n with O => [] | S k => start :: nrange_from k (start + 1) end.
Lemma in_nrange_from n : forall s k, s <= k < s + N.of_nat n -> In k (nrange_from n s).
Proof.
  induction n as [|n IH]; intros s k H; [lia|]. cbn [nrange_from]. destruct (N.eq_dec k s) as [->|Hne]; [left; reflexivity|].
  right. apply IH. lia.
Qed.

Definition cls_sweep (p : cp -> bool) (e : regex.regex) : bool :=
  forallb (fun c => implb (p c) (rx_accepts e [A c])) (nrange_from 128 0).

Lemma cls_sweep_sound p e : cls_sweep p e = true -> (forall c, p c = true -> c < 128) -> forall c, p c = true -> L e [A c].
Proof.
  intros H B c Hc. unfold cls_sweep in H. rewrite forallb_forall in H.
  specialize (H c (in_nrange_from 128 0 c ltac:(specialize (B c Hc); lia))). rewrite Hc in H. cbn in H. apply rx_accepts_lang, H.
Qed.

Definition is_posdigit (c : cp) : bool := (49 <=? c) && (c <=? 57).

Lemma digit_lt c : is_ascii_digit c = true -> c < 128.
Proof. unfold is_ascii_digit. intros H. apply andb_true_iff in H. destruct H as [_ H]. apply N.leb_le in H. lia. Qed.
Lemma alpha_lt c : is_ascii_alpha c = true -> c < 128.
Proof.
  unfold is_ascii_alpha, is_ascii_upper, is_ascii_lower. intros H. apply orb_true_iff in H.
  destruct H as [H|H]; apply andb_true_iff in H; destruct H as [_ H]; apply N.leb_le in H; lia.
Qed.
Lemma alnum_lt c : is_ascii_alnum c = true -> c < 128.
Proof. unfold is_ascii_alnum. intros H. apply orb_true_iff in H. destruct H; [apply alpha_lt|apply digit_lt]; assumption. Qed.
Lemma posdigit_lt c : is_posdigit c = true -> c < 128.
Proof. unfold is_posdigit. intros H. apply andb_true_iff in H. destruct H as [_ H]. apply N.leb_le in H. lia. Qed.

Lemma digit_in c : is_ascii_digit c = true -> L semver_cls_digit [A c].
Proof. apply cls_sweep_sound; [vm_compute; reflexivity|apply digit_lt]. Qed.
Lemma posdigit_in c : is_posdigit c = true -> L semver_cls_posdigit [A c].
Proof. apply cls_sweep_sound; [vm_compute; reflexivity|apply posdigit_lt]. Qed.
Lemma alpha_in c : is_ascii_alpha c = true -> L semver_cls_alpha [A c].
Proof. apply cls_sweep_sound; [vm_compute; reflexivity|apply alpha_lt]. Qed.
Lemma alnum_in c : is_ascii_alnum c = true -> L semver_cls_alnum [A c].
Proof. apply cls_sweep_sound; [vm_compute; reflexivity|apply alnum_lt]. Qed.
Lemma zero_in : L semver_cls_zero [A c_0].
Proof. apply rx_accepts_lang. vm_compute. reflexivity. Qed.
Lemma dot_in : L semver_cls_dot [A c_dot].
Proof. apply rx_accepts_lang. vm_compute. reflexivity. Qed.
Lemma dash_in : L semver_cls_dash [A c_dash].
Proof. apply rx_accepts_lang. vm_compute. reflexivity. Qed.
Lemma plus_in : L semver_cls_plus [A c_plus].
Proof. apply rx_accepts_lang. vm_compute. reflexivity. Qed.

(* ---- strings of one class ---- *)
Lemma star_of_class (p : cp -> bool) e : (forall c, p c = true -> L e [A c]) ->
  forall s, Forall (fun c => p c = true) s -> L (regex.r_str e) (map A s).
Proof.
  intros H s. induction 1 as [|c s Hc Hs IH]; [apply lang_str_nil|].
  change (map A (c :: s)) with ([A c] ++ map A s). apply lang_str_cons; [apply H, Hc|exact IH].
Qed.

Lemma all_b_Forall p (s : str) : all_b p s = true <-> Forall (fun c => p c = true) s.
Proof. unfold all_b. apply forallb_Forall. Qed.

(* ---- canonical numerals ---- *)
Lemma canonical_in_num s : canonical_dec s = true -> L sv_num_r (map A s).
Proof.
  destruct s as [|c [|d s]]; cbn [canonical_dec]; [discriminate| |].
  - intros H. destruct (N.eq_dec c c_0) as [->|Hne].
    + apply lang_pls_l, zero_in.
    + apply lang_pls_r. change (map A [c]) with ([A c] ++ map A []). apply lang_dot_intro; [|apply lang_str_nil].
      apply posdigit_in. unfold is_ascii_digit in H. unfold is_posdigit. apply andb_true_iff in H. destruct H as [H1 H2].
      apply N.leb_le in H1. apply andb_true_iff. split; [apply N.leb_le; unfold c_0 in Hne; lia|exact H2].
  - intros H. apply andb_true_iff in H. destruct H as [H1 H2]. apply negb_true_iff, N.eqb_neq in H2.
    apply lang_pls_r. change (map A (c :: d :: s)) with ([A c] ++ map A (d :: s)).
    change (all_b is_ascii_digit (c :: d :: s)) with (is_ascii_digit c && all_b is_ascii_digit (d :: s)) in H1.
    apply andb_true_iff in H1. destruct H1 as [Hc Hr]. apply lang_dot_intro.
    + apply posdigit_in. unfold is_ascii_digit in Hc. unfold is_posdigit. apply andb_true_iff in Hc. destruct Hc as [Ha Hb].
      apply N.leb_le in Ha. apply andb_true_iff. split; [apply N.leb_le; lia|exact Hb].
    + apply (star_of_class is_ascii_digit); [apply digit_in|apply all_b_Forall, Hr].
Qed.

Lemma print_dec_in_num n : L sv_num_r (map A (print_dec n)).
Proof. apply canonical_in_num, print_dec_canonical. Qed.

(* ---- well-formed segments are printable identifiers ---- *)
Lemma alnum_not_digit_alpha c : is_ascii_alnum c = true -> is_ascii_digit c = false -> is_ascii_alpha c = true.
Proof. unfold is_ascii_alnum. intros H D. rewrite D, orb_false_r in H. exact H. Qed.

(* split at the first non-digit *)
Lemma digits_prefix s : alnum s -> all_b is_ascii_digit s = false ->
  exists d c r, s = d ++ c :: r /\ Forall (fun x => is_ascii_digit x = true) d /\ is_ascii_alpha c = true /\ alnum r.
Proof.
  induction 1 as [|x s Hx Hs IH]; [discriminate|]. cbn [all_b forallb]. destruct (is_ascii_digit x) eqn:D.
  - cbn. intros H. destruct (IH H) as [d [c [r [E [Hd [Hc Hr]]]]]]. exists (x :: d), c, r. subst s. repeat split; auto.
  - intros _. exists [], x, s. repeat split; [constructor|apply alnum_not_digit_alpha; assumption|exact Hs].
Qed.

Lemma seg_in_id g : seg_wf g -> L sv_id_r (map A g).
Proof.
  intros [Hne [Hal Hz]]. destruct (all_b is_ascii_digit g) eqn:D.
  - apply lang_pls_l, canonical_in_num. destruct g as [|c [|d s]]; [congruence| |].
    + cbn [canonical_dec]. cbn in D. rewrite andb_true_r in D. exact D.
    + cbn [canonical_dec]. rewrite D. cbn. unfold has_leading_zero in Hz. rewrite D in Hz. cbn in Hz. change c_0 with 48 in Hz. rewrite Hz. reflexivity.
  - apply lang_pls_r. destruct (digits_prefix g Hal D) as [d [c [r [-> [Hd [Hc Hr]]]]]].
    rewrite map_app. apply lang_dot_intro; [apply (star_of_class is_ascii_digit); [apply digit_in|exact Hd]|].
    change (map A (c :: r)) with ([A c] ++ map A r). apply lang_dot_intro; [apply alpha_in, Hc|].
    apply (star_of_class is_ascii_alnum); [apply alnum_in|exact Hr].
Qed.

Lemma ident_in_id i : id_wf i -> L sv_id_r (map A (ident_print i)).
Proof. destruct i as [s|n]; cbn [ident_print id_wf]; [intros [H _]; apply seg_in_id, H|intros _; apply lang_pls_l, print_dec_in_num]. Qed.

(* ---- dot-separated identifier lists ---- *)
Lemma tail_in_star l : Forall id_wf l ->
  L (regex.r_str (regex.r_dot semver_cls_dot sv_id_r)) (map A (flat_map (fun i => c_dot :: ident_print i) l)).
Proof.
  induction 1 as [|i l Hi Hl IH]; [apply lang_str_nil|]. cbn [flat_map]. rewrite map_app. apply lang_str_cons; [|exact IH].
  change (map A (c_dot :: ident_print i)) with ([A c_dot] ++ map A (ident_print i)). apply lang_dot_intro; [apply dot_in|apply ident_in_id, Hi].
Qed.

Lemma idents_print_cons i l : idents_print (i :: l) = ident_print i ++ flat_map (fun j => c_dot :: ident_print j) l.
Proof.
  unfold idents_print. revert i. induction l as [|j l IH]; intros i; cbn [map flat_map].
  - cbn. rewrite app_nil_r. reflexivity.
  - change (map ident_print (i :: j :: l)) with (ident_print i :: ident_print j :: map ident_print l).
    rewrite intercalate_cons_cons. specialize (IH j). cbn [map] in IH. rewrite IH. reflexivity.
Qed.

Lemma idents_in l : l <> [] -> Forall id_wf l -> L sv_ids_r (map A (idents_print l)).
Proof.
  destruct l as [|i l]; [congruence|]. intros _ H. inversion H as [|? ? Hi Hl]; subst. rewrite idents_print_cons, map_app.
  apply lang_dot_intro; [apply ident_in_id, Hi|apply tail_in_star, Hl].
Qed.

Lemma opt_part_in sep e o : L e [A sep] -> part_wf o ->
  L (regex.r_pls regex.r_one (regex.r_dot e sv_ids_r)) (map A (opt_part [sep] o)).
Proof.
  intros Hs Ho. destruct o as [[|i l]|]; cbn [opt_part].
  - destruct Ho as [K _]. congruence.
  - destruct Ho as [K W]. apply lang_pls_r. change (map A ([sep] ++ idents_print (i :: l))) with ([A sep] ++ map A (idents_print (i :: l))).
    apply lang_dot_intro; [exact Hs|apply idents_in; assumption].
  - apply lang_pls_l, lang_one_intro.
Qed.

(* ---- the whole string ---- *)
Lemma semver_print_in v : part_wf (sv_pre v) -> part_wf (sv_build v) -> L sv_out_r (map A (semver_print v)).
Proof.
  intros Hp Hb. unfold semver_print, semver_print_sep, release_print, sv_out_r. rewrite !map_app.
  change (map A [c_dot]) with [A c_dot]. rewrite <- !app_assoc.
  do 5 (apply lang_dot_intro; [first [apply print_dec_in_num|apply dot_in]|]).
  apply lang_dot_intro; [apply opt_part_in; [apply dash_in|exact Hp]|apply opt_part_in; [apply plus_in|exact Hb]].
Qed.

Theorem semver_output_in_bnf z : regex.lang semver_spec (map semver_atom_of (semver_print (semver_of_zerv z))).
Proof. destruct (semver_of_zerv_wf z) as [Hp Hb]. apply sv_out_in_bnf, semver_print_in; assumption. Qed.

(* ... hence the matcher the model runs accepts it, and every character is ASCII of the grammar's alphabet *)
Corollary semver_output_accepted z : rx_accepts semver_spec (map semver_atom_of (semver_print (semver_of_zerv z))) = true.
Proof. apply rx_accepts_lang, semver_output_in_bnf. Qed.

(* ======================= PEP 440 ======================= *)
From ZV Require Import Pep440 PepWfProofs.

Notation B := pep440_atom_of.

Definition cls_sweep_p (p : cp -> bool) (e : regex.regex) : bool :=
  forallb (fun c => implb (p c) (rx_accepts e [B c])) (nrange_from 128 0).
Lemma cls_sweep_p_sound p e : cls_sweep_p p e = true -> (forall c, p c = true -> c < 128) -> forall c, p c = true -> L e [B c].
Proof.
  intros H Bd c Hc. unfold cls_sweep_p in H. rewrite forallb_forall in H.
  specialize (H c (in_nrange_from 128 0 c ltac:(specialize (Bd c Hc); lia))). rewrite Hc in H. cbn in H. apply rx_accepts_lang, H.
Qed.

Lemma p_digit_in c : is_ascii_digit c = true -> L pep440_cls_digit [B c].
Proof. apply cls_sweep_p_sound; [vm_compute; reflexivity|apply digit_lt]. Qed.
Lemma p_alnum_in c : is_ascii_alnum c = true -> L pep440_cls_alnum [B c].
Proof. apply cls_sweep_p_sound; [vm_compute; reflexivity|apply alnum_lt]. Qed.
Lemma p_word_in e (w : str) : rx_accepts e (map B w) = true -> L e (map B w).
Proof. apply rx_accepts_lang. Qed.

Lemma p_star_of_class (p : cp -> bool) e : (forall c, p c = true -> L e [B c]) ->
  forall s, Forall (fun c => p c = true) s -> L (regex.r_str e) (map B s).
Proof.
  intros H s. induction 1 as [|c s Hc Hs IH]; [apply lang_str_nil|].
  change (map B (c :: s)) with ([B c] ++ map B s). apply lang_str_cons; [apply H, Hc|exact IH].
Qed.

Lemma p_plus_of_class (p : cp -> bool) e : (forall c, p c = true -> L e [B c]) ->
  forall s, s <> [] -> Forall (fun c => p c = true) s -> L (regex.r_dot e (regex.r_str e)) (map B s).
Proof.
  intros H s Hne Hs. destruct s as [|c s]; [congruence|]. inversion Hs; subst.
  change (map B (c :: s)) with ([B c] ++ map B s). apply lang_dot_intro; [apply H; assumption|apply (p_star_of_class p); assumption].
Qed.

Lemma print_dec_digits n : Forall (fun c => is_ascii_digit c = true) (print_dec n).
Proof. apply all_b_Forall, print_dec_all_digits. Qed.

Lemma p_num_in n : L pp_num_r (map B (print_dec n)).
Proof. apply (p_plus_of_class is_ascii_digit); [apply p_digit_in|apply print_dec_nonnil|apply print_dec_digits]. Qed.

Lemma p_optnum_in o : L pp_optnum_r (map B (num_opt_print o)).
Proof. destruct o as [n|]; cbn [num_opt_print]; [apply lang_pls_r, p_num_in|apply lang_pls_l, lang_one_intro]. Qed.

Lemma p_release_tail l : L (regex.r_str (regex.r_dot pep440_cls_dot pp_num_r)) (map B (flat_map (fun n => c_dot :: print_dec n) l)).
Proof.
  induction l as [|n l IH]; [apply lang_str_nil|]. cbn [flat_map]. rewrite map_app. apply lang_str_cons; [|exact IH].
  change (map B (c_dot :: print_dec n)) with ([B c_dot] ++ map B (print_dec n)). apply lang_dot_intro; [apply rx_accepts_lang; vm_compute; reflexivity|apply p_num_in].
Qed.

Lemma release_nums_cons n l : release_nums_print (n :: l) = print_dec n ++ flat_map (fun m => c_dot :: print_dec m) l.
Proof.
  unfold release_nums_print. revert n. induction l as [|m l IH]; intros n; cbn [map flat_map].
  - cbn. rewrite app_nil_r. reflexivity.
  - change (map print_dec (n :: m :: l)) with (print_dec n :: print_dec m :: map print_dec l).
    rewrite intercalate_cons_cons. specialize (IH m). cbn [map] in IH. rewrite IH. reflexivity.
Qed.

Lemma lseg_in g : lseg_wf g -> L pp_seg_r (map B (lseg_print g)).
Proof.
  destruct g as [s|n]; cbn [lseg_print lseg_wf].
  - intros [Hne Hal]. apply (p_plus_of_class is_ascii_alnum); [apply p_alnum_in|exact Hne|exact Hal].
  - intros _. apply (p_plus_of_class is_ascii_alnum); [apply p_alnum_in|apply print_dec_nonnil|].
    eapply Forall_impl; [|apply print_dec_digits]. intros c. apply digit_alnum.
Qed.

Lemma local_tail l : Forall lseg_wf l -> L (regex.r_str (regex.r_dot pep440_cls_dot pp_seg_r)) (map B (flat_map (fun g => c_dot :: lseg_print g) l)).
Proof.
  induction 1 as [|g l Hg Hl IH]; [apply lang_str_nil|]. cbn [flat_map]. rewrite map_app. apply lang_str_cons; [|exact IH].
  change (map B (c_dot :: lseg_print g)) with ([B c_dot] ++ map B (lseg_print g)). apply lang_dot_intro; [apply rx_accepts_lang; vm_compute; reflexivity|apply lseg_in, Hg].
Qed.

Lemma local_print_cons g l : local_print (g :: l) = lseg_print g ++ flat_map (fun h => c_dot :: lseg_print h) l.
Proof.
  unfold local_print. revert g. induction l as [|h l IH]; intros g; cbn [map flat_map].
  - cbn. rewrite app_nil_r. reflexivity.
  - change (map lseg_print (g :: h :: l)) with (lseg_print g :: lseg_print h :: map lseg_print l).
    rewrite intercalate_cons_cons. specialize (IH h). cbn [map] in IH. rewrite IH. reflexivity.
Qed.

Theorem pep_print_in p : pep_wf p -> L pp_out_r (map B (pep_print p)).
Proof.
  intros [Wr Wpre Wpost Wdev Wloc]. unfold pep_print, epoch_release_print, pre_section_print, pp_out_r. rewrite !map_app, <- !app_assoc.
  apply lang_dot_intro.
  { destruct (0 <? p_epoch p).
    - apply lang_pls_r. rewrite map_app. apply lang_dot_intro; [apply p_num_in|apply rx_accepts_lang; vm_compute; reflexivity].
    - apply lang_pls_l, lang_one_intro. }
  destruct (p_release p) as [|n l] eqn:Er; [congruence|]. rewrite release_nums_cons, map_app, <- app_assoc.
  apply lang_dot_intro; [apply p_num_in|]. apply lang_dot_intro; [apply p_release_tail|].
  apply lang_dot_intro.
  { destruct (p_pre_label p) as [lab|]; [|apply lang_pls_l, lang_one_intro]. apply lang_pls_r. rewrite map_app. apply lang_dot_intro; [|apply p_optnum_in].
    destruct lab; [apply lang_pls_l|apply lang_pls_r, lang_pls_l|apply lang_pls_r, lang_pls_r]; apply rx_accepts_lang; vm_compute; reflexivity. }
  apply lang_dot_intro.
  { destruct (p_post_label p); [|apply lang_pls_l, lang_one_intro]. apply lang_pls_r.
    change (map B ([c_dot; 112; 111; 115; 116] ++ num_opt_print (p_post_num p))) with ([B c_dot] ++ map B [112; 111; 115; 116] ++ map B (num_opt_print (p_post_num p))).
    apply lang_dot_intro; [apply rx_accepts_lang; vm_compute; reflexivity|]. apply lang_dot_intro; [apply rx_accepts_lang; vm_compute; reflexivity|apply p_optnum_in]. }
  apply lang_dot_intro.
  { destruct (p_dev_label p); [|apply lang_pls_l, lang_one_intro]. apply lang_pls_r.
    change (map B ([c_dot; 100; 101; 118] ++ num_opt_print (p_dev_num p))) with ([B c_dot] ++ map B [100; 101; 118] ++ map B (num_opt_print (p_dev_num p))).
    apply lang_dot_intro; [apply rx_accepts_lang; vm_compute; reflexivity|]. apply lang_dot_intro; [apply rx_accepts_lang; vm_compute; reflexivity|apply p_optnum_in]. }
  destruct (p_local p) as [[|g gl]|]; [destruct Wloc; congruence| |apply lang_pls_l, lang_one_intro].
  destruct Wloc as [_ Wl]. inversion Wl; subst. apply lang_pls_r.
  change (map B ([c_plus] ++ local_print (g :: gl))) with ([B c_plus] ++ map B (local_print (g :: gl))).
  apply lang_dot_intro; [apply rx_accepts_lang; vm_compute; reflexivity|]. rewrite local_print_cons, map_app.
  apply lang_dot_intro; [apply lseg_in; assumption|apply local_tail; assumption].
Qed.

Theorem pep440_output_in_appendix_b z p : pep_of_zerv z = Some p -> regex.lang pep440_spec (map pep440_atom_of (pep_print p)).
Proof. intros H. apply pp_out_in_appendix_b, pep_print_in, (pep_of_zerv_wf z p H). Qed.
