(* C15: the template context is coherent with the rendered versions, and the custom functions keep their contracts. *)
From Coq Require Import Lia.
From ZV Require Import Str Dec Sanitize SanitizeSpec StrFacts DecFacts SanitizeProofs Zerv Render SemVer Pep440 Convert Hash Template
                       NoPanicProofs IdentProofs.
Open Scope N_scope.

Definition opt_with (sep : cp) (o : option str) : str := match o with Some p => sep :: p | None => [] end.
Definition opt_plain (o : option str) : str := match o with Some p => p | None => [] end.

(* ---- recomposition ---- *)
Lemma opt_part_wf sep o : part_wf o -> opt_part [sep] o = opt_with sep (omap idents_print o).
Proof. destruct o as [[|i l]|]; cbn; [intros [H _]; congruence|reflexivity|reflexivity]. Qed.

Theorem semver_recompose z :
  let v := semver_of_zerv z in
  semver_print v = sv_base_part v ++ opt_with c_dash (sv_pre_part v) ++ opt_with c_plus (sv_build_part v).
Proof.
  intros v. subst v. destruct (semver_of_zerv_wf z) as [Hp Hb]. unfold semver_print, semver_print_sep, sv_base_part, sv_pre_part, sv_build_part.
  rewrite (opt_part_wf c_dash _ Hp), (opt_part_wf c_plus _ Hb). reflexivity.
Qed.

Theorem semver_docker_recompose z :
  let v := semver_of_zerv z in
  semver_docker v = sv_base_part v ++ opt_with c_dash (sv_pre_part v) ++ opt_with c_dash (sv_build_part v).
Proof.
  intros v. subst v. destruct (semver_of_zerv_wf z) as [Hp Hb]. unfold semver_docker, semver_print_sep, sv_base_part, sv_pre_part, sv_build_part.
  rewrite (opt_part_wf c_dash _ Hp), (opt_part_wf c_dash _ Hb). reflexivity.
Qed.

Theorem pep_recompose p :
  pep_print p = pep_base_part p ++ opt_plain (pep_pre_part p) ++ opt_with c_plus (pep_build_part p).
Proof.
  unfold pep_print, pep_base_part, pep_pre_part, pep_build_part. f_equal. f_equal.
  - destruct (pre_section_print p); reflexivity.
  - destruct (p_local p); reflexivity.
Qed.

(* ---- docker = the SemVer string with '+' replaced by '-' ---- *)
Definition plus_to_dash (s : str) : str := map (fun x => if x =? c_plus then c_dash else x) s.
Definition plus_free (s : str) : Prop := Forall (fun x => (x =? c_plus) = false) s.

Lemma plus_to_dash_free s : plus_free s -> plus_to_dash s = s.
Proof. induction 1 as [|x s Hx Hs IH]; [reflexivity|]. cbn. rewrite Hx. f_equal. exact IH. Qed.

Lemma plus_to_dash_app a b : plus_to_dash (a ++ b) = plus_to_dash a ++ plus_to_dash b.
Proof. apply map_app. Qed.

Lemma alnum_plus_free g : alnum g -> plus_free g.
Proof. apply Forall_impl. intros x Hx. apply N.eqb_neq. intros ->. discriminate. Qed.

Lemma print_dec_plus_free n : plus_free (print_dec n).
Proof. apply alnum_plus_free, print_dec_good. Qed.

Lemma app_plus_free a b : plus_free a -> plus_free b -> plus_free (a ++ b).
Proof. intros. apply Forall_app. split; assumption. Qed.

Lemma ident_plus_free i : id_wf i -> plus_free (ident_print i).
Proof. destruct i as [s|n]; cbn [ident_print id_wf]; [intros [[_ [H _]] _]; apply alnum_plus_free, H|intros _; apply print_dec_plus_free]. Qed.

Lemma idents_plus_free l : Forall id_wf l -> plus_free (idents_print l).
Proof.
  unfold idents_print. induction 1 as [|i l Hi Hl IH]; [constructor|].
  destruct l as [|j l']; [cbn; apply ident_plus_free, Hi|].
  change (map ident_print (i :: j :: l')) with (ident_print i :: ident_print j :: map ident_print l').
  rewrite intercalate_cons_cons. change (ident_print j :: map ident_print l') with (map ident_print (j :: l')). apply app_plus_free; [apply ident_plus_free, Hi|].
  apply app_plus_free; [repeat constructor|exact IH].
Qed.

Lemma opt_with_plus_free sep o : (sep =? c_plus) = false -> part_wf o -> plus_free (opt_with sep (omap idents_print o)).
Proof.
  intros Hs. destruct o as [l|]; cbn; [|constructor]. intros [_ H]. constructor; [exact Hs|apply idents_plus_free, H].
Qed.

Theorem docker_is_semver_with_dash z :
  semver_docker (semver_of_zerv z) = plus_to_dash (semver_print (semver_of_zerv z)).
Proof.
  rewrite semver_docker_recompose, semver_recompose. destruct (semver_of_zerv_wf z) as [Hp Hb].
  rewrite !plus_to_dash_app. unfold sv_base_part, release_print, sv_pre_part, sv_build_part.
  rewrite (plus_to_dash_free (_ ++ _ ++ _ ++ _ ++ _)).
  2:{ repeat apply app_plus_free; try apply print_dec_plus_free; repeat constructor. }
  rewrite (plus_to_dash_free (opt_with c_dash _)); [|apply opt_with_plus_free; [reflexivity|exact Hp]].
  f_equal. f_equal. destruct (sv_build (semver_of_zerv z)) as [l|]; cbn; [|reflexivity].
  f_equal. symmetry. apply plus_to_dash_free, idents_plus_free. destruct Hb as [_ H]. exact H.
Qed.

(* the context built from an object carries exactly these strings *)
Theorem ctx_coherent z c : ctx_of_zerv z = Some c ->
  t_semver c = semver_print (semver_of_zerv z) /\
  (exists p, pep_of_zerv z = Some p /\ t_pep440 c = pep_print p) /\
  t_semver c = t_sv_base c ++ opt_with c_dash (t_sv_pre c) ++ opt_with c_plus (t_sv_build c) /\
  t_pep440 c = t_pep_base c ++ opt_plain (t_pep_pre c) ++ opt_with c_plus (t_pep_build c) /\
  t_sv_docker c = plus_to_dash (t_semver c).
Proof.
  unfold ctx_of_zerv. destruct (pep_of_zerv z) as [p|] eqn:E; [|discriminate]. intros H. inversion H; subst; cbn.
  split; [reflexivity|]. split; [exists p; split; reflexivity|]. split; [apply semver_recompose|]. split; [apply pep_recompose|].
  apply docker_is_semver_with_dash.
Qed.

Theorem ctx_total z : ctx_of_zerv z <> None.
Proof. unfold ctx_of_zerv. destruct (pep_of_zerv z) eqn:E; [discriminate|]. exfalso. exact (pep_of_zerv_total z E). Qed.

(* ---- function contracts ---- *)
Theorem fn_hash_length v n : (length (fn_hash v n) <= n)%nat.
Proof. apply take_n_length. Qed.

Theorem fn_hash_int_length v n a : (length (fn_hash_int v n a) <= n)%nat.
Proof. apply take_n_length. Qed.

Theorem fn_prefix_length v n : (length (fn_prefix v n) <= n)%nat.
Proof. apply take_n_length. Qed.

Theorem fn_prefix_is_prefix v n : exists t, v = fn_prefix v n ++ t.
Proof. apply take_n_prefix. Qed.

Theorem fn_prefix_if_spec v p : fn_prefix_if v p = match v with [] => [] | _ => p ++ v end.
Proof. reflexivity. Qed.

(* hash_int without leading zeros allowed: a prefix of the canonical decimal of the hash, so all digits and no leading zero *)
Lemma take_n_digits n s : all_b is_ascii_digit s = true -> all_b is_ascii_digit (take_n n s) = true.
Proof.
  revert s. induction n as [|n IH]; intros [|x s]; cbn; try reflexivity. intros H. apply andb_true_iff in H. destruct H as [H1 H2].
  rewrite H1. apply IH, H2.
Qed.



Theorem fn_hash_int_digits v n : all_b is_ascii_digit (fn_hash_int v n false) = true.
Proof. unfold fn_hash_int, hash_int. apply take_n_digits, canonical_digits, print_dec_canonical. Qed.

Theorem fn_hash_int_no_leading_zero v n : has_leading_zero (fn_hash_int v n false) = false.
Proof.
  unfold fn_hash_int, hash_int. pose proof (print_dec_canonical (hash_str v)) as C.
  destruct (print_dec (hash_str v)) as [|c [|d s]] eqn:E; [discriminate| |].
  - unfold has_leading_zero. destruct n as [|[|n]]; cbn [take_n]; apply andb_false_r.
  - cbn [canonical_dec] in C. apply andb_true_iff in C. destruct C as [_ C]. apply negb_true_iff in C.
    destruct n as [|[|n]]; [unfold has_leading_zero; cbn [take_n]; apply andb_false_r|unfold has_leading_zero; cbn [take_n]; apply andb_false_r|].
    unfold has_leading_zero. cbn [take_n]. change c_0 with 48. rewrite C. apply andb_false_r.
Qed.

(* sanitize presets are the sanitisers of C16 *)
Theorem fn_sanitize_default v : fn_sanitize_custom v None None None None = sanitize semver_str v.
Proof. reflexivity. Qed.

Theorem fn_sanitize_custom_contract c lower keep mx v : is_ascii_alnum c = false ->
  contract c lower keep mx (fn_sanitize_custom v (Some [c]) (Some lower) (Some keep) mx).
Proof. intros Hc. unfold fn_sanitize_custom. exact (contract_holds c Hc lower keep mx v). Qed.
