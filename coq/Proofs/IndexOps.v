(* C05: an index-addressed operation on a position holding a version variable performs exactly the by-name override / bump of that
   variable (at the section's level): `--core i=V` / `--bump-core i=V` on var(Major) is `--major V` / `--bump-major V`, etc. *)
From Coq Require Import Lia.
From ZV Require Import Str Dec DecFacts Zerv Bump PepRoundTrip.
Open Scope N_scope.

Definition by_name (order : list prec) (v : var) (o b : option N) (vs : vars) : option vars :=
  match v with
  | Major => process_major order o b vs | Minor => process_minor order o b vs | Patch => process_patch order o b vs
  | Epoch => process_epoch order o b vs | Post => process_post order o b vs | Dev => process_dev order o b vs
  | PreRelease => process_pre_num order o b vs
  | _ => None
  end.

Definition num_text (o : option N) : option str := match o with Some n => Some (print_dec n) | None => None end.

Lemma opt_u32_text o : (match o with Some n => u32 n | None => True end) -> opt_u32 (num_text o) = Some o.
Proof. destruct o as [n|]; cbn; [|reflexivity]. intros H. rewrite (parse_u32_print n H). reflexivity. Qed.

Theorem index_op_is_by_name sec ix v o b z :
  nth_error (get_part (z_schema z) sec) ix = Some (CVar v) -> (forall p, v <> Ts p) ->
  (match o with Some n => u32 n | None => True end) -> (match b with Some n => u32 n | None => True end) ->
  process_component sec ix (num_text o) (num_text b) z
  = match by_name (prec_order (z_schema z)) v o b (z_vars z) with Some vs => Some {| z_schema := z_schema z; z_vars := vs |} | None => None end.
Proof.
  intros Hn Hts Ho Hb. unfold process_component. rewrite Hn.
  destruct v; try (exfalso; eapply Hts; reflexivity); unfold process_var_field; rewrite (opt_u32_text o Ho), (opt_u32_text b Hb); reflexivity.
Qed.

(* context (VCS-derived) variables and timestamps cannot be targeted *)
Theorem index_op_rejects_context sec ix v ov bv z :
  nth_error (get_part (z_schema z) sec) ix = Some (CVar v) -> is_primary v = false -> is_secondary v = false ->
  process_component sec ix ov bv z = None.
Proof.
  intros Hn Hp Hs. unfold process_component. rewrite Hn. destruct v; try discriminate; try reflexivity;
  unfold process_var_field; destruct (opt_u32 ov); try reflexivity; destruct (opt_u32 bv); reflexivity.
Qed.

(* an index outside the section is rejected *)
Theorem index_op_out_of_range sec ix ov bv z : nth_error (get_part (z_schema z) sec) ix = None -> process_component sec ix ov bv z = None.
Proof. intros Hn. unfold process_component. rewrite Hn. reflexivity. Qed.
